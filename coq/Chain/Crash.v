(* C13 — crash model of block commit / removal.
   Durable state of the engine database = key -> value map; an operation = list of actions; the only action with a durable
   effect on the engine database is [AWrite batch] (db.Write = pebble Apply(batch, Sync)), ASSUMED atomic and durable.
   add / delete build exactly the batches of processValidated+Chain.AddBlock and deleteBlock+Chain.RemoveBlock. Definitions only. *)
From Coq Require Import List NArith Bool.
Import ListNotations.
Local Open Scope N_scope.

Inductive key :=
| KHeader (id : N)        (* dbPrefixBlockIDToBlockHeader; the value is modelled by the header's height *)
| KIdx (h : N)            (* dbPrefixBlockHeightToBlockID *)
| KBody (id : N)          (* transactions / assets of the block *)
| KEvents (h : N)
| KTemp (h : N)
| KFin                    (* dbPrefixFinalizedHeight *)
| KTipMark                (* consensus store: height of the newest block recorded in the BFT votes *)
| KState (k : N)          (* every other key of the consensus store *)
| KDiff (h : N).          (* DBPrefixStateDiff *)

Definition key_eq_dec : forall a b : key, {a = b} + {a <> b}.
Proof. decide equality; apply N.eq_dec. Defined.
(* structural boolean equality (fast under vm_compute; equivalent to key_eq_dec, see CrashProofs.key_eqb_true) *)
Definition key_eqb (a b : key) : bool :=
  match a, b with
  | KHeader x, KHeader y | KIdx x, KIdx y | KBody x, KBody y | KEvents x, KEvents y | KTemp x, KTemp y
  | KState x, KState y | KDiff x, KDiff y => x =? y
  | KFin, KFin | KTipMark, KTipMark => true
  | _, _ => false
  end.

Definition db := key -> option N.
Definition upd (d : db) (k : key) (v : option N) : db := fun k' => if key_eqb k' k then v else d k'.

Inductive bop := BSet (k : key) (v : N) | BDel (k : key).
Definition bop_key (o : bop) : key := match o with BSet k _ => k | BDel k => k end.
Definition bop_val (o : bop) : option N := match o with BSet _ v => Some v | BDel _ => None end.
Definition apply_bop (d : db) (o : bop) : db := upd d (bop_key o) (bop_val o).
Definition apply_batch (d : db) (b : list bop) : db := fold_left apply_bop b d.

Inductive action :=
| AWrite (b : list bop)     (* engine DB: one atomic synced batch *)
| AAbiCommit | AAbiRevert   (* application database (its own atomicity is C16's) *)
| ACache                    (* volatile block cache push / pop *)
| APublish (e : N).         (* event emitter *)

Definition apply_action (d : db) (a : action) : db := match a with AWrite b => apply_batch d b | _ => d end.
Definition durable_after (d : db) (l : list action) : db := fold_left apply_action l d.
Definition writes (l : list action) : list (list bop) :=
  flat_map (fun a => match a with AWrite b => [b] | _ => [] end) l.

Definition cs_op (kv : N * option N) : bop :=
  match snd kv with Some v => BSet (KState (fst kv)) v | None => BDel (KState (fst kv)) end.

(* ---- processValidated + Chain.AddBlock ---- *)
Record add_in := mkAdd {
  a_ok : bool;                      (* verdict of verifyBlock + execution (C03) *)
  a_id : N; a_h : N;
  a_cs : list (N * option N);       (* consensusStore.Commit: writes of the staged store (other than the tip mark) *)
  a_diff : N;                       (* encoded revert diff *)
  a_prune : list N;                 (* heights of the diffs deleted because finality advanced *)
  a_body : bool; a_events : option N; a_fin : N;
  a_evprune : list N;               (* heights of event lists deleted (keepEventsForHeights) *)
  a_rm_temp : bool }.

Definition add_batch (i : add_in) : list bop :=
  map cs_op (a_cs i) ++ [BSet KTipMark (a_h i)]
  ++ [BSet (KDiff (a_h i)) (a_diff i)]
  ++ map (fun h => BDel (KDiff h)) (a_prune i)
  ++ [BSet (KHeader (a_id i)) (a_h i); BSet (KIdx (a_h i)) (a_id i)]
  ++ (if a_body i then [BSet (KBody (a_id i)) 1] else [])
  ++ (match a_events i with Some e => [BSet (KEvents (a_h i)) e] | None => [] end)
  ++ [BSet KFin (a_fin i)]
  ++ map (fun h => BDel (KEvents h)) (a_evprune i)
  ++ (if a_rm_temp i then [BDel (KTemp (a_h i))] else []).

Definition add_actions (i : add_in) : list action :=
  if a_ok i then [AAbiCommit; AWrite (add_batch i); ACache; APublish 1] else [].

(* ---- deleteBlock + Chain.RemoveBlock ---- *)
Record del_in := mkDel {
  d_ok : bool;                      (* guard (height > finalized), lookups, ABI revert *)
  d_id : N; d_h : N;
  d_revert : list (N * option N);   (* diffStore.RevertDiff: restores the consensus-store keys (other than the tip mark) *)
  d_body : bool; d_save_temp : option N }.

Definition del_batch (i : del_in) : list bop :=
  map cs_op (d_revert i) ++ [BSet KTipMark (d_h i - 1)]
  ++ [BDel (KDiff (d_h i))]
  ++ [BDel (KHeader (d_id i)); BDel (KIdx (d_h i))]
  ++ (if d_body i then [BDel (KBody (d_id i))] else [])
  ++ [BDel (KEvents (d_h i))]
  ++ (match d_save_temp i with Some e => [BSet (KTemp (d_h i)) e] | None => [] end).

Definition del_actions (i : del_in) : list action :=
  if d_ok i then [AAbiRevert; AWrite (del_batch i); ACache; APublish 3] else [].

Inductive cop := CAdd (i : add_in) | CDel (i : del_in) | CClearTemp (hs : list N).
Definition actions_of (o : cop) : list action :=
  match o with
  | CAdd i => add_actions i
  | CDel i => del_actions i
  | CClearTemp hs => match hs with [] => [] | _ => [AWrite (map (fun h => BDel (KTemp h)) hs)] end
  end.

(* ---- what a restarted node needs ---- *)
Definition present (d : db) (k : key) : Prop := d k <> None.
Record Consistent (d : db) : Prop := mkCons {
  c_index_data : forall h id, d (KIdx h) = Some id -> d (KHeader id) = Some h;          (* height index <-> data *)
  c_contiguous : forall h, present d (KIdx (h + 1)) -> present d (KIdx h);
  c_tip_mark : exists t, d KTipMark = Some t /\ present d (KIdx t) /\ d (KIdx (t + 1)) = None;   (* BFT store height = tip *)
  c_diff_block : forall h, present d (KDiff h) -> present d (KIdx h) }.                 (* no diff without its block *)

(* while blocks are being restored from the temp table (processValidated with removeTemp, after deleteBlock with saveTemp):
   the block of height h is in the chain or still in the temp table, never in neither *)
Definition RestoreSafe (d : db) (h id : N) : Prop := d (KIdx h) = Some id \/ present d (KTemp h).

(* side conditions under which the code issues the operation *)
Definition add_pre (d : db) (i : add_in) : Prop :=
  a_ok i = true -> (exists t, d KTipMark = Some t /\ a_h i = t + 1) /\ d (KHeader (a_id i)) = None.
Definition del_pre (d : db) (i : del_in) : Prop :=
  d_ok i = true -> d KTipMark = Some (d_h i) /\ d (KIdx (d_h i)) = Some (d_id i) /\ 0 < d_h i.
Definition cop_pre (d : db) (o : cop) : Prop :=
  match o with CAdd i => add_pre d i | CDel i => del_pre d i | CClearTemp _ => True end.

(* ---- the stronger consistency a restarted node relies on (round 6): besides [Consistent],
   the finalized height is stored and not above the tip, every height in (finalized, tip] still has its revert diff (those
   blocks can be deleted), and every indexed block that has a payload has its payload stored.  [hb id] = "block id has
   transactions or assets" (a function of the block, i.e. of its ID). *)
Record Consistent2 (hb : N -> bool) (d : db) : Prop := mkCons2 {
  c2_base : Consistent d;
  c2_fin : exists f t, d KFin = Some f /\ d KTipMark = Some t /\ f <= t;
  c2_diffs : forall f t h, d KFin = Some f -> d KTipMark = Some t -> f < h -> h <= t -> present d (KDiff h);
  c2_body : forall h id, d (KIdx h) = Some id -> hb id = true -> present d (KBody id) }.

Definition add_pre2 (hb : N -> bool) (d : db) (i : add_in) : Prop :=
  add_pre d i /\
  (a_ok i = true ->
   a_body i = hb (a_id i) /\ a_fin i <= a_h i /\ (forall f, d KFin = Some f -> f <= a_fin i) /\
   Forall (fun p => p < a_fin i) (a_prune i)).           (* diffs are pruned strictly below the new finalized height *)
Definition del_pre2 (d : db) (i : del_in) : Prop :=
  del_pre d i /\ (d_ok i = true -> forall f, d KFin = Some f -> f < d_h i).   (* deleteBlock's guard *)
Definition cop_pre2 (hb : N -> bool) (d : db) (o : cop) : Prop :=
  match o with CAdd i => add_pre2 hb d i | CDel i => del_pre2 d i | CClearTemp _ => True end.
Fixpoint history_ok2 (hb : N -> bool) (d : db) (ops : list cop) : Prop :=
  match ops with
  | [] => True
  | o :: rest => cop_pre2 hb d o /\ history_ok2 hb (durable_after d (actions_of o)) rest
  end.

(* a history: every operation is issued in a state satisfying its side condition *)
Fixpoint history_ok (d : db) (ops : list cop) : Prop :=
  match ops with
  | [] => True
  | o :: rest => cop_pre d o /\ history_ok (durable_after d (actions_of o)) rest
  end.

Definition run_ops (d : db) (ops : list cop) : db := fold_left (fun d o => durable_after d (actions_of o)) ops d.
