(* C04 / C13 — the expected mutator closure at the SEMANTIC level (hand-written; compared with coq/Gen/Mutators.v, which
   translate/mutators regenerates from the source by abstract interpretation with helper functions inlined).
   Per exported step: the batches created, the objects staged into, the durable commits and the direct database writes —
   unchanged by extracting / inlining helpers, renaming, or passing the same batch on as a parameter; changed by a write through
   c.database / d.database (directly or through a parameter bound to it), a second batch, or a second commit.
   Under this closure every sync / fork choice / restart behaviour is a sequence of the operations of Chain/Finality.v and every
   step is one atomic batch (Chain/Crash.v). *)
From Coq Require Import List String NArith Bool.
Import ListNotations.
Local Open Scope string_scope.

Definition expected_steps : list (string * string) := [
  ("Executer.processValidated", "batches created [B1]; staged into {B1}; durable commits [B1]; direct database writes []");
  ("Executer.processGenesisBlock", "batches created [B1]; staged into {B1}; durable commits [B1]; direct database writes []");
  ("Executer.deleteBlock", "batches created [B1]; staged into {B1}; durable commits [B1]; direct database writes []");
  ("Chain.AddBlock", "batches created []; staged into {P0}; durable commits [P0]; direct database writes []");
  ("Chain.RemoveBlock", "batches created []; staged into {P0}; durable commits [P0]; direct database writes []");
  ("DataAccess.ClearTempBlocks", "batches created [B1]; staged into {B1}; durable commits [B1]; direct database writes []")
].

Definition expected_global : list string := [
  "database.Write call sites: 3";
  "direct database writes: []";
  "batches / commits / writes on the engine database from pkg/engine or pkg/generator: []"
].

Definition expected_delete_origin : list string := [
  "block arguments not originating from LastBlock(): []"
].
