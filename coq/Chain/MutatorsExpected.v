(* C04 — the expected mutator closure (hand-written; compared with the list regenerated from the source, Gen/Mutators.v).
   Under this closure the only code that changes the engine database below the chain prefixes is Chain.AddBlock,
   Chain.RemoveBlock (each: one batch, one Write) and DataAccess.ClearTempBlocks (temp table only), i.e. every sync / fork
   choice / restart behaviour is a sequence of the operations of Chain/Finality.v.  Definitions only. *)
From Coq Require Import List String NArith Bool.
Import ListNotations.
Local Open Scope string_scope.

Definition expected_sites : list (string * string * string * string * N) := [
  ("blockchain", "Chain.AddBlock", "c.database", "Write", 1%N);
  ("blockchain", "Chain.RemoveBlock", "c.database", "Write", 1%N);
  ("blockchain", "DataAccess.ClearTempBlocks", "batch", "Del", 1%N);
  ("blockchain", "DataAccess.ClearTempBlocks", "d.database", "NewBatch", 1%N);
  ("blockchain", "DataAccess.ClearTempBlocks", "d.database", "Write", 1%N);
  ("blockchain", "DataAccess.removeBlock", "batch", "Del", 6%N);
  ("blockchain", "DataAccess.removeBlock", "batch", "Set", 1%N);
  ("blockchain", "DataAccess.saveBlock", "batch", "Del", 2%N);
  ("blockchain", "DataAccess.saveBlock", "batch", "Set", 7%N);
  ("consensus/liskbft", "deleteBFTParams", "paramsStore", "Del", 1%N);
  ("consensus/liskbft", "deleteGeneratorKeys", "keysStore", "Del", 1%N);
  ("consensus/sync", "Syncer.HandleRPCEndpointGetBlocksFromID", "w", "Write", 1%N);
  ("consensus/sync", "Syncer.HandleRPCEndpointGetHighestCommonBlock", "w", "Write", 2%N);
  ("consensus/sync", "Syncer.HandleRPCEndpointGetLastBlock", "w", "Write", 1%N);
  ("consensus", "Executer.deleteBlock", "batch", "Del", 1%N);
  ("consensus", "Executer.deleteBlock", "c.database", "NewBatch", 1%N);
  ("consensus", "Executer.deleteBlock", "diffStore", "RevertDiff", 1%N);
  ("consensus", "Executer.processGenesisBlock", "abi", "Commit", 1%N);
  ("consensus", "Executer.processGenesisBlock", "batch", "Set", 1%N);
  ("consensus", "Executer.processGenesisBlock", "c.database", "NewBatch", 1%N);
  ("consensus", "Executer.processGenesisBlock", "consensusStore", "Commit", 1%N);
  ("consensus", "Executer.processValidated", "abi", "Commit", 1%N);
  ("consensus", "Executer.processValidated", "batch", "Del", 1%N);
  ("consensus", "Executer.processValidated", "batch", "Set", 1%N);
  ("consensus", "Executer.processValidated", "c.database", "NewBatch", 1%N);
  ("consensus", "Executer.processValidated", "consensusStore", "Commit", 1%N);
  ("consensus", "genesisStateExecuter.Commit", "c.client", "Commit", 1%N);
  ("consensus", "stateExecuter.Commit", "c.client", "Commit", 1%N)
].

Definition expected_delete_calls : list (string * string * string) := [
  ("consensus/sync:blockSyncer.deleteTillCommonBlock", "lastBlock", "s.chain.LastBlock()");
  ("consensus/sync:fastSyncer.deleteTillCommonBlock", "lastBlock", "s.chain.LastBlock()");
  ("consensus:Executer.process", "lastBlock", "c.chain.LastBlock()")
].

(* a site writes the database directly when its receiver is the database handle and the method is a durable one *)
Definition ends_with_database (recv : string) : bool :=
  let n := String.length recv in
  (String.eqb (substring (n - 8) 8 recv) "database").
Definition is_durable (s : string * string * string * string * N) : bool :=
  let '(_, _, recv, m, _) := s in
  ends_with_database recv && (String.eqb m "Write" || String.eqb m "Set" || String.eqb m "Del" || String.eqb m "DropAll").
Definition durable_writers (l : list (string * string * string * string * N)) : list (string * string * N) :=
  map (fun s => let '(p, f, _, _, n) := s in (p, f, n)) (filter is_durable l).

Definition expected_durable : list (string * string * N) :=
  [("blockchain", "Chain.AddBlock", 1%N); ("blockchain", "Chain.RemoveBlock", 1%N); ("blockchain", "DataAccess.ClearTempBlocks", 1%N)].

(* every caller of deleteBlock passes the block it has just read with LastBlock() *)
Definition delete_arg_is_tip (d : string * string * string) : bool :=
  let '(_, _, how) := d in
  let n := String.length how in String.eqb (substring (n - 11) 11 how) "LastBlock()".

(* arguments bound to writer parameters, one level of indirection (a function that receives something it calls Set/Del/Write on,
   or hands to Commit/RevertDiff): a batch is fine, the database handle there would be a direct durable write that no
   `x.database.Set(` pattern shows *)
Definition expected_writer_args : list (string * string * string) := [
  ("blockchain:Chain.AddBlock", "saveBlock", "batch");
  ("blockchain:Chain.RemoveBlock", "removeBlock", "batch");
  ("consensus/liskbft:Module.BeforeTransactionsExecute", "deleteBFTParams", "paramsStore");
  ("consensus/liskbft:Module.BeforeTransactionsExecute", "deleteGeneratorKeys", "keysStore");
  ("consensus:Executer.deleteBlock", "RemoveBlock", "batch");
  ("consensus:Executer.deleteBlock", "RevertDiff", "batch");
  ("consensus:Executer.processGenesisBlock", "AddBlock", "batch");
  ("consensus:Executer.processGenesisBlock", "Commit", "batch");
  ("consensus:Executer.processGenesisBlock", "Commit", "ctx.block.Header.StateRoot");
  ("consensus:Executer.processValidated", "AddBlock", "batch");
  ("consensus:Executer.processValidated", "Commit", "batch");
  ("consensus:Executer.processValidated", "Commit", "c.chain.LastBlock().Header.StateRoot");
  ("consensus:genesisStateExecuter.Commit", "Commit", "&labi.CommitRequest{ ContextID: c.contextID, StateRoot: []byte{}, ExpectedStateRoot: expectedStateRoot, DryRun: false, }");
  ("consensus:stateExecuter.Commit", "Commit", "&labi.CommitRequest{ ContextID: c.contextID, StateRoot: currentStateRoot, ExpectedStateRoot: expectedStateRoot, DryRun: false, }")
].

Definition writer_arg_is_database (d : string * string * string) : bool :=
  let '(_, _, arg) := d in ends_with_database arg.
