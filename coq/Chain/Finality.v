(* C04 — node state machine for finality: the chain as served per height, the stored finalized height, the temp-block
   table, the volatile tip cache, and the published finalize/new/delete events.
   Operations = the only mutators of the chain prefixes (Gen/Mutators.v checks that set against the source):
     Apply     : processValidated  (Chain.AddBlock)       — verdict [ok] (C03) and post-state maxHeightPrecommited [p] (C02) are inputs
     Delete    : deleteBlock       (Chain.RemoveBlock)
     Restart   : process restart   (volatile state rebuilt by Chain.PrepareCache from the height index)
     ClearTemp : DataAccess.ClearTempBlocks
   Fast sync, block sync, a failed sync with restore, and the tie-break branch are sequences of these. Definitions only. *)
From Coq Require Import List NArith Bool.
Import ListNotations.
Local Open Scope N_scope.

Inductive fev := FNew (id : N) | FDelete (id : N) | FFinalize (orig next : N) (trigger : N).

Record st := mkSt {
  chain : list N;            (* block IDs by height: element h is the block served at height h (genesis = 0) *)
  fin : N;                   (* stored finalized height (dbPrefixFinalizedHeight) *)
  temp : list (N * N);       (* temp table: (height, id) *)
  cache_len : nat;           (* volatile: number of blocks the tip cache believes the chain has (tip height + 1) *)
  emitted : list fev }.

Inductive op :=
| Apply (id : N) (ok : bool) (p : N) (remove_temp : bool)
| Delete (h : N) (save_temp : bool) (env_ok : bool)
| Restart
| ClearTemp.

Definition height_of_tip (s : st) : N := N.of_nat (cache_len s) - 1.

Definition remove_temp_at (h : N) (t : list (N * N)) : list (N * N) := filter (fun e => negb (fst e =? h)) t.

Definition step (s : st) (o : op) : st :=
  match o with
  | Apply id ok p rt =>
    if negb ok then s
    else
      let h := N.of_nat (cache_len s) in                    (* verifyBlock: height = cached tip height + 1 *)
      let raise := fin s <? p in
      mkSt (firstn (cache_len s) (chain s) ++ [id])         (* height index h := id (an index above h cannot exist, see Inv) *)
           (if raise then p else fin s)
           (if rt then remove_temp_at h (temp s) else temp s)
           (S (cache_len s))
           (emitted s ++ (if raise then [FFinalize (fin s) p id] else []) ++ [FNew id])
  | Delete h save env_ok =>
    (* deleteBlock(deletingBlock): the guard and the diff lookup use the height of the ARGUMENT, the removal
       (Chain.RemoveBlock) takes the cached tip; every caller passes the tip (DeleteTip below) *)
    if h <=? fin s then s                                   (* height <= finalized -> error *)
    else if negb (h <? N.of_nat (cache_len s)) then s       (* no header / diff stored for a height above the tip *)
    else if negb env_ok then s                              (* ABI revert failed before anything is written *)
    else match cache_len s with
         | O => s
         | S n =>
           match n with
           | O => s                                         (* genesis block cannot be removed *)
           | S _ =>
             match nth_error (chain s) n with
             | None => s
             | Some id =>
               mkSt (firstn n (chain s)) (fin s)
                    (if save then (N.of_nat n, id) :: remove_temp_at (N.of_nat n) (temp s) else temp s)
                    n (emitted s ++ [FDelete id])
             end
           end
         end
  | Restart => mkSt (chain s) (fin s) (temp s) (length (chain s)) (emitted s)
  | ClearTemp => mkSt (chain s) (fin s) [] (cache_len s) (emitted s)
  end.

(* the request every caller makes: delete the current tip *)
Definition DeleteTip (s : st) (save env_ok : bool) : op := Delete (height_of_tip s) save env_ok.

Definition run (s : st) (ops : list op) : st := fold_left step ops s.

(* state right after the genesis block was processed and the cache prepared *)
Definition init (g : N) : st := mkSt [g] 0 [] 1 [].

Definition block_at (s : st) (h : N) : option N := nth_error (chain s) (N.to_nat h).

Definition Inv (s : st) : Prop := cache_len s = length (chain s) /\ (0 < cache_len s)%nat.

(* finalize events of a log, and the raises of the finalized height along a run *)
Definition finalizes (l : list fev) : list (N * N) :=
  flat_map (fun e => match e with FFinalize o n _ => [(o, n)] | _ => [] end) l.

Fixpoint raises (s : st) (ops : list op) : list (N * N) :=
  match ops with
  | [] => []
  | o :: rest => let s' := step s o in
                 (if fin s <? fin s' then [(fin s, fin s')] else []) ++ raises s' rest
  end.
