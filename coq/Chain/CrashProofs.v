(* C13 — proofs about Chain/Crash.v *)
From Coq Require Import List NArith Bool Lia.
From LE Require Import Chain.Crash.
Import ListNotations.
Local Open Scope N_scope.

Lemma key_eqb_true : forall a b, key_eqb a b = true <-> a = b.
Proof.
  intros a b; destruct a, b; cbn; try rewrite N.eqb_eq; split; intros H; try discriminate; try congruence; auto.
Qed.
Lemma key_eqb_refl : forall a, key_eqb a a = true.
Proof. intros; now apply key_eqb_true. Qed.
Lemma key_eqb_false : forall a b, a <> b -> key_eqb a b = false.
Proof. intros a b H. destruct (key_eqb a b) eqn:E; auto. apply key_eqb_true in E. contradiction. Qed.

(* ---- last write wins ---- *)
Fixpoint last_val (b : list bop) (k : key) : option (option N) :=
  match b with
  | [] => None
  | o :: r => match last_val r k with
              | Some v => Some v
              | None => if key_eqb k (bop_key o) then Some (bop_val o) else None
              end
  end.

Lemma apply_batch_spec : forall b d k,
  apply_batch d b k = match last_val b k with Some v => v | None => d k end.
Proof.
  induction b as [|o r IH]; intros d k; cbn; auto.
  unfold apply_batch in *; cbn. rewrite IH. destruct (last_val r k); auto.
  unfold apply_bop, upd. destruct (key_eqb k (bop_key o)); auto.
Qed.

Lemma last_val_some : forall b k v, last_val b k = Some v -> exists o, In o b /\ bop_key o = k /\ bop_val o = v.
Proof.
  induction b as [|o r IH]; intros k v H; cbn in H; [discriminate|].
  destruct (last_val r k) eqn:E.
  - inversion H; subst. destruct (IH _ _ E) as [o' [Hi [Hk Hv]]]. exists o'; cbn; auto.
  - destruct (key_eqb k (bop_key o)) eqn:Ek; [|discriminate]. inversion H; subst.
    apply key_eqb_true in Ek. exists o; cbn; auto.
Qed.

Lemma last_val_none : forall b k, last_val b k = None -> forall o, In o b -> bop_key o <> k.
Proof.
  induction b as [|o r IH]; intros k H o' Hi; cbn in *; [contradiction|].
  destruct (last_val r k) eqn:E; [discriminate|].
  destruct (key_eqb k (bop_key o)) eqn:Ek; [discriminate|].
  destruct Hi as [<-|Hi]; [|now apply IH].
  intro Hc. rewrite Hc, key_eqb_refl in Ek. discriminate.
Qed.

(* value of a key after a batch in which exactly the ops satisfying P touch it, all with the same value *)
Lemma batch_unique : forall b d k v,
  (exists o, In o b /\ bop_key o = k) ->
  (forall o, In o b -> bop_key o = k -> bop_val o = v) ->
  apply_batch d b k = v.
Proof.
  intros b d k v [o [Hi Hk]] Hall. rewrite apply_batch_spec.
  destruct (last_val b k) as [w|] eqn:E.
  - destruct (last_val_some _ _ _ E) as [o' [Hi' [Hk' Hv']]]. rewrite <- Hv'. now apply Hall.
  - exfalso. exact (last_val_none _ _ E o Hi Hk).
Qed.

Lemma batch_untouched : forall b d k, (forall o, In o b -> bop_key o <> k) -> apply_batch d b k = d k.
Proof.
  intros b d k H. rewrite apply_batch_spec. destruct (last_val b k) as [w|] eqn:E; auto.
  destruct (last_val_some _ _ _ E) as [o [Hi [Hk _]]]. exfalso. exact (H o Hi Hk).
Qed.

(* ---- classification of the ops of the two batches ---- *)
Ltac break_in H :=
  repeat (rewrite in_app_iff in H);
  repeat match type of H with
         | _ \/ _ => destruct H as [H|H]
         end.

Lemma in_add_batch : forall i o, In o (add_batch i) ->
  (exists kv, o = cs_op kv) \/ o = BSet KTipMark (a_h i) \/ o = BSet (KDiff (a_h i)) (a_diff i) \/
  (exists h, In h (a_prune i) /\ o = BDel (KDiff h)) \/ o = BSet (KHeader (a_id i)) (a_h i) \/ o = BSet (KIdx (a_h i)) (a_id i) \/
  o = BSet (KBody (a_id i)) 1 \/ (exists e, o = BSet (KEvents (a_h i)) e) \/ o = BSet KFin (a_fin i) \/
  (exists h, o = BDel (KEvents h)) \/ o = BDel (KTemp (a_h i)).
Proof.
  intros i o H. unfold add_batch in H. rewrite !in_app_iff in H.
  destruct H as [H|[H|[H|[H|[H|[H|[H|[H|[H|H]]]]]]]]].
  - apply in_map_iff in H. destruct H as [kv [<- _]]. left; eauto.
  - destruct H as [<-|[]]. tauto.
  - destruct H as [<-|[]]. tauto.
  - apply in_map_iff in H. destruct H as [h [<- Hh]]. right; right; right; left; eauto.
  - destruct H as [<-|[<-|[]]]; tauto.
  - destruct (a_body i); [destruct H as [<-|[]]; tauto|contradiction].
  - destruct (a_events i); [destruct H as [<-|[]]|contradiction]. do 7 right; left; eauto.
  - destruct H as [<-|[]]. tauto.
  - apply in_map_iff in H. destruct H as [h [<- _]]. do 9 right; left; eauto.
  - destruct (a_rm_temp i); [destruct H as [<-|[]]; tauto|contradiction].
Qed.

Lemma in_del_batch : forall i o, In o (del_batch i) ->
  (exists kv, o = cs_op kv) \/ o = BSet KTipMark (d_h i - 1) \/ o = BDel (KDiff (d_h i)) \/ o = BDel (KHeader (d_id i)) \/
  o = BDel (KIdx (d_h i)) \/ o = BDel (KBody (d_id i)) \/ o = BDel (KEvents (d_h i)) \/ (exists e, o = BSet (KTemp (d_h i)) e).
Proof.
  intros i o H. unfold del_batch in H. rewrite !in_app_iff in H.
  destruct H as [H|[H|[H|[H|[H|[H|H]]]]]].
  - apply in_map_iff in H. destruct H as [kv [<- _]]. left; eauto.
  - destruct H as [<-|[]]. tauto.
  - destruct H as [<-|[]]. tauto.
  - destruct H as [<-|[<-|[]]]; tauto.
  - destruct (d_body i); [destruct H as [<-|[]]; tauto|contradiction].
  - destruct H as [<-|[]]. tauto.
  - destruct (d_save_temp i); [destruct H as [<-|[]]|contradiction]. do 7 right; eauto.
Qed.

Lemma cs_op_key : forall kv, bop_key (cs_op kv) = KState (fst kv).
Proof. intros [k [v|]]; reflexivity. Qed.

Ltac classify_add H :=
  apply in_add_batch in H;
  destruct H as [[kv ->]|[->|[->|[[hh [Hpr ->]]|[->|[->|[->|[[ee ->]|[->|[[hh ->]| ->]]]]]]]]]];
  try rewrite cs_op_key; cbn.
Ltac classify_del H :=
  apply in_del_batch in H;
  destruct H as [[kv ->]|[->|[->|[->|[->|[->|[->|[ee ->]]]]]]]];
  try rewrite cs_op_key; cbn.

(* values after the add batch *)
Lemma add_idx : forall i d h, apply_batch d (add_batch i) (KIdx h) = if h =? a_h i then Some (a_id i) else d (KIdx h).
Proof.
  intros i d h. destruct (h =? a_h i) eqn:E.
  - apply N.eqb_eq in E; subst. apply batch_unique.
    + exists (BSet (KIdx (a_h i)) (a_id i)). split; [|reflexivity]. unfold add_batch. rewrite !in_app_iff. do 4 right; left. cbn; auto.
    + intros o Ho. classify_add Ho; intros; try discriminate; auto.
  - apply N.eqb_neq in E. apply batch_untouched. intros o Ho. classify_add Ho; try discriminate. congruence.
Qed.

Lemma add_header : forall i d x, apply_batch d (add_batch i) (KHeader x) = if x =? a_id i then Some (a_h i) else d (KHeader x).
Proof.
  intros i d x. destruct (x =? a_id i) eqn:E.
  - apply N.eqb_eq in E; subst. apply batch_unique.
    + exists (BSet (KHeader (a_id i)) (a_h i)). split; [|reflexivity]. unfold add_batch. rewrite !in_app_iff. do 4 right; left. cbn; auto.
    + intros o Ho. classify_add Ho; intros; try discriminate; auto.
  - apply N.eqb_neq in E. apply batch_untouched. intros o Ho. classify_add Ho; try discriminate. congruence.
Qed.

Lemma add_tipmark : forall i d, apply_batch d (add_batch i) KTipMark = Some (a_h i).
Proof.
  intros i d. apply batch_unique.
  - exists (BSet KTipMark (a_h i)). split; [|reflexivity]. unfold add_batch. rewrite !in_app_iff. right; left. cbn; auto.
  - intros o Ho. classify_add Ho; intros; try discriminate; auto.
Qed.

Lemma add_diff_present : forall i d h, present (apply_batch d (add_batch i)) (KDiff h) -> h = a_h i \/ present d (KDiff h).
Proof.
  intros i d h H. unfold present in *. rewrite apply_batch_spec in H.
  destruct (last_val (add_batch i) (KDiff h)) as [w|] eqn:E; [|now right].
  destruct (last_val_some _ _ _ E) as [o [Ho [Hk Hv]]]. subst w.
  classify_add Ho; try (rewrite cs_op_key in Hk); cbn in Hk; try discriminate.
  - left. congruence.
  - cbn in H. congruence.
Qed.

(* values after the delete batch *)
Lemma del_idx : forall i d h, apply_batch d (del_batch i) (KIdx h) = if h =? d_h i then None else d (KIdx h).
Proof.
  intros i d h. destruct (h =? d_h i) eqn:E.
  - apply N.eqb_eq in E; subst. apply batch_unique.
    + exists (BDel (KIdx (d_h i))). split; [|reflexivity]. unfold del_batch. rewrite !in_app_iff. do 3 right; left. cbn; auto.
    + intros o Ho. classify_del Ho; intros; try discriminate; auto.
  - apply N.eqb_neq in E. apply batch_untouched. intros o Ho. classify_del Ho; try discriminate. congruence.
Qed.

Lemma del_header : forall i d x, apply_batch d (del_batch i) (KHeader x) = if x =? d_id i then None else d (KHeader x).
Proof.
  intros i d x. destruct (x =? d_id i) eqn:E.
  - apply N.eqb_eq in E; subst. apply batch_unique.
    + exists (BDel (KHeader (d_id i))). split; [|reflexivity]. unfold del_batch. rewrite !in_app_iff. do 3 right; left. cbn; auto.
    + intros o Ho. classify_del Ho; intros; try discriminate; auto.
  - apply N.eqb_neq in E. apply batch_untouched. intros o Ho. classify_del Ho; try discriminate. congruence.
Qed.

Lemma del_tipmark : forall i d, apply_batch d (del_batch i) KTipMark = Some (d_h i - 1).
Proof.
  intros i d. apply batch_unique.
  - exists (BSet KTipMark (d_h i - 1)). split; [|reflexivity]. unfold del_batch. rewrite !in_app_iff. right; left. cbn; auto.
  - intros o Ho. classify_del Ho; intros; try discriminate; auto.
Qed.

Lemma del_diff : forall i d h, apply_batch d (del_batch i) (KDiff h) = if h =? d_h i then None else d (KDiff h).
Proof.
  intros i d h. destruct (h =? d_h i) eqn:E.
  - apply N.eqb_eq in E; subst. apply batch_unique.
    + exists (BDel (KDiff (d_h i))). split; [|reflexivity]. unfold del_batch. rewrite !in_app_iff. do 2 right; left. cbn; auto.
    + intros o Ho. classify_del Ho; intros; try discriminate; auto.
  - apply N.eqb_neq in E. apply batch_untouched. intros o Ho. classify_del Ho; try discriminate. congruence.
Qed.

(* ---- Consistent is preserved by whole operations ---- *)
Lemma above_tip_absent : forall d t, Consistent d -> d (KIdx (t + 1)) = None -> forall k, d (KIdx (t + 1 + k)) = None.
Proof.
  intros d t C H k. induction k as [|k IH] using N.peano_ind.
  - now rewrite N.add_0_r.
  - destruct (d (KIdx (t + 1 + N.succ k))) eqn:E; auto.
    exfalso. assert (present d (KIdx (t + 1 + k))).
    { apply (c_contiguous d C). unfold present. replace (t + 1 + k + 1) with (t + 1 + N.succ k) by lia. congruence. }
    unfold present in H0. congruence.
Qed.

Lemma cons_add : forall d i, Consistent d -> add_pre d i -> Consistent (durable_after d (add_actions i)).
Proof.
  intros d i C P. unfold add_actions. destruct (a_ok i) eqn:Eok; [|exact C]. cbn.
  destruct (P Eok) as [[t [Ht Hh]] Hfresh].
  destruct (c_tip_mark d C) as [t' [Ht' [Hpt Habs]]]. assert (t' = t) by congruence. subst t'.
  constructor.
  - intros h id. rewrite add_idx, add_header. destruct (h =? a_h i) eqn:E.
    + apply N.eqb_eq in E. intros Hid; inversion Hid; subst. now rewrite N.eqb_refl.
    + intros Hid. pose proof (c_index_data d C _ _ Hid) as Hd.
      destruct (id =? a_id i) eqn:E2; [|exact Hd]. apply N.eqb_eq in E2; subst. congruence.
  - intros h. unfold present. rewrite !add_idx. destruct (h =? a_h i) eqn:E; [discriminate|].
    destruct (h + 1 =? a_h i) eqn:E2.
    + apply N.eqb_eq in E2. intros _. assert (h = t) by lia. subst. exact Hpt.
    + apply (c_contiguous d C).
  - exists (a_h i). split; [apply add_tipmark|]. unfold present. rewrite !add_idx, N.eqb_refl. split; [discriminate|].
    destruct (a_h i + 1 =? a_h i) eqn:E; [apply N.eqb_eq in E; lia|].
    rewrite Hh. replace (t + 1 + 1) with (t + 1 + 1) by lia. exact (above_tip_absent d t C Habs 1).
  - intros h Hp. apply add_diff_present in Hp. unfold present. rewrite add_idx. destruct (h =? a_h i) eqn:E; [discriminate|].
    destruct Hp as [->|Hp]; [rewrite N.eqb_refl in E; discriminate|]. exact (c_diff_block d C _ Hp).
Qed.

Lemma cons_del : forall d i, Consistent d -> del_pre d i -> Consistent (durable_after d (del_actions i)).
Proof.
  intros d i C P. unfold del_actions. destruct (d_ok i) eqn:Eok; [|exact C]. cbn.
  destruct (P Eok) as [Ht [Hid Hpos]].
  destruct (c_tip_mark d C) as [t' [Ht' [Hpt Habs]]]. assert (t' = d_h i) by congruence. subst t'.
  constructor.
  - intros h id. rewrite del_idx, del_header. destruct (h =? d_h i) eqn:E; [discriminate|].
    intros Hi. pose proof (c_index_data d C _ _ Hi) as Hd.
    destruct (id =? d_id i) eqn:E2; [|exact Hd]. apply N.eqb_eq in E2; subst.
    pose proof (c_index_data d C _ _ Hid). apply N.eqb_neq in E. congruence.
  - intros h. unfold present. rewrite !del_idx. destruct (h + 1 =? d_h i) eqn:E; [congruence|].
    destruct (h =? d_h i) eqn:E2.
    + apply N.eqb_eq in E2; subst. rewrite Habs. congruence.
    + apply (c_contiguous d C).
  - exists (d_h i - 1). split; [apply del_tipmark|]. unfold present. rewrite !del_idx.
    destruct (d_h i - 1 =? d_h i) eqn:E; [apply N.eqb_eq in E; lia|].
    replace (d_h i - 1 + 1) with (d_h i) by lia. rewrite N.eqb_refl. split; [|reflexivity].
    apply (c_contiguous d C). replace (d_h i - 1 + 1) with (d_h i) by lia. exact Hpt.
  - intros h. unfold present. rewrite del_diff, del_idx. destruct (h =? d_h i); [congruence|]. apply (c_diff_block d C).
Qed.

Lemma cons_clear : forall d hs, Consistent d -> Consistent (durable_after d (actions_of (CClearTemp hs))).
Proof.
  intros d hs C. cbn. destruct hs as [|h0 hs]; [exact C|]. cbn [durable_after fold_left apply_action].
  set (b := map (fun h => BDel (KTemp h)) (h0 :: hs)).
  assert (U : forall k, (forall h, k <> KTemp h) -> apply_batch d b k = d k).
  { intros k Hk. apply batch_untouched. intros o Ho. apply in_map_iff in Ho. destruct Ho as [h [<- _]]. cbn. intro; subst. now apply (Hk h). }
  destruct C as [C1 C2 [t [C3 [C4 C5]]] C6]. constructor.
  - intros h id. rewrite !U by discriminate. apply C1.
  - intros h. unfold present. rewrite !U by discriminate. apply C2.
  - exists t. unfold present. rewrite !U by discriminate. auto.
  - intros h. unfold present. rewrite !U by discriminate. apply C6.
Qed.

Lemma cons_op : forall d o, Consistent d -> cop_pre d o -> Consistent (durable_after d (actions_of o)).
Proof. intros d [i|i|hs] C P; [now apply cons_add|now apply cons_del|now apply cons_clear]. Qed.

(* ---- single durable write ---- *)
Theorem single_durable_write_add : forall i,
  (a_ok i = false -> add_actions i = []) /\
  (a_ok i = true ->
     writes (add_actions i) = [add_batch i] /\
     In (BSet (KHeader (a_id i)) (a_h i)) (add_batch i) /\ In (BSet (KIdx (a_h i)) (a_id i)) (add_batch i) /\
     In (BSet KTipMark (a_h i)) (add_batch i) /\ incl (map cs_op (a_cs i)) (add_batch i) /\
     In (BSet (KDiff (a_h i)) (a_diff i)) (add_batch i) /\ In (BSet KFin (a_fin i)) (add_batch i)).
Proof.
  intros i. unfold add_actions. split; intros ->; [reflexivity|]. cbn [writes flat_map app].
  unfold add_batch. repeat split; try reflexivity;
    try (rewrite !in_app_iff; cbn; tauto).
  intros o Ho. rewrite in_app_iff. now left.
Qed.

Theorem single_durable_write_del : forall i,
  (d_ok i = false -> del_actions i = []) /\
  (d_ok i = true ->
     writes (del_actions i) = [del_batch i] /\
     In (BDel (KHeader (d_id i))) (del_batch i) /\ In (BDel (KIdx (d_h i))) (del_batch i) /\
     In (BSet KTipMark (d_h i - 1)) (del_batch i) /\ incl (map cs_op (d_revert i)) (del_batch i) /\
     In (BDel (KDiff (d_h i))) (del_batch i)).
Proof.
  intros i. unfold del_actions. split; intros ->; [reflexivity|]. cbn [writes flat_map app].
  unfold del_batch. repeat split; try reflexivity;
    try (rewrite !in_app_iff; cbn; tauto).
  intros o Ho. rewrite in_app_iff. now left.
Qed.

Theorem at_most_one_write : forall o, (length (writes (actions_of o)) <= 1)%nat.
Proof.
  intros [i|i|hs]; cbn.
  - unfold add_actions. destruct (a_ok i); cbn; lia.
  - unfold del_actions. destruct (d_ok i); cbn; lia.
  - destruct hs; cbn; lia.
Qed.

(* ---- crash at any action boundary ---- *)
Theorem crash_before_or_after : forall d o k,
  durable_after d (firstn k (actions_of o)) = d \/
  durable_after d (firstn k (actions_of o)) = durable_after d (actions_of o).
Proof.
  intros d [i|i|hs] k; cbn.
  - unfold add_actions. destruct (a_ok i); [|rewrite firstn_nil; auto].
    destruct k as [|[|[|[|k]]]]; cbn; rewrite ?firstn_nil; cbn; auto.
  - unfold del_actions. destruct (d_ok i); [|rewrite firstn_nil; auto].
    destruct k as [|[|[|[|k]]]]; cbn; rewrite ?firstn_nil; cbn; auto.
  - destruct hs; [rewrite firstn_nil; auto|]. destruct k as [|[|k]]; cbn; rewrite ?firstn_nil; cbn; auto.
Qed.

Lemma run_ops_cons : forall ops d, Consistent d -> history_ok d ops -> Consistent (run_ops d ops).
Proof.
  induction ops as [|o ops IH]; intros d C H; cbn; auto.
  destruct H as [Hp Hr]. apply IH; auto. now apply cons_op.
Qed.

Lemma history_ok_skip : forall n ops d, history_ok d ops -> history_ok (run_ops d (firstn n ops)) (skipn n ops).
Proof.
  induction n as [|n IH]; intros ops d H; cbn; auto.
  destruct ops as [|o ops]; cbn; auto. destruct H as [_ Hr]. now apply IH.
Qed.

Lemma history_ok_firstn : forall n ops d, history_ok d ops -> history_ok d (firstn n ops).
Proof.
  induction n as [|n IH]; intros ops d H; cbn; auto.
  destruct ops as [|o ops]; cbn; auto. destruct H as [Hp Hr]. split; auto.
Qed.

(* for every prefix of every history, cut at any action boundary of the next operation, the state found at restart is
   Consistent and is the state before or the state after the interrupted operation *)
Theorem crash_consistent : forall ops d n k o, Consistent d -> history_ok d ops -> nth_error ops n = Some o ->
  let before := run_ops d (firstn n ops) in
  let recovered := durable_after before (firstn k (actions_of o)) in
  Consistent recovered /\ (recovered = before \/ recovered = durable_after before (actions_of o)).
Proof.
  intros ops d n k o C H Hn before recovered.
  assert (Cb : Consistent before) by (apply run_ops_cons; auto; now apply history_ok_firstn).
  assert (Hpre : cop_pre before o).
  { pose proof (history_ok_skip n ops d H) as Hs. fold before in Hs.
    assert (Hsk : skipn n ops = o :: skipn (S n) ops).
    { clear -Hn. revert ops Hn. induction n as [|n IH]; intros [|x ops] Hn; cbn in *; try discriminate.
      - now inversion Hn.
      - now apply IH. }
    rewrite Hsk in Hs. exact (proj1 Hs). }
  pose proof (crash_before_or_after before o k) as Hc. fold recovered in Hc.
  split; [|exact Hc]. destruct Hc as [->| ->]; auto. now apply cons_op.
Qed.

(* the node restarts on the tip the height index names, and the consensus store is at that tip *)
Theorem restart_tip_matches : forall d, Consistent d ->
  exists t id, d KTipMark = Some t /\ d (KIdx t) = Some id /\ d (KHeader id) = Some t /\ forall k, d (KIdx (t + 1 + k)) = None.
Proof.
  intros d C. destruct (c_tip_mark d C) as [t [Ht [Hp Ha]]].
  destruct (d (KIdx t)) as [id|] eqn:E; [|exfalso; now apply Hp].
  exists t, id. repeat split; auto. exact (c_index_data d C _ _ E). now apply above_tip_absent.
Qed.

(* restore from the temp table: at every crash point the block is on the chain or still in the temp table *)
Theorem restore_never_loses_block : forall d i k, present d (KTemp (a_h i)) ->
  RestoreSafe (durable_after d (firstn k (add_actions i))) (a_h i) (a_id i).
Proof.
  intros d i k Ht. destruct (crash_before_or_after d (CAdd i) k) as [H|H]; cbn [actions_of] in H; rewrite H.
  - now right.
  - unfold add_actions. destruct (a_ok i); [|now right]. cbn. left. now rewrite add_idx, N.eqb_refl.
Qed.

(* ================= round 6: the stronger consistency [Consistent2] ================= *)
Lemma add_fin : forall i d, apply_batch d (add_batch i) KFin = Some (a_fin i).
Proof.
  intros i d. apply batch_unique.
  - exists (BSet KFin (a_fin i)). split; [|reflexivity]. unfold add_batch. rewrite !in_app_iff. do 7 right; left. cbn; auto.
  - intros o Ho. classify_add Ho; intros; try discriminate; auto.
Qed.

Lemma add_diff_value : forall i d h, ~ In h (a_prune i) ->
  apply_batch d (add_batch i) (KDiff h) = if h =? a_h i then Some (a_diff i) else d (KDiff h).
Proof.
  intros i d h Hn. destruct (h =? a_h i) eqn:E.
  - apply N.eqb_eq in E; subst. apply batch_unique.
    + exists (BSet (KDiff (a_h i)) (a_diff i)). split; [|reflexivity]. unfold add_batch. rewrite !in_app_iff. do 2 right; left. cbn; auto.
    + intros o Ho. classify_add Ho; intros Hk; try discriminate; auto. inversion Hk; subst. contradiction.
  - apply N.eqb_neq in E. apply batch_untouched. intros o Ho. classify_add Ho; try discriminate; try congruence.
Qed.

Lemma add_body : forall i d x, present d (KBody x) \/ (x = a_id i /\ a_body i = true) ->
  present (apply_batch d (add_batch i)) (KBody x).
Proof.
  intros i d x H. unfold present. rewrite apply_batch_spec.
  destruct (last_val (add_batch i) (KBody x)) as [w|] eqn:E.
  - destruct (last_val_some _ _ _ E) as [o [Ho [Hk Hv]]]. subst w.
    classify_add Ho; try (rewrite cs_op_key in Hk); cbn in Hk; try discriminate.
  - destruct H as [H|[-> Hb]]; [exact H|].
    exfalso. apply (last_val_none _ _ E (BSet (KBody (a_id i)) 1)); [|reflexivity].
    unfold add_batch. rewrite Hb, !in_app_iff. do 5 right; left. cbn; auto.
Qed.

Lemma del_fin : forall i d, apply_batch d (del_batch i) KFin = d KFin.
Proof. intros i d. apply batch_untouched. intros o Ho. classify_del Ho; discriminate. Qed.

Lemma del_body : forall i d x, x <> d_id i -> apply_batch d (del_batch i) (KBody x) = d (KBody x).
Proof.
  intros i d x Hx. apply batch_untouched. intros o Ho. classify_del Ho; try discriminate. congruence.
Qed.

Lemma cons2_add : forall hb d i, Consistent2 hb d -> add_pre2 hb d i -> Consistent2 hb (durable_after d (add_actions i)).
Proof.
  intros hb d i C [P P2]. pose proof (cons_add d i (c2_base hb d C) P) as Cb.
  unfold add_actions in *. destruct (a_ok i) eqn:Eok; [|exact C]. cbn in *.
  destruct (P Eok) as [[t [Ht Hh]] Hfresh]. destruct (P2 eq_refl) as [Hbody [Hfh [Hmono Hpr]]].
  assert (Hnp : forall h, a_fin i <= h -> ~ In h (a_prune i)).
  { intros h Hle Hin. rewrite Forall_forall in Hpr. specialize (Hpr _ Hin). lia. }
  constructor; auto.
  - exists (a_fin i), (a_h i). rewrite add_fin, add_tipmark. auto.
  - intros f t' h. rewrite add_fin, add_tipmark. intros Hf Ht' Hlt Hle. inversion Hf; inversion Ht'; subst f t'.
    unfold present. rewrite add_diff_value by (apply Hnp; lia). destruct (h =? a_h i) eqn:E; [discriminate|].
    apply N.eqb_neq in E. destruct (c2_fin hb d C) as [f0 [t0 [Hf0 [Ht0 Hle0]]]]. assert (t0 = t) by congruence. subst t0.
    apply (c2_diffs hb d C f0 t h Hf0 Ht); [specialize (Hmono _ Hf0)|]; lia.
  - intros h id. rewrite add_idx. destruct (h =? a_h i) eqn:E.
    + intros Hid Hb; inversion Hid; subst. apply add_body. right. split; auto. congruence.
    + intros Hid Hb. apply add_body. left. exact (c2_body hb d C h id Hid Hb).
Qed.

Lemma cons2_del : forall hb d i, Consistent2 hb d -> del_pre2 d i -> Consistent2 hb (durable_after d (del_actions i)).
Proof.
  intros hb d i C [P P2]. pose proof (cons_del d i (c2_base hb d C) P) as Cb.
  unfold del_actions in *. destruct (d_ok i) eqn:Eok; [|exact C]. cbn in *.
  destruct (P Eok) as [Ht [Hid Hpos]]. specialize (P2 eq_refl).
  destruct (c2_fin hb d C) as [f0 [t0 [Hf0 [Ht0 Hle0]]]]. assert (t0 = d_h i) by congruence. subst t0.
  constructor; auto.
  - exists f0, (d_h i - 1). rewrite del_fin, del_tipmark. specialize (P2 _ Hf0). repeat split; auto. lia.
  - intros f t' h. rewrite del_fin, del_tipmark. intros Hf Ht' Hlt Hle. inversion Ht'; subst t'.
    unfold present. rewrite del_diff. destruct (h =? d_h i) eqn:E; [apply N.eqb_eq in E; lia|].
    apply (c2_diffs hb d C f (d_h i) h Hf Ht); lia.
  - intros h id. rewrite del_idx. destruct (h =? d_h i) eqn:E; [discriminate|]. intros Hi Hb.
    assert (id <> d_id i).
    { intro; subst. pose proof (c_index_data d (c2_base hb d C) _ _ Hi). pose proof (c_index_data d (c2_base hb d C) _ _ Hid).
      apply N.eqb_neq in E. congruence. }
    unfold present. rewrite del_body by auto. exact (c2_body hb d C h id Hi Hb).
Qed.

Lemma cons2_clear : forall hb d hs, Consistent2 hb d -> Consistent2 hb (durable_after d (actions_of (CClearTemp hs))).
Proof.
  intros hb d hs C. pose proof (cons_clear d hs (c2_base hb d C)) as Cb. cbn in *. destruct hs as [|h0 hs]; [exact C|].
  cbn [durable_after fold_left apply_action] in *.
  set (b := map (fun h => BDel (KTemp h)) (h0 :: hs)) in *.
  assert (U : forall k, (forall h, k <> KTemp h) -> apply_batch d b k = d k).
  { intros k Hk. apply batch_untouched. intros o Ho. apply in_map_iff in Ho. destruct Ho as [h [<- _]]. cbn. intro; subst. now apply (Hk h). }
  destruct C as [C0 [f [t [Hf [Ht Hle]]]] C2 C3]. constructor; auto.
  - exists f, t. rewrite !U by discriminate. auto.
  - intros f' t' h. unfold present. rewrite !U by discriminate. apply C2.
  - intros h id. unfold present. rewrite !U by discriminate. apply C3.
Qed.

Lemma cons2_op : forall hb d o, Consistent2 hb d -> cop_pre2 hb d o -> Consistent2 hb (durable_after d (actions_of o)).
Proof. intros hb d [i|i|hs] C P; [now apply cons2_add|now apply cons2_del|now apply cons2_clear]. Qed.

Lemma run_ops_cons2 : forall hb ops d, Consistent2 hb d -> history_ok2 hb d ops -> Consistent2 hb (run_ops d ops).
Proof.
  induction ops as [|o ops IH]; intros d C H; cbn; auto.
  destruct H as [Hp Hr]. apply IH; auto. now apply cons2_op.
Qed.

Lemma history_ok2_skip : forall hb n ops d, history_ok2 hb d ops -> history_ok2 hb (run_ops d (firstn n ops)) (skipn n ops).
Proof.
  induction n as [|n IH]; intros ops d H; cbn; auto.
  destruct ops as [|o ops]; cbn; auto. destruct H as [_ Hr]. now apply IH.
Qed.
Lemma history_ok2_firstn : forall hb n ops d, history_ok2 hb d ops -> history_ok2 hb d (firstn n ops).
Proof.
  induction n as [|n IH]; intros ops d H; cbn; auto.
  destruct ops as [|o ops]; cbn; auto. destruct H as [Hp Hr]. split; auto.
Qed.

Theorem crash_consistent2 : forall hb ops d n k o, Consistent2 hb d -> history_ok2 hb d ops -> nth_error ops n = Some o ->
  let before := run_ops d (firstn n ops) in
  let recovered := durable_after before (firstn k (actions_of o)) in
  Consistent2 hb recovered /\ (recovered = before \/ recovered = durable_after before (actions_of o)).
Proof.
  intros hb ops d n k o C H Hn before recovered.
  assert (Cb : Consistent2 hb before) by (apply run_ops_cons2; auto; now apply history_ok2_firstn).
  assert (Hpre : cop_pre2 hb before o).
  { pose proof (history_ok2_skip hb n ops d H) as Hs. fold before in Hs.
    assert (Hsk : skipn n ops = o :: skipn (S n) ops).
    { clear -Hn. revert ops Hn. induction n as [|n IH]; intros [|x ops] Hn; cbn in *; try discriminate.
      - now inversion Hn.
      - now apply IH. }
    rewrite Hsk in Hs. exact (proj1 Hs). }
  pose proof (crash_before_or_after before o k) as Hc. fold recovered in Hc.
  split; [|exact Hc]. destruct Hc as [->| ->]; auto. now apply cons2_op.
Qed.
