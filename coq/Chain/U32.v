(* bytes.FromUint32 keys: big-endian 4-byte encodings are ordered like the numbers (what makes the height-indexed
   stores of liskbft and of data_access.go range-scannable), and ToUint32 inverts FromUint32. *)
From Coq Require Import List NArith ZArith Bool Lia ZifyN ZifyBool.
From LE Require Import Base.Lex Store.SMap Chain.BlockStore.
Import ListNotations.
Local Open Scope N_scope.

(* positional value of a digit string *)
Fixpoint dval (l : list N) : N :=
  match l with [] => 0 | x :: t => x * 256 ^ N.of_nat (length t) + dval t end.

Lemma fold_dval : forall l acc, fold_left (fun a b => a * 256 + b) l acc = acc * 256 ^ N.of_nat (length l) + dval l.
Proof.
  induction l as [|x t IH]; intros acc; simpl fold_left; simpl length.
  - simpl. lia.
  - rewrite IH. cbn [dval]. rewrite Nat2N.inj_succ, N.pow_succ_r'. lia.
Qed.

Lemma u32_of_dval : forall l, u32_of l = dval l.
Proof. intros. unfold u32_of. rewrite fold_dval. lia. Qed.

Lemma dval_bound : forall l, wf_key l -> dval l < 256 ^ N.of_nat (length l).
Proof.
  induction l as [|x t IH]; intros Hw; simpl length; cbn [dval].
  - simpl. lia.
  - inversion Hw; subst. specialize (IH H2). rewrite Nat2N.inj_succ, N.pow_succ_r'.
    set (P := 256 ^ N.of_nat (length t)) in *. nia.
Qed.

Lemma lex_cmp_dval : forall l1 l2, length l1 = length l2 -> wf_key l1 -> wf_key l2 ->
  lex_cmp l1 l2 = (dval l1 ?= dval l2).
Proof.
  induction l1 as [|x t IH]; intros [|y t2] Hl H1 H2; simpl in Hl; try discriminate; [reflexivity|].
  injection Hl as Hl. inversion H1; subst. inversion H2; subst. cbn [lex_cmp dval]. rewrite <- Hl.
  pose proof (dval_bound t H4) as B1. pose proof (dval_bound t2 H6) as B2. rewrite <- Hl in B2.
  set (P := 256 ^ N.of_nat (length t)) in *.
  destruct (N.compare_spec x y) as [E|L|G].
  - subst y. rewrite (IH t2 Hl H4 H6). symmetry.
    destruct (N.compare_spec (dval t) (dval t2)) as [E'|L'|G'].
    + apply N.compare_eq_iff. lia.
    + apply N.compare_lt_iff. lia.
    + apply N.compare_gt_iff. lia.
  - symmetry. apply N.compare_lt_iff. nia.
  - symmetry. apply N.compare_gt_iff. nia.
Qed.

Lemma u32be_wf : forall a, wf_key (u32be a).
Proof.
  intros. unfold u32be. repeat constructor; apply N.mod_lt; discriminate.
Qed.

Ltac Zify.zify_post_hook ::= Z.div_mod_to_equations.
Lemma u32_of_u32be : forall a, a < 4294967296 -> u32_of (u32be a) = a.
Proof. intros a Ha. unfold u32be, u32_of. cbn [fold_left]. lia. Qed.
Ltac Zify.zify_post_hook ::= idtac.

Theorem u32be_cmp : forall a b, a < 4294967296 -> b < 4294967296 -> lex_cmp (u32be a) (u32be b) = (a ?= b).
Proof.
  intros a b Ha Hb. rewrite lex_cmp_dval by (auto using u32be_wf). rewrite <- !u32_of_dval, !u32_of_u32be by assumption.
  reflexivity.
Qed.

Corollary u32be_leb : forall a b, a < 4294967296 -> b < 4294967296 -> leb (u32be a) (u32be b) = (a <=? b).
Proof.
  intros a b Ha Hb. unfold leb. rewrite u32be_cmp by assumption. unfold N.leb. destruct (a ?= b); reflexivity.
Qed.

(* the event records pruned by saveBlock are those of heights <= minEventDeleteHeight (4-byte height keys) *)
Corollary events_range_heights : forall h m, h < 4294967296 -> m < 4294967296 ->
  leb (kEvents 0) (kEvents h) && leb (kEvents h) (kEvents m) = (h <=? m).
Proof.
  intros h m Hh Hm. unfold kEvents.
  change (pfxBlockHeightToEvents :: u32be 0) with ([pfxBlockHeightToEvents] ++ u32be 0).
  change (pfxBlockHeightToEvents :: u32be h) with ([pfxBlockHeightToEvents] ++ u32be h).
  change (pfxBlockHeightToEvents :: u32be m) with ([pfxBlockHeightToEvents] ++ u32be m).
  rewrite !leb_app. rewrite !u32be_leb by (auto; reflexivity). destruct (N.leb_spec 0 h); [reflexivity|lia].
Qed.

(* the diff records pruned by processBlock are those of heights < the new finalized height *)
Corollary diff_key_height : forall h, h < 4294967296 -> u32_of (tl (kDiff h)) = h.
Proof. intros. unfold kDiff. simpl tl. apply u32_of_u32be; auto. Qed.
