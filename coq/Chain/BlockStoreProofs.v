(* C05, chain part: removeBlock inverts saveBlock, the deleteBlock batch inverts the processBlock batch (outside
   the enumerated exceptions, for fresh ids), temp blocks, batch-level reorg confluence, cached tip = DB tip. *)
From Coq Require Import List NArith ZArith Bool Lia.
From LE Require Import Base.Lex Store.SMap Store.PebbleIter Store.PebbleIterProofs Store.DiffDB Store.DiffDBProofs
  Store.DiffDBScanProofs Store.Diff Chain.BlockStore.
Import ListNotations.
Local Open Scope N_scope.

(* the keys removeBlock deletes = the keys saveBlock may set, apart from the marker *)
Definition block_keys (b : blk) : list key :=
  [kHeader b; kHeight (b_height b)]
  ++ (match b_txs b with [] => [] | txs => map (fun t => kTx (fst t)) txs ++ [kTxs b] end)
  ++ (match b_assets b with Some _ => [kAssets b] | None => [] end)
  ++ [kEvents (b_height b)].

Lemma remove_block_keys : forall b st,
  map fst (remove_block b st) = block_keys b ++ (if st then [kTemp (b_height b)] else []).
Proof.
  intros. unfold remove_block, block_keys. rewrite !map_app. simpl.
  destruct (b_txs b) as [|t ts]; destruct (b_assets b); destruct st; simpl;
    rewrite ?map_app, ?map_map; simpl; rewrite <- ?app_assoc; simpl; reflexivity.
Qed.

Lemma remove_block_deletes : forall b st k ov, In (k, ov) (remove_block b st) -> k <> kTemp (b_height b) -> ov = None.
Proof.
  intros b st k ov Hin Hk. unfold remove_block in Hin.
  repeat (apply in_app_iff in Hin; destruct Hin as [Hin|Hin]).
  - simpl in Hin. destruct Hin as [E|[E|[]]]; inversion E; auto.
  - destruct (b_txs b) as [|t ts]; [contradiction|]. apply in_app_iff in Hin. destruct Hin as [Hin|[E|[]]].
    + apply in_map_iff in Hin. destruct Hin as (x & E & _). inversion E; auto.
    + inversion E; auto.
  - destruct (b_assets b); [|contradiction]. destruct Hin as [E|[]]. inversion E; auto.
  - destruct Hin as [E|[]]. inversion E; auto.
  - destruct st; [|contradiction]. destruct Hin as [E|[]]. inversion E; subst. congruence.
Qed.

Lemma prune_events_keys : forall db fh h keep k, sorted db -> In k (map fst (prune_events db fh h keep)) ->
  exists m, ev_bound fh h keep = Some m /\ leb (kEvents 0) k && leb k (kEvents m) = true.
Proof.
  intros db fh h keep k Hs Hin. unfold prune_events in Hin. unfold ev_bound.
  destruct (keep >? -1)%Z; [|contradiction]. simpl.
  destruct (min_event_delete fh h keep >? 0)%Z; [|contradiction]. eexists. split; [reflexivity|].
  rewrite map_map in Hin. simpl in Hin. apply in_map_iff in Hin. destruct Hin as (x & <- & Hx).
  rewrite iterate_range_exact in Hx by auto. unfold range_spec, eff_limit in Hx. simpl in Hx.
  apply filter_In in Hx. tauto.
Qed.

Lemma prune_diffs_keys : forall db bound k, wf_db db -> In k (map fst (prune_diffs db bound)) ->
  exists m, bound = Some m /\ is_prefix [pfxStateDiff] k && (u32_of (tl k) <? m) = true.
Proof.
  intros db bound k Hw Hin. unfold prune_diffs in Hin. destruct bound as [m|]; [|contradiction].
  exists m. split; auto. apply in_map_iff in Hin. destruct Hin as ([k0 ov] & Ek & Hin). simpl in Ek. subst k0.
  apply in_flat_map in Hin. destruct Hin as (k1 & Hk1 & Hin).
  destruct (u32_of (tl k1) <? m) eqn:E; [|contradiction]. destruct Hin as [E1|[]]. inversion E1; subst k1.
  rewrite E, andb_true_r.
  unfold iterate_key in Hk1. apply in_map_iff in Hk1. destruct Hk1 as (x & <- & Hx).
  rewrite iterate_prefix_exact in Hx; auto.
  - unfold prefix_spec, eff_limit in Hx. simpl in Hx. apply filter_In in Hx. tauto.
  - repeat constructor.
Qed.

Lemma save_block_keys : forall db b events fh rt keep k, In k (map fst (save_block db b events fh rt keep)) ->
  In k (block_keys b) \/ k = kFinalized \/ In k (map fst (prune_events db fh (b_height b) keep)) \/ k = kTemp (b_height b).
Proof.
  intros db b events fh rt keep k Hin. unfold save_block in Hin. rewrite !map_app in Hin. unfold block_keys.
  repeat (apply in_app_iff in Hin; destruct Hin as [Hin|Hin]).
  - left. apply in_app_iff. left. exact Hin.
  - left. apply in_app_iff. right. apply in_app_iff. left.
    destruct (b_txs b) as [|t ts]; [contradiction|]. rewrite map_app, map_map in Hin. simpl in Hin. exact Hin.
  - left. destruct events; [|contradiction]. destruct Hin as [<-|[]]. rewrite !in_app_iff. right. right. right. left. reflexivity.
  - left. destruct (b_assets b); [|contradiction]. destruct Hin as [<-|[]]. rewrite !in_app_iff. right. right. left. left. reflexivity.
  - right. left. destruct Hin as [<-|[]]. reflexivity.
  - right. right. left. exact Hin.
  - right. right. right. destruct rt; [|contradiction]. destruct Hin as [<-|[]]. reflexivity.
Qed.

(* ------------------------------------------------------------------ generic: a later batch that only deletes *)
Lemma fapply_deleted : forall (W1 W2 : list wr) s k,
  In k (map fst W2) -> (forall ov, In (k, ov) W2 -> ov = None) -> fapply W2 (fapply W1 s) k = None.
Proof.
  intros W1 W2 s k Hin Hall. apply in_map_iff in Hin. destruct Hin as ([k0 ov] & E & Hin). simpl in E. subst k0.
  assert (ov = None) by (apply Hall; auto). subst. apply fapply_const; auto.
Qed.

Lemma fapply_untouched : forall (W1 W2 : list wr) s k,
  ~ In k (map fst W1) -> ~ In k (map fst W2) -> fapply W2 (fapply W1 s) k = s k.
Proof. intros. rewrite fapply_notin by auto. apply fapply_notin; auto. Qed.

Definition fresh (db : smap) (ks : list key) : Prop := forall k, In k ks -> lookup db k = None.

(* ------------------------------------------------------------------ removeBlock inverts saveBlock *)
Theorem remove_inverts_save : forall db b events fh rt keep st k,
  sorted db -> fresh db (block_keys b) ->
  exception (ev_bound fh (b_height b) keep) None [b_height b] k = false ->
  lookup (apply_writes (remove_block b st) (apply_writes (save_block db b events fh rt keep) db)) k = lookup db k.
Proof.
  intros db b events fh rt keep st k Hs Hfresh Hex.
  rewrite lookup_apply_writes by auto using apply_writes_sorted.
  rewrite (fapply_ext _ _ _ (fun k0 => lookup_apply_writes _ db k0 Hs)).
  unfold exception in Hex. simpl in Hex. rewrite orb_false_r in Hex.
  apply orb_false_iff in Hex. destruct Hex as [Hex Hev]. apply orb_false_iff in Hex. destruct Hex as [Hfin Htemp].
  apply orb_false_iff in Htemp. destruct Htemp as [Htemp _].
  apply keqb_neq in Hfin. apply keqb_neq in Htemp.
  destruct (in_dec key_eq_dec k (block_keys b)) as [Hin|Hnin].
  - rewrite (Hfresh k Hin). apply fapply_deleted.
    + rewrite remove_block_keys. apply in_app_iff. auto.
    + intros ov Hov. eapply remove_block_deletes; eauto.
  - apply fapply_untouched.
    + intros Hin. apply save_block_keys in Hin. destruct Hin as [Hin|[Hin|[Hin|Hin]]]; auto.
      destruct (prune_events_keys _ _ _ _ _ Hs Hin) as (m & Em & Hm). rewrite Em in Hev. congruence.
    + rewrite remove_block_keys. intros Hin. apply in_app_iff in Hin. destruct Hin as [Hin|Hin]; auto.
      destruct st; [|contradiction]. destruct Hin as [E|[]]. congruence.
Qed.

(* a removed block is kept as temp block when requested *)
Theorem temp_block_saved : forall db b, sorted db ->
  lookup (apply_writes (remove_block b true) db) (kTemp (b_height b)) = Some (b_block b).
Proof.
  intros db b Hs. rewrite lookup_apply_writes by auto. unfold remove_block. rewrite !app_assoc. rewrite fapply_app.
  apply fapply_single.
Qed.

(* ------------------------------------------------------------------ the deleteBlock batch inverts the processBlock batch *)
Lemma first_byte_not_state : forall p x, p <> pfxState -> is_prefix [pfxState] (p :: x) = false.
Proof. intros p x H. cbn [is_prefix]. destruct (N.eqb_spec pfxState p); [congruence|reflexivity]. Qed.

Lemma block_keys_not_state : forall b k, In k (block_keys b) -> is_prefix [pfxState] k = false.
Proof.
  intros b k Hin. unfold block_keys in Hin.
  repeat (apply in_app_iff in Hin; destruct Hin as [Hin|Hin]).
  - destruct Hin as [<-|[<-|[]]]; apply first_byte_not_state; discriminate.
  - destruct (b_txs b); [contradiction|]. apply in_app_iff in Hin. destruct Hin as [Hin|[<-|[]]].
    + apply in_map_iff in Hin. destruct Hin as (x & <- & _). apply first_byte_not_state; discriminate.
    + apply first_byte_not_state; discriminate.
  - destruct (b_assets b); [|contradiction]. destruct Hin as [<-|[]]. apply first_byte_not_state; discriminate.
  - destruct Hin as [<-|[]]. apply first_byte_not_state; discriminate.
Qed.

Lemma prefixed_first_byte : forall p k, is_prefix [p] k = true -> exists x, k = p :: x.
Proof. intros p k H. apply is_prefix_spec in H. destruct H as [r ->]. exists r. reflexivity. Qed.

Theorem delete_inverts_apply : forall db c diff_enc prune b events fh rt keep st k,
  sorted db -> wf_db db -> Inv db c -> cache_pref [pfxState] c ->
  fresh db (kDiff (b_height b) :: block_keys b) ->
  exception (ev_bound fh (b_height b) keep) prune [b_height b] k = false ->
  lookup (apply_writes (delete_batch (diff_of c) b st)
           (apply_writes (apply_batch db c diff_enc prune b events fh rt keep) db)) k = lookup db k.
Proof.
  intros db c diff_enc prune b events fh rt keep st k Hs Hw HI Hpref Hfresh Hex.
  rewrite lookup_apply_writes by auto using apply_writes_sorted.
  rewrite (fapply_ext _ _ _ (fun k0 => lookup_apply_writes _ db k0 Hs)).
  unfold apply_batch, delete_batch.
  set (rest1 := [(kDiff (b_height b), Some diff_enc)] ++ prune_diffs db prune ++ save_block db b events fh rt keep).
  set (rest2 := [(kDiff (b_height b), @None val)] ++ remove_block b st).
  (* the consensus-store writes only touch state keys *)
  assert (Hcw : forall k0, In k0 (map fst (commit_writes c)) -> is_prefix [pfxState] k0 = true).
  { intros k0 Hin. apply in_map_iff in Hin. destruct Hin as (w & <- & Hin). unfold commit_writes in Hin.
    apply in_flat_map in Hin. destruct Hin as (ke & Hke & Hin). rewrite (write_of_keys _ _ Hin). apply Hpref; auto. }
  assert (Hrw : forall k0, In k0 (map fst (revert_writes (diff_of c))) -> is_prefix [pfxState] k0 = true).
  { intros k0 Hin. apply in_map_iff in Hin. destruct Hin as ([k1 ov] & Ek & Hin). simpl in Ek. subst k1.
    apply in_revert_writes in Hin. destruct Hin as (e & Hc & _). apply (Hpref _ Hc). }
  (* the block part never touches state keys *)
  assert (Hr1 : forall k0, In k0 (map fst rest1) -> is_prefix [pfxState] k0 = false).
  { intros k0 Hin. unfold rest1 in Hin. rewrite !map_app in Hin. apply in_app_iff in Hin. destruct Hin as [[<-|[]]|Hin].
    - apply first_byte_not_state; discriminate.
    - apply in_app_iff in Hin. destruct Hin as [Hin|Hin].
      + destruct (prune_diffs_keys _ _ _ Hw Hin) as (m & _ & Hm). apply andb_true_iff in Hm. destruct Hm as [Hm _].
        destruct (prefixed_first_byte _ _ Hm) as [x ->]. apply first_byte_not_state; discriminate.
      + apply save_block_keys in Hin. destruct Hin as [Hin|[->|[Hin| ->]]].
        * eapply block_keys_not_state; eauto.
        * reflexivity.
        * destruct (prune_events_keys _ _ _ _ _ Hs Hin) as (m & _ & Hm). apply andb_true_iff in Hm. destruct Hm as [H1 H2].
          pose proof (between_prefix [pfxBlockHeightToEvents] (u32be 0) (u32be m) k0 H1 H2) as Hp.
          destruct (prefixed_first_byte _ _ Hp) as [x ->]. apply first_byte_not_state; discriminate.
        * apply first_byte_not_state; discriminate. }
  assert (Hr2 : forall k0, In k0 (map fst rest2) -> is_prefix [pfxState] k0 = false).
  { intros k0 Hin. unfold rest2 in Hin. rewrite map_app in Hin. apply in_app_iff in Hin. destruct Hin as [[<-|[]]|Hin].
    - apply first_byte_not_state; discriminate.
    - rewrite remove_block_keys in Hin. apply in_app_iff in Hin. destruct Hin as [Hin|Hin].
      + eapply block_keys_not_state; eauto.
      + destruct st; [|contradiction]. destruct Hin as [<-|[]]. apply first_byte_not_state; discriminate. }
  rewrite !fapply_app.
  destruct (is_prefix [pfxState] k) eqn:Hk.
  - (* a consensus-store key: only Commit and RevertDiff matter *)
    assert (N1 : ~ In k (map fst rest1)) by (intros H; apply Hr1 in H; congruence).
    assert (N2 : ~ In k (map fst rest2)) by (intros H; apply Hr2 in H; congruence).
    rewrite (fapply_notin rest2) by auto.
    rewrite (fapply_local _ _ (fapply (commit_writes c) (lookup db)) k) by (apply fapply_notin; auto).
    apply revert_pointwise; auto.
  - (* a chain key: only the block part matters *)
    assert (N1 : ~ In k (map fst (commit_writes c))) by (intros H; apply Hcw in H; congruence).
    assert (N2 : ~ In k (map fst (revert_writes (diff_of c)))) by (intros H; apply Hrw in H; congruence).
    rewrite (fapply_local rest2 _ (fapply rest1 (fapply (commit_writes c) (lookup db))) k) by (apply fapply_notin; auto).
    rewrite (fapply_local rest2 _ (fapply rest1 (lookup db)) k)
      by (apply fapply_local; apply fapply_notin; auto).
    unfold exception in Hex.
    apply orb_false_iff in Hex. destruct Hex as [Hex Hdf]. apply orb_false_iff in Hex. destruct Hex as [Hex Hev].
    apply orb_false_iff in Hex. destruct Hex as [Hfin Htemp]. simpl in Htemp. rewrite orb_false_r in Htemp.
    apply keqb_neq in Hfin. apply keqb_neq in Htemp.
    destruct (in_dec key_eq_dec k (kDiff (b_height b) :: block_keys b)) as [Hin|Hnin].
    + rewrite (Hfresh k Hin). apply fapply_deleted.
      * unfold rest2. change (map fst ([(kDiff (b_height b), @None val)] ++ remove_block b st))
          with (kDiff (b_height b) :: map fst (remove_block b st)).
        rewrite remove_block_keys. destruct Hin as [<-|Hin]; [left; auto|].
        right. apply in_app_iff. auto.
      * intros ov Hov. unfold rest2 in Hov. apply in_app_iff in Hov. destruct Hov as [[E|[]]|Hov]; [inversion E; auto|].
        eapply remove_block_deletes; eauto.
    + apply fapply_untouched.
      * intros Hin. apply Hnin. unfold rest1 in Hin. rewrite !map_app in Hin. apply in_app_iff in Hin.
        destruct Hin as [[<-|[]]|Hin]; [left; auto|]. apply in_app_iff in Hin. destruct Hin as [Hin|Hin].
        -- exfalso. destruct (prune_diffs_keys _ _ _ Hw Hin) as (m & -> & Hm). congruence.
        -- apply save_block_keys in Hin. destruct Hin as [Hin|[Hin|[Hin|Hin]]]; [right; auto|congruence| |congruence].
           exfalso. destruct (prune_events_keys _ _ _ _ _ Hs Hin) as (m & Em & Hm). rewrite Em in Hev. congruence.
      * intros Hin. apply Hnin. unfold rest2 in Hin. rewrite map_app in Hin. apply in_app_iff in Hin.
        destruct Hin as [[<-|[]]|Hin]; [left; auto|]. rewrite remove_block_keys in Hin. apply in_app_iff in Hin.
        destruct Hin as [Hin|Hin]; [right; auto|]. destruct st; [|contradiction]. destruct Hin as [E|[]]. congruence.
Qed.

(* ------------------------------------------------------------------ reorg confluence at batch level:
   two databases that agree outside a set of keys still agree outside it after the same batch *)
Theorem same_batch_preserves_agreement : forall (W : list wr) db1 db2 (E : key -> bool), sorted db1 -> sorted db2 ->
  (forall k, E k = false -> lookup db1 k = lookup db2 k) ->
  forall k, E k = false -> lookup (apply_writes W db1) k = lookup (apply_writes W db2) k.
Proof.
  intros W db1 db2 E H1 H2 Hag k Hk. rewrite !lookup_apply_writes by auto. apply fapply_local. auto.
Qed.

(* ------------------------------------------------------------------ cached tip = database tip
   chain = the (height, id) list of the blocks in the database, newest first; the cache is a non-empty prefix of
   it.  RemoveBlock (repaired) reloads the tip from the database when the cache runs empty. *)
Definition bc_remove (c : bcache) (chain_after : bcache) : bcache :=
  match bc_pop c with
  | [] => match chain_after with x :: _ => [x] | [] => [] end
  | c' => c'
  end.

Fixpoint is_list_prefix (a b : bcache) : Prop :=
  match a, b with
  | [], _ => True
  | x :: a', y :: b' => x = y /\ is_list_prefix a' b'
  | _ :: _, [] => False
  end.

Definition cache_ok (c chain : bcache) : Prop := is_list_prefix c chain /\ (chain <> [] -> c <> []).

Lemma prefix_removelast : forall a b, is_list_prefix a b -> is_list_prefix (removelast a) b.
Proof.
  induction a as [|x a IH]; intros b H; simpl; auto. destruct b as [|y b]; [contradiction|]. destruct H as [-> H].
  destruct a as [|x' a']; [exact I|]. split; [reflexivity|]. apply IH. exact H.
Qed.

Theorem cached_tip_after_add : forall maxSize c chain h id c',
  cache_ok c chain -> bc_push maxSize c h id = Some c' -> cache_ok c' ((h, id) :: chain) /\ bc_last c' = Some (h, id).
Proof.
  intros maxSize c chain h id c' [Hp Hne] Hpush. unfold bc_push in Hpush. destruct c as [|[h0 i0] t].
  - inversion Hpush; subst. split; [split; [simpl; auto|discriminate]|reflexivity].
  - destruct (negb (h =? h0 + 1)); [discriminate|].
    remember ((h0, i0) :: t) as c0 eqn:Ec0.
    injection Hpush as <-. split; [|reflexivity]. split; [|discriminate].
    change ((h, id) = (h, id) /\ is_list_prefix (if Nat.leb maxSize (length c0) then removelast c0 else c0) chain).
    split; [reflexivity|]. destruct (Nat.leb maxSize (length c0)); [apply prefix_removelast|]; exact Hp.
Qed.

Theorem cached_tip_after_remove : forall c chain x,
  cache_ok c (x :: chain) -> cache_ok (bc_remove c chain) chain /\ bc_last (bc_remove c chain) = hd_error chain.
Proof.
  intros c chain x [Hp Hne]. destruct c as [|y c']; [exfalso; apply Hne; [discriminate|reflexivity]|].
  simpl in Hp. destruct Hp as [-> Hp]. unfold bc_remove, bc_pop. simpl.
  destruct c' as [|z c''].
  - destruct chain as [|w chain']; simpl.
    + split; [split; [exact I|auto]|reflexivity].
    + split; [split; [simpl; auto|discriminate]|reflexivity].
  - destruct chain as [|w chain']; [contradiction|]. simpl in Hp. destruct Hp as [-> Hp].
    split; [split; [simpl; auto|discriminate]|reflexivity].
Qed.

(* the unrepaired pop alone loses the tip: cache of one block over a chain of two *)
Example pop_without_refill_loses_tip :
  exists c chain x, cache_ok c (x :: chain) /\ chain <> [] /\ bc_last (bc_pop c) = None.
Proof.
  exists [(2, [2])], [(1, [1])], (2, [2]). split; [split; [simpl; auto|discriminate]|]. split; [discriminate|reflexivity].
Qed.

(* ------------------------------------------------------------------ PrepareCache (restart): the cache is rebuilt
   as the newest maxSize blocks of the chain, so the cached tip is the database tip again *)
Fixpoint contig (c : bcache) : Prop :=
  match c with
  | (h, _) :: (((h', _) :: _) as t) => h = h' + 1 /\ contig t
  | _ => True
  end.

Lemma contig_tail : forall x c, contig (x :: c) -> contig c.
Proof. intros [h i] [|[h' i'] t]; simpl; tauto. Qed.

Lemma prefix_firstn : forall n (l : bcache), is_list_prefix (firstn n l) l.
Proof. induction n as [|n IH]; intros [|x l]; simpl; auto. Qed.

Lemma push_fold : forall maxSize m p, (1 <= maxSize)%nat -> contig (rev (p ++ m)) ->
  fold_left (fun c x => match c with Some c' => bc_push maxSize c' (fst x) (snd x) | None => None end) m
            (Some (firstn maxSize (rev p))) = Some (firstn maxSize (rev (p ++ m))).
Proof.
  intros maxSize m. induction m as [|[h i] m IH]; intros p Hm Hc.
  - rewrite app_nil_r. reflexivity.
  - simpl fold_left.
    assert (Hstep : bc_push maxSize (firstn maxSize (rev p)) h i = Some (firstn maxSize (rev (p ++ [(h, i)])))).
    { rewrite rev_app_distr. simpl rev. simpl app.
      assert (Hc' : contig ((h, i) :: rev p)).
      { replace (p ++ (h, i) :: m) with ((p ++ [(h, i)]) ++ m) in Hc by (rewrite <- app_assoc; reflexivity).
        rewrite rev_app_distr in Hc. rewrite rev_app_distr in Hc. simpl in Hc.
        clear -Hc. induction (rev m) as [|y t IHt]; simpl in *; auto. apply IHt. eapply contig_tail; eauto. }
      unfold bc_push. destruct maxSize as [|n]; [inversion Hm|].
      destruct (rev p) as [|[h0 i0] t] eqn:Er.
      - rewrite firstn_nil. simpl. rewrite firstn_nil. reflexivity.
      - simpl firstn at 1. simpl in Hc'. destruct Hc' as [Hh _]. subst h. rewrite N.eqb_refl. simpl negb. cbv iota.
        change (firstn (S n) ((h0 + 1, i) :: (h0, i0) :: t)) with ((h0 + 1, i) :: firstn n ((h0, i0) :: t)).
        f_equal. f_equal.
        change ((h0, i0) :: firstn n t) with (firstn (S n) ((h0, i0) :: t)).
        remember ((h0, i0) :: t) as l0 eqn:El0.
        destruct (Nat.leb (S n) (length (firstn (S n) l0))) eqn:El.
        + apply Nat.leb_le in El. rewrite firstn_length in El. apply removelast_firstn. lia.
        + apply Nat.leb_gt in El. rewrite firstn_length in El.
          rewrite (firstn_all2 l0) by lia. rewrite (firstn_all2 (n := n) l0) by lia. reflexivity. }
    rewrite Hstep. replace (p ++ (h, i) :: m) with ((p ++ [(h, i)]) ++ m) by (rewrite <- app_assoc; reflexivity).
    apply IH; auto. rewrite <- app_assoc. exact Hc.
Qed.

Theorem cached_tip_after_prepare : forall maxSize chain, (1 <= maxSize)%nat -> contig chain ->
  exists c, bc_prepare maxSize chain = Some c /\ cache_ok c chain /\ bc_last c = hd_error chain.
Proof.
  intros maxSize chain Hm Hc. unfold bc_prepare.
  set (l := firstn (S maxSize) chain).
  assert (Hl : contig l).
  { unfold l. clear -Hc. revert chain Hc. induction (S maxSize) as [|n IH]; intros [|[h i] t] Hc; simpl; auto.
    destruct t as [|[h' i'] t']; [destruct n; simpl; auto|]. destruct Hc as [E Hc]. destruct n; simpl; auto. split; auto.
    apply (IH ((h', i') :: t')). exact Hc. }
  pose proof (push_fold maxSize (rev l) [] Hm) as H. simpl in H. rewrite rev_involutive in H. specialize (H Hl).
  destruct maxSize as [|n]; [inversion Hm|]. simpl firstn in H at 1.
  exists (firstn (S n) l). split; [exact H|].
  assert (E : firstn (S n) l = firstn (S n) chain).
  { unfold l. rewrite firstn_firstn. f_equal. lia. }
  rewrite E. split; [split|].
  - apply prefix_firstn.
  - destruct chain; [congruence|discriminate].
  - destruct chain; reflexivity.
Qed.
