(* C05 for any number of apply/remove steps: every well-bracketed history of block applications and tip
   deletions (apply B, <any well-bracketed history on top of B>, delete B, ...) ends in a database that agrees
   with the initial one outside the union of the enumerated exceptions of the applied blocks.
   A step reads what the code reads: the apply executes an adaptive program against the consensus store of the
   CURRENT database and assembles the processBlock batch from it; the delete decodes the diff record it finds in
   the CURRENT database. *)
From Coq Require Import List NArith ZArith Bool Lia.
From LE Require Import Base.Lex Store.SMap Store.PebbleIter Store.PebbleIterProofs Store.DiffDB Store.DiffDBProofs
  Store.DiffDBScanProofs Store.DiffDBSpec Store.DiffDBRefine Store.Diff Chain.BlockStore Chain.BlockStoreProofs Chain.Reorg.
Import ListNotations.
Local Open Scope N_scope.

Section History.
  Variable encode : diff -> val.
  Variable decode : val -> option diff.
  Hypothesis roundtrip : forall d, decode (encode d) = Some d.
  Variable keep : Z.

  Record apply_in := {
    a_prog : prog; a_fuel : nat; a_blk : blk; a_events : option val; a_fh : N; a_rt : bool; a_prune : option N }.

  Definition staged (a : apply_in) (db : smap) : cache :=
    d_cache (fst (run_prog (a_fuel a) db (init_state [pfxState]) (a_prog a) [])).

  Definition do_apply (a : apply_in) (db : smap) : smap :=
    let c := staged a db in
    apply_writes (apply_batch db c (encode (diff_of c)) (a_prune a) (a_blk a) (a_events a) (a_fh a) (a_rt a) keep) db.

  (* None = "database key for diff stored with height h does not exist" / decode error *)
  Definition do_delete (b : blk) (st : bool) (db : smap) : option smap :=
    match lookup db (kDiff (b_height b)) with
    | None => None
    | Some enc => match decode enc with
                  | None => None
                  | Some df => Some (apply_writes (delete_batch df b st) db)
                  end
    end.

  Inductive hist :=
  | HNil
  | HSpan (a : apply_in) (inner : hist) (st : bool) (rest : hist).

  Fixpoint run_hist (h : hist) (db : smap) : option smap :=
    match h with
    | HNil => Some db
    | HSpan a inner st rest =>
        match run_hist inner (do_apply a db) with
        | None => None
        | Some d1 => match do_delete (a_blk a) st d1 with
                     | None => None
                     | Some d2 => run_hist rest d2
                     end
        end
    end.

  Definition exc_apply (a : apply_in) : key -> bool :=
    exception (ev_bound (a_fh a) (b_height (a_blk a)) keep) (a_prune a) [b_height (a_blk a)].

  Fixpoint exc_hist (h : hist) (k : key) : bool :=
    match h with
    | HNil => false
    | HSpan a inner st rest => exc_apply a k || exc_hist inner k || exc_hist rest k
    end.

  (* side conditions, checked along the run: byte-string keys, fresh ids at every apply, well-formed programs, and
     the diff record of a block is not pruned by the history on top of it (= the block is not finalized meanwhile) *)
  Fixpoint hist_ok (h : hist) (db : smap) : Prop :=
    match h with
    | HNil => True
    | HSpan a inner st rest =>
        wf_db db /\ prog_wf (a_prog a) /\
        fresh db (kDiff (b_height (a_blk a)) :: block_keys (a_blk a)) /\
        exc_hist inner (kDiff (b_height (a_blk a))) = false /\
        hist_ok inner (do_apply a db) /\
        forall d1 d2, run_hist inner (do_apply a db) = Some d1 -> do_delete (a_blk a) st d1 = Some d2 -> hist_ok rest d2
    end.

  Lemma kDiff_not_block_key : forall b h, ~ In (kDiff h) (block_keys b).
  Proof.
    intros b h H. unfold block_keys in H. repeat (apply in_app_iff in H; destruct H as [H|H]).
    - destruct H as [H|[H|[]]]; cbv [kHeader kHeight kDiff pfxBlockIDToBlockHeader pfxBlockHeightToBlockID pfxStateDiff] in H; discriminate H.
    - destruct (b_txs b); [contradiction|]. apply in_app_iff in H. destruct H as [H|[H|[]]].
      + apply in_map_iff in H. destruct H as (x & H & _). cbv [kTx kDiff pfxTxIDToTx pfxStateDiff] in H. discriminate H.
      + cbv [kTxs kDiff pfxBlockIDToTxs pfxStateDiff] in H. discriminate H.
    - destruct (b_assets b); [|contradiction]. destruct H as [H|[]]. cbv [kAssets kDiff pfxBlockIDToAssets pfxStateDiff] in H. discriminate H.
    - destruct H as [H|[]]. cbv [kEvents kDiff pfxBlockHeightToEvents pfxStateDiff] in H. discriminate H.
  Qed.

  (* the diff record written by the apply batch is the encoded diff (nothing later in the batch addresses it) *)
  Lemma apply_batch_diff_record : forall db c enc prune b events fh rt, sorted db -> wf_db db ->
    lookup db (kDiff (b_height b)) = None ->
    fapply (apply_batch db c enc prune b events fh rt keep) (lookup db) (kDiff (b_height b)) = Some enc.
  Proof.
    intros db c enc prune b events fh rt Hs Hw Hfr. unfold apply_batch. rewrite fapply_app.
    set (rest1 := prune_diffs db prune ++ save_block db b events fh rt keep).
    rewrite (fapply_app [(kDiff (b_height b), Some enc)] rest1). rewrite (fapply_notin rest1).
    - apply fapply_single.
    - intros Hin0. unfold rest1 in Hin0. rewrite map_app in Hin0. apply in_app_iff in Hin0. destruct Hin0 as [Hin0|Hin0].
      + (* a pruned diff key exists in db, kDiff h does not *)
        unfold prune_diffs in Hin0. destruct prune as [m|]; [|contradiction].
        apply in_map_iff in Hin0. destruct Hin0 as ([k1 ov] & Ek & Hin0).
        simpl in Ek. subst k1. apply in_flat_map in Hin0. destruct Hin0 as (k2 & Hk2 & Hin0).
        destruct (u32_of (tl k2) <? m); [|contradiction]. destruct Hin0 as [E0|[]]. inversion E0; subst k2.
        unfold iterate_key in Hk2. apply in_map_iff in Hk2. destruct Hk2 as ([kx vx] & Ex & Hx). simpl in Ex. subst kx.
        rewrite iterate_prefix_exact in Hx by (try assumption; repeat constructor).
        unfold prefix_spec, eff_limit in Hx. simpl in Hx. apply filter_In in Hx. destruct Hx as [Hx _].
        rewrite (in_lookup _ _ _ Hs Hx) in Hfr. discriminate.
      + apply save_block_keys in Hin0. destruct Hin0 as [Hin0|[Hin0|[Hin0|Hin0]]].
        * eapply kDiff_not_block_key; eauto.
        * cbv [kDiff kFinalized pfxStateDiff pfxFinalizedHeight] in Hin0. discriminate Hin0.
        * destruct (prune_events_keys _ _ _ _ _ Hs Hin0) as (m & _ & Hm). apply andb_true_iff in Hm. destruct Hm as [A B].
          pose proof (between_prefix [pfxBlockHeightToEvents] (u32be 0) (u32be m) _ A B) as Hp0.
          cbv [kDiff is_prefix pfxBlockHeightToEvents pfxStateDiff] in Hp0. simpl in Hp0. discriminate.
        * cbv [kDiff kTemp pfxStateDiff pfxTemp] in Hin0. discriminate Hin0.
  Qed.

  Lemma do_apply_sorted : forall a db, sorted db -> sorted (do_apply a db).
  Proof. intros. unfold do_apply. apply apply_writes_sorted; auto. Qed.

  Lemma run_hist_sorted : forall h db db', sorted db -> run_hist h db = Some db' -> sorted db'.
  Proof.
    induction h as [|a inner IHi st rest IHr]; intros db db' Hs Hrun; simpl in Hrun.
    - inversion Hrun; subst; auto.
    - destruct (run_hist inner (do_apply a db)) as [d1|] eqn:E1; [|discriminate].
      pose proof (IHi _ _ (do_apply_sorted a db Hs) E1) as Hs1.
      destruct (do_delete (a_blk a) st d1) as [d2|] eqn:E2; [|discriminate].
      unfold do_delete in E2. destruct (lookup d1 (kDiff (b_height (a_blk a)))); [|discriminate].
      destruct (decode v); [|discriminate]. inversion E2; subst. eapply IHr; [|exact Hrun]. apply apply_writes_sorted; auto.
  Qed.

  Lemma staged_ok : forall a db, sorted db -> wf_db db -> prog_wf (a_prog a) ->
    Inv db (staged a db) /\ cache_pref [pfxState] (staged a db).
  Proof.
    intros a db Hs Hw Hp. assert (Hroot : wf_key [pfxState]) by repeat constructor. split.
    - destruct (run_prog_refines (a_fuel a) db (a_prog a) (init_state [pfxState]) (spec_init db [pfxState]) [] Hs Hw Hp
                  (R_init db _ Hs Hroot)) as [_ [(I & _) _]]. exact I.
    - apply (run_prog_pref (a_fuel a) db [pfxState] (a_prog a) (init_state [pfxState]) []); auto.
      + simpl. intros vw [<-|[]]. exact Hroot.
      + split; simpl; [intros ? []|]. intros vw [<-|[]]. split; simpl; [reflexivity|intros ? []].
  Qed.

  Theorem history_restores : forall h db db', sorted db -> hist_ok h db -> run_hist h db = Some db' ->
    forall k, exc_hist h k = false -> lookup db' k = lookup db k.
  Proof.
    induction h as [|a inner IHi st rest IHr]; intros db db' Hs Hok Hrun k Hk; simpl in *.
    - inversion Hrun; subst; reflexivity.
    - destruct Hok as (Hw & Hp & Hfresh & Hdk & Hoki & Hokr).
      apply orb_false_iff in Hk. destruct Hk as [Hk Hkr]. apply orb_false_iff in Hk. destruct Hk as [Hka Hki].
      set (db1 := do_apply a db) in *.
      assert (Hs1 : sorted db1) by (apply do_apply_sorted; auto).
      destruct (run_hist inner db1) as [d1|] eqn:E1; [|discriminate].
      pose proof (run_hist_sorted _ _ _ Hs1 E1) as Hsd1.
      destruct (do_delete (a_blk a) st d1) as [d2|] eqn:E2; [|discriminate].
      specialize (Hokr d1 d2 eq_refl E2).
      (* the history on top of B left B's records alone *)
      assert (Hin : forall k0, exc_hist inner k0 = false -> lookup d1 k0 = lookup db1 k0) by (intros; eapply IHi; eauto).
      destruct (staged_ok a db Hs Hw Hp) as [HI Hpref].
      (* the diff record found by the delete is the one written by the apply *)
      assert (Hrec : lookup db1 (kDiff (b_height (a_blk a))) = Some (encode (diff_of (staged a db)))).
      { unfold db1, do_apply. rewrite lookup_apply_writes by auto. apply apply_batch_diff_record; auto.
        apply (Hfresh _ (or_introl eq_refl)). }
      assert (Hd2 : d2 = apply_writes (delete_batch (diff_of (staged a db)) (a_blk a) st) d1).
      { unfold do_delete in E2. rewrite (Hin _ Hdk), Hrec, roundtrip in E2. inversion E2. reflexivity. }
      set (db2 := apply_writes (delete_batch (diff_of (staged a db)) (a_blk a) st) db1).
      assert (Hs2 : sorted d2) by (subst d2; apply apply_writes_sorted; auto).
      (* d2 vs db2: same batch on databases that agree outside the inner exceptions *)
      assert (H12 : lookup d2 k = lookup db2 k).
      { subst d2. unfold db2. apply (same_batch_preserves_agreement _ d1 db1 (exc_hist inner)); auto. }
      (* db2 vs db: the delete batch inverts the apply batch *)
      assert (H20 : lookup db2 k = lookup db k).
      { unfold db2, db1, do_apply. apply delete_inverts_apply; auto. }
      rewrite (IHr d2 db' Hs2 Hokr Hrun k Hkr). congruence.
  Qed.
End History.
