(* pkg/blockchain data_access.go saveBlock / removeBlock as batches of writes over the sorted-map database,
   chain.go AddBlock / RemoveBlock (write the batch), and the batches assembled around them by
   pkg/consensus/execute.go: processBlock (Commit of the consensus store, state diff record, pruning of
   finalized diffs, saveBlock) and deleteBlock (RevertDiff, delete the diff record, removeBlock).
   Encoded headers, transactions, assets, events, blocks and diffs are opaque byte strings (inputs). *)
From Coq Require Import List NArith ZArith Bool.
From LE Require Import Base.Lex Store.SMap Store.PebbleIter Store.DiffDB.
Import ListNotations.
Local Open Scope N_scope.

(* DBPrefix constants of data_access.go *)
Definition pfxBlockIDToBlockHeader : N := 3.
Definition pfxBlockHeightToBlockID : N := 4.
Definition pfxBlockIDToTxs : N := 5.
Definition pfxTxIDToTx : N := 6.
Definition pfxTemp : N := 7.
Definition pfxBlockIDToAssets : N := 8.
Definition pfxBlockHeightToEvents : N := 9.
Definition pfxFinalizedHeight : N := 27.
Definition pfxState : N := 10.
Definition pfxStateDiff : N := 51.

(* bytes.FromUint32 (big endian) / bytes.ToUint32 *)
Definition u32be (n : N) : key := [n / 16777216 mod 256; n / 65536 mod 256; n / 256 mod 256; n mod 256].
Definition u32_of (l : key) : N := fold_left (fun a b => a * 256 + b) l 0.

Record blk := {
  b_id : key;                    (* header ID, 32 bytes *)
  b_height : N;
  b_header : val;                (* Header.Encode() *)
  b_txs : list (key * val);      (* (tx.ID, tx.Encode()) *)
  b_assets : option val;         (* encodableListToBytes(Assets) when len(Assets) > 0 *)
  b_block : val                  (* block.Encode() *)
}.

Definition kHeader (b : blk) : key := pfxBlockIDToBlockHeader :: b_id b.
Definition kHeight (h : N) : key := pfxBlockHeightToBlockID :: u32be h.
Definition kTxs (b : blk) : key := pfxBlockIDToTxs :: b_id b.
Definition kTx (id : key) : key := pfxTxIDToTx :: id.
Definition kTemp (h : N) : key := pfxTemp :: u32be h.
Definition kAssets (b : blk) : key := pfxBlockIDToAssets :: b_id b.
Definition kEvents (h : N) : key := pfxBlockHeightToEvents :: u32be h.
Definition kFinalized : key := [pfxFinalizedHeight].
Definition kDiff (h : N) : key := pfxStateDiff :: u32be h.

(* ints.Min(int(finalizedHeight), ints.Max(0, int(height) - keepEventsForHeights)) *)
Definition min_event_delete (fh h : N) (keep : Z) : Z := Z.min (Z.of_N fh) (Z.max 0 (Z.of_N h - keep)).

(* the event records deleted by saveBlock: read from the DATABASE (not the batch) *)
Definition prune_events (db : smap) (fh h : N) (keep : Z) : list wr :=
  if (keep >? -1)%Z then
    let m := min_event_delete fh h keep in
    if (m >? 0)%Z
    then map (fun x => (fst x, @None val)) (iterate_range db (kEvents 0) (kEvents (Z.to_N m)) (-1) false)
    else []
  else [].

Definition save_block (db : smap) (b : blk) (events : option val) (fh : N) (remove_temp : bool) (keep : Z) : list wr :=
  [(kHeader b, Some (b_header b)); (kHeight (b_height b), Some (b_id b))]
  ++ (match b_txs b with
      | [] => []
      | txs => map (fun t => (kTx (fst t), Some (snd t))) txs ++ [(kTxs b, Some (concat (map fst txs)))]
      end)
  ++ (match events with Some ev => [(kEvents (b_height b), Some ev)] | None => [] end)
  ++ (match b_assets b with Some a => [(kAssets b, Some a)] | None => [] end)
  ++ [(kFinalized, Some (u32be fh))]
  ++ prune_events db fh (b_height b) keep
  ++ (if remove_temp then [(kTemp (b_height b), None)] else []).

Definition remove_block (b : blk) (save_temp : bool) : list wr :=
  [(kHeader b, None); (kHeight (b_height b), None)]
  ++ (match b_txs b with
      | [] => []
      | txs => map (fun t => (kTx (fst t), @None val)) txs ++ [(kTxs b, None)]
      end)
  ++ (match b_assets b with Some _ => [(kAssets b, None)] | None => [] end)
  ++ [(kEvents (b_height b), None)]
  ++ (if save_temp then [(kTemp (b_height b), Some (b_block b))] else []).

(* execute.go: delete the diffs of finalized heights (keys read from the database) *)
Definition prune_diffs (db : smap) (bound : option N) : list wr :=
  match bound with
  | None => []
  | Some mhp =>
      flat_map (fun k => if u32_of (tl k) <? mhp then [(k, @None val)] else [])
               (iterate_key db [pfxStateDiff] (-1) false)
  end.

(* processBlock from consensusStore.Commit on: one batch, written atomically by chain.AddBlock *)
Definition apply_batch (db : smap) (c : cache) (diff_enc : val) (prune : option N)
           (b : blk) (events : option val) (fh : N) (remove_temp : bool) (keep : Z) : list wr :=
  commit_writes c ++ [(kDiff (b_height b), Some diff_enc)] ++ prune_diffs db prune
  ++ save_block db b events fh remove_temp keep.

(* deleteBlock: RevertDiff of the decoded stored diff, delete the diff record, removeBlock *)
Definition delete_batch (df : diff) (b : blk) (save_temp : bool) : list wr :=
  revert_writes df ++ [(kDiff (b_height b), None)] ++ remove_block b save_temp.

(* ---- the enumerated exceptions of "deleting the tip restores the previous state" ----
   the finalized-height marker (monotone, never reverted); temp-block records of the heights touched;
   event records pruned by saveBlock (exactly its IterateRange bounds, [ev] = minEventDeleteHeight when > 0);
   diff records of finalized heights pruned by processBlock (heights < [dfb]) *)
Definition exception (ev dfb : option N) (temps : list N) (k : key) : bool :=
  keqb k kFinalized
  || existsb (fun h => keqb k (kTemp h)) temps
  || (match ev with Some m => leb (kEvents 0) k && leb k (kEvents m) | None => false end)
  || (match dfb with Some m => is_prefix [pfxStateDiff] k && (u32_of (tl k) <? m) | None => false end).

(* the exceptions of one apply step, as computed by the code *)
Definition ev_bound (fh h : N) (keep : Z) : option N :=
  if (keep >? -1)%Z && (min_event_delete fh h keep >? 0)%Z then Some (Z.to_N (min_event_delete fh h keep)) else None.

(* ---- block_cache.go: the cached tip (heights only matter here; newest first, at most maxSize) ---- *)
Definition bcache := list (N * key).   (* (height, id), newest first *)
Definition bc_push (maxSize : nat) (c : bcache) (h : N) (id : key) : option bcache :=
  match c with
  | (h0, _) :: _ => if negb (h =? h0 + 1) then None
                    else Some ((h, id) :: (if Nat.leb maxSize (length c) then removelast c else c))
  | [] => Some [(h, id)]
  end.
Definition bc_pop (c : bcache) : bcache := tl c.
Definition bc_last (c : bcache) : option (N * key) := hd_error c.

(* chain.go PrepareCache (repaired: lower bound = genesis height): on an empty cache push the blocks of heights
   max(genesis, tip - maxSize) .. tip in ascending order.  [chain] = (height, id) of the blocks in the database,
   newest first, down to the genesis block. *)
Definition bc_prepare (maxSize : nat) (chain : bcache) : option bcache :=
  fold_left (fun c x => match c with Some c' => bc_push maxSize c' (fst x) (snd x) | None => None end)
            (rev (firstn (S maxSize) chain)) (Some []).
