(* C13 — consistent_b is Consistent on the database denoted by the association list *)
From Coq Require Import List NArith Bool Lia.
From LE Require Import Chain.Crash Chain.CrashProofs Chain.CrashFinite.
Import ListNotations.
Local Open Scope N_scope.

Lemma opt_eqb_eq : forall a b, opt_eqb a b = true <-> a = b.
Proof.
  intros [x|] [y|]; cbn; try (split; [discriminate|intros H; inversion H]); try tauto.
  rewrite N.eqb_eq. split; [intros ->; reflexivity|intros H; now inversion H].
Qed.
Lemma is_some_present : forall l k, is_some (lget l k) = true <-> present (lget l) k.
Proof. intros l k. unfold present. destruct (lget l k); cbn; split; congruence. Qed.

Lemma lget_in : forall l k v, lget l k = Some v -> In (k, v) l.
Proof.
  induction l as [|[k' v'] r IH]; intros k v H; cbn in H; [discriminate|].
  destruct (key_eqb k k') eqn:E.
  - apply key_eqb_true in E. inversion H; subst. now left.
  - right. now apply IH.
Qed.

Lemma in_lget_nodup : forall l k v, NoDup (map fst l) -> In (k, v) l -> lget l k = Some v.
Proof.
  induction l as [|[k' v'] r IH]; intros k v Hn Hi; [contradiction|]. cbn in *. inversion Hn; subst.
  destruct Hi as [Hi|Hi].
  - inversion Hi; subst. now rewrite key_eqb_refl.
  - destruct (key_eqb k k') eqn:E.
    + apply key_eqb_true in E; subst. exfalso. apply H1. apply in_map_iff. exists (k', v). auto.
    + now apply IH.
Qed.

Theorem consistent_b_sound : forall l, consistent_b l = true -> Consistent (lget l).
Proof.
  intros l H. unfold consistent_b in H. apply andb_true_iff in H. destruct H as [Hall Htip].
  rewrite forallb_forall in Hall.
  constructor.
  - intros h id Hi. specialize (Hall _ (lget_in _ _ _ Hi)). unfold entry_ok in Hall; cbn in Hall.
    apply andb_true_iff in Hall. now apply opt_eqb_eq.
  - intros h Hp. unfold present in Hp. destruct (lget l (KIdx (h + 1))) as [id|] eqn:E; [|congruence].
    specialize (Hall _ (lget_in _ _ _ E)). unfold entry_ok in Hall; cbn in Hall.
    apply andb_true_iff in Hall. destruct Hall as [_ Hc].
    destruct (h + 1 =? 0) eqn:E0; [apply N.eqb_eq in E0; lia|].
    replace (h + 1 - 1) with h in Hc by lia. now apply is_some_present.
  - destruct (lget l KTipMark) as [t|]; [|discriminate]. apply andb_true_iff in Htip. destruct Htip as [H1 H2].
    exists t. repeat split; [now apply is_some_present|].
    apply negb_true_iff in H2. destruct (lget l (KIdx (t + 1))); [discriminate|reflexivity].
  - intros h Hp. unfold present in Hp. destruct (lget l (KDiff h)) as [v|] eqn:E; [|congruence].
    specialize (Hall _ (lget_in _ _ _ E)). unfold entry_ok in Hall; cbn in Hall. now apply is_some_present.
Qed.

Theorem consistent_b_complete : forall l, NoDup (map fst l) -> Consistent (lget l) -> consistent_b l = true.
Proof.
  intros l Hn C. unfold consistent_b. apply andb_true_iff. split.
  - apply forallb_forall. intros [k v] Hi. pose proof (in_lget_nodup _ _ _ Hn Hi) as Hg.
    unfold entry_ok; cbn. destruct k; auto.
    + apply andb_true_iff. split.
      * apply opt_eqb_eq. exact (c_index_data _ C _ _ Hg).
      * destruct (h =? 0) eqn:E0; auto. apply N.eqb_neq in E0. apply is_some_present.
        apply (c_contiguous _ C). replace (h - 1 + 1) with h by lia. unfold present. congruence.
    + apply is_some_present. apply (c_diff_block _ C). unfold present. congruence.
  - destruct (c_tip_mark _ C) as [t [Ht [Hp Ha]]]. rewrite Ht. apply andb_true_iff. split.
    + now apply is_some_present.
    + now rewrite Ha.
Qed.

Theorem consistent_b_iff : forall l, NoDup (map fst l) -> (consistent_b l = true <-> Consistent (lget l)).
Proof. intros l Hn. split; [apply consistent_b_sound|now apply consistent_b_complete]. Qed.

Lemma restore_safe_b_ok : forall l h id, restore_safe_b l h id = true <-> RestoreSafe (lget l) h id.
Proof.
  intros l h id. unfold restore_safe_b, RestoreSafe. rewrite orb_true_iff, opt_eqb_eq, is_some_present. tauto.
Qed.

Theorem consistent2_b_sound : forall hbl l, consistent2_b hbl l = true -> Consistent2 (has_body_in hbl) (lget l).
Proof.
  intros hbl l H. unfold consistent2_b in H. apply andb_true_iff in H. destruct H as [H Hbody].
  apply andb_true_iff in H. destruct H as [Hbase Hfin].
  destruct (lget l KFin) as [f|] eqn:Ef; [|discriminate]. destruct (lget l KTipMark) as [t|] eqn:Et; [|discriminate].
  apply andb_true_iff in Hfin. destruct Hfin as [Hle Hd]. apply N.leb_le in Hle. rewrite forallb_forall in Hd, Hbody.
  constructor.
  - now apply consistent_b_sound.
  - exists f, t. auto.
  - intros f' t' h Hf' Ht' Hlt Hhle. assert (f' = f) by congruence. assert (t' = t) by congruence. subst.
    apply is_some_present. specialize (Hd (N.to_nat (h - f - 1))).
    replace (f + 1 + N.of_nat (N.to_nat (h - f - 1))) with h in Hd by lia.
    apply Hd. apply in_seq. lia.
  - intros h id Hi Hb. specialize (Hbody _ (lget_in _ _ _ Hi)). cbn in Hbody. rewrite Hb in Hbody. now apply is_some_present.
Qed.
