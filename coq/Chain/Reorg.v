(* C05, reorg confluence: apply B, delete B, apply B' ends (outside the exceptions of B) in the same database as
   applying B' directly, and B' observes the same reads on the way.  The execution of a block against the consensus
   store is ADAPTIVE: a program maps the results obtained so far to the next staged operation.
   Steps: (A) every specification operation depends only on the root-prefixed part of the map;
          (B) program-driven runs refine the specification (from step_refines);
          (C) the processBlock batch depends, key by key, only on the database at that key. *)
From Coq Require Import List NArith ZArith Bool Lia.
From LE Require Import Base.Lex Store.SMap Store.PebbleIter Store.PebbleIterProofs Store.DiffDB Store.DiffDBProofs
  Store.DiffDBScanProofs Store.DiffDBSpec Store.DiffDBRefine Store.Diff Chain.BlockStore Chain.BlockStoreProofs.
Import ListNotations.
Local Open Scope N_scope.

(* ------------------------------------------------------------------ (A) specification depends on prefixed keys only *)
Definition agreeP (root : key) (m1 m2 : smap) : Prop :=
  forall k, is_prefix root k = true -> lookup m1 k = lookup m2 k.

Lemma filter_agree : forall (g : key -> bool) m1 m2, sorted m1 -> sorted m2 ->
  (forall k, g k = true -> lookup m1 k = lookup m2 k) ->
  filter (fun x => g (fst x)) m1 = filter (fun x => g (fst x)) m2.
Proof.
  intros g m1 m2 H1 H2 Hag. apply (ssorted_unique ltb ltb_trans ltb_irrefl); try (apply ssorted_filter; assumption).
  intros [k v]. rewrite !filter_In. simpl. split; intros [Hin Hg]; split; auto; apply lookup_in.
  - rewrite <- Hag by auto. apply in_lookup; auto.
  - rewrite Hag by auto. apply in_lookup; auto.
Qed.

Definition ssnap_rel (root : key) (a b : N * smap) : Prop :=
  fst a = fst b /\ sorted (snd a) /\ sorted (snd b) /\ agreeP root (snd a) (snd b).
Definition sview_rel (root : key) (v1 v2 : sview) : Prop :=
  sv_prefix v1 = sv_prefix v2 /\ is_prefix root (sv_prefix v1) = true /\ sv_count v1 = sv_count v2 /\
  Forall2 (ssnap_rel root) (sv_snaps v1) (sv_snaps v2).
Definition SR (root : key) (s1 s2 : sstate) : Prop :=
  sorted (s_map s1) /\ sorted (s_map s2) /\ agreeP root (s_map s1) (s_map s2) /\
  Forall2 (sview_rel root) (s_views s1) (s_views s2).

Lemma ssnap_get_rel : forall root l1 l2 id, Forall2 (ssnap_rel root) l1 l2 ->
  match snap_get l1 id, snap_get l2 id with
  | Some a, Some b => sorted a /\ sorted b /\ agreeP root a b
  | None, None => True
  | _, _ => False
  end.
Proof.
  intros root l1 l2 id H. induction H as [|[i a] [j b] l1 l2 [E Hr] H IH]; simpl; auto.
  simpl in E. subst j. destruct (i =? id)%N; auto.
Qed.

Lemma ssnap_del_rel : forall root l1 l2 id, Forall2 (ssnap_rel root) l1 l2 ->
  Forall2 (ssnap_rel root) (snap_del l1 id) (snap_del l2 id).
Proof.
  intros root l1 l2 id H. induction H as [|[i a] [j b] l1 l2 [E Hr] H IH]; simpl; auto.
  simpl in E. subst j. destruct (i =? id)%N; auto. constructor; auto. split; auto.
Qed.

Lemma SR_intro : forall root m1 m2 v1 v2, sorted m1 -> sorted m2 -> agreeP root m1 m2 ->
  Forall2 (sview_rel root) v1 v2 -> SR root {| s_map := m1; s_views := v1 |} {| s_map := m2; s_views := v2 |}.
Proof. intros. repeat split; assumption. Qed.

Theorem spec_step_agree : forall root s1 s2 o, SR root s1 s2 ->
  snd (spec_step s1 o) = snd (spec_step s2 o) /\ SR root (fst (spec_step s1 o)) (fst (spec_step s2 o)).
Proof.
  intros root [m1 views1] [m2 views2] o (Hs1 & Hs2 & Hag & Hv). simpl in *.
  assert (HR0 : SR root {| s_map := m1; s_views := views1 |} {| s_map := m2; s_views := views2 |}) by (apply SR_intro; auto).
  assert (Hnth : forall i, match nth_error views1 i, nth_error views2 i with
                           | Some a, Some b => sview_rel root a b | None, None => True | _, _ => False end)
    by (intros; apply Forall2_nth_error; auto).
  destruct o as [i k|i k|i k x|i k|i s0 e limit reverse|i p limit reverse|i|i id|i id|i p]; simpl;
    specialize (Hnth i); destruct (nth_error views1 i) as [w1|] eqn:E1; destruct (nth_error views2 i) as [w2|] eqn:E2;
    try contradiction; try (split; [reflexivity|exact HR0]);
    destruct Hnth as (Epfx & Hp & Ecnt & Hsn); rewrite <- ?Epfx.
  - split; [|exact HR0]. rewrite Hag; [reflexivity|apply is_prefix_app_r; auto].
  - split; [|exact HR0]. rewrite Hag; [reflexivity|apply is_prefix_app_r; auto].
  - split; [reflexivity|]. apply SR_intro; auto using insert_sorted.
    intros k0 Hk0. rewrite !lookup_insert. destruct (keqb k0 (sv_prefix w1 ++ k)); auto.
  - split; [reflexivity|]. apply SR_intro; auto using remove_sorted.
    intros k0 Hk0. rewrite !lookup_remove by auto. destruct (keqb k0 (sv_prefix w1 ++ k)); auto.
  - split; [|exact HR0]. unfold spec_range.
    assert (Hf : filter (fun x => leb (sv_prefix w1 ++ s0) (fst x) && leb (fst x) (sv_prefix w1 ++ e)) m1 =
                 filter (fun x => leb (sv_prefix w1 ++ s0) (fst x) && leb (fst x) (sv_prefix w1 ++ e)) m2).
    { apply (filter_agree (fun k0 => leb (sv_prefix w1 ++ s0) k0 && leb k0 (sv_prefix w1 ++ e))); auto.
      intros k0 Hk0. apply Hag. apply andb_true_iff in Hk0. destruct Hk0 as [A B].
      pose proof (between_prefix _ _ _ _ A B) as Hpp. apply is_prefix_spec in Hpp. destruct Hpp as [r ->].
      apply is_prefix_app_r; auto. }
    rewrite Hf. reflexivity.
  - split; [|exact HR0]. unfold spec_iterate.
    assert (Hf : filter (fun x => is_prefix (sv_prefix w1 ++ p) (fst x)) m1 =
                 filter (fun x => is_prefix (sv_prefix w1 ++ p) (fst x)) m2).
    { apply (filter_agree (fun k0 => is_prefix (sv_prefix w1 ++ p) k0)); auto.
      intros k0 Hk0. apply Hag. apply is_prefix_spec in Hk0. destruct Hk0 as [r ->]. rewrite <- app_assoc.
      apply is_prefix_app_r; auto. }
    rewrite Hf. reflexivity.
  - split; [rewrite Ecnt; reflexivity|]. apply SR_intro; auto. apply Forall2_set_nth; auto.
    split; [reflexivity|]. split; [exact Hp|]. split; [simpl; rewrite Ecnt; reflexivity|]. simpl. unfold snap_put.
    constructor; [split; [exact Ecnt|split; [exact Hs1|split; [exact Hs2|exact Hag]]]|].
    rewrite Ecnt. apply ssnap_del_rel; auto.
  - pose proof (ssnap_get_rel root (sv_snaps w1) (sv_snaps w2) id Hsn) as Hg.
    destruct (snap_get (sv_snaps w1) id) as [a|]; destruct (snap_get (sv_snaps w2) id) as [b|]; try contradiction; simpl.
    + split; [reflexivity|]. destruct Hg as (G1 & G2 & G3). apply SR_intro; auto. apply Forall2_set_nth; auto.
      split; [reflexivity|]. split; [exact Hp|]. split; [exact Ecnt|]. apply ssnap_del_rel; auto.
    + split; [reflexivity|exact HR0].
  - split; [reflexivity|]. apply SR_intro; auto. apply Forall2_set_nth; auto.
    split; [reflexivity|]. split; [exact Hp|]. split; [exact Ecnt|]. apply ssnap_del_rel; auto.
  - split; [reflexivity|]. apply SR_intro; auto. apply Forall2_app; auto. constructor; [|constructor].
    split; [reflexivity|]. split; [simpl; apply is_prefix_app_r; auto|]. split; [reflexivity|constructor].
Qed.

(* ------------------------------------------------------------------ (B) adaptive programs *)
Definition prog := list res -> option op.

Fixpoint run_prog (fuel : nat) (db : smap) (d : dstate) (p : prog) (acc : list res) : dstate * list res :=
  match fuel with
  | O => (d, acc)
  | S f => match p acc with
           | None => (d, acc)
           | Some o => let (d', r) := step db d o in run_prog f db d' p (acc ++ [r])
           end
  end.

Fixpoint spec_run_prog (fuel : nat) (s : sstate) (p : prog) (acc : list res) : sstate * list res :=
  match fuel with
  | O => (s, acc)
  | S f => match p acc with
           | None => (s, acc)
           | Some o => let (s', r) := spec_step s o in spec_run_prog f s' p (acc ++ [r])
           end
  end.

Definition prog_wf (p : prog) : Prop := forall acc o, p acc = Some o -> op_wf o.

Theorem run_prog_refines : forall fuel db p d s acc, sorted db -> wf_db db -> prog_wf p -> R db d s ->
  snd (run_prog fuel db d p acc) = snd (spec_run_prog fuel s p acc) /\
  R db (fst (run_prog fuel db d p acc)) (fst (spec_run_prog fuel s p acc)).
Proof.
  induction fuel as [|f IH]; intros db p d s acc Hs Hw Hp HR; simpl; auto.
  destruct (p acc) as [o|] eqn:Eo; simpl; auto.
  destruct (step_refines db d s o Hs Hw HR (Hp _ _ Eo)) as [A B].
  destruct (step db d o) as [d' r]. destruct (spec_step s o) as [s' r']. simpl in *. subst r'.
  apply IH; auto.
Qed.

Theorem spec_run_prog_agree : forall fuel root p s1 s2 acc, SR root s1 s2 ->
  snd (spec_run_prog fuel s1 p acc) = snd (spec_run_prog fuel s2 p acc) /\
  SR root (fst (spec_run_prog fuel s1 p acc)) (fst (spec_run_prog fuel s2 p acc)).
Proof.
  induction fuel as [|f IH]; intros root p s1 s2 acc HS; simpl; auto.
  destruct (p acc) as [o|]; simpl; auto.
  destruct (spec_step_agree root s1 s2 o HS) as [A B].
  destruct (spec_step s1 o) as [s1' r1]. destruct (spec_step s2 o) as [s2' r2]. simpl in *. subst r2.
  apply IH; auto.
Qed.

Lemma SR_init : forall root db1 db2, sorted db1 -> sorted db2 -> agreeP root db1 db2 ->
  SR root (spec_init db1 root) (spec_init db2 root).
Proof.
  intros. apply SR_intro; auto. constructor; [|constructor].
  split; [reflexivity|]. split; [simpl; apply is_prefix_refl|]. split; [reflexivity|constructor].
Qed.

(* prefixed-cache invariant for program runs *)
Lemma run_prog_pref : forall fuel db root p d acc, sorted db -> wf_db db -> prog_wf p ->
  (forall vw, In vw (d_views d) -> wf_key (v_prefix vw)) -> state_pref root d ->
  state_pref root (fst (run_prog fuel db d p acc)).
Proof.
  induction fuel as [|f IH]; intros db root p d acc Hs Hw Hp Hwv HP; simpl; auto.
  destruct (p acc) as [o|] eqn:Eo; simpl; auto.
  pose proof (step_pref db root d o Hs Hw (Hp _ _ Eo) Hwv HP) as HP'.
  pose proof (step_views_wf db d o (Hp _ _ Eo) Hwv) as Hwv'.
  destruct (step db d o) as [d' r]. simpl in *. apply IH; auto.
Qed.

(* ------------------------------------------------------------------ (C) batches, key by key *)
(* the writes of a batch that address key k, in order *)
Definition proj (k : key) (W : list wr) : list (option val) := map snd (filter (fun w => keqb (fst w) k) W).

Lemma proj_app : forall k A B, proj k (A ++ B) = proj k A ++ proj k B.
Proof. intros. unfold proj. rewrite filter_app, map_app. reflexivity. Qed.

Lemma fapply_proj : forall W s k, fapply W s k = fold_left (fun _ ov => ov) (proj k W) (s k).
Proof.
  induction W as [|w W IH]; intros s k; simpl; auto. unfold fapply in *. simpl. rewrite IH. unfold proj. simpl.
  rewrite (keqb_sym k (fst w)). destruct (keqb (fst w) k); reflexivity.
Qed.

Lemma fapply_same_at : forall W1 W2 s1 s2 k, s1 k = s2 k -> proj k W1 = proj k W2 -> fapply W1 s1 k = fapply W2 s2 k.
Proof. intros. rewrite !fapply_proj. congruence. Qed.

Lemma proj_notin : forall k W, ~ In k (map fst W) -> proj k W = [].
Proof.
  intros k W H. unfold proj. rewrite filter_none; auto. intros w Hw. apply keqb_neq. intros E. apply H.
  apply in_map_iff. exists w. auto.
Qed.

(* a list of deletions of distinct keys selected by a predicate *)
Lemma proj_deletes : forall (L : list key) (sel : key -> bool) k, NoDup L ->
  proj k (flat_map (fun k' => if sel k' then [(k', @None val)] else []) L) =
  if (if in_dec key_eq_dec k L then sel k else false) then [None] else [].
Proof.
  induction L as [|x L IH]; intros sel k Hnd; simpl; auto. inversion Hnd; subst.
  rewrite proj_app, IH by auto. destruct (key_eq_dec x k) as [->|Hne].
  - destruct (in_dec key_eq_dec k L); [contradiction|]. destruct (sel k); unfold proj; simpl; rewrite ?keqb_refl; reflexivity.
  - assert (Hkx : keqb x k = false) by (apply keqb_neq; auto).
    destruct (sel x); unfold proj at 1; simpl; rewrite ?Hkx; simpl; destruct (in_dec key_eq_dec k L); reflexivity.
Qed.

Lemma sorted_keys_nodup : forall m, sorted m -> NoDup (map fst m).
Proof. intros. apply (ssorted_nodup ltb ltb_irrefl). assumption. Qed.

Lemma in_keys_lookup : forall m k, sorted m -> (In k (map fst m) <-> lookup m k <> None).
Proof.
  intros m k Hs. split.
  - intros Hin. apply in_map_iff in Hin. destruct Hin as ([k0 v] & E & Hin). simpl in E. subst.
    rewrite (in_lookup _ _ _ Hs Hin). discriminate.
  - intros Hl. destruct (lookup m k) as [v|] eqn:E; [|congruence]. apply lookup_in in E.
    apply in_map_iff. exists (k, v). auto.
Qed.

(* the pruning parts of the batch address k in the same way on two databases that agree at k *)
Lemma proj_prune_diffs : forall db1 db2 bound k, sorted db1 -> sorted db2 -> wf_db db1 -> wf_db db2 ->
  lookup db1 k = lookup db2 k -> proj k (prune_diffs db1 bound) = proj k (prune_diffs db2 bound).
Proof.
  intros db1 db2 bound k H1 H2 W1 W2 Hk. unfold prune_diffs. destruct bound as [m|]; auto.
  assert (Hkeys : forall db, sorted db -> wf_db db ->
            iterate_key db [pfxStateDiff] (-1) false = map fst (filter (fun x => is_prefix [pfxStateDiff] (fst x)) db)).
  { intros db Hs Hw. rewrite iterate_key_exact by (try assumption; repeat constructor). reflexivity. }
  rewrite (Hkeys db1 H1 W1), (Hkeys db2 H2 W2).
  rewrite !proj_deletes by (apply sorted_keys_nodup; apply ssorted_filter; assumption).
  assert (Hin : forall db, sorted db ->
            (In k (map fst (filter (fun x => is_prefix [pfxStateDiff] (fst x)) db)) <->
             lookup db k <> None /\ is_prefix [pfxStateDiff] k = true)).
  { intros db Hs. rewrite in_map_iff. split.
    - intros ([k0 v] & E & Hin). simpl in E. subst k0. apply filter_In in Hin. destruct Hin as [Hin Hp]. split; auto.
      rewrite (in_lookup _ _ _ Hs Hin). discriminate.
    - intros [Hl Hp]. destruct (lookup db k) as [v|] eqn:E; [|congruence]. exists (k, v). split; auto.
      apply filter_In. split; auto. apply lookup_in; auto. }
  destruct (in_dec key_eq_dec k (map fst (filter (fun x => is_prefix [pfxStateDiff] (fst x)) db1))) as [I1|N1];
    destruct (in_dec key_eq_dec k (map fst (filter (fun x => is_prefix [pfxStateDiff] (fst x)) db2))) as [I2|N2]; auto; exfalso.
  - apply N2. apply Hin; auto. apply (Hin db1 H1) in I1. rewrite <- Hk. exact I1.
  - apply N1. apply Hin; auto. apply (Hin db2 H2) in I2. rewrite Hk. exact I2.
Qed.

Lemma proj_prune_events : forall db1 db2 fh h keep k, sorted db1 -> sorted db2 ->
  lookup db1 k = lookup db2 k -> proj k (prune_events db1 fh h keep) = proj k (prune_events db2 fh h keep).
Proof.
  intros db1 db2 fh h keep k H1 H2 Hk. unfold prune_events. destruct (keep >? -1)%Z; auto.
  destruct (min_event_delete fh h keep >? 0)%Z; auto.
  set (lo := kEvents 0). set (hi := kEvents (Z.to_N (min_event_delete fh h keep))).
  assert (Hform : forall db, sorted db ->
            map (fun x => (fst x, @None val)) (iterate_range db lo hi (-1) false) =
            flat_map (fun k' => if true then [(k', @None val)] else [])
                     (map fst (filter (fun x => leb lo (fst x) && leb (fst x) hi) db))).
  { intros db Hs. rewrite iterate_range_exact by auto. unfold range_spec, eff_limit. simpl.
    induction (filter (fun x => leb lo (fst x) && leb (fst x) hi) db) as [|y t IH]; simpl; auto. f_equal. exact IH. }
  rewrite (Hform db1 H1), (Hform db2 H2).
  rewrite !(proj_deletes _ (fun _ => true)) by (apply sorted_keys_nodup; apply ssorted_filter; assumption).
  assert (Hin : forall db, sorted db ->
            (In k (map fst (filter (fun x => leb lo (fst x) && leb (fst x) hi) db)) <->
             lookup db k <> None /\ leb lo k && leb k hi = true)).
  { intros db Hs. rewrite in_map_iff. split.
    - intros ([k0 v] & E & Hin). simpl in E. subst k0. apply filter_In in Hin. destruct Hin as [Hin Hp]. split; auto.
      rewrite (in_lookup _ _ _ Hs Hin). discriminate.
    - intros [Hl Hp]. destruct (lookup db k) as [v|] eqn:E; [|congruence]. exists (k, v). split; auto.
      apply filter_In. split; auto. apply lookup_in; auto. }
  destruct (in_dec key_eq_dec k (map fst (filter (fun x => leb lo (fst x) && leb (fst x) hi) db1))) as [I1|N1];
    destruct (in_dec key_eq_dec k (map fst (filter (fun x => leb lo (fst x) && leb (fst x) hi) db2))) as [I2|N2]; auto; exfalso.
  - apply N2. apply Hin; auto. apply (Hin db1 H1) in I1. rewrite <- Hk. exact I1.
  - apply N1. apply Hin; auto. apply (Hin db2 H2) in I2. rewrite Hk. exact I2.
Qed.

(* the block part of the processBlock batch never addresses a consensus-store key *)
Lemma rest_not_state : forall db diff_enc prune b events fh rt keep k0, sorted db -> wf_db db ->
  In k0 (map fst ([(kDiff (b_height b), Some diff_enc)] ++ prune_diffs db prune ++ save_block db b events fh rt keep)) ->
  is_prefix [pfxState] k0 = false.
Proof.
  intros db diff_enc prune b events fh rt keep k0 Hs Hw Hin.
  rewrite !map_app in Hin. apply in_app_iff in Hin. destruct Hin as [[<-|[]]|Hin].
  - apply first_byte_not_state; discriminate.
  - apply in_app_iff in Hin. destruct Hin as [Hin|Hin].
    + destruct (prune_diffs_keys _ _ _ Hw Hin) as (m & _ & Hm). apply andb_true_iff in Hm. destruct Hm as [Hm _].
      destruct (prefixed_first_byte _ _ Hm) as [x ->]. apply first_byte_not_state; discriminate.
    + apply save_block_keys in Hin. destruct Hin as [Hin|[->|[Hin| ->]]].
      * eapply block_keys_not_state; eauto.
      * reflexivity.
      * destruct (prune_events_keys _ _ _ _ _ Hs Hin) as (m & _ & Hm). apply andb_true_iff in Hm. destruct Hm as [A B].
        pose proof (between_prefix [pfxBlockHeightToEvents] (u32be 0) (u32be m) k0 A B) as Hp.
        destruct (prefixed_first_byte _ _ Hp) as [x ->]. apply first_byte_not_state; discriminate.
      * apply first_byte_not_state; discriminate.
Qed.

Lemma commit_keys_state : forall c k0, cache_pref [pfxState] c -> In k0 (map fst (commit_writes c)) ->
  is_prefix [pfxState] k0 = true.
Proof.
  intros c k0 Hpref Hin. apply in_map_iff in Hin. destruct Hin as (w & <- & Hin). unfold commit_writes in Hin.
  apply in_flat_map in Hin. destruct Hin as (ke & Hke & Hin). rewrite (write_of_keys _ _ Hin). apply Hpref; auto.
Qed.

(* executing the same adaptive block on two databases that agree on every key outside E (E contains no consensus-
   store key): same reads, and the resulting databases agree outside E *)
Theorem same_block_on_agreeing_dbs : forall fuel (p : prog) db1 db2 (E : key -> bool)
    diff_enc prune b events fh rt keep,
  sorted db1 -> sorted db2 -> wf_db db1 -> wf_db db2 -> prog_wf p ->
  (forall k, E k = false -> lookup db1 k = lookup db2 k) ->
  (forall k, is_prefix [pfxState] k = true -> E k = false) ->
  let r1 := run_prog fuel db1 (init_state [pfxState]) p [] in
  let r2 := run_prog fuel db2 (init_state [pfxState]) p [] in
  snd r1 = snd r2 /\
  forall k, E k = false ->
    lookup (apply_writes (apply_batch db1 (d_cache (fst r1)) diff_enc prune b events fh rt keep) db1) k =
    lookup (apply_writes (apply_batch db2 (d_cache (fst r2)) diff_enc prune b events fh rt keep) db2) k.
Proof.
  intros fuel p db1 db2 E diff_enc prune b events fh rt keep H1 H2 W1 W2 Hp Hag HE r1 r2.
  assert (Hroot : wf_key [pfxState]) by repeat constructor.
  assert (HagP : agreeP [pfxState] db1 db2) by (intros k Hk; apply Hag; auto).
  destruct (run_prog_refines fuel db1 p (init_state [pfxState]) (spec_init db1 [pfxState]) [] H1 W1 Hp
              (R_init db1 _ H1 Hroot)) as [A1 [(I1 & S1 & M1) _]].
  destruct (run_prog_refines fuel db2 p (init_state [pfxState]) (spec_init db2 [pfxState]) [] H2 W2 Hp
              (R_init db2 _ H2 Hroot)) as [A2 [(I2 & S2 & M2) _]].
  destruct (spec_run_prog_agree fuel [pfxState] p _ _ [] (SR_init [pfxState] db1 db2 H1 H2 HagP)) as [B (_ & _ & Bag & _)].
  fold r1 in A1, I1, M1. fold r2 in A2, I2, M2.
  split; [congruence|].
  assert (P1 : cache_pref [pfxState] (d_cache (fst r1))).
  { apply (run_prog_pref fuel db1 [pfxState] p (init_state [pfxState]) []); auto.
    - simpl. intros vw [<-|[]]. exact Hroot.
    - split; simpl; [intros ? []|]. intros vw [<-|[]]. split; simpl; [reflexivity|intros ? []]. }
  assert (P2 : cache_pref [pfxState] (d_cache (fst r2))).
  { apply (run_prog_pref fuel db2 [pfxState] p (init_state [pfxState]) []); auto.
    - simpl. intros vw [<-|[]]. exact Hroot.
    - split; simpl; [intros ? []|]. intros vw [<-|[]]. split; simpl; [reflexivity|intros ? []]. }
  intros k Hk. rewrite !lookup_apply_writes by auto. unfold apply_batch.
  set (rest1 := [(kDiff (b_height b), Some diff_enc)] ++ prune_diffs db1 prune ++ save_block db1 b events fh rt keep).
  set (rest2 := [(kDiff (b_height b), Some diff_enc)] ++ prune_diffs db2 prune ++ save_block db2 b events fh rt keep).
  rewrite (fapply_app (commit_writes (d_cache (fst r1))) rest1), (fapply_app (commit_writes (d_cache (fst r2))) rest2).
  destruct (is_prefix [pfxState] k) eqn:Hst.
  - (* consensus-store key: value = overlay = specification map, and these agree *)
    rewrite (fapply_notin rest1) by (intros Hin; apply rest_not_state in Hin; auto; congruence).
    rewrite (fapply_notin rest2) by (intros Hin; apply rest_not_state in Hin; auto; congruence).
    rewrite !commit_pointwise by auto. rewrite <- M1, <- M2. apply Bag. exact Hst.
  - (* chain key: the consensus-store writes do not address it; the rest addresses it identically *)
    assert (C1 : ~ In k (map fst (commit_writes (d_cache (fst r1))))) by (intros H; apply commit_keys_state in H; auto; congruence).
    assert (C2 : ~ In k (map fst (commit_writes (d_cache (fst r2))))) by (intros H; apply commit_keys_state in H; auto; congruence).
    apply fapply_same_at.
    + rewrite (fapply_notin _ _ k C1), (fapply_notin _ _ k C2). apply Hag; auto.
    + unfold rest1, rest2. rewrite !proj_app. f_equal.
      rewrite (proj_prune_diffs db1 db2 prune k H1 H2 W1 W2 (Hag k Hk)). f_equal.
      unfold save_block. rewrite !proj_app.
      rewrite (proj_prune_events db1 db2 fh (b_height b) keep k H1 H2 (Hag k Hk)). reflexivity.
Qed.

(* ------------------------------------------------------------------ reorg confluence *)
Lemma state_key_not_exception : forall ev dfb temps k, is_prefix [pfxState] k = true -> exception ev dfb temps k = false.
Proof.
  intros ev dfb temps k Hk. destruct (prefixed_first_byte _ _ Hk) as [x ->]. unfold exception.
  assert (A : keqb (pfxState :: x) kFinalized = false) by (apply keqb_neq; unfold kFinalized; intros E; inversion E).
  assert (B : existsb (fun h => keqb (pfxState :: x) (kTemp h)) temps = false).
  { induction temps as [|h t IH]; simpl; auto. }
  rewrite A, B. destruct ev as [m|]; destruct dfb as [m'|]; reflexivity.
Qed.

Theorem reorg_confluence : forall fuel (p' : prog) db c diff_enc prune b events fh rt keep st
    diff_enc' prune' b' events' fh' rt',
  sorted db -> wf_db db -> Inv db c -> cache_pref [pfxState] c ->
  fresh db (kDiff (b_height b) :: block_keys b) -> prog_wf p' ->
  let db1 := apply_writes (apply_batch db c diff_enc prune b events fh rt keep) db in
  let db2 := apply_writes (delete_batch (diff_of c) b st) db1 in
  wf_db db2 ->
  let E := exception (ev_bound fh (b_height b) keep) prune [b_height b] in
  let direct := run_prog fuel db (init_state [pfxState]) p' [] in
  let after := run_prog fuel db2 (init_state [pfxState]) p' [] in
  snd after = snd direct /\
  forall k, E k = false ->
    lookup (apply_writes (apply_batch db2 (d_cache (fst after)) diff_enc' prune' b' events' fh' rt' keep) db2) k =
    lookup (apply_writes (apply_batch db (d_cache (fst direct)) diff_enc' prune' b' events' fh' rt' keep) db) k.
Proof.
  intros fuel p' db c diff_enc prune b events fh rt keep st diff_enc' prune' b' events' fh' rt'
         Hs Hw HI Hpref Hfresh Hp db1 db2 Hw2 E direct after.
  assert (Hs2 : sorted db2) by (unfold db2, db1; auto using apply_writes_sorted).
  apply (same_block_on_agreeing_dbs fuel p' db2 db E); auto.
  - intros k Hk. apply delete_inverts_apply; auto.
  - intros k Hk. apply state_key_not_exception; auto.
Qed.
