(* pkg/consensus/liskbft/util.go getBFTParams / getGeneratorKeys: `Range(FromUint32(0), FromUint32(h), 1, true)`
   on a store keyed by big-endian heights returns the entry of the greatest height <= h (and nothing if there is
   none).  Stated on the specification map; Properties.C12 transfers it to the implementation model. *)
From Coq Require Import List NArith ZArith Bool Lia.
From LE Require Import Base.Lex Store.SMap Store.PebbleIter Store.DiffDB Store.DiffDBSpec Chain.BlockStore Chain.U32.
Import ListNotations.
Local Open Scope N_scope.

Lemma rev_head_max : forall (l : list kv) x r, ssorted ltb l -> rev l = x :: r ->
  In x l /\ forall y, In y l -> leb (fst y) (fst x) = true.
Proof.
  intros l x r Hs Hr. assert (Hl : l = rev r ++ [x]).
  { rewrite <- (rev_involutive l), Hr. reflexivity. }
  subst l. split; [apply in_app_iff; right; left; auto|].
  clear Hr. induction (rev r) as [|z t IH]; simpl in *.
  - intros y [<-|[]]. apply leb_refl.
  - destruct Hs as [H1 H2]. intros y [<-|Hy]; auto. apply ltb_leb. apply H1. apply in_app_iff. right. left. auto.
Qed.

Lemma firstn1_map_rev_cases : forall (f : kv -> kv) (l : list kv),
  (rev l = [] /\ firstn 1 (map f (rev l)) = []) \/
  (exists x r, rev l = x :: r /\ firstn 1 (map f (rev l)) = [f x]).
Proof. intros f l. destruct (rev l) as [|x r]; [left; auto|right; exists x, r; auto]. Qed.

(* all entries of the view are keyed by a 4-byte height *)
Definition height_keyed (m : smap) (pfx : key) : Prop :=
  forall x, In x m -> is_prefix pfx (fst x) = true -> exists n, n < 4294967296 /\ fst x = pfx ++ u32be n.

Theorem latest_at_or_below : forall m pfx h, sorted m -> height_keyed m pfx -> h < 4294967296 ->
  match spec_range m pfx (u32be 0) (u32be h) 1 true with
  | [] => forall n v, n < 4294967296 -> In (pfx ++ u32be n, v) m -> h < n
  | [(k, v)] => exists n, n < 4294967296 /\ k = u32be n /\ In (pfx ++ u32be n, v) m /\ n <= h /\
                         forall n' v', n' < 4294967296 -> In (pfx ++ u32be n', v') m -> n' <= h -> n' <= n
  | _ => False
  end.
Proof.
  intros m pfx h Hs Hk Hh. unfold spec_range, take_limit, dir.
  change ((1 >? -1)%Z) with true. cbv iota. change (Z.to_nat 1) with 1%nat.
  remember (filter (fun x => leb (pfx ++ u32be 0) (fst x) && leb (fst x) (pfx ++ u32be h)) m) as sel eqn:Esel.
  assert (Hsel : ssorted ltb sel) by (subst sel; apply ssorted_filter; exact Hs).
  assert (Hin : forall n v, n < 4294967296 -> (In (pfx ++ u32be n, v) sel <-> In (pfx ++ u32be n, v) m /\ n <= h)).
  { intros n v Hn. subst sel. rewrite filter_In. simpl. rewrite !leb_app, !u32be_leb by (auto; reflexivity).
    split.
    - intros [A B]. split; [exact A|]. apply andb_true_iff in B. destruct B as [_ B]. apply N.leb_le in B. exact B.
    - intros [A B]. split; [exact A|]. apply andb_true_iff. split; apply N.leb_le; lia. }
  destruct (firstn1_map_rev_cases (strip (length pfx)) sel) as [[Er Ef]|([k v] & r & Er & Ef)]; rewrite Ef; unfold kv in *.
  - intros n v Hn Hi. destruct (N.lt_ge_cases h n) as [L|G]; auto. exfalso.
    assert (Hs' : In (pfx ++ u32be n, v) sel) by (apply Hin; auto).
    apply in_rev in Hs'. assert (Hr : In (pfx ++ u32be n, v) (@nil (key * val))) by (rewrite <- Er; exact Hs'). destruct Hr.
  - unfold strip. simpl fst. simpl snd.
    destruct (rev_head_max sel (k, v) r Hsel Er) as [Hx Hmax].
    assert (Hxm : In (k, v) m /\ is_prefix pfx k = true).
    { subst sel. apply filter_In in Hx. destruct Hx as [A B]. split; auto. simpl in B.
      apply andb_true_iff in B. destruct B. eapply between_prefix; eauto. }
    destruct (Hk (k, v) (proj1 Hxm) (proj2 Hxm)) as (n & Hn & Ek). simpl in Ek. subst k.
    rewrite skipn_app_exact. exists n. split; auto. split; auto.
    destruct (proj1 (Hin n v Hn) Hx) as [A B]. split; auto. split; auto.
    intros n' v' Hn' Hi' Hle. assert (Hs' : In (pfx ++ u32be n', v') sel) by (apply Hin; auto).
    specialize (Hmax _ Hs'). simpl in Hmax. rewrite leb_app, u32be_leb in Hmax by auto. apply N.leb_le in Hmax. exact Hmax.
Qed.
