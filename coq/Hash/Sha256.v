(* SHA-256 (FIPS 180-4) over byte lists, on Coq primitive 63-bit integers masked to 32 bits, so that it is fast
   under vm_compute.  Used ONLY by the correspondence evaluators (Corr/*.v) to instantiate the abstract hash of the
   tree models; no theorem depends on it (theorems are parametric in the hash). *)
From Coq Require Import List NArith ZArith Uint63.
Import ListNotations.
Local Open Scope uint63_scope.

Definition m32 : int := 4294967295.
Definition add32 (a b : int) : int := (a + b) land m32.
Definition rotr (n x : int) : int := ((x >> n) lor (x << (32 - n))) land m32.
Definition ch (x y z : int) : int := (x land y) lxor ((x lxor m32) land z).
Definition maj (x y z : int) : int := (x land y) lxor (x land z) lxor (y land z).
Definition bsig0 (x : int) : int := rotr 2 x lxor rotr 13 x lxor rotr 22 x.
Definition bsig1 (x : int) : int := rotr 6 x lxor rotr 11 x lxor rotr 25 x.
Definition ssig0 (x : int) : int := rotr 7 x lxor rotr 18 x lxor (x >> 3).
Definition ssig1 (x : int) : int := rotr 17 x lxor rotr 19 x lxor (x >> 10).

Definition K256 : list int := [
  1116352408; 1899447441; 3049323471; 3921009573; 961987163; 1508970993; 2453635748; 2870763221;
  3624381080; 310598401; 607225278; 1426881987; 1925078388; 2162078206; 2614888103; 3248222580;
  3835390401; 4022224774; 264347078; 604807628; 770255983; 1249150122; 1555081692; 1996064986;
  2554220882; 2821834349; 2952996808; 3210313671; 3336571891; 3584528711; 113926993; 338241895;
  666307205; 773529912; 1294757372; 1396182291; 1695183700; 1986661051; 2177026350; 2456956037;
  2730485921; 2820302411; 3259730800; 3345764771; 3516065817; 3600352804; 4094571909; 275423344;
  430227734; 506948616; 659060556; 883997877; 958139571; 1322822218; 1537002063; 1747873779;
  1955562222; 2024104815; 2227730452; 2361852424; 2428436474; 2756734187; 3204031479; 3329325298].

Record st := St { sa : int; sb : int; sc : int; sd : int; se : int; sf : int; sg : int; sh : int }.
Definition st0 : st := St 1779033703 3144134277 1013904242 2773480762 1359893119 2600822924 528734635 1541459225.

(* one round per constant; [w] is the sliding window W[t..t+15] of the message schedule *)
Fixpoint rounds (ks : list int) (w : list int) (s : st) : st :=
  match ks with
  | [] => s
  | k :: ks' =>
    match w with
    | [] => s
    | w0 :: tl =>
      let '(St a b c d e f g h) := s in
      let t1 := add32 (add32 (add32 (add32 h (bsig1 e)) (ch e f g)) k) w0 in
      let t2 := add32 (bsig0 a) (maj a b c) in
      let wn := add32 (add32 (add32 (ssig1 (nth 13 tl 0)) (nth 8 tl 0)) (ssig0 (nth 0 tl 0))) w0 in
      rounds ks' (tl ++ [wn]) (St (add32 t1 t2) a b c (add32 d t1) e f g)
    end
  end.

Definition compress (s : st) (w : list int) : st :=
  let '(St a b c d e f g h) := s in
  let '(St a' b' c' d' e' f' g' h') := rounds K256 w s in
  St (add32 a a') (add32 b b') (add32 c c') (add32 d d') (add32 e e') (add32 f f') (add32 g g') (add32 h h').

(* big-endian 32-bit words of a byte list (length multiple of 4) *)
Fixpoint words (bs : list int) : list int :=
  match bs with
  | b0 :: b1 :: b2 :: b3 :: t => ((b0 << 24) lor (b1 << 16) lor (b2 << 8) lor b3) :: words t
  | _ => []
  end.

(* process 16 words at a time; fuel = number of words *)
Fixpoint blocks (fuel : nat) (ws : list int) (s : st) : st :=
  match fuel with
  | O => s
  | S f => match ws with
           | [] => s
           | _ => blocks f (skipn 16 ws) (compress s (firstn 16 ws))
           end
  end.

Definition byte_of_N (b : N) : int := Uint63.of_Z (Z.of_N b).
Definition N_of_int (x : int) : N := Z.to_N (Uint63.to_Z x).

Definition pad (msg : list N) : list N :=
  let len := N.of_nat (length msg) in
  let z := N.to_nat ((64 - (len + 9) mod 64) mod 64)%N in
  let bits := (8 * len)%N in
  msg ++ [128%N] ++ repeat 0%N z ++
  map (fun i => ((bits / 2 ^ (8 * i)) mod 256)%N) [7; 6; 5; 4; 3; 2; 1; 0]%N.

Definition word_bytes (x : int) : list N :=
  [N_of_int (x >> 24); N_of_int ((x >> 16) land 255); N_of_int ((x >> 8) land 255); N_of_int (x land 255)].

Definition sha256 (msg : list N) : list N :=
  let ws := words (map byte_of_N (pad msg)) in
  let '(St a b c d e f g h) := blocks (length ws) ws st0 in
  word_bytes a ++ word_bytes b ++ word_bytes c ++ word_bytes d ++
  word_bytes e ++ word_bytes f ++ word_bytes g ++ word_bytes h.

(* ---- standard test vectors ---- *)
Local Open Scope N_scope.
Example sha256_empty : sha256 [] = [227;176;196;66;152;252;28;20;154;251;244;200;153;111;185;36;39;174;65;228;100;155;147;76;164;149;153;27;120;82;184;85].
Proof. vm_compute. reflexivity. Qed.
Example sha256_abc : sha256 [97; 98; 99] = [186;120;22;191;143;1;207;234;65;65;64;222;93;174;34;35;176;3;97;163;150;23;122;156;180;16;255;97;242;0;21;173].
Proof. vm_compute. reflexivity. Qed.
Example sha256_56 : sha256 [97;98;99;100;98;99;100;101;99;100;101;102;100;101;102;103;101;102;103;104;102;103;104;105;103;104;105;106;104;105;106;107;105;106;107;108;106;107;108;109;107;108;109;110;108;109;110;111;109;110;111;112;110;111;112;113] = [36;141;106;97;210;6;56;184;229;192;38;147;12;62;96;57;163;60;228;89;100;255;33;103;246;236;237;212;25;219;6;193].
Proof. vm_compute. reflexivity. Qed.
Example sha256_64 : sha256 [0;1;2;3;4;5;6;7;8;9;10;11;12;13;14;15;16;17;18;19;20;21;22;23;24;25;26;27;28;29;30;31;32;33;34;35;36;37;38;39;40;41;42;43;44;45;46;47;48;49;50;51;52;53;54;55;56;57;58;59;60;61;62;63] = [253;234;185;172;243;113;3;98;189;38;88;205;201;162;158;143;156;117;127;207;152;17;96;58;140;68;124;209;217;21;17;8].
Proof. vm_compute. reflexivity. Qed.
Example sha256_119 : sha256 [3;10;17;24;31;38;45;52;59;66;73;80;87;94;101;108;115;122;129;136;143;150;157;164;171;178;185;192;199;206;213;220;227;234;241;248;255;6;13;20;27;34;41;48;55;62;69;76;83;90;97;104;111;118;125;132;139;146;153;160;167;174;181;188;195;202;209;216;223;230;237;244;251;2;9;16;23;30;37;44;51;58;65;72;79;86;93;100;107;114;121;128;135;142;149;156;163;170;177;184;191;198;205;212;219;226;233;240;247;254;5;12;19;26;33;40;47;54;61] = [156;231;54;142;77;175;50;52;22;49;180;146;232;3;89;220;159;89;75;72;69;60;208;221;91;240;177;146;121;204;23;126].
Proof. vm_compute. reflexivity. Qed.
Example sha256_55 : sha256 (repeat 97 55) = [159;67;144;248;211;12;45;217;46;201;240;149;182;94;43;154;233;176;169;37;165;37;142;36;28;159;30;145;15;115;67;24].
Proof. vm_compute. reflexivity. Qed.
Example sha256_1000 : sha256 (repeat 97 1000) = [65;237;236;228;45;99;232;217;191;81;90;155;166;147;46;28;32;203;201;245;165;209;52;100;90;219;93;177;185;115;126;163].
Proof. vm_compute. reflexivity. Qed.
