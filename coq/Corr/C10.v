(* Correspondence evaluators for C10 (sparse Merkle trie).  Hash = SHA-256: emptyHash = H(""),
   leafHash k v = H(0x00 ++ k ++ v), branchHash l r = H(0x01 ++ l ++ r).  Codes: Base.Corr.code agree_model agree_spec. *)
From Coq Require Import List NArith Bool.
From LE Require Import Base.Corr Hash.Sha256 SMT.Spec SMT.Tree SMT.Verify SMT.Prove.
Import ListNotations.
Local Open Scope N_scope.

Definition hsh := list N.
Definition hempty : hsh := sha256 [].
Definition hleafb (k v : list N) : hsh := sha256 (0 :: k ++ v).
Definition hbranch (l r : hsh) : hsh := sha256 (1 :: l ++ r).
Definition hnull (h : hsh) : bool := match h with [] => true | _ => false end.
Definition hleafk : key -> list N -> hsh := hleaf hleafb.

Fixpoint list_eqb {A} (e : A -> A -> bool) (a b : list A) : bool :=
  match a, b with
  | [], [] => true
  | x :: a', y :: b' => e x y && list_eqb e a' b'
  | _, _ => false
  end.

(* a batch entry on the wire: key bytes, value bytes ([] = delete) *)
Definition wop : Type := list N * list N.
Definition to_op (w : wop) : @op (list N) := (to_bools (fst w), match snd w with [] => None | v => Some v end).
Definition tree := @T (list N).
Definition thash : tree -> hsh := hash hempty hleafk hbranch.

Fixpoint run_batches (n : nat) (t : tree) (bs : list (list wop)) : list hsh * tree :=
  match bs with
  | [] => ([], t)
  | b :: rest => let t' := batch_update n t (map to_op b) in
                 let '(hs, tf) := run_batches n t' rest in (thash t' :: hs, tf)
  end.
Fixpoint spec_roots (n : nat) (m : list (key * list N)) (bs : list (list wop)) : list hsh :=
  match bs with
  | [] => []
  | b :: rest => let m' := map_batch m (map to_op b) in
                 smt_root hempty hleafk hbranch n m' :: spec_roots n m' rest
  end.

(* (key length in bytes, batches, implementation root after every batch) *)
Definition root_case : Type := N * list (list wop) * list hsh.
Definition check_root (c : root_case) : N :=
  let '(kl, bs, iroots) := c in
  let n := (8 * N.to_nat kl)%nat in
  code (list_eqb bytes_eqb iroots (fst (run_batches n E bs)))
       (list_eqb bytes_eqb iroots (spec_roots n [] bs)).

Definition wquery : Type := list N * list N * list N.     (* key, value, bitmap *)
Definition to_query (w : wquery) : query := let '(k, v, b) := w in Q k v b.
Definition query_eqb (a b : query) : bool :=
  bytes_eqb (q_key a) (q_key b) && bytes_eqb (q_value a) (q_value b) && bytes_eqb (q_bitmap a) (q_bitmap b).
Definition vnum (v : verdict) : N := match v with VTrue => 1 | VFalse => 0 | VErr => 2 end.

(* every accepted claim must agree with the map: key present with that value, or absent *)
Definition claims_ok (m : list (key * list N)) (keys : list (list N)) (qs : list query) : bool :=
  Nat.eqb (length keys) (length qs) &&
  forallb (fun p => let '(k, q) := p in
                    match mget (to_bools k) m with
                    | Some v => bytes_eqb k (q_key q) && bytes_eqb v (q_value q)
                    | None => negb (bytes_eqb k (q_key q)) || match q_value q with [] => true | _ => false end
                    end) (combine keys qs).

(* one verification observation: (query keys, sibling hashes, queries, root selector 0 = the trie root / 1 = another
   hash, implementation verdict 0/1/2, must-accept flag) *)
Definition vobs : Type := list (list N) * list hsh * list wquery * N * N * bool.
(* (key length, batches building the trie, query keys, implementation proof (siblings, queries), observations) *)
Definition proof_case : Type := N * list (list wop) * list (list N) * list hsh * list wquery * list vobs.
Definition check_proof (c : proof_case) : N :=
  let '(kl, bs, keys, isibs, iqs, obs) := c in
  let n := (8 * N.to_nat kl)%nat in
  let t := snd (run_batches n E bs) in
  let m := fold_left map_batch (map (map to_op) bs) [] in
  let root := smt_root hempty hleafk hbranch n m in
  let '(msibs, mqs) := prove hempty hleafb hbranch bytes_eqb t keys in
  let agree_prove := list_eqb bytes_eqb msibs isibs && list_eqb query_eqb mqs (map to_query iqs) in
  let other := sha256 [7; 7] in
  let run (o : vobs) : bool * bool :=
    let '(ks, sibs, qs, rsel, iv, must) := o in
    (* rsel: 0 the final root, 1 an unrelated hash, 2 + j the root after the first j batches (older version) *)
    let mr := if rsel <? 2 then m else fold_left map_batch (map (map to_op) (firstn (N.to_nat (rsel - 2)) bs)) [] in
    let r := if rsel =? 0 then root else if rsel =? 1 then other else smt_root hempty hleafk hbranch n mr in
    let mv := verify hempty hleafb hbranch bytes_eqb hnull ks sibs (map to_query qs) r (N.to_nat kl) in
    (vnum mv =? iv,
     if must then iv =? 1
     else if iv =? 1 then negb (rsel =? 1) && claims_ok mr ks (map to_query qs) else true) in
  let rs := map run obs in
  code (agree_prove && forallb fst rs) (forallb snd rs).
