(* Correspondence evaluators for C10 (sparse Merkle trie).  Hash = SHA-256: emptyHash = H(""),
   leafHash k v = H(0x00 ++ k ++ v), branchHash l r = H(0x01 ++ l ++ r).  Codes: Base.Corr.code agree_model agree_spec. *)
From Coq Require Import List NArith Bool.
From LE Require Import Base.Corr Hash.Sha256 SMT.Spec SMT.Tree SMT.Verify SMT.Prove.
Import ListNotations.
Local Open Scope N_scope.

Definition hsh := list N.
Definition hempty : hsh := sha256 [].
Definition hleafb (k v : list N) : hsh := sha256 (0 :: k ++ v).
Definition hbranch (l r : hsh) : hsh := sha256 (1 :: l ++ r).
Definition hnull (h : hsh) : bool := match h with [] => true | _ => false end.
Definition hleafk : key -> list N -> hsh := hleaf hleafb.

Fixpoint list_eqb {A} (e : A -> A -> bool) (a b : list A) : bool :=
  match a, b with
  | [], [] => true
  | x :: a', y :: b' => e x y && list_eqb e a' b'
  | _, _ => false
  end.

(* a batch entry on the wire: key bytes, value bytes ([] = delete) *)
Definition wop : Type := list N * list N.
Definition to_op (w : wop) : @op (list N) := (to_bools (fst w), match snd w with [] => None | v => Some v end).
Definition tree := @T (list N).
Definition thash : tree -> hsh := hash hempty hleafk hbranch.

Fixpoint run_batches (n : nat) (t : tree) (bs : list (list wop)) : list hsh * tree :=
  match bs with
  | [] => ([], t)
  | b :: rest => let t' := batch_update n t (map to_op b) in
                 let '(hs, tf) := run_batches n t' rest in (thash t' :: hs, tf)
  end.
Fixpoint spec_roots (n : nat) (m : list (key * list N)) (bs : list (list wop)) : list hsh :=
  match bs with
  | [] => []
  | b :: rest => let m' := map_batch m (map to_op b) in
                 smt_root hempty hleafk hbranch n m' :: spec_roots n m' rest
  end.

(* (key length in bytes, batches, implementation root after every batch) *)
Definition root_case : Type := N * list (list wop) * list hsh.
Definition check_root (c : root_case) : N :=
  let '(kl, bs, iroots) := c in
  let n := (8 * N.to_nat kl)%nat in
  code (list_eqb bytes_eqb iroots (fst (run_batches n E bs)))
       (list_eqb bytes_eqb iroots (spec_roots n [] bs)).

Definition wquery : Type := list N * list N * list N.     (* key, value, bitmap *)
Definition to_query (w : wquery) : query := let '(k, v, b) := w in Q k v b.
Definition query_eqb (a b : query) : bool :=
  bytes_eqb (q_key a) (q_key b) && bytes_eqb (q_value a) (q_value b) && bytes_eqb (q_bitmap a) (q_bitmap b).
Definition vnum (v : verdict) : N := match v with VTrue => 1 | VFalse => 0 | VErr => 2 end.

(* every accepted claim must agree with the map: key present with that value, or absent *)
Definition claims_ok (m : list (key * list N)) (keys : list (list N)) (qs : list query) : bool :=
  Nat.eqb (length keys) (length qs) &&
  forallb (fun p => let '(k, q) := p in
                    match mget (to_bools k) m with
                    | Some v => bytes_eqb k (q_key q) && bytes_eqb v (q_value q)
                    | None => negb (bytes_eqb k (q_key q)) || match q_value q with [] => true | _ => false end
                    end) (combine keys qs).

(* one verification observation: (query keys, sibling hashes, queries, root selector 0 = the trie root / 1 = another
   hash, implementation verdict 0/1/2, must-accept flag) *)
Definition vobs : Type := list (list N) * list hsh * list wquery * N * N * bool.
(* (key length, batches building the trie, query keys, implementation proof (siblings, queries), observations) *)
Definition proof_case : Type := N * list (list wop) * list (list N) * list hsh * list wquery * list vobs.
Definition check_proof (c : proof_case) : N :=
  let '(kl, bs, keys, isibs, iqs, obs) := c in
  let n := (8 * N.to_nat kl)%nat in
  let t := snd (run_batches n E bs) in
  let m := fold_left map_batch (map (map to_op) bs) [] in
  let root := smt_root hempty hleafk hbranch n m in
  let '(msibs, mqs) := prove hempty hleafb hbranch bytes_eqb t keys in
  let agree_prove := list_eqb bytes_eqb msibs isibs && list_eqb query_eqb mqs (map to_query iqs) in
  let other := sha256 [7; 7] in
  let run (o : vobs) : bool * bool :=
    let '(ks, sibs, qs, rsel, iv, must) := o in
    (* rsel: 0 the final root, 1 an unrelated hash, 2 + j the root after the first j batches (older version) *)
    let mr := if rsel <? 2 then m else fold_left map_batch (map (map to_op) (firstn (N.to_nat (rsel - 2)) bs)) [] in
    let r := if rsel =? 0 then root else if rsel =? 1 then other else smt_root hempty hleafk hbranch n mr in
    let mv := verify hempty hleafb hbranch bytes_eqb hnull ks sibs (map to_query qs) r (N.to_nat kl) in
    (vnum mv =? iv,
     if must then iv =? 1
     else if iv =? 1 then negb (rsel =? 1) && claims_ok mr ks (map to_query qs) else true) in
  let rs := map run obs in
  code (agree_prove && forallb fst rs) (forallb snd rs).

(* ---- layered model (SMT/Layered.v) against the real node store ----
   The harness dumps the DB after every Update of a small history: (sub-tree root hash, encoded sub-tree bytes).
   The layered model runs the same history; its store, encoded as subtree.go encode does, must be the same set. *)
From LE Require Import SMT.Layered SMT.LayeredFlat SMT.LayeredCodec.
Definition lnode : Type := @snode (list N) hsh.
Definition lflat : Type := list (nat * lnode).
Definition lstore : Type := list (hsh * lflat).
(* the byte encoding / decoding of sub-trees is SMT/LayeredCodec.v ([enc_bytes], [dec_bytes], round trip [dec_enc]) *)
Definition lupdate (sh lv : nat) := @layered_update (list N) hsh hempty hleafk hbranch bytes_eqb sh lv.
Definition labs (sh lv : nat) := @abs (list N) hsh hempty bytes_eqb sh lv.

Definition dump : Type := list (hsh * list N).
Fixpoint dget (r : hsh) (d : dump) : option (list N) :=
  match d with [] => None | (r', c) :: t => if bytes_eqb r r' then Some c else dget r t end.
Definition store_eq (m : lstore) (d : dump) : bool :=
  Nat.eqb (length m) (length d) &&
  forallb (fun e => match dget (fst e) d with Some b => bytes_eqb (enc_bytes (snd e)) b | None => false end) m.
Definition dump_store (kl : nat) (d : dump) : lstore :=
  flat_map (fun e => match dec_bytes kl (snd e) with Some c => [(fst e, c)] | None => [] end) d.
(* oracle: every sub-tree reachable from the implementation's root is in the implementation's store, and the trie read
   back through the store hashes to that root *)
Definition dump_ok (sh lv kl : nat) (iroot : hsh) (d : dump) : bool :=
  match labs sh lv (dump_store kl d) iroot with
  | Some t => bytes_eqb (thash t) iroot
  | None => false
  end.

(* (key length in bytes, sub-tree height, batches with the implementation's root and store dump after each) *)
Definition store_case : Type := N * N * list (list wop * hsh * dump).
(* (the variant with the flat transcriptions of calculateSubTree / treeHasher, SMT/LayeredFlat.v, is no longer run alongside:
   it is proved equal to the model, SMT/LayeredFlatProofs.v layered_update_flat_eq) *)
Definition state_agrees (st : option (lstore * hsh)) (iroot : hsh) (d : dump) : bool :=
  match st with Some (m, r) => bytes_eqb r iroot && store_eq m d | None => false end.
Fixpoint run_store (sh lv kl : nat) (st : option (lstore * hsh)) (bs : list (list wop * hsh * dump)) : bool * bool :=
  match bs with
  | [] => (true, true)
  | (b, iroot, d) :: rest =>
    let st' := match st with Some sr => lupdate sh lv sr (map to_op b) | None => None end in
    let '(a, o) := run_store sh lv kl st' rest in
    (state_agrees st' iroot d && a, dump_ok sh lv kl iroot d && o)
  end.
Definition check_store (c : store_case) : N :=
  let '(kl, sh, bs) := c in
  let klb := N.to_nat kl in
  let shn := N.to_nat sh in
  let lv := Nat.div (8 * klb) shn in
  let '(a, o) := run_store shn lv klb (Some ([], hempty)) bs in
  code a o.

(* ---- trie.Prove through the store (SMT/LayeredProve.v): the layered model builds the store from the batches, the
   code-shaped prover reads it (getSubtree through the stubs) and must return the implementation's proof ---- *)
From LE Require Import SMT.LayeredProve.
Definition lprove_case : Type := N * N * list (list wop) * list (list N) * list hsh * list wquery.
Definition check_lprove (c : lprove_case) : N :=
  let '(kl, sh, bs, keys, isibs, iqs) := c in
  let klb := N.to_nat kl in
  let shn := N.to_nat sh in
  let lv := Nat.div (8 * klb) shn in
  match @layered_history (list N) hsh hempty hleafk hbranch bytes_eqb shn lv ([], hempty) (map (map to_op) bs) with
  | Some (s, r) =>
    match lprove hempty hleafb hbranch bytes_eqb shn lv s r keys with
    | Some (msibs, mqs) => code (list_eqb bytes_eqb msibs isibs && list_eqb query_eqb mqs (map to_query iqs)) true
    | None => 1
    end
  | None => 1
  end.
