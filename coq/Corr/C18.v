(* Correspondence evaluators for C18 (harness/cmd/c18).  Result code: 0 = implementation agrees with the model and with the
   declarative oracle; 1 = differs from the model only; 2/3 = violates the oracle. *)
From Coq Require Import List ZArith NArith Bool.
From LE Require Import Base.Corr P2P.Gater P2P.RateLimit.
Import ListNotations.
Local Open Scope Z_scope.

Definition beq_list {A} (eqb : A -> A -> bool) := fix go (a b : list A) : bool :=
  match a, b with
  | [], [] => true
  | x :: a', y :: b' => eqb x y && go a' b'
  | _, _ => false
  end.
Definition memN (k : N) (l : list N) : bool := existsb (N.eqb k) l.
Fixpoint upto (n : nat) : list N := match n with O => [] | S m => upto m ++ [N.of_nat m] end.

(* ---------------- (A) gater scripts in real time *)
Inductive gobs :=
| SPen (ip : N) (amt now ret : Z)
| SNoIp (amt : Z) (ret : Z) (err : bool)            (* address without IP: must fail and change nothing *)
| SBlock (ip : N) | SUnblock (ip : N)
| SObs (now : Z) (banned blocked : list N) (gates : list (list bool)) (scores : list (Z * Z * bool)) (noip_gates : list bool).

(* exp seconds, blacklist, number of IPs, slow sweep (the sweep interval is longer than the script's steps: whether the sweep has
   run is read off the observation), steps *)
Definition gater_case : Type := (Z * list N * nat * bool * list gobs)%type.

Definition gates_of (g : gater) (a : option N) : list bool :=
  [intercept_peer_dial g; intercept_addr_dial g a; intercept_accept g a; intercept_secured g Inbound a;
   intercept_secured g Outbound a; intercept_upgraded g].
Definition score_eqb (a b : Z * Z * bool) : bool :=
  let '(s1, e1, o1) := a in let '(s2, e2, o2) := b in
  Bool.eqb o1 o2 && (if o1 then (s1 =? s2) && (e1 =? e2) else true).
Definition score_obs (g : gater) (ip : N) : Z * Z * bool :=
  match sc g ip with Some i => (score i, expiration i, true) | None => (0, 0, false) end.

(* model: the sweep goroutine has run in the current second before every step (steps happen >= 300 ms into a second, the
   sweep runs every 50 ms) *)
Fixpoint gater_model (n : nat) (g : gater) (steps : list gobs) : bool :=
  match steps with
  | [] => true
  | s :: rest =>
      match s with
      | SPen ip amt now ret =>
          let '(g', ns) := add_penalty (sweep g now) ip amt now in (ns =? ret) && gater_model n g' rest
      | SNoIp amt ret err => err && (ret =? 0) && gater_model n g rest
      | SBlock ip => gater_model n (block g ip) rest
      | SUnblock ip => gater_model n (unblock g ip) rest
      | SObs now bn bl gs scs nog =>
          let g' := sweep g now in
          let ips := upto n in
          beq_list N.eqb bn (filter (banned g') ips) && beq_list N.eqb bl (filter (blk g') ips) &&
          beq_list (beq_list Bool.eqb) gs (map (fun ip => gates_of g' (Some ip)) ips) &&
          beq_list score_eqb scs (map (score_obs g') ips) &&
          beq_list Bool.eqb nog (gates_of g' None) &&
          gater_model n g' rest
      end
  end.

(* slow sweep: the ticker fires every few seconds; between two steps it may or may not have run (in the previous or in the
   current second). The model keeps the candidate states that are consistent with what was observed. *)
Definition cands (g : gater) (now : Z) : list gater := [g; sweep g (now - 1); sweep g now].
Definition obs_matches (n : nat) (g' : gater) (bn bl : list N) (gs : list (list bool)) (scs : list (Z * Z * bool)) (nog : list bool) : bool :=
  let ips := upto n in
  beq_list N.eqb bn (filter (banned g') ips) && beq_list N.eqb bl (filter (blk g') ips) &&
  beq_list (beq_list Bool.eqb) gs (map (fun ip => gates_of g' (Some ip)) ips) &&
  beq_list score_eqb scs (map (score_obs g') ips) && beq_list Bool.eqb nog (gates_of g' None).

Fixpoint gater_model_slow (n : nat) (gl : list gater) (steps : list gobs) : bool :=
  match gl with
  | [] => false
  | _ =>
    match steps with
    | [] => true
    | s :: rest =>
        match s with
        | SPen ip amt now ret =>
            let next := flat_map (fun g => flat_map (fun c => let '(g', ns) := add_penalty c ip amt now in
                                                       if ns =? ret then [g'] else []) (cands g now)) gl in
            gater_model_slow n next rest
        | SNoIp amt ret err => err && (ret =? 0) && gater_model_slow n gl rest
        | SBlock ip => gater_model_slow n (map (fun g => block g ip) gl) rest
        | SUnblock ip => gater_model_slow n (map (fun g => unblock g ip) gl) rest
        | SObs now bn bl gs scs nog =>
            let ok := filter (fun g' => obs_matches n g' bn bl gs scs nog) (flat_map (fun g => cands g now) gl) in
            gater_model_slow n (firstn 1 ok) rest
        end
    end
  end.

(* oracle, on the implementation's own observations:
   - an IP listed as banned or blacklisted is refused by AddrDial, Accept and Secured(inbound); every other IP and every
     address without IP passes all gates; PeerDial, Secured(outbound), Upgraded always pass;
   - listed as banned <-> entry with expiration <> -1, and no listed ban has expired (expiration >= now);
   - a penalty returns the previous score of the IP plus the amount (previous score 0 when there was no entry or the entry
     was an expired ban), a returned score >= 100 makes the IP banned until now + exp, a ban never disappears before its
     expiration and an unbanned entry keeps its score for ever. *)
Definition prev_state : Type := list (Z * Z * bool).   (* last observed (score, expiration, has entry) per IP *)
Definition nth_score (p : prev_state) (ip : N) : Z * Z * bool := nth (N.to_nat ip) p (0, 0, false).

(* expected entry after a penalty, given whether the previous entry is still alive *)
Definition expect_after_pen (e : Z) (p : prev_state) (ip : N) (amt now : Z) (live : bool) : Z * Z * bool :=
  let '(s, x, o) := nth_score p ip in
  let base := if live then s else 0 in
  let bx := if live then x else -1 in
  let ns := base + amt in
  (ns, (if max_penalty <=? ns then now + e else bx), true).
(* the previous entry is certainly alive / certainly swept at time now (a ban whose expiration equals now may be either:
   the property does not fix the second in which an expired ban is removed) *)
Definition surely_live (p : prev_state) (ip : N) (now : Z) : bool :=
  let '(s, x, o) := nth_score p ip in o && ((x =? -1) || (now <? x)).
Definition surely_dead (slow : bool) (p : prev_state) (ip : N) (now : Z) : bool :=
  let '(s, x, o) := nth_score p ip in negb o || (negb slow && negb (x =? -1) && (x <? now)).

Fixpoint set_nth {A} (n : nat) (v : A) (l : list A) : list A :=
  match n, l with
  | O, _ :: l' => v :: l'
  | S m, x :: l' => x :: set_nth m v l'
  | _, [] => []
  end.

Fixpoint gater_spec (slow : bool) (e : Z) (p : prev_state) (steps : list gobs) : bool :=
  match steps with
  | [] => true
  | s :: rest =>
      match s with
      | SPen ip amt now ret =>
          let '(ns1, nx1, no1) := expect_after_pen e p ip amt now true in
          let '(ns0, nx0, no0) := expect_after_pen e p ip amt now false in
          if surely_live p ip now then (ret =? ns1) && gater_spec slow e (set_nth (N.to_nat ip) (ns1, nx1, no1) p) rest
          else if surely_dead slow p ip now then (ret =? ns0) && gater_spec slow e (set_nth (N.to_nat ip) (ns0, nx0, no0) p) rest
          else if ret =? ns1 then gater_spec slow e (set_nth (N.to_nat ip) (ns1, nx1, no1) p) rest
          else (ret =? ns0) && gater_spec slow e (set_nth (N.to_nat ip) (ns0, nx0, no0) p) rest
      | SNoIp amt ret err => err && gater_spec slow e p rest
      | SBlock _ | SUnblock _ => gater_spec slow e p rest
      | SObs now bn bl gs scs nog =>
          let ips := upto (length scs) in
          (* the oracle does not demand permissiveness: a listed IP must be refused on the outbound path (some gate among PeerDial,
             AddrDial, Secured(outbound), Upgraded says no) AND on the inbound path (Accept, Secured(inbound), Upgraded); an
             unlisted IP must pass every gate. Which gate refuses is the model's business (exact vector = model agreement). *)
          let gate_ok := forallb (fun ip =>
                           let v := nth (N.to_nat ip) gs [] in
                           let g k := nth k v false in
                           let out_open := g 0%nat && g 1%nat && g 4%nat && g 5%nat in
                           let in_open := g 2%nat && g 3%nat && g 5%nat in
                           Nat.eqb (length v) 6 &&
                           (if memN ip bn || memN ip bl then negb out_open && negb in_open else out_open && in_open)) ips in
          let ban_ok := forallb (fun ip =>
                           let '(s, x, o) := nth_score scs ip in
                           Bool.eqb (memN ip bn) (o && negb (x =? -1)) && (if o && negb (x =? -1) && negb slow then now <=? x else true)) ips in
          (* continuity with the previous observation / expected state *)
          let cont_ok := forallb (fun ip =>
                           let '(s0, x0, o0) := nth_score p ip in
                           let '(s, x, o) := nth_score scs ip in
                           if o0 then
                             if negb slow && negb (x0 =? -1) && (x0 <? now) then negb o         (* expired ban: removed, clean *)
                             else if negb (x0 =? -1) && (x0 <=? now) then negb o || ((s =? s0) && (x =? x0)) (* expiring now *)
                             else o && (s =? s0) && (x =? x0)                                   (* otherwise unchanged *)
                           else negb o) ips in
          (* accepted => clean: an IP that passes the gates carries no ban entry and no score at or above the threshold *)
          let clean_ok := forallb (fun ip =>
                           let '(s, x, o) := nth_score scs ip in
                           let accepted := forallb (fun b => b) (nth (N.to_nat ip) gs []) in
                           if accepted && o then (x =? -1) && (s <? max_penalty) else true) ips in
          gate_ok && ban_ok && clean_ok && (match p with [] => true | _ => cont_ok end) &&
          beq_list Bool.eqb nog [true; true; true; true; true; true] &&
          gater_spec slow e scs rest
      end
  end.

Definition check_gater (c : gater_case) : N :=
  let '(e, bl, n, slow, steps) := c in
  let g0 := fold_left block bl (empty_gater e) in
  code (if slow then gater_model_slow n [g0] steps else gater_model n g0 steps) (gater_spec slow e [] steps).

(* ---------------- (B) rate limiter scripts *)
Inductive lobs :=
| LMsg (proc peer ip : N) (err : bool) (counter_after score_after exp_after : Z) (has_entry : bool)
| LReset.
(* (limit, penalty) per procedure, number of peers, steps; several peers may share an IP key *)
Definition limiter_case : Type := (list (Z * Z) * nat * list lobs)%type.

Fixpoint limiter_model (m : mnode) (steps : list lobs) : bool :=
  match steps with
  | [] => true
  | LReset :: rest => limiter_model (mkMN (nd m) (reset (rl m))) rest
  | LMsg proc peer ip err c s x has :: rest =>
      let m' := on_message true (fun _ => true) m peer ip (WellFormed proc) 1000 in
      negb err && (cnt (rl m') proc peer =? c) &&
      (match sc (gt (nd m')) ip with
       | Some i => has && (score i =? s) && Bool.eqb (negb (expiration i =? -1)) (negb (x =? -1))
       | None => negb has
       end) && limiter_model m' rest
  end.

(* oracle, per (procedure, peer) pair and independent of every other pair: count the pair's own messages since the last reset
   or its own last penalty; while the count does not exceed the limit the score of the sender's IP does not change at that
   message; the message that exceeds it is penalised with exactly the configured penalty of the procedure (and the count
   restarts). *)
Fixpoint limiter_spec (lims : list (Z * Z)) (since : N -> N -> Z) (last : N -> Z) (steps : list lobs) : bool :=
  match steps with
  | [] => true
  | LReset :: rest => limiter_spec lims (fun _ _ => 0) last rest
  | LMsg proc peer ip err c s x has :: rest =>
      let '(lim, pen) := nth (N.to_nat proc) lims (0, 0) in
      let n := since proc peer + 1 in
      let sc_now := if has then s else 0 in
      let d := sc_now - last ip in
      let over := lim <? n in
      negb err && (if over then d =? pen else d =? 0) &&
      limiter_spec lims (fun p q => if (p =? proc)%N && (q =? peer)%N then (if over then 0 else n) else since p q)
                   (fun q => if (q =? ip)%N then sc_now else last q) rest
  end.

Definition check_limiter (c : limiter_case) : N :=
  let '(lims, npeers, steps) := c in
  let r0 := new_limiter (fun p => fst (nth (N.to_nat p) lims (0, 0))) (fun p => snd (nth (N.to_nat p) lims (0, 0))) in
  let m0 := mkMN (mkNode (empty_gater 3600) []) r0 in
  code (limiter_model m0 steps) (limiter_spec lims (fun _ _ => 0) (fun _ => 0) steps).

(* ---------------- (C) loopback host scenarios *)
(* scenario: 0 malformed request, 1 malformed response, 2 unknown procedure request, 3 unknown procedure response,
   4 rate excess (limit 3, penalty 100, 4 messages), 5 ApplyPenalty 40 three times, 6 BanPeer, 7 legal traffic, 8 blacklisted.
   observation: [connected_before; banned_after; connected_after; dial_in_refused; dial_out_refused;
                 banned_after_expiry; dial_in_ok_after_expiry; dial_out_ok_after_expiry], has a score entry afterwards, score afterwards,
                 has an entry after expiry *)
Definition hosts_case : Type := (N * list bool * bool * Z * bool)%type.

Definition B : N := 5%N.
Definition IP : N := 9%N.
Definition lim_ping (lim pen : Z) : limiter := new_limiter (fun _ => lim) (fun _ => pen).
Definition msgs (k : nat) (m : mnode) (now : Z) : mnode :=
  fold_left (fun m' _ => on_message true (fun p => (p =? 0)%N) m' B IP (WellFormed 0%N) now) (seq 0 k) m.

Definition hosts_model (scen : N) : mnode :=
  let m0 l p := mkMN (mkNode (empty_gater 1) [(B, IP)]) (lim_ping l p) in
  let now := 1000 in
  match scen with
  | 0%N | 1%N => on_message true (fun p => (p =? 0)%N) (m0 100 10) B IP Malformed now
  | 2%N | 3%N => on_message true (fun p => (p =? 0)%N) (m0 100 10) B IP (WellFormed 7%N) now
  | 4%N => msgs 4 (m0 3 100) now
  | 5%N => let m := m0 100 10 in
           mkMN (apply_penalty (apply_penalty (apply_penalty (nd m) B 40 now) B 40 now) B 40 now) (rl m)
  | 6%N => let m := m0 100 10 in mkMN (ban_peer_id (nd m) B now) (rl m)
  | 7%N => let m := m0 5 100 in
           let m1 := msgs 4 m now in let m2 := msgs 4 (mkMN (nd m1) (reset (rl m1))) now in
           msgs 4 (mkMN (nd m2) (reset (rl m2))) now
  | _ => let m := m0 100 10 in mkMN (mkNode (block (gt (nd m)) IP) []) (rl m)
  end.

Definition node_eqb_conns (a b : node) : bool := Nat.eqb (length (conns a)) (length (conns b)).

Definition hosts_model_obs (scen : N) : list bool * bool * Z * bool :=
  let m := hosts_model scen in
  let n := nd m in
  let refused_in := node_eqb_conns (connect_in (mkNode (gt n) []) B IP) (mkNode (gt n) []) in
  let refused_out := node_eqb_conns (connect_out (mkNode (gt n) []) B IP) (mkNode (gt n) []) in
  let g3 := sweep (gt n) 1003 in
  let in_ok_after := negb (node_eqb_conns (connect_in (mkNode g3 []) B IP) (mkNode g3 [])) in
  let out_ok_after := negb (node_eqb_conns (connect_out (mkNode g3 []) B IP) (mkNode g3 [])) in
  ([negb (scen =? 8)%N; banned (gt n) IP; connected n B; refused_in; refused_out; banned g3 IP; in_ok_after; out_ok_after],
   match sc (gt n) IP with Some _ => true | None => false end, score_of (gt n) IP,
   match sc g3 IP with Some _ => true | None => false end).

(* oracle: the statement of the property per scenario *)
Definition hosts_spec (scen : N) (o : list bool) (has : bool) (score : Z) (has_after : bool) : bool :=
  match scen with
  | 7%N => (* legal traffic: never penalised, stays connected, not refused *)
      beq_list Bool.eqb (firstn 4 o) [true; false; true; false] && negb has
  | 8%N => (* blacklisted: refused in both directions, for ever *)
      beq_list Bool.eqb o [false; false; false; true; true; false; false; false]
  | _ => (* offence reaching the threshold: banned, disconnected, refused both ways until expiry, then accepted, clean *)
      beq_list Bool.eqb o [true; true; false; true; true; false; true; true] && has && (max_penalty <=? score) && negb has_after
  end.

Definition check_hosts (c : hosts_case) : N :=
  let '(scen, o, has, score, has_after) := c in
  let '(mo, mhas, mscore, mhas_after) := hosts_model_obs scen in
  let agree_model :=
    (if (scen =? 7)%N then beq_list Bool.eqb (firstn 4 o) (firstn 4 mo) else beq_list Bool.eqb o mo) &&
    Bool.eqb has mhas && (if has then score =? mscore else true) &&
    (if (scen =? 7)%N then true else Bool.eqb has_after mhas_after) in
  code agree_model (hosts_spec scen o has score has_after).

(* ---------------- (D) sync RPC handlers (pkg/consensus/sync) on a loopback node *)
(* malformed request?, [connected_before; every request answered; banned_after; connected_after], score entry, score *)
Definition sync_case : Type := (bool * list bool * bool * Z)%type.

Definition sync_model (malformed : bool) : node :=
  let n0 := mkNode (empty_gater 3600) [(B, IP)] in
  if malformed then ban_peer_id n0 B 1000 else n0.

Definition check_sync (c : sync_case) : N :=
  let '(malformed, o, has, score) := c in
  let n := sync_model malformed in
  let mo := [true; negb malformed; banned (gt n) IP; connected n B] in
  let agree_model :=
    beq_list Bool.eqb (if malformed then [nth 0 o false; false; nth 2 o false; nth 3 o false] else o) mo &&
    Bool.eqb has (match sc (gt n) IP with Some _ => true | None => false end) &&
    (if has then score =? score_of (gt n) IP else true) in
  (* oracle: an invalid sync request leads to the ban (score >= threshold, disconnected); a well-formed one is answered and
     never penalised *)
  let spec :=
    if malformed then nth 0 o false && nth 2 o false && negb (nth 3 o true) && has && (max_penalty <=? score)
    else beq_list Bool.eqb o [true; true; false; true] && negb has in
  code agree_model spec.

(* ---------------- (E) one peer identity connected from two IPs at once *)
(* scenario 0 BanPeer, 1 ApplyPenalty 60 twice; observation
   [two connections with different IPs before; v4 banned; v6 banned; v4 refused by the gates; v6 refused by the gates;
    still connected; dial from v4 refused; dial from v6 refused; anything still banned after expiry];
   scores after the offence (v4, v6; has entry flags) *)
Definition twoips_case : Type := (N * list bool * (bool * Z) * (bool * Z))%type.
Definition IP6 : N := 10%N.

Definition twoips_model (scen : N) : node :=
  let n0 := mkNode (empty_gater 1) [(B, IP); (B, IP6)] in
  match scen with
  | 0%N => ban_peer_id n0 B 1000
  | _ => apply_penalty (apply_penalty n0 B 60 1000) B 60 1000
  end.

Definition check_twoips (c : twoips_case) : N :=
  let '(scen, o, s4, s6) := c in
  let n := twoips_model scen in
  let g := gt n in
  let refused ip := negb (inbound_ok g (Some ip)) && negb (outbound_ok g (Some ip)) in
  let g3 := sweep g 1003 in
  let mo := [true; banned g IP; banned g IP6; refused IP; refused IP6; connected n B; refused IP; refused IP6;
             banned g3 IP || banned g3 IP6] in
  let sc_ok (x : bool * Z) ip := match sc g ip with Some i => fst x && (snd x =? score i) | None => negb (fst x) end in
  let agree_model := beq_list Bool.eqb o mo && sc_ok s4 IP && sc_ok s6 IP6 in
  (* oracle: after a penalty that reaches the threshold every IP the peer was connected from is banned and refused in both
     directions, the peer is disconnected; after expiry nothing stays banned *)
  let spec := beq_list Bool.eqb o [true; true; true; true; true; false; true; true; false] &&
              fst s4 && fst s6 && (max_penalty <=? snd s4) && (max_penalty <=? snd s6) in
  code agree_model spec.
