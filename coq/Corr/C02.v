(* Correspondence evaluator for the liskbft vote model (C02, shared by C01). *)
From Coq Require Import List NArith Bool.
From LE Require Import Base.Corr BFT.Contradiction BFT.Votes BFT.GenKeys.
Import ListNotations.
Local Open Scope N_scope.

Record obs := { o_err : N; o_contra : bool; o_heights : N * N * N;
                o_infos : list (N * N * N * N * N * N); o_act : list (N * N * N);
                o_pkeys : list N; o_imp : N; o_next : option N;
                o_gkeys : list N; o_gens : list (N * option (list N)); o_at : list (N * N);
                (* GetBFTParameters at probe heights: (height, None = error | Some (prevote, precommit, certificate threshold,
                   validators as stored)); o_vhash: the stored validatorsHash equals the independently computed LIP-0058 hash *)
                o_params : list (N * option (N * N * N * list (N * N))); o_vhash : bool;
                (* NextHeightBFTParameters at probe heights (tip, below the window, maxHeightCertified, +1, genesis height) *)
                o_nexts : list (N * option N) }.

Definition hist_case : Type := nat * N * pchange * list block * bool * list obs.

Fixpoint list_eqb {A} (eqb : A -> A -> bool) (a b : list A) : bool :=
  match a, b with
  | [], [] => true
  | x :: a', y :: b' => eqb x y && list_eqb eqb a' b'
  | _, _ => false
  end.
Definition info_tuple (i : info) := (i_height i, i_gen i, i_mhg i, i_mhp i, i_pv i, i_pc i).
Definition info_eqb (a b : N * N * N * N * N * N) : bool :=
  let '(a1, a2, a3, a4, a5, a6) := a in let '(b1, b2, b3, b4, b5, b6) := b in
  (a1 =? b1) && (a2 =? b2) && (a3 =? b3) && (a4 =? b4) && (a5 =? b5) && (a6 =? b6).
Definition act_tuple (a : active) := (a_addr a, a_min a, a_lhp a).
Definition act_eqb (a b : N * N * N) : bool :=
  let '(a1, a2, a3) := a in let '(b1, b2, b3) := b in (a1 =? b1) && (a2 =? b2) && (a3 =? b3).
Definition optN_eqb (a b : option N) : bool :=
  match a, b with None, None => true | Some x, Some y => x =? y | _, _ => false end.

Definition params_eqb (a b : list (N * option (N * N * N * list (N * N)))) : bool :=
  list_eqb (fun x y => (fst x =? fst y) &&
                       match snd x, snd y with
                       | None, None => true
                       | Some (a1, a2, a3, l1), Some (b1, b2, b3, l2) =>
                         (a1 =? b1) && (a2 =? b2) && (a3 =? b3) && list_eqb (fun u v => (fst u =? fst v) && (snd u =? snd v)) l1 l2
                       | _, _ => false
                       end) a b.

Definition obs_of (s : store) (b : hdr) (contra : bool) (imp : res bool) : obs :=
  let v := s_votes s in
  {| o_err := 0; o_contra := contra; o_heights := (v_mhp v, v_mhpc v, v_mhc v);
     o_infos := map info_tuple (v_infos v); o_act := map act_tuple (v_act v);
     o_pkeys := map fst (s_params s);
     o_imp := match imp with Ok false => 0 | Ok true => 1 | Error _ => 2 end;
     o_next := next_params_height (s_params s) (h_height b); o_gkeys := []; o_gens := []; o_at := [];
     o_params := map (fun h => (h, match get_params (s_params s) h with
                                   | Ok p => Some (p_pv p, p_pc p, p_cert p, p_vals p) | Error _ => None end))
                     [h_height b + 1; h_height b; oldest_height (v_infos v)];
     o_vhash := true;
     o_nexts := map (fun h => (h, next_params_height (s_params s) h))
                    [h_height b; oldest_height (v_infos v) - 1; v_mhc v; v_mhc v + 1; 0] |}.
Definition err_obs (e : N) (contra : bool) : obs :=
  {| o_err := e; o_contra := contra; o_heights := (0, 0, 0); o_infos := []; o_act := []; o_pkeys := []; o_imp := 0; o_next := None; o_gkeys := []; o_gens := []; o_at := []; o_params := []; o_vhash := true; o_nexts := [] |}.

Definition obs_eqb (a b : obs) : bool :=
  (o_err a =? o_err b) && Bool.eqb (o_contra a) (o_contra b) &&
  (if o_err a =? 0 then
     (let '(x1, x2, x3) := o_heights a in let '(y1, y2, y3) := o_heights b in (x1 =? y1) && (x2 =? y2) && (x3 =? y3)) &&
     list_eqb info_eqb (o_infos a) (o_infos b) && list_eqb act_eqb (o_act a) (o_act b) &&
     list_eqb N.eqb (o_pkeys a) (o_pkeys b) && (o_imp a =? o_imp b) && optN_eqb (o_next a) (o_next b) &&
     params_eqb (o_params a) (o_params b) && Bool.eqb (o_vhash a) (o_vhash b) &&
     list_eqb (fun x y => (fst x =? fst y) && optN_eqb (snd x) (snd y)) (o_nexts a) (o_nexts b)
   else true).

(* model observations for a history; stops at the first error like the harness *)
Fixpoint model_obs (batch : nat) (s : store) (l : list block) : list obs :=
  match l with
  | [] => []
  | (b, chg) :: tl =>
    let contra := chain_contradicting (s_votes s) b in
    match before_txs batch s b with
    | Error _ => [err_obs 1 contra]
    | Ok s1 =>
      let imp := implies_max_prevotes (s_votes s1) b in
      match (match chg with None => Ok s1 | Some c => set_params batch s1 (c_pc c) (c_cert c) (c_vals c) end) with
      | Error _ => [err_obs 2 contra]
      | Ok s2 => obs_of s2 b contra imp :: model_obs batch s2 tl
      end
    end
  end.

(* the property's observables: heights, vote weights, contradiction flag, acceptance (error class). By
   C02_vote_counting_rule / C02_heights_are_max_quorum the model's values ARE the LIP-0058 counting rules, so a difference
   here is a violation of the property on this history; the remaining fields are internal bookkeeping. *)
Definition obs_prop_eqb (a b : obs) : bool :=
  (o_err a =? o_err b) && Bool.eqb (o_contra a) (o_contra b) &&
  (if o_err a =? 0 then
     (let '(x1, x2, x3) := o_heights a in let '(y1, y2, y3) := o_heights b in (x1 =? y1) && (x2 =? y2) && (x3 =? y3)) &&
     list_eqb info_eqb (o_infos a) (o_infos b) &&
     (* which heights carry their own parameters (validator-set / threshold changes in force) is part of the property *)
     list_eqb N.eqb (o_pkeys a) (o_pkeys b) && optN_eqb (o_next a) (o_next b) &&
     (* ... and so are the thresholds and the validator weights GetBFTParameters reports for a height *)
     params_eqb (o_params a) (o_params b) && Bool.eqb (o_vhash a) (o_vhash b) &&
     (* ... and the height of the next parameter change above a given height (bounds the aggregate commit) *)
     list_eqb (fun x y => (fst x =? fst y) && optN_eqb (snd x) (snd y)) (o_nexts a) (o_nexts b)
   else true).

Definition check_hist (c : hist_case) : N :=
  let '(batch, gh, ini, blocks, initok, observed) := c in
  match init_store batch gh ini with
  | Error _ => let ok := negb initok && match observed with [] => true | _ => false end in code ok ok
  | Ok s0 => let m := model_obs batch s0 blocks in
             code (initok && list_eqb obs_eqb m observed) (initok && list_eqb obs_prop_eqb m observed)
  end.

(* The repaired SetBFTParameters rejects a validator list whose aggregate weight does not fit uint64; below that bound its
   uint64 arithmetic coincides with the model's unbounded N. *)
Definition set_params64 (batch : nat) (s : store) (pcT certT : N) (vals : list (addr * N)) : res store :=
  if 18446744073709551616 <=? total_weight vals then Error 14 else set_params batch s pcT certT vals.

(* ---- generator keys (BFT/GenKeys.v), threaded next to the vote model ---- *)
Definition gens_of_addrs (l : list N) : generators := map (fun a => (a, a)) l.
Definition gobs_eqb (a b : obs) : bool :=
  if o_err a =? 0 then
    list_eqb N.eqb (o_gkeys a) (o_gkeys b) &&
    list_eqb (fun x y => (fst x =? fst y) && match snd x, snd y with
                                             | None, None => true
                                             | Some l1, Some l2 => list_eqb N.eqb l1 l2
                                             | _, _ => false end) (o_gens a) (o_gens b) &&
    list_eqb (fun x y => (fst x =? fst y) && (snd x =? snd y)) (o_at a) (o_at b)
  else true.

Definition probe (gs : @kstore generators) (h : N) : N * option (list N) :=
  (h, match klookup gs h None with Some g => Some (map fst g) | None => None end).

Definition with_gens (o : obs) (gs : @kstore generators) (tip oldest : N) : obs :=
  {| o_err := o_err o; o_contra := o_contra o; o_heights := o_heights o; o_infos := o_infos o; o_act := o_act o;
     o_pkeys := o_pkeys o; o_imp := o_imp o; o_next := o_next o; o_params := o_params o; o_vhash := o_vhash o; o_nexts := o_nexts o;
     o_gkeys := map fst gs;
     o_gens := [probe gs (tip + 1); probe gs tip; probe gs oldest];
     o_at := match klookup gs (tip + 1) None with
             | Some g => match g with
                         | [] => []
                         | _ => let n := N.of_nat (length g) in
                                flat_map (fun sl => match generator_at g sl with Some x => [(sl, fst x)] | None => [] end)
                                         [0; 1; n - 1; n; tip * 7; 429496729]
                         end
             | None => []
             end |}.

(* blocks with the generator addresses installed together with a parameter change *)
Fixpoint model_obs_g (batch : nat) (s : store) (gs : @kstore generators) (l : list (block * list N)) : list obs :=
  match l with
  | [] => []
  | ((b, chg), gaddrs) :: tl =>
    let contra := chain_contradicting (s_votes s) b in
    match before_txs batch s b with
    | Error _ => [err_obs 1 contra]
    | Ok s1 =>
      let imp := implies_max_prevotes (s_votes s1) b in
      (* deleteGeneratorKeys uses the same bound as deleteBFTParams *)
      let minreq := N.min (oldest_height (v_infos (s_votes s1))) (v_mhc (s_votes s1) + 1) in
      let gs1 := kprune gs minreq in
      match chg with
      | None => with_gens (obs_of s1 b contra imp) gs1 (h_height b) (oldest_height (v_infos (s_votes s1))) :: model_obs_g batch s1 gs1 tl
      | Some c =>
        match set_params64 batch s1 (c_pc c) (c_cert c) (c_vals c) with
        | Error _ => [err_obs 2 contra]
        | Ok s2 =>
          let gs2 := kinsert gs1 (current_height (s_votes s1) + 1) (gens_of_addrs gaddrs) in
          with_gens (obs_of s2 b contra imp) gs2 (h_height b) (oldest_height (v_infos (s_votes s2))) :: model_obs_g batch s2 gs2 tl
        end
      end
    end
  end.

Definition hist_case_g : Type := nat * N * pchange * list N * list (block * list N) * bool * list obs.

Definition check_hist_g (c : hist_case_g) : N :=
  let '(batch, gh, ini, ini_gens, blocks, initok, observed) := c in
  match set_params64 batch (genesis_store gh) (c_pc ini) (c_cert ini) (c_vals ini) with
  | Error _ => let ok := negb initok && match observed with [] => true | _ => false end in code ok ok
  | Ok s0 => let gs0 := kinsert [] (gh + 1) (gens_of_addrs ini_gens) in
             let m := model_obs_g batch s0 gs0 blocks in
             code (initok && list_eqb obs_eqb m observed && list_eqb gobs_eqb m observed)
                  (initok && list_eqb obs_prop_eqb m observed && list_eqb gobs_eqb m observed)
  end.
