(* Correspondence evaluator for the liskbft vote model (C02, shared by C01). *)
From Coq Require Import List NArith Bool.
From LE Require Import Base.Corr BFT.Contradiction BFT.Votes.
Import ListNotations.
Local Open Scope N_scope.

Record obs := { o_err : N; o_contra : bool; o_heights : N * N * N;
                o_infos : list (N * N * N * N * N * N); o_act : list (N * N * N);
                o_pkeys : list N; o_imp : N; o_next : option N }.

Definition hist_case : Type := nat * N * pchange * list block * bool * list obs.

Fixpoint list_eqb {A} (eqb : A -> A -> bool) (a b : list A) : bool :=
  match a, b with
  | [], [] => true
  | x :: a', y :: b' => eqb x y && list_eqb eqb a' b'
  | _, _ => false
  end.
Definition info_tuple (i : info) := (i_height i, i_gen i, i_mhg i, i_mhp i, i_pv i, i_pc i).
Definition info_eqb (a b : N * N * N * N * N * N) : bool :=
  let '(a1, a2, a3, a4, a5, a6) := a in let '(b1, b2, b3, b4, b5, b6) := b in
  (a1 =? b1) && (a2 =? b2) && (a3 =? b3) && (a4 =? b4) && (a5 =? b5) && (a6 =? b6).
Definition act_tuple (a : active) := (a_addr a, a_min a, a_lhp a).
Definition act_eqb (a b : N * N * N) : bool :=
  let '(a1, a2, a3) := a in let '(b1, b2, b3) := b in (a1 =? b1) && (a2 =? b2) && (a3 =? b3).
Definition optN_eqb (a b : option N) : bool :=
  match a, b with None, None => true | Some x, Some y => x =? y | _, _ => false end.

Definition obs_of (s : store) (b : hdr) (contra : bool) (imp : res bool) : obs :=
  let v := s_votes s in
  {| o_err := 0; o_contra := contra; o_heights := (v_mhp v, v_mhpc v, v_mhc v);
     o_infos := map info_tuple (v_infos v); o_act := map act_tuple (v_act v);
     o_pkeys := map fst (s_params s);
     o_imp := match imp with Ok false => 0 | Ok true => 1 | Error _ => 2 end;
     o_next := next_params_height (s_params s) (h_height b) |}.
Definition err_obs (e : N) (contra : bool) : obs :=
  {| o_err := e; o_contra := contra; o_heights := (0, 0, 0); o_infos := []; o_act := []; o_pkeys := []; o_imp := 0; o_next := None |}.

Definition obs_eqb (a b : obs) : bool :=
  (o_err a =? o_err b) && Bool.eqb (o_contra a) (o_contra b) &&
  (if o_err a =? 0 then
     (let '(x1, x2, x3) := o_heights a in let '(y1, y2, y3) := o_heights b in (x1 =? y1) && (x2 =? y2) && (x3 =? y3)) &&
     list_eqb info_eqb (o_infos a) (o_infos b) && list_eqb act_eqb (o_act a) (o_act b) &&
     list_eqb N.eqb (o_pkeys a) (o_pkeys b) && (o_imp a =? o_imp b) && optN_eqb (o_next a) (o_next b)
   else true).

(* model observations for a history; stops at the first error like the harness *)
Fixpoint model_obs (batch : nat) (s : store) (l : list block) : list obs :=
  match l with
  | [] => []
  | (b, chg) :: tl =>
    let contra := chain_contradicting (s_votes s) b in
    match before_txs batch s b with
    | Error _ => [err_obs 1 contra]
    | Ok s1 =>
      let imp := implies_max_prevotes (s_votes s1) b in
      match (match chg with None => Ok s1 | Some c => set_params batch s1 (c_pc c) (c_cert c) (c_vals c) end) with
      | Error _ => [err_obs 2 contra]
      | Ok s2 => obs_of s2 b contra imp :: model_obs batch s2 tl
      end
    end
  end.

(* the property's observables: heights, vote weights, contradiction flag, acceptance (error class). By
   C02_vote_counting_rule / C02_heights_are_max_quorum the model's values ARE the LIP-0058 counting rules, so a difference
   here is a violation of the property on this history; the remaining fields are internal bookkeeping. *)
Definition obs_prop_eqb (a b : obs) : bool :=
  (o_err a =? o_err b) && Bool.eqb (o_contra a) (o_contra b) &&
  (if o_err a =? 0 then
     (let '(x1, x2, x3) := o_heights a in let '(y1, y2, y3) := o_heights b in (x1 =? y1) && (x2 =? y2) && (x3 =? y3)) &&
     list_eqb info_eqb (o_infos a) (o_infos b)
   else true).

Definition check_hist (c : hist_case) : N :=
  let '(batch, gh, ini, blocks, initok, observed) := c in
  match init_store batch gh ini with
  | Error _ => let ok := negb initok && match observed with [] => true | _ => false end in code ok ok
  | Ok s0 => let m := model_obs batch s0 blocks in
             code (initok && list_eqb obs_eqb m observed) (initok && list_eqb obs_prop_eqb m observed)
  end.
