(* The evaluator's BLS instance (Corr/C06.v: fav_i, vrf_i, agg_i, sig_len0_i on symbolic signatures) IS an instance of
   the hypotheses of the C06 theorems (Hfav, Hlen), and the declarative oracle verify_spec is implied by the model:
   verify = Accept -> verify_spec = true (so a report "violates the oracle" can never come from the model itself). *)
From Coq Require Import List NArith ZArith Bool Arith Lia Permutation Sorting.Sorted.
From LE Require Import Base.Corr Cert.Bits Cert.BitsProofs Cert.AggCommit Cert.AggCommitProofs Cert.SortProofs Cert.Pool Corr.C06.
Import ListNotations.
Local Open Scope N_scope.

(* two ascending lists with the same elements are equal *)
Lemma sorted_perm_eq : forall (l l' : list key),
  StronglySorted (fun x y => lex_lt y x = false) l -> StronglySorted (fun x y => lex_lt y x = false) l' ->
  Permutation l l' -> l = l'.
Proof.
  induction l; intros l' S S' P.
  - apply Permutation_nil in P. auto.
  - destruct l' as [|b l']. { apply Permutation_sym, Permutation_nil in P. discriminate. }
    inversion S; inversion S'; subst.
    assert (a = b).
    { assert (Ia : In a (b :: l')) by (eapply Permutation_in; [apply P | left; auto]).
      assert (Ib : In b (a :: l)) by (eapply Permutation_in; [symmetry; apply P | left; auto]).
      destruct Ia as [|Ia]; auto. destruct Ib as [|Ib]; auto.
      eapply Forall_forall in H2; eauto. eapply Forall_forall in H6; eauto.
      apply lex_total; auto. }
    subst. f_equal. apply IHl; auto. eapply Permutation_cons_inv; eauto.
Qed.

Lemma sort_id_perm : forall l l' : list key, Permutation l l' -> sort_by (fun k => k) l = sort_by (fun k => k) l'.
Proof.
  intros. apply sorted_perm_eq.
  - apply (sort_by_sorted (fun k : key => k)). - apply (sort_by_sorted (fun k : key => k)).
  - eapply perm_trans; [apply sort_by_perm|]. eapply perm_trans; [apply H|]. symmetry. apply sort_by_perm.
Qed.

Lemma keys_eqb_refl : forall l, keys_eqb l l = true.
Proof. induction l; simpl; auto. rewrite key_eqb_refl. auto. Qed.
Lemma keys_eqb_eq : forall a b, keys_eqb a b = true -> a = b.
Proof.
  induction a; destruct b; simpl; intros; try discriminate; auto.
  apply andb_true_iff in H. destruct H. apply key_eqb_eq in H. f_equal; auto.
Qed.
Lemma cert_eqb_refl : forall c, cert_eqb c c = true.
Proof. intros. unfold cert_eqb. rewrite !N.eqb_refl. auto. Qed.
Lemma cert_eqb_eq : forall a b, cert_eqb a b = true -> a = b.
Proof.
  intros [a1 a2 a3 a4 a5] [b1 b2 b3 b4 b5]. unfold cert_eqb. simpl. intro H.
  repeat (apply andb_true_iff in H; destruct H as [H ?]).
  repeat match goal with E : (_ =? _) = true |- _ => apply N.eqb_eq in E end. subst. auto.
Qed.

Section Inst.
  Variable kt : list key.

  (* Hlen *)
  Theorem inst_Hlen : forall ss, sig_len0_i (agg_i ss) = false.
  Proof. induction ss as [|[| |l] ss]; simpl; auto. destruct (agg_i ss); auto. Qed.

  Lemma vrf_i_inv : forall k m s, vrf_i kt k m s = true -> exists i, s = CSig [(i, m)] /\ key_of kt i = k.
  Proof.
    intros k m s H. destruct s as [| |[|[i c] [|]]]; simpl in H; try discriminate.
    apply andb_true_iff in H. destruct H as [A B]. apply key_eqb_eq in A. apply cert_eqb_eq in B. subst. eauto.
  Qed.

  Lemma agg_singles : forall ks ss m, Forall2 (fun k s => vrf_i kt k m s = true) ks ss ->
    exists l, agg_i ss = CSig l /\ map (fun p => key_of kt (fst p)) l = ks /\ forallb (fun p => cert_eqb (snd p) m) l = true.
  Proof.
    induction 1; simpl. - exists []. auto.
    - destruct (vrf_i_inv _ _ _ H) as [i [E K]]. subst. destruct IHForall2 as [l1 [A [B C]]]. rewrite A.
      exists ((i, m) :: l1). simpl. rewrite B, C, cert_eqb_refl. auto.
  Qed.

  (* Hfav: the aggregate of valid single signatures over one message verifies under any permutation of their keys *)
  Theorem inst_Hfav : forall ks ss m ks', Forall (fun k => key_valid_i k = true) ks ->
    Forall2 (fun k s => vrf_i kt k m s = true) ks ss -> ks <> [] -> Permutation ks ks' -> fav_i kt ks' m (agg_i ss) = true.
  Proof.
    intros ks ss m ks' KV F Hne P. destruct (agg_singles ks ss m F) as [l [A [B C]]]. unfold fav_i.
    replace (forallb key_valid_i ks') with true.
    2:{ symmetry. apply forallb_forall. intros k Hk. eapply Forall_forall in KV; eauto. eapply Permutation_in; [symmetry|]; eauto. }
    rewrite A. simpl.
    rewrite C. rewrite B.
    assert (length ks' <> 0%nat).
    { rewrite <- (Permutation_length P). destruct ks; simpl; auto. }
    destruct (length ks') eqn:L; try congruence. simpl.
    rewrite (sort_id_perm ks' ks) by (symmetry; auto). apply keys_eqb_refl.
  Qed.
End Inst.

(* ---- the oracle is implied by the model *)
Lemma select_from_nodup : forall {A : Type} bits (l : list A) i r, select_from bits i l = Some r -> NoDup l -> NoDup r.
Proof.
  induction l; simpl; intros i r H ND. - inversion H. constructor.
  - destruct (read_bit bits i); try discriminate.
    destruct (select_from bits (S i) l) as [r'|] eqn:E; try discriminate. inversion H; subst. inversion ND; subst.
    specialize (IHl _ _ E H3). destruct b; auto. constructor; auto.
    intro Hin. apply H2. eapply select_from_incl; eauto.
Qed.

Lemma sumN_same : forall l, Corr.C06.sumN l = AggCommitProofs.sumN l.
Proof. induction l; simpl; auto. Qed.

Lemma fav_i_perm : forall kt ks ks' m s, Permutation ks ks' -> fav_i kt ks m s = fav_i kt ks' m s.
Proof.
  intros. unfold fav_i.
  replace (forallb key_valid_i ks') with (forallb key_valid_i ks).
  2:{ destruct (forallb key_valid_i ks) eqn:E; destruct (forallb key_valid_i ks') eqn:E'; auto.
      - assert (forallb key_valid_i ks' = true); [|congruence].
        apply forallb_forall. intros k Hk. eapply forallb_forall in E; eauto. eapply Permutation_in; [symmetry|]; eauto.
      - assert (forallb key_valid_i ks = true); [|congruence].
        apply forallb_forall. intros k Hk. eapply forallb_forall in E'; eauto. eapply Permutation_in; eauto. }
  destruct s; auto. rewrite (Permutation_length H), (sort_id_perm ks ks' H). auto.
Qed.

Definition env_wf (e : env) : Prop :=
  (forall h p, get_params e h = Some p -> NoDup (map v_key (p_validators p))) /\
  (forall k p, In (k, p) (e_params e) -> k < 2 ^ 32) /\ e_mhc e + 2 < 2 ^ 32.

Theorem model_accept_implies_spec : forall kt e a, env_wf e ->
  verify sig_len0_i msg_of_i (fav_i kt) e a = Accept -> verify_spec kt e a = true.
Proof.
  intros kt e a [W1 [W2 W3]] H. unfold verify_spec.
  destruct (verify_sound _ _ sig_len0_i msg_of_i (fav_i kt) e a H) as [[E1 E2]|S].
  - rewrite E1, E2, N.eqb_refl. auto.
  - destruct S as [hd [p [signers [C1 [C2 [C3 [C4 [C5 [C6 [C7 [C8 [C9 C10]]]]]]]]]]]].
    rewrite C1, C2. apply orb_true_iff. right.
    assert (ND := W1 _ _ C2).
    assert (NDv : NoDup (p_validators p)) by (eapply NoDup_map_inv; eauto).
    assert (P : Permutation signers (spec_signers (p_validators p) (ac_bits a))).
    { apply NoDup_Permutation.
      - eapply select_from_nodup; eauto. eapply Permutation_NoDup; [symmetry; apply sort_by_perm | auto].
      - unfold spec_signers. apply NoDup_filter; auto.
      - intros v. rewrite (signers_by_rank _ _ _ ND C3 v). unfold spec_signers. rewrite filter_In.
        unfold bit_set, Corr.C06.rank, SortProofs.rank.
        destruct (read_bit (ac_bits a) (length (filter (fun w => lex_lt (v_key w) (v_key v)) (p_validators p)))) as [[|]|];
          split; intros [A B]; split; auto; try discriminate; try congruence. }
    assert (F1 : Nat.eqb (length (ac_bits a)) (bits_len (length (p_validators p))) = true) by (apply Nat.eqb_eq; auto).
    assert (F2 : fav_i kt (map v_key (spec_signers (p_validators p) (ac_bits a))) (h_cert hd) (ac_sig a) = true).
    { rewrite <- (fav_i_perm kt (map v_key signers)); [exact C6 | apply Permutation_map; auto]. }
    assert (F3 : (p_threshold p <=? Corr.C06.sumN (map v_weight (spec_signers (p_validators p) (ac_bits a)))) = true).
    { apply N.leb_le. rewrite sumN_same. rewrite <- (sumN_perm (map v_weight signers)); [auto | apply Permutation_map; auto]. }
    assert (F4 : (e_mhc e <? ac_height a) = true) by (apply N.ltb_lt; auto).
    assert (F5 : (ac_height a <=? e_mhp e) = true) by (apply N.leb_le; auto).
    rewrite F1, F2, F3, F4, F5. simpl.
    apply forallb_forall. intros [k pk] Hin. simpl fst.
    destruct (u32 (u32 (e_mhc e + 1) + 1) <=? k) eqn:B; auto. apply N.leb_le in B. apply N.leb_le.
    pose proof (next_params_spec e (u32 (e_mhc e + 1))) as NS.
    destruct (next_params e (u32 (e_mhc e + 1))) as [nh|] eqn:En.
    + destruct NS as [N1 [[pn N2] N3]]. specialize (C10 nh eq_refl). specialize (N3 k pk Hin B).
      assert (nh < 2 ^ 32) by (eapply W2; eauto).
      assert (L : u32 (u32 (e_mhc e + 1) + 1) = e_mhc e + 2).
      { unfold u32. rewrite (N.mod_small (e_mhc e + 1)) by lia. rewrite N.mod_small by lia. lia. }
      rewrite L in N1. rewrite sub32_pred in C10 by lia. lia.
    + specialize (NS k pk Hin). lia.
Qed.
