(* Correspondence evaluators for C03.  Result code per case (Base.Corr.code): 0 = the implementation agrees with the model
   and satisfies the declarative oracle; 1 = differs from the model only; >= 2 = violates the oracle. *)
From Coq Require Import List NArith Bool.
From LE Require Import Base.Corr BFT.ForkChoice Exec.VerifyBlock Exec.Process.
Import ListNotations.
Local Open Scope N_scope.

(* published events as observed: (kind, a, b, c) with New = (1, id code, #events, 0), Finalize = (2, orig, next, trigger code),
   Delete = (3, id code, 0, 0), ValidatorsChange = (4, 0, 0, 0) *)
Definition ev := (N * N * N * N)%type.
Definition enc_pub (p : pub) : ev :=
  match p with
  | PNew id nev => (1, b_code id, nev, 0)
  | PFinalize o n t => (2, o, n, b_code t)
  | PDelete id => (3, b_code id, 0, 0)
  | PValidators => (4, 0, 0, 0)
  end.
Definition ev_eqb (a b : ev) : bool :=
  let '(a1, a2, a3, a4) := a in let '(b1, b2, b3, b4) := b in (a1 =? b1) && (a2 =? b2) && (a3 =? b3) && (a4 =? b4).
Fixpoint evs_eqb (a b : list ev) : bool :=
  match a, b with
  | [], [] => true
  | x :: a', y :: b' => ev_eqb x y && evs_eqb a' b'
  | _, _ => false
  end.

Record impl_obs := mkIO {
  io_rules : list N;        (* rule numbers compatible with the implementation's error class; [0] = accepted *)
  io_db_same : bool;        (* whole sorted DB dump identical before/after *)
  io_events : list ev;
  io_tip_after : bstr; io_fin_after : N; io_cs_after : N;
  io_app_after : bstr;      (* state root the application (ABI double) holds committed after the case *)
  io_abi_commits : N; io_abi_reverts : N }.   (* ABI Commit / Revert calls during the case *)

Record pv_case := mkPV {
  c_tip : header; c_fin : N; c_cs : N; c_app : bstr; c_block : block; c_pe : payload_env; c_ve : venv; c_xe : xenv; c_io : impl_obs }.

Definition tip_id (s : node) : bstr :=
  match tip_header s with Some h => h_id h | None => mkB 0 0 end.

Definition state_agrees (s' : node) (io : impl_obs) : bool :=
  beq (tip_id s') (io_tip_after io) && (n_finalized s' =? io_fin_after io) && (n_cs s' =? io_cs_after io)
  && evs_eqb (map enc_pub (n_emitted s')) (io_events io) && beq (n_app s') (io_app_after io).

Definition impl_accepted (io : impl_obs) : bool := existsb (N.eqb 0) (io_rules io).

Definition check_pv (c : pv_case) : N :=
  let tipb := mkBlk (c_tip c) [] [] in
  let s := mkNode [tipb] (c_cs c) (c_fin c) [] (c_app c) in
  let b := c_block c in
  let io := c_io c in
  let '(o, s') := receive s b (c_pe c) (c_ve c) (c_xe c) in
  let mnum := match o with Accepted => 0 | Rejected r => rule_num r | NoTip => 99 end in
  let agree_model := existsb (N.eqb mnum) (io_rules io) && state_agrees s' io
                     && (if mnum =? 0 then true else io_db_same io) in
  let valid := valid_block_b (c_tip c) b (c_pe c) (c_ve c) (c_xe c) in
  let x := c_xe c in
  let raise := c_fin c <? xe_post_precommit x in
  let spec_events :=
      (if raise then [(2, c_fin c, xe_post_precommit x, b_code (h_id (b_header b)))] else [])
      ++ [(1, b_code (h_id (b_header b)), xe_nevents x, 0)] ++ (if xe_params_changed x then [(4, 0, 0, 0)] else []) in
  let agree_spec :=
      Bool.eqb (impl_accepted io) valid &&
      (if impl_accepted io
       then beq (io_tip_after io) (h_id (b_header b)) && (io_fin_after io =? N.max (c_fin c) (xe_post_precommit x))
            && (io_cs_after io =? xe_post_cs x) && evs_eqb (io_events io) spec_events
            && beq (io_app_after io) (h_stateroot (b_header b)) && (io_abi_commits io =? io_abi_reverts io + 1)
       else io_db_same io && evs_eqb (io_events io) [] && beq (io_tip_after io) (h_id (c_tip c))
            && (io_fin_after io =? c_fin c) && (io_cs_after io =? c_cs c)
            (* no trace in the application either: no net ABI commit *)
            && beq (io_app_after io) (c_app c) && (io_abi_commits io =? io_abi_reverts io)) in
  code agree_model agree_spec.

(* tie-break scenario: chain = [parent; old tip]; the competing block is processed with class TieBreak *)
Record tb_case := mkTB {
  t_prev : block; t_old : block; t_fin : N; t_cs : N; t_app : bstr; t_new : block; t_pe : payload_env; t_ve : venv; t_xe : xenv;
  t_del_cs : N; t_old_ve : venv; t_old_xe : xenv; t_io : impl_obs }.

Definition check_tb (c : tb_case) : N :=
  let s := mkNode [t_prev c; t_old c] (t_cs c) (t_fin c) [] (t_app c) in
  let io := t_io c in
  let '(o, s') := process s (t_new c) TieBreak (t_pe c) (t_ve c) (t_xe c)
                          (mkTE (mkDE true true (t_del_cs c)) (t_old_ve c) (t_old_xe c)) in
  let agree_model := state_agrees s' io in
  (* oracle: the competing block is appended (replacing the old tip) only if it is valid against the parent;
     otherwise chain, consensus state, finalized height, events and the database are exactly as before *)
  let valid := valid_block_b (b_header (t_prev c)) (t_new c) (t_pe c) (t_ve c) (t_xe c) in
  let now_tip_new := beq (io_tip_after io) (h_id (b_header (t_new c))) in
  let agree_spec :=
      if valid then true
      else negb now_tip_new && io_db_same io && evs_eqb (io_events io) [] && beq (io_tip_after io) (h_id (b_header (t_old c)))
           && (io_fin_after io =? t_fin c) && (io_cs_after io =? t_cs c) in
  code agree_model agree_spec.
