(* Correspondence evaluators for C03.  Result code per case (Base.Corr.code): 0 = the implementation agrees with the model
   and satisfies the declarative oracle; 1 = differs from the model only; >= 2 = violates the oracle. *)
From Coq Require Import List NArith Bool.
From LE Require Import Base.Corr BFT.Contradiction BFT.ForkChoice Exec.VerifyBlock Exec.Process.
Import ListNotations.
Local Open Scope N_scope.

(* published events as observed: (kind, a, b, c) with New = (1, id code, #events, 0), Finalize = (2, orig, next, trigger code),
   Delete = (3, id code, 0, 0), ValidatorsChange = (4, 0, 0, 0) *)
Definition ev := (N * N * N * N)%type.
Definition enc_pub (p : pub) : ev :=
  match p with
  | PNew id nev => (1, b_code id, nev, 0)
  | PFinalize o n t => (2, o, n, b_code t)
  | PDelete id => (3, b_code id, 0, 0)
  | PValidators => (4, 0, 0, 0)
  end.
Definition ev_eqb (a b : ev) : bool :=
  let '(a1, a2, a3, a4) := a in let '(b1, b2, b3, b4) := b in (a1 =? b1) && (a2 =? b2) && (a3 =? b3) && (a4 =? b4).
Fixpoint evs_eqb (a b : list ev) : bool :=
  match a, b with
  | [], [] => true
  | x :: a', y :: b' => ev_eqb x y && evs_eqb a' b'
  | _, _ => false
  end.

Record impl_obs := mkIO {
  io_rules : list N;        (* rule numbers compatible with the implementation's error class; [0] = accepted *)
  io_db_same : bool;        (* whole sorted DB dump identical before/after *)
  io_events : list ev;
  io_tip_after : bstr; io_fin_after : N; io_cs_after : N;
  io_app_after : bstr;      (* state root the application (ABI double) holds committed after the case *)
  io_abi_commits : N; io_abi_reverts : N }.   (* ABI Commit / Revert calls during the case *)

(* INDEPENDENT contradiction verdict: BFTVotes.contradicting re-evaluated in Gallina (BFT/Contradiction.v, the C07 model) on the
   window of the node (newest first; generator as the code of its address): the newest entry of the same generator decides. *)
Definition window_contradicting (w : list bh) (h : header) : bool :=
  let hb := Build_bh (h_height h) (b_code (h_gen h)) (h_mhg h) (h_mhp h) in
  match find (fun e => gen e =? gen hb) w with
  | Some e => contradicting e hb
  | None => false
  end.
Definition set_contra (v : venv) (c : bool) : venv :=
  mkVE (ve_genesis_ts v) (ve_block_time v) (ve_now v) (ve_max_payload v) (ve_gen_lookup_ok v) (ve_generators v) (ve_node_mhp v) c
       (ve_mh_precommit v) (ve_mh_cert v) (ve_next_params v) (ve_agg_lookup_ok v) (ve_agg_bls_ok v) (ve_sig_ok v).

Record pv_case := mkPV {
  c_tip : header; c_fin : N; c_cs : N; c_app : bstr; c_block : block; c_pe : payload_env; c_ve : venv; c_xe : xenv; c_io : impl_obs;
  c_window : list bh }.

Definition tip_id (s : node) : bstr :=
  match tip_header s with Some h => h_id h | None => mkB 0 0 end.

Definition state_agrees (s' : node) (io : impl_obs) : bool :=
  beq (tip_id s') (io_tip_after io) && (n_finalized s' =? io_fin_after io) && (n_cs s' =? io_cs_after io)
  && evs_eqb (map enc_pub (n_emitted s')) (io_events io) && beq (n_app s') (io_app_after io).

Definition impl_accepted (io : impl_obs) : bool := existsb (N.eqb 0) (io_rules io).

Definition check_pv (c : pv_case) : N :=
  let tipb := mkBlk (c_tip c) [] [] in
  let s := mkNode [tipb] (c_cs c) (c_fin c) [] (c_app c) in
  let b := c_block c in
  let io := c_io c in
  let ve := set_contra (c_ve c) (window_contradicting (c_window c) (b_header b)) in
  let short_answers := Nat.ltb (length (xe_tx (c_xe c))) (length (b_txs b)) in   (* tx_loop is total on a short answer list: not a case *)
  let '(o, s') := receive s b (c_pe c) ve (c_xe c) in
  let mnum := match o with Accepted => 0 | Rejected r => rule_num r | NoTip => 99 end in
  let agree_model := existsb (N.eqb mnum) (io_rules io) && state_agrees s' io
                     && (if mnum =? 0 then true else io_db_same io) && negb short_answers in
  let valid := valid_block_b (c_tip c) b (c_pe c) ve (c_xe c) in
  let x := c_xe c in
  let raise := c_fin c <? xe_post_precommit x in
  let spec_events :=
      (if raise then [(2, c_fin c, xe_post_precommit x, b_code (h_id (b_header b)))] else [])
      ++ [(1, b_code (h_id (b_header b)), xe_nevents x, 0)] ++ (if xe_params_changed x then [(4, 0, 0, 0)] else []) in
  let agree_spec :=
      Bool.eqb (impl_accepted io) valid &&
      (if impl_accepted io
       then beq (io_tip_after io) (h_id (b_header b)) && (io_fin_after io =? N.max (c_fin c) (xe_post_precommit x))
            && (io_cs_after io =? xe_post_cs x) && evs_eqb (io_events io) spec_events
            && beq (io_app_after io) (h_stateroot (b_header b)) && (io_abi_commits io =? io_abi_reverts io + 1)
       else io_db_same io && evs_eqb (io_events io) [] && beq (io_tip_after io) (h_id (c_tip c))
            && (io_fin_after io =? c_fin c) && (io_cs_after io =? c_cs c)
            (* no trace in the application either: no net ABI commit *)
            && beq (io_app_after io) (c_app c) && (io_abi_commits io =? io_abi_reverts io)) in
  code agree_model agree_spec.

(* tie-break scenario: chain = [parent; old tip]; the competing block is processed with class TieBreak *)
Record tb_case := mkTB {
  t_prev : block; t_old : block; t_fin : N; t_cs : N; t_app : bstr; t_new : block; t_pe : payload_env; t_ve : venv; t_xe : xenv;
  t_del_cs : N; t_old_ve : venv; t_old_xe : xenv; t_io : impl_obs;
  t_window : list bh }.     (* BFT window of the state WITHOUT the old tip (where both the competitor and the re-applied tip are judged) *)

(* Result of the tie-break evaluator: a bit mask, so that every conjunct is reported under its own key.
     1   the implementation differs from the model (state, events, application root, DB-unchanged flag)
     2   KNOWN pattern only: the competitor is invalid and the events are exactly [Delete old tip; New old tip]
     4   tip wrong (invalid competitor: must be the old tip; valid: must be the competitor)
     8   invalid competitor but the database is not byte-identical
     16  finalized height wrong      32  consensus store wrong
     64  application root / ABI commit-revert balance wrong
     128 events are neither the expected ones nor the known pattern *)
Definition check_tb (c : tb_case) : N :=
  let s := mkNode [t_prev c; t_old c] (t_cs c) (t_fin c) [] (t_app c) in
  let io := t_io c in
  let ve := set_contra (t_ve c) (window_contradicting (t_window c) (b_header (t_new c))) in
  let old_ve := set_contra (t_old_ve c) (window_contradicting (t_window c) (b_header (t_old c))) in
  let '(o, s') := process s (t_new c) TieBreak (t_pe c) ve (t_xe c)
                          (mkTE (mkDE true true (t_del_cs c)) old_ve (t_old_xe c)) in
  let model_accepts := match o with PAccepted => true | _ => false end in
  let agree_model := state_agrees s' io && (if model_accepts then true else io_db_same io) in
  let valid := valid_block_b (b_header (t_prev c)) (t_new c) (t_pe c) ve (t_xe c) in
  let oldh := b_header (t_old c) in
  let newh := b_header (t_new c) in
  let x := t_xe c in
  let del_old := (3, b_code (h_id oldh), 0, 0) in
  let known_events := [del_old; (1, b_code (h_id oldh), xe_nevents (t_old_xe c), 0)]
                      ++ (if xe_params_changed (t_old_xe c) then [(4, 0, 0, 0)] else []) in
  let raise := t_fin c <? xe_post_precommit x in
  let valid_events := [del_old]
      ++ (if raise then [(2, t_fin c, xe_post_precommit x, b_code (h_id newh))] else [])
      ++ [(1, b_code (h_id newh), xe_nevents x, 0)] ++ (if xe_params_changed x then [(4, 0, 0, 0)] else []) in
  let balanced := io_abi_commits io =? io_abi_reverts io in
  let bit (b : bool) (n : N) : N := if b then 0 else n in
  if valid then
    bit agree_model 1
    + bit (beq (io_tip_after io) (h_id newh)) 4
    + bit (io_fin_after io =? N.max (t_fin c) (xe_post_precommit x)) 16
    + bit (io_cs_after io =? xe_post_cs x) 32
    + bit (beq (io_app_after io) (h_stateroot newh) && balanced) 64
    + bit (evs_eqb (io_events io) valid_events) 128
  else
    let ev_none := evs_eqb (io_events io) [] in
    let ev_known := evs_eqb (io_events io) known_events in
    bit agree_model 1
    + (if ev_known then 2 else 0)
    + bit (beq (io_tip_after io) (h_id oldh)) 4
    + bit (io_db_same io) 8
    + bit (io_fin_after io =? t_fin c) 16
    + bit (io_cs_after io =? t_cs c) 32
    + bit (beq (io_app_after io) (t_app c) && balanced) 64
    + bit (ev_none || ev_known) 128.
