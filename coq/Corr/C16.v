(* Correspondence evaluators for C16.  One case = one scenario: blocks (transactions = scripts), reverts, restarts.
   The hash is symbolic (injective, never empty) and a state root is the canonical tree map itself, so "root = SMT root
   of the state" is decidable here; on the Go side the same statement is checked with the real smt package built from
   scratch over the dumped state (flags rootref / treeref).
   Result: 0, or 4*step index + code of the first step violating the oracle (else the first differing from the model). *)
From Coq Require Import List NArith Bool Arith.
From LE Require Import Base.Corr Exec.EventLog Exec.TxExec Exec.StateRoot Exec.Recovery.
Import ListNotations.
Local Open Scope N_scope.

Definition hash_i (b : bytes) : bytes := 1 :: b.
Definition root := list (bytes * bytes).

Fixpoint blt (a b : bytes) : bool :=
  match a, b with
  | [], [] => false | [], _ :: _ => true | _ :: _, [] => false
  | x :: a', y :: b' => if x <? y then true else if y <? x then false else blt a' b'
  end.
Fixpoint sinsert (m : root) (k v : bytes) : root :=
  match m with
  | [] => [(k, v)]
  | (k', v') :: t => if bytes_eqb k' k then (k, v) :: t else if blt k k' then (k, v) :: m else (k', v') :: sinsert t k v
  end.
(* Trie.Update: first occurrence of a key wins, None (empty value) deletes *)
Fixpoint tree_update_i' (m : root) (ups : list (bytes * option bytes)) (seen : list bytes) : root :=
  match ups with
  | [] => m
  | (k, v) :: t =>
      if existsb (bytes_eqb k) seen then tree_update_i' m t seen
      else tree_update_i' (match v with None => remove m k | Some x => sinsert m k x end) t (k :: seen)
  end.
Definition tree_update_i (m : root) (ups : list (bytes * option bytes)) : root := tree_update_i' m ups [].
Definition enc_i (b : bytes) : bytes := b.
Definition tree_root_i (m : root) : root := m.
Fixpoint kvs_eqb (a b : list (bytes * bytes)) : bool :=
  match a, b with
  | [], [] => true
  | (k, v) :: a', (k', v') :: b' => bytes_eqb k k' && bytes_eqb v v' && kvs_eqb a' b'
  | _, _ => false
  end.
Definition root_eqb_i : root -> root -> bool := kvs_eqb.

(* SMT root of a state with deleted keys absent: the sorted map tree_key k |-> hash v *)
Fixpoint tree_image (s : store) : root :=
  match s with
  | [] => []
  | (k, v) :: t => match tree_key hash_i k with Some tk => sinsert (tree_image t) tk (hash_i v) | None => tree_image t end
  end.

(* two stores with unique keys hold the same bindings *)
Definition store_eqb (a b : store) : bool :=
  Nat.eqb (length a) (length b) &&
  forallb (fun kv => match lookup b (fst kv) with Some v => bytes_eqb v (snd kv) | None => false end) a.

Definition ev_obs : Type := N * list N * list N * N * N * bool.   (* name, data, topics, index, height, txid-topic ok *)
Definition ev_obs_eqb (a b : ev_obs) : bool :=
  let '(n, d, t, i, h, _) := a in let '(n', d', t', i', h', _) := b in
  (n =? n') && bytes_eqb d d' && bytes_eqb t t' && (i =? i') && (h =? h').
Fixpoint evs_eqb (a b : list ev_obs) : bool :=
  match a, b with [], [] => true | x :: a', y :: b' => ev_obs_eqb x y && evs_eqb a' b' | _, _ => false end.

Definition obs_eqb (a b : obs) : bool :=
  match a, b with
  | OGot None, OGot None => true
  | OGot (Some x), OGot (Some y) => bytes_eqb x y
  | OEventErr, OEventErr => true
  | OSnapId x, OSnapId y => Nat.eqb x y
  | ORestoreErr, ORestoreErr => true
  | _, _ => false
  end.
Fixpoint obss_eqb (a b : list obs) : bool :=
  match a, b with [], [] => true | x :: a', y :: b' => obs_eqb x y && obss_eqb a' b' | _, _ => false end.

(* transaction with the implementation's observation: result (-1/0/1 as 0/1/2), events, scripted observations *)
(* [bool]: ExecuteTransactionRequest.DryRun — executed over the committed state with a fresh staged store, no trace left *)
Definition tx_obs : Type := tx * bool * N * list ev_obs * list obs.

Definition model_events (l : logger) : list ev_obs :=
  map (fun e => (ev_name e, ev_data e, match ev_topics e with _ :: t => 0 :: t | [] => [] end, ev_index e, ev_height e, true))
      (events l).

Definition xres_code (r : xres) : N := match r with XInvalid => 0 | XFail => 1 | XOk => 2 end.

Fixpoint consecutive (evs : list ev_obs) (i : N) (h : N) : bool :=
  match evs with
  | [] => true
  | (_, _, _, ix, hh, ok) :: t => (ix =? i) && (hh =? h) && ok && consecutive t (i + 1) h
  end.

(* oracle for one transaction's answer: consecutive indices from 0, the block's height, the transaction id as first
   topic, and for Fail / Ok a final standard event carrying the result *)
Definition tx_spec (height : N) (r : N) (evs : list ev_obs) : bool :=
  consecutive evs 0 height &&
  match r with
  | 0 => true
  | _ => match rev evs with
         | (n, d, _, _, _, _) :: _ => (n =? 100) && bytes_eqb d [8; if r =? 2 then 1 else 0]
         | [] => false
         end
  end.


(* ---- declarative reference semantics (the right-hand side of failed_command_is_noop_on_state / events_on_failure):
   the state is a plain key->value map — no cache entries, no dirty/deleted flags; a snapshot is a saved map; a failed
   command gives the map back as it was when the command started; events of a failed command are dropped unless
   unrevertible.  [None] = the oracle does not apply (a hook failed, the command does not exist, or the command itself
   consumed ExecuteTransaction's snapshot: result Invalid, block rejected by the engine). *)
Record psn := { ps_count : nat; ps_saved : list (nat * store) }.
Definition psnap (v : psn) (m : store) : psn :=
  {| ps_count := S (ps_count v); ps_saved := (ps_count v, m) :: nremove (ps_saved v) (ps_count v) |}.
Definition plocal (ls : list (nat * psn)) (n : nat) : psn :=
  match nlookup ls n with Some x => x | None => {| ps_count := 0; ps_saved := [] |} end.

Fixpoint spec_run (m : store) (rs : psn) (ls : list (nat * psn)) (acts : list action)
  : store * psn * list (option bytes) :=
  match acts with
  | [] => (m, rs, [])
  | a :: t =>
      match a with
      | ASet k v => spec_run (put m k v) rs ls t
      | ADel k => spec_run (remove m k) rs ls t
      | AGet k => let '(m', rs', g) := spec_run m rs ls t in (m', rs', lookup m k :: g)
      | AEvent _ _ => spec_run m rs ls t
      | ASnap O => spec_run m (psnap rs m) ls t
      | ASnap n => spec_run m rs ((n, psnap (plocal ls n) m) :: nremove ls n) t
      | ARestore O id =>
          match nlookup (ps_saved rs) id with
          | Some m0 => spec_run m0 {| ps_count := ps_count rs; ps_saved := nremove (ps_saved rs) id |} ls t
          | None => spec_run m rs ls t
          end
      | ARestore n id =>
          let v := plocal ls n in
          match nlookup (ps_saved v) id with
          | Some m0 => spec_run m0 rs ((n, {| ps_count := ps_count v; ps_saved := nremove (ps_saved v) id |}) :: nremove ls n) t
          | None => spec_run m rs ls t
          end
      end
  end.

(* events a script logs successfully: (unrevertible, name, data, extra topics) *)
Fixpoint script_events (acts : list action) : list (bool * N * list N * list N) :=
  match acts with
  | [] => []
  | AEvent u r :: t => if rq_ok r then (u, rq_name r, rq_data r, rq_topics r) :: script_events t else script_events t
  | _ :: t => script_events t
  end.

Fixpoint number (evs : list (bool * N * list N * list N)) (i : N) (h : N) : list ev_obs :=
  match evs with
  | [] => []
  | (_, n, d, tp) :: t => (n, d, 0 :: tp, i, h, true) :: number t (i + 1) h
  end.

(* one transaction: Some (map, root snapshots, values read, expected events (None: not compared), expected result code).
   An INVALID transaction (hook failed, unknown command, the command's own snapshot gone) leaves the map as it was. *)
Definition spec_tx (height : N) (m : store) (rs : psn) (t : tx)
  : option (store * psn * option (list (option bytes)) * option (list ev_obs) * N) :=
  let sid0 := ps_count rs in
  let del (v : psn) (id : nat) := {| ps_count := ps_count v; ps_saved := nremove (ps_saved v) id |} in
  let invalid (v : psn) :=
    match nlookup (ps_saved v) sid0 with
    | Some m0 => Some (m0, del v sid0, None, None, 0)
    | None => None
    end in
  let '(m1, rs1, g1) := spec_run m (psnap rs m) [] (fst (tx_before t)) in
  if snd (tx_before t) then invalid rs1 else
  match tx_command t with
  | None => invalid rs1
  | Some c =>
      let sid := ps_count rs1 in
      let '(m2, rs2, g2) := spec_run m1 (psnap rs1 m1) [] (fst c) in
      if snd c && match nlookup (ps_saved rs2) sid with Some _ => false | None => true end then invalid rs2 else
      let m3 := if snd c then m1 else m2 in
      let '(m4, rs4, g3) := spec_run m3 (del rs2 sid) [] (fst (tx_after t)) in
      if snd (tx_after t) then invalid rs4 else
      let evs := script_events (fst (tx_before t)) ++
                 (if snd c then filter (fun e => fst (fst (fst e))) (script_events (fst c)) else script_events (fst c)) ++
                 script_events (fst (tx_after t)) ++
                 [(false, 100, [8; if snd c then 0 else 1], [])] in
      Some (m4, del rs4 sid0, Some (g1 ++ g2 ++ g3), Some (number evs 0 height), if snd c then 1 else 2)
  end.

Fixpoint gots (os : list obs) : list (option bytes) :=
  match os with [] => [] | OGot v :: t => v :: gots t | _ :: t => gots t end.
Fixpoint opts_eqb (a b : list (option bytes)) : bool :=
  match a, b with
  | [], [] => true
  | None :: a', None :: b' => opts_eqb a' b'
  | Some x :: a', Some y :: b' => bytes_eqb x y && opts_eqb a' b'
  | _, _ => false
  end.

(* the block against the reference semantics: Some (final map, all answers as the reference says) or None = not applicable *)
Definition spec_answers (r r' : N) (evs : list ev_obs) (evs' : option (list ev_obs)) (os : list obs) (g : option (list (option bytes))) : bool :=
  (r =? r') && match evs' with Some x => evs_eqb x evs | None => true end &&
  match g with Some x => opts_eqb x (gots os) | None => true end.

Fixpoint spec_block (height : N) (base : store) (m : store) (rs : psn) (txs : list tx_obs) (ok : bool) : option (store * bool) :=
  match txs with
  | [] => Some (m, ok)
  | (t, dry, r, evs, os) :: rest =>
      if dry then
        match spec_tx height base {| ps_count := 0; ps_saved := [] |} t with
        | None => spec_block height base m rs rest ok
        | Some (_, _, g, evs', r') => spec_block height base m rs rest (ok && spec_answers r r' evs evs' os g)
        end
      else
      match spec_tx height m rs t with
      | None => None
      | Some (m', rs', g, evs', r') => spec_block height base m' rs' rest (ok && spec_answers r r' evs evs' os g)
      end
  end.

(* run the transactions of a block over one staged store; returns agreement flags and the final cache *)
Fixpoint run_txs (s : store) (height : N) (c : cache) (v : vsnaps) (txs : list tx_obs) (am asp : bool) : cache * bool * bool :=
  match txs with
  | [] => (c, am, asp)
  | (t, dry, r, evs, os) :: rest =>
      let st := if dry then {| x_cache := []; x_root := no_snaps; x_log := new_logger height |}
                else {| x_cache := c; x_root := v; x_log := new_logger height |} in
      let '(st', res, o) := execute_tx s st t in
      let ok_m := (xres_code res =? r) && evs_eqb (model_events (x_log st')) evs && obss_eqb o os in
      if dry then run_txs s height c v rest (am && ok_m) (asp && tx_spec height r evs)
      else run_txs s height (x_cache st') (x_root st') rest (am && ok_m) (asp && tx_spec height r evs)
  end.

Inductive expect := ENone | ERight | EWrong.
Inductive res := ROk' | RMismatch' | RNoDiff' | RBehind | RConflict | ROther.
Definition res_eqb (a b : res) : bool :=
  match a, b with
  | ROk', ROk' | RMismatch', RMismatch' | RNoDiff', RNoDiff' | RBehind, RBehind | RConflict, RConflict | ROther, ROther => true
  | _, _ => false
  end.

(* dump: state bindings (full keys), tree-state height (None = no record) *)
Definition dump : Type := store * option N.

Inductive step :=
| SBlock (height : N) (txs : list tx_obs) (dry : bool) (e : expect) (r : res) (rootref treeref : bool) (d : dump)
(* block generation: txs = the candidates generator.selectTransactionsByFee executed on one context (invalid ones
   skipped), txs2 = the selected ones executed again as a block whose Commit expects the root of the first context *)
| SGen (height : N) (txs txs2 : list tx_obs) (selok : bool) (r : res) (rootref treeref : bool) (d : dump)
(* a block executed through consensus' abi_caller (Before/AfterTransactionsExecute emit nb / na events, the block's
   events are concatenated and renumbered), then committed; evs = the block's events as the engine stores them
   (first topic: 202/203 = block-level default topics, 1000+k = id of the k-th transaction) *)
| SCBlock (height : N) (nb na : nat) (txs : list tx) (evs : list ev_obs) (r : res) (rootref treeref : bool) (d : dump)
(* Finalize(fh) *)
| SFin (fh : N) (r : res) (treeref : bool) (d : dump)
| SRevert (height : N) (e : expect) (r : res) (rootref treeref : bool) (d : dump)
| SInit (last : N) (wrong_root : bool) (r : res) (rootref treeref : bool) (d : dump).

Definition bogus : root := [([255], [255])].

(* model state: application db, engine's roots per height, dumps recorded after each committed block, tip *)
Record mstate := { m_db : appdb root root; m_roots : list (N * root); m_states : list (N * store); m_tip : N;
                   m_floor : N (* lowest height still undoable: max over Finalize(fh) of fh - 1 *) }.
Fixpoint nget {A : Type} (l : list (N * A)) (h : N) : option A :=
  match l with [] => None | (h', a) :: t => if h' =? h then Some a else nget t h end.

Definition db_matches (a : appdb root root) (d : dump) : bool :=
  store_eqb (a_state a) (fst d) &&
  match a_tree_state a, snd d with
  | Some (h, r), Some h' => (h =? h') && root_eqb_i r (tree_image (fst d))
  | None, None => true
  | _, _ => false
  end.

Definition check_step (m : mstate) (st : step) : N * mstate :=
  match st with
  | SBlock height txs dry e r rootref treeref d =>
      let prev := match nget (m_roots m) (height - 1) with Some x => x | None => [] end in
      let '(c, am, asp) := run_txs (a_state (m_db m)) height [] no_snaps txs true true in
      let right := match commit hash_i enc_i root_eqb_i tree_update_i tree_root_i (m_db m) c height prev None true with
                   | COk _ x => x | _ => bogus end in
      let ex := match e with ENone => None | ERight => Some right | EWrong => Some bogus end in
      let out := commit hash_i enc_i root_eqb_i tree_update_i tree_root_i (m_db m) c height prev ex dry in
      let '(a', mr, newroot) := match out with
                                | COk a' x => (a', ROk', Some x)
                                | CMismatch _ => (m_db m, RMismatch', None)
                                | CPanic | CForeignRoot => (m_db m, ROther, None)
                                end in
      let committed := res_eqb r ROk' && negb dry in
      let m' := if committed
                then {| m_db := a'; m_roots := (height, right) :: m_roots m; m_states := (height, fst d) :: m_states m;
                        m_tip := height; m_floor := m_floor m |}
                else m in
      let ref := spec_block height (a_state (m_db m)) (a_state (m_db m)) {| ps_count := 0; ps_saved := [] |} txs true in
      (code (am && res_eqb mr r && db_matches a' d)
            (asp && (if committed then rootref && treeref else true) &&
             (* Commit answers: without an expected root, or with the root a dry run on the same context returned, it
                succeeds; with a root that is nobody's it is refused *)
             res_eqb r (match e with EWrong => RMismatch' | _ => ROk' end) &&
             (* reference semantics: answers of every transaction, and the committed state *)
             match ref with
             | Some (mref, okref) => okref && (if committed then store_eqb mref (fst d) && store_eqb (fst d) mref else true)
             | None => true
             end &&
             (* nothing is written unless the commit succeeded for real: state and tree-state record as before *)
             (if committed then match snd d with Some h => h =? height | None => false end
              else match nget (m_states m) (m_tip m) with
                   | Some s => store_eqb s (fst d) | None => Nat.eqb (length (fst d)) 0 end &&
                   match a_tree_state (m_db m), snd d with
                   | Some (h, _), Some h' => h =? h'
                   | None, None => true
                   | _, _ => false
                   end)), m')
  | SGen height txs txs2 selok r rootref treeref d =>
      let prev := match nget (m_roots m) (height - 1) with Some x => x | None => [] end in
      let '(c1, am1, asp1) := run_txs (a_state (m_db m)) height [] no_snaps txs true true in
      let gen_root := match commit hash_i enc_i root_eqb_i tree_update_i tree_root_i (m_db m) c1 height prev None true with
                      | COk _ x => x | _ => bogus end in
      let '(c2, am2, asp2) := run_txs (a_state (m_db m)) height [] no_snaps txs2 true true in
      let out := commit hash_i enc_i root_eqb_i tree_update_i tree_root_i (m_db m) c2 height prev (Some gen_root) false in
      let '(a', mr, newroot) := match out with
                                | COk a' x => (a', ROk', x)
                                | CMismatch _ => (m_db m, RMismatch', bogus)
                                | _ => (m_db m, ROther, bogus)
                                end in
      let committed := res_eqb r ROk' in
      let m' := if committed
                then {| m_db := a'; m_roots := (height, newroot) :: m_roots m; m_states := (height, fst d) :: m_states m;
                        m_tip := height; m_floor := m_floor m |}
                else m in
      let e0 := {| ps_count := 0; ps_saved := [] |} in
      (code (am1 && am2 && res_eqb mr r && db_matches a' d)
            ((* the generated block is valid: every node computes the root the generator put in the header *)
             res_eqb r ROk' && rootref && treeref && selok && asp1 && asp2 &&
             match spec_block height (a_state (m_db m)) (a_state (m_db m)) e0 txs true,
                   spec_block height (a_state (m_db m)) (a_state (m_db m)) e0 txs2 true with
             | Some (m1, ok1), Some (m2, ok2) => ok1 && ok2 && store_eqb m1 m2 && store_eqb m2 (fst d) && store_eqb (fst d) m2
             | _, _ => true
             end), m')
  | SCBlock height nb na txs evs r rootref treeref d =>
      let prev := match nget (m_roots m) (height - 1) with Some x => x | None => [] end in
      let hook (name topic : N) (k : nat) : list event :=
        map (fun i => {| ev_module := 1; ev_name := name; ev_data := [N.of_nat i]; ev_topics := [topic];
                         ev_height := height; ev_index := N.of_nat i |}) (seq 0 k) in
      let fix go (c : cache) (v : vsnaps) (ts : list tx) (acc : list (list event)) (allok : bool) :=
        match ts with
        | [] => (c, rev acc, allok)
        | t :: rest =>
            let '(st', res, _) := execute_tx (a_state (m_db m)) {| x_cache := c; x_root := v; x_log := new_logger height |} t in
            go (x_cache st') (x_root st') rest (events (x_log st') :: acc)
               (allok && match res with XInvalid => false | _ => true end)
        end in
      (* the block-level hooks write state as well: before the transactions key 9 of store 1 := [nb]; after them key 9 of
         store 2 := [na] and key 9 of store 1 is deleted *)
      let k1 := [0; 0; 0; 0; 1; 0; 0; 9] in let k2 := [0; 0; 0; 0; 1; 0; 1; 9] in
      let c0 := match nb with O => [] | _ => db_set (a_state (m_db m)) [] k1 [N.of_nat nb] end in
      let '(c1, txevs, allok) := go c0 no_snaps txs [] true in
      let c := match na with O => c1 | _ => db_del (a_state (m_db m)) (db_set (a_state (m_db m)) c1 k2 [N.of_nat na]) k1 end in
      let mevs := map (fun e => (ev_name e, ev_data e, ev_topics e, ev_index e, ev_height e, true))
                      (block_events (hook 1 202 nb) txevs (hook 2 203 na)) in
      let out := commit hash_i enc_i root_eqb_i tree_update_i tree_root_i (m_db m) c height prev None false in
      let '(a', mr, newroot) := match out with
                                | COk a' x => (a', ROk', x)
                                | _ => (m_db m, ROther, bogus)
                                end in
      let committed := res_eqb r ROk' in
      let m' := if committed
                then {| m_db := a'; m_roots := (height, newroot) :: m_roots m; m_states := (height, fst d) :: m_states m;
                        m_tip := height; m_floor := m_floor m |}
                else m in
      (code (allok && evs_eqb mevs evs && res_eqb mr r && db_matches a' d)
            ((* the block's events are numbered 0,1,2,... in the engine's list; the block is committed with the SMT root *)
             consecutive evs 0 height && res_eqb r ROk' && rootref && treeref), m')
  | SFin fh r treeref d =>
      let a' := finalize (m_db m) fh in
      let m' := {| m_db := a'; m_roots := m_roots m; m_states := m_states m; m_tip := m_tip m;
                   m_floor := N.max (m_floor m) (fh - 1) |} in
      (code (res_eqb r ROk' && db_matches a' d)
            (res_eqb r ROk' && treeref &&
             match nget (m_states m) (m_tip m) with Some s => store_eqb s (fst d) | None => Nat.eqb (length (fst d)) 0 end), m')
  | SRevert height e r rootref treeref d =>
      let cur := match nget (m_roots m) height with Some x => x | None => [] end in
      let prev := match nget (m_roots m) (height - 1) with Some x => x | None => [] end in
      let ex := match e with ENone => None | ERight => Some prev | EWrong => Some bogus end in
      let out := revert hash_i enc_i root_eqb_i tree_update_i tree_root_i (m_db m) height cur ex in
      let '(a', mr) := match out with
                       | ROk a' _ => (a', ROk') | RNoDiff => (m_db m, RNoDiff') | RMismatch _ => (m_db m, RMismatch')
                       | RPanic | RForeignRoot => (m_db m, ROther) end in
      let ok := res_eqb r ROk' in
      let m' := if ok then {| m_db := a'; m_roots := m_roots m; m_states := m_states m; m_tip := height - 1; m_floor := m_floor m |} else m in
      (code (res_eqb mr r && db_matches a' d)
            ((* every block above the finalised floor can be reverted (unless a wrong root is expected); at or below it
                the diff is gone *)
             (if m_floor m <? height then res_eqb r (match e with EWrong => RMismatch' | _ => ROk' end)
              else res_eqb r RNoDiff') &&
             if ok then rootref && treeref &&
                        match nget (m_states m) (height - 1) with
                        | Some s => store_eqb s (fst d) | None => Nat.eqb (length (fst d)) 0 end &&
                        match snd d with Some h => h =? height - 1 | None => false end
             else true), m')
  | SInit last wrong r rootref treeref d =>
      let lr := if wrong then bogus else match nget (m_roots m) last with Some x => x | None => [] end in
      let out := init hash_i enc_i root_eqb_i tree_update_i tree_root_i [] (m_db m) last lr in
      let '(a', mr) := match out with
                       | IOk a' => (a', ROk') | IBehind => (m_db m, RBehind) | IConflict a' => (a', RConflict)
                       | IRevertErr a' RNoDiff => (a', RNoDiff') | IRevertErr a' _ => (a', ROther) | IFuel => (m_db m, ROther) end in
      let rolled := res_eqb r ROk' || res_eqb r RConflict in
      let m' := if rolled then {| m_db := a'; m_roots := m_roots m; m_states := m_states m;
                                  m_tip := if last <=? m_tip m then last else m_tip m; m_floor := m_floor m |} else m in
      (code (res_eqb mr r && db_matches a' d)
            ((* restart recovery must succeed whenever the engine's tip lies between the finalised floor and the
                application height and the engine's root is the right one *)
             (if (m_floor m <=? last) && (last <=? m_tip m) && negb wrong then res_eqb r ROk' else true) &&
             if res_eqb r ROk' then
               rootref && treeref &&
               match nget (m_states m) last with
               | Some s => store_eqb s (fst d) | None => Nat.eqb (length (fst d)) 0 end &&
               match snd d with Some h => h =? last | None => last =? 0 end
             else true), m')
  end.

Fixpoint check_steps (m : mstate) (ss : list step) (i : N) (first_model : N) : N :=
  match ss with
  | [] => first_model
  | s :: t => let '(c, m') := check_step m s in
              if 2 <=? c then 4 * i + c
              else check_steps m' t (i + 1) (if (first_model =? 0) && (c =? 1) then 4 * i + c else first_model)
  end.

Definition check_scenario (ss : list step) : N :=
  check_steps {| m_db := {| a_state := []; a_tree := []; a_diffs := []; a_tree_state := None |}; m_roots := [(0, [])]; m_states := [(0, [])];
                 m_tip := 0; m_floor := 0 |} ss 0 0.
