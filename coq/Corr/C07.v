(* Correspondence evaluators for C07: one [check_*] per observation kind.
   Result code per case: 0 = implementation agrees with model and with the declarative oracle;
   1 = implementation differs from the model but satisfies the oracle; 2/3 = implementation violates
   the property oracle (3: and differs from the model). *)
From Coq Require Import List NArith Bool.
From LE Require Import Base.Corr BFT.Contradiction BFT.ForkChoice Gen.ForkOrder.
Import ListNotations.
Local Open Scope N_scope.




(* (b1, b2, impl result of AreDistinctHeadersContradicting b1 b2, swapped; API.AreHeadersContradicting on the same two headers
   (distinct IDs), swapped; API.AreHeadersContradicting b1 b1) *)
Definition contra_case : Type := bh * bh * bool * bool * bool * bool * bool.
Definition check_contra (c : contra_case) : N :=
  let '(b1, b2, r12, r21, a12, a21, self) := c in
  code (Bool.eqb r12 (contradicting b1 b2) && Bool.eqb r21 (contradicting b2 b1)
        && Bool.eqb a12 (contradicting b1 b2) && Bool.eqb a21 (contradicting b2 b1) && negb self)
       (Bool.eqb r12 (contradicting_spec b1 b2) && Bool.eqb r21 r12 && Bool.eqb a12 r12 && Bool.eqb a21 r12 && negb self).

Definition case_num (k : fc_case) : N :=
  match k with Identical => 0 | ValidBlock => 1 | DoubleForging => 2 | TieBreak => 3 | DifferentChain => 4 | Discard => 5 end.

(* (slot cfg, last, cur, t_last, t_cur, impl predicate bits [valid;identical;double;tie;different]) *)
Definition fc_obs : Type := slotcfg * fh * fh * option N * N * list bool.
Definition impl_class (bits : list bool) : N :=
  match bits with
  | [v; i; d; t; x] => if i then 0 else if v then 1 else if d then 2 else if t then 3 else if x then 4 else 5
  | _ => 99
  end.
(* the oracle: the implementation's class is the unique applicable case of the order-free specification *)
Definition spec_agrees (impl : N) (cases : list fc_case) : bool :=
  match cases with [k] => impl =? case_num k | _ => false end.
Definition check_fc (o : fc_obs) : N :=
  let '(c, last, cur, tl, tc, bits) := o in
  let model_bits := [is_valid_block last cur; is_identical last cur; is_double_forging last cur;
                     is_tie_break c last cur tl tc; is_different_chain last cur] in
  code (forallb (fun p => Bool.eqb (fst p) (snd p)) (combine bits model_bits) && Nat.eqb (length bits) 5)
       (spec_agrees (impl_class bits) (spec_cases c last cur tl tc)).

(* search for a concrete misclassification: the dispatch order regenerated from Executer.process, applied to the
   implementation's own predicate answers, against the LIP-0014 case list *)
Definition impl_holds (bits : list bool) (k : fc_case) : bool :=
  match bits, k with
  | [v; i; d; t; x], Identical => i
  | [v; i; d; t; x], ValidBlock => v
  | [v; i; d; t; x], DoubleForging => d
  | [v; i; d; t; x], TieBreak => t
  | [v; i; d; t; x], DifferentChain => x
  | _, _ => true
  end.
Fixpoint impl_dispatch (order : list fc_case) (bits : list bool) : fc_case :=
  match order with [] => Discard | k :: rest => if impl_holds bits k then k else impl_dispatch rest bits end.
Definition check_dispatch (o : fc_obs) : N :=
  let '(c, last, cur, tl, tc, bits) := o in
  let order := map fst process_branches in
  code (case_num (dispatch order c last cur tl tc) =? case_num (classify c last cur tl tc))
       (spec_agrees (case_num (impl_dispatch order bits)) (spec_cases c last cur tl tc)).

(* HeaderHasPriority / Synced: (version-2?, header/tip maxHeightPrevoted, header/tip height, height, maxHeightPrevoted, impl answer) *)
Definition prio_case : Type := bool * N * N * N * N * bool.
Definition lex_lt_b (a b : N * N) : bool := (fst a <? fst b) || ((fst a =? fst b) && (snd a <? snd b)).
Definition check_prio (o : prio_case) : N :=
  let '(v2, hm, hh, height, mhp, r) := o in
  code (Bool.eqb r (if v2 then has_priority hm hh height mhp else has_priority_v0 hh height mhp))
       (Bool.eqb r (if v2 then lex_lt_b (mhp, height) (hm, hh) else (height <=? hh) && (mhp <=? hh))).
