(* Correspondence evaluators for C06.  One case = one scenario (the node's view + a list of operations with the
   implementation's observations).  BLS is instantiated by its ideal functionality on symbolic signatures
   (which key signed which certificate); the harness keeps the bytes <-> symbol table and uses real BLS.
   Result: 0 = every operation agrees with the model and satisfies the declarative oracle; otherwise
   4*index + code of the first operation that does not (code 1 = differs from the model only, 2/3 = violates the oracle). *)
From Coq Require Import List NArith Bool Arith.
From LE Require Import Base.Corr Cert.Bits Cert.AggCommit Cert.Pool.
Import ListNotations.
Local Open Scope N_scope.

Inductive csig := CEmpty | CBad | CSig (l : list (N * cert)).

Definition cert_eqb (a b : cert) : bool :=
  (c_block a =? c_block b) && (c_height a =? c_height b) && (c_ts a =? c_ts b) &&
  (c_state_root a =? c_state_root b) && (c_vhash a =? c_vhash b).

Fixpoint keys_eqb (a b : list key) : bool :=
  match a, b with
  | [], [] => true
  | x :: a', y :: b' => key_eqb x y && keys_eqb a' b'
  | _, _ => false
  end.

Section Inst.
  Variable kt : list key.   (* key table of the scenario *)
  Definition key_of (i : N) : key := nth (N.to_nat i) kt [].
  Definition sig_len0_i (s : csig) : bool := match s with CEmpty => true | _ => false end.
  Definition msg_of_i (c : cert) : cert := c.
  (* FastAggregateVerify: true iff the signature is the aggregate of one signature per listed key, all over m *)
  (* the compressed point at infinity (0xc0, 47 zero bytes) is not a valid public key; pkg/crypto validates every selected
     key before FastAggregateVerify (b830e1d), so [fav] = "all keys valid and FastAggregateVerify" *)
  Definition key_valid_i (k : key) : bool :=
    negb (match k with 192 :: t => forallb (N.eqb 0) t | _ => false end).
  Definition fav_i (ks : list key) (m : cert) (s : csig) : bool :=
    forallb key_valid_i ks &&
    match s with
    | CSig l => negb (Nat.eqb (length ks) 0) && forallb (fun p => cert_eqb (snd p) m) l &&
                keys_eqb (sort_by (fun k => k) ks) (sort_by (fun k => k) (map (fun p => key_of (fst p)) l))
    | _ => false
    end.
  Definition vrf_i (k : key) (m : cert) (s : csig) : bool :=
    match s with CSig [p] => key_eqb (key_of (fst p)) k && cert_eqb (snd p) m | _ => false end.
  Fixpoint agg_i (l : list csig) : csig :=
    match l with
    | [] => CSig []
    | CSig a :: t => match agg_i t with CSig b => CSig (a ++ b) | _ => CBad end
    | _ :: _ => CBad
    end.

  Notation sc := (single_commit csig).
  Notation ac := (agg_commit csig).

  (* aggregation is commutative: an aggregate signature is the multiset of its single signatures *)
  Definition pair_eqb (p q : N * cert) : bool := (fst p =? fst q) && cert_eqb (snd p) (snd q).
  Definition count_pair (l : list (N * cert)) (p : N * cert) : nat := length (filter (pair_eqb p) l).
  Definition csig_eqb (a b : csig) : bool :=
    match a, b with
    | CEmpty, CEmpty => true
    | CBad, CBad => true
    | CSig x, CSig y => Nat.eqb (length x) (length y) &&
                        forallb (fun p => Nat.eqb (count_pair x p) (count_pair y p)) x
    | _, _ => false
    end.
  Definition sc_eqb (a b : sc) : bool :=
    (sc_block a =? sc_block b) && (sc_height a =? sc_height b) && (sc_addr a =? sc_addr b) &&
    csig_eqb (sc_sig a) (sc_sig b) && Bool.eqb (sc_internal a) (sc_internal b).
  Fixpoint scs_eqb (a b : list sc) : bool :=
    match a, b with
    | [], [] => true
    | x :: a', y :: b' => sc_eqb x y && scs_eqb a' b'
    | _, _ => false
    end.
  Definition sc_in (x : sc) (l : list sc) : bool := existsb (sc_eqb x) l.
  Definition scs_incl (a b : list sc) : bool := forallb (fun x => sc_in x b) a.
  Definition scs_same (a b : list sc) : bool := Nat.eqb (length a) (length b) && scs_incl a b && scs_incl b a.
  Fixpoint bytes_eqb (a b : list N) : bool :=
    match a, b with
    | [], [] => true
    | x :: a', y :: b' => (x =? y) && bytes_eqb a' b'
    | _, _ => false
    end.
  Definition ac_eqb (a b : ac) : bool :=
    (ac_height a =? ac_height b) && bytes_eqb (ac_bits a) (ac_bits b) && csig_eqb (ac_sig a) (ac_sig b).

  Definition vres_code (r : vres) : N :=
    match r with Accept => 0 | RejEmptyField => 1 | RejNotIncreasing => 2 | RejAbovePrecommitted => 3
               | RejAboveNextParams => 4 | RejNoHeader => 5 | RejNoParams => 6 | RejInvalid => 7 | VPanic => 8 end.

  (* ---- declarative oracles (right-hand sides of the theorems of Properties/C06.v) *)
  (* rank of a validator = number of validators of the set with a smaller BLS key *)
  Definition rank (vs : list validator) (v : validator) : nat :=
    length (filter (fun w => lex_lt (v_key w) (v_key v)) vs).
  Definition bit_set (bits : list N) (i : nat) : bool := match read_bit bits i with Some true => true | _ => false end.
  Definition spec_signers (vs : list validator) (bits : list N) : list validator :=
    filter (fun v => bit_set bits (rank vs v)) vs.
  Fixpoint sumN (l : list N) : N := match l with [] => 0 | x :: t => x + sumN t end.

  Definition verify_spec (e : env) (a : ac) : bool :=
    (ac_empty sig_len0_i a && (ac_height a =? e_mhc e)) ||
    match chain_at (e_chain e) (ac_height a), get_params e (ac_height a) with
    | Some hd, Some p =>
        let signers := spec_signers (p_validators p) (ac_bits a) in
        (* exactly ceil(n/8) bytes of bitmap (C06_verify_sound: length (ac_bits a) = bits_len (length validators)) *)
        Nat.eqb (length (ac_bits a)) (bits_len (length (p_validators p))) &&
        fav_i (map v_key signers) (h_cert hd) (ac_sig a) &&
        (p_threshold p <=? sumN (map v_weight signers)) &&
        (e_mhc e <? ac_height a) && (ac_height a <=? e_mhp e) &&
        (* declaratively: no parameter height k with maxHeightCertified + 2 <= k (uint32) lies at or below the commit *)
        forallb (fun kp => if u32 (u32 (e_mhc e + 1) + 1) <=? fst kp then ac_height a + 1 <=? fst kp else true) (e_params e)
    | _, _ => false
    end.

  (* a single commit that may be in the pool: block of the own chain at that height, active validator, valid signature *)
  Definition commit_valid (e : env) (c : sc) : bool :=
    match chain_at (e_chain e) (sc_height c), get_params e (sc_height c) with
    | Some hd, Some p =>
        (c_block (h_cert hd) =? sc_block c) &&
        match find_validator (p_validators p) (sc_addr c) with
        | Some v => vrf_i (v_key v) (h_cert hd) (sc_sig c)
        | None => false
        end
    | _, _ => false
    end.
  Fixpoint nodup_b (l : list sc) : bool :=
    match l with
    | [] => true
    | x :: t => negb (existsb (fun y => (sc_block y =? sc_block x) && (sc_addr y =? sc_addr x)) t) && nodup_b t
    end.

  Inductive op :=
  | OVerify (a : ac) (r : N)
  | OScv (m : option (list (sc * bool))) (reject : bool) (g ng : list sc)
  | OAdd (c : sc) (g ng : list sc)
  | OAddMany (cs : list sc) (g ng : list sc)
  | OCertify (from to a ki : N) (err : bool) (g ng : list sc)
  | OGac (res : option ac) (ek : N) (v : N) (g ng : list sc)   (* ek: 0 no error, 1 parameters not found, 2 Aggregate failed, 3 other *)
  | OCleanup (keep : list N) (g ng : list sc)
  | OSelect (mhp : N) (limit : nat) (sel g ng : list sc)
  | OUpgrade (cs g ng : list sc)
  | OBroadcast (g ng : list sc).

  Notation pool := (pool csig).
  Definition mkpool (g ng : list sc) : pool := {| gossiped := g; nongossiped := ng |}.
  Definition pool_eqb (p : pool) (g ng : list sc) : bool := scs_eqb (gossiped p) g && scs_eqb (nongossiped p) ng.
  Definition all (p : pool) : list sc := gossiped p ++ nongossiped p.

  (* returns (code, pool observed after the op) *)
  (* [e]: the node's view as dumped from its store (model side); [es]: the same view with the BFT parameters of the
     scenario's own schedule (oracle side: what the parameters of a height must be) *)
  Definition check_op (e es : env) (p : pool) (o : op) : N * pool :=
    match o with
    | OVerify a r =>
        (code (vres_code (verify sig_len0_i msg_of_i fav_i e a) =? r)
              (if r =? 0 then verify_spec es a else true), p)
    | OScv m reject g ng =>
        let '(p', r) := single_commit_validator msg_of_i vrf_i e p m in
        let q := mkpool g ng in
        (code (pool_eqb p' g ng && Bool.eqb reject (match r with SReject => true | SIgnore => false end))
              (forallb (fun c => sc_in c (all p) || commit_valid es c) (all q) && (negb (nodup_b (all p)) || nodup_b (all q))), q)
    | OAdd c g ng =>
        let q := mkpool g ng in
        (code (pool_eqb (pool_add p c) g ng) true, q)
    | OAddMany cs g ng =>
        let q := mkpool g ng in
        (code (pool_eqb (fold_left (fun x c => pool_add x c) cs p) g ng) true, q)
    | OCertify from to a ki err g ng =>
        let '(p', er) := certify (fun c => CSig [(ki, c)]) e p from to a in
        let q := mkpool g ng in
        (code (scs_eqb (gossiped p') g && scs_same (nongossiped p') ng && Bool.eqb er err)
              (forallb (fun c => sc_in c (all p) || commit_valid es c) (all q) && (negb (nodup_b (all p)) || nodup_b (all q))), q)
    | OGac res ek v g ng =>
        let q := mkpool g ng in
        let m := get_aggregate_commit agg_i e (gossiped p) (nongossiped p) in
        let agree := match m, res with
                     | GOk a, Some b => ac_eqb a b && (v =? vres_code (verify sig_len0_i msg_of_i fav_i e b))
                     | GEmpty h, Some b => (ac_height b =? h) && Nat.eqb (length (ac_bits b)) 0 && sig_len0_i (ac_sig b) &&
                                           (v =? vres_code (verify sig_len0_i msg_of_i fav_i e b))
                     | GErrParams, None => ek =? 1
                     | GErrAggregate _, None => ek =? 2
                     | _, _ => false
                     end in
        let pool_ok := forallb (commit_valid es) (all p) && nodup_b (all p) in
        (code (agree && pool_eqb p g ng)
              (if pool_ok then match res with
                               | Some b => (v =? 0) && (* and what it assembled is sound w.r.t. the schedule *) verify_spec es b
                               | None => false end else true), q)
    | OCleanup keep g ng =>
        let q := mkpool g ng in
        (code (pool_eqb (cleanup p (fun h => existsb (N.eqb h) keep)) g ng) (scs_incl (all q) (all p)), q)
    | OSelect mhp limit sel g ng =>
        let q := mkpool g ng in
        let '(s, p') := select p mhp limit in
        (code (scs_eqb s sel && pool_eqb p' g ng)
              (scs_incl sel (all p) && Nat.leb (length sel) limit && scs_same (all q) (all p)), q)
    | OBroadcast g ng =>
        let q := mkpool g ng in
        let tip := fold_left (fun a kh => N.max a (fst kh)) (e_chain e) 0 in
        (* the property only says what may be IN the pool: nothing enters, nothing is duplicated, what stays is still valid
           (which commits are dropped — incl. the uint32 wrap of maxHeightPrecommited-100 — is model agreement only) *)
        (code (pool_eqb (broadcast_certificate e tip false p) g ng)
              (scs_incl (all q) (all p) && (negb (nodup_b (all p)) || nodup_b (all q)) &&
               (negb (forallb (commit_valid es) (all p)) || forallb (commit_valid es) (all q))), q)
    | OUpgrade cs g ng =>
        let q := mkpool g ng in
        (code (pool_eqb (upgrade p cs) g ng) (scs_same (all q) (all p)), q)
    end.

  (* first operation violating the oracle if there is one, otherwise first operation differing from the model *)
  Fixpoint check_ops (e es : env) (p : pool) (os : list op) (i : N) (first_model : N) : N :=
    match os with
    | [] => first_model
    | o :: t => let '(c, q) := check_op e es p o in
                if 2 <=? c then 4 * i + c
                else check_ops e es q t (i + 1) (if (first_model =? 0) && (c =? 1) then 4 * i + c else first_model)
    end.
End Inst.

(* key table, the node's view, the scenario's own parameter schedule, the pool carried over from the earlier part of the
   history, operations *)
Definition scenario : Type :=
  list key * env * list (N * params) * (list (single_commit csig) * list (single_commit csig)) * list op.
Definition check_scenario (s : scenario) : N :=
  let '(kt, e, sched, (g0, ng0), os) := s in
  let es := {| e_mhp := e_mhp e; e_mhc := e_mhc e; e_params := sched; e_chain := e_chain e |} in
  (* maxHeightCertified is not taken on trust from the node's store: it is the largest aggregate-commit height carried by
     the headers of the chain; a mismatch is reported with the index one past the last operation *)
  if negb (e_mhc e =? fold_left (fun a kh => N.max a (h_ac_height (snd kh))) (e_chain e) 0)
  then 4 * N.of_nat (length os) + 2
  else check_ops kt e es {| gossiped := g0; nongossiped := ng0 |} os 0 0.
