(* Correspondence evaluators for C14: a case is a pool configuration and a sequence of (operation, observation) pairs
   recorded from the real TransactionPool.  check_seq replays the operations on the model (Pool/TxPool.v), compares the
   projected state after every operation (agree_model) and checks the implementation's observations alone against the
   declarative index-agreement / bounds / gap-free oracle (agree_spec). *)
From Coq Require Import List Arith NArith Bool.
From LE Require Import Base.Corr Pool.Assoc Pool.TxList Pool.TxPool.
Import ListNotations.
Local Open Scope N_scope.

Inductive opx :=
| XAdd (t : tx) (v : N) (pub : bool)
| XRm (id : N)
| XBegin
| XFinish (vd : list (N * N)).

(* (sender, keys asc, tx ids by key, nonces asc, processables as stored) *)
Definition lsnap : Type := N * list N * list N * list N * list N.
Record snap := mkSnap { s_all : list N; s_queue : list N; s_qhead : option N; s_lists : list lsnap }.
(* b_skip: the operation overlapped with the next one (it was parked at its verifier call while the next was issued);
   no snapshot could be taken in between: only its result is compared, the state is compared after the next step *)
Record obs := mkObs { b_ret : bool; b_hang : bool; b_panic : bool; b_api : bool; b_gone : list N; b_snap : snap; b_skip : bool }.
Definition seq_case : Type := cfg * list (opx * obs).

Definition ans (v : N) : answer := match v with 0 => AOk | 1 => APending | _ => AInvalid end.

Fixpoint list_eqb (a b : list N) : bool :=
  match a, b with
  | [], [] => true
  | x :: a', y :: b' => (x =? y) && list_eqb a' b'
  | _, _ => false
  end.
Definition opt_eqb (a b : option N) : bool :=
  match a, b with None, None => true | Some x, Some y => x =? y | _, _ => false end.
Definition lsnap_eqb (x y : lsnap) : bool :=
  let '(a, k, i, n, p) := x in let '(a', k', i', n', p') := y in
  (a =? a') && list_eqb k k' && list_eqb i i' && list_eqb n n' && list_eqb p p'.
Fixpoint lsnaps_eqb (a b : list lsnap) : bool :=
  match a, b with
  | [], [] => true
  | x :: a', y :: b' => lsnap_eqb x y && lsnaps_eqb a' b'
  | _, _ => false
  end.
Definition snap_eqb (x y : snap) : bool :=
  list_eqb (s_all x) (s_all y) && list_eqb (s_queue x) (s_queue y) && opt_eqb (s_qhead x) (s_qhead y) &&
  lsnaps_eqb (s_lists x) (s_lists y).

(* ---- projection of the model state ---- *)
Fixpoint insert_l (x : lsnap) (l : list lsnap) : list lsnap :=
  match l with
  | [] => [x]
  | y :: r => if fst (fst (fst (fst x))) <=? fst (fst (fst (fst y))) then x :: l else y :: insert_l x r
  end.
Definition project_list (al : N * txlist) : lsnap :=
  let '(a, L) := al in
  let keys := sortN (map fst (txs L)) in
  (a, keys, map (fun k => match afind k (txs L) with Some t => tid t | None => 0 end) keys, sortN (nonces L), procs L).
Definition project (p : pool) : snap :=
  mkSnap (sortN (map tid (all p))) (sortN (map tid (queue p)))
         (match queue p with [] => None | _ => Some (min_prio (queue p)) end)
         (fold_right insert_l [] (map project_list (accts p))).

(* ---- coarse operations of the harness in terms of the model's atomic steps ---- *)
Fixpoint steps_until_done (fuel : nat) (a : N) (vd : list (N * answer)) (p : pool) : pool :=
  match fuel with
  | O => p
  | S f => match find_pend a (pending p) with
           | None => p
           | Some _ => steps_until_done f a vd (reorg_step a vd p)
           end
  end.

Definition do_begin (p : pool) : pool :=
  let p0 := reorg_spawn p in
  fold_left (fun q a => reorg_step a [] (reorg_step a [] q)) (map p_addr (pending p0)) p0.
Definition do_finish (vd : list (N * answer)) (p : pool) : pool :=
  fold_left (fun q a => steps_until_done 64 a vd q) (map p_addr (pending p)) p.

Definition model_op (c : cfg) (o : opx) (gone : list N) (p : pool) : pool * bool :=
  match o with
  | XAdd t v pub => let '(p', oc) := pool_add c t (ans v) pub gone p in (p', o_ret oc)
  | XRm id => remove_tx id p
  | XBegin => (do_begin p, true)
  | XFinish vd => (do_finish (map (fun x => (fst x, ans (snd x))) vd) p, true)
  end.

(* ---- declarative oracle on one observed snapshot ---- *)
Fixpoint strictly_asc (l : list N) : bool :=
  match l with x :: (y :: _) as r => (x <? y) && strictly_asc r | _ => true end.
Fixpoint gap_free_b (l : list N) : bool :=
  match l with x :: (y :: _) as r => (y =? x + 1) && gap_free_b r | _ => true end.
Definition mem (x : N) (l : list N) : bool := existsb (N.eqb x) l.
Definition count (x : N) (l : list N) : nat := length (filter (N.eqb x) l).

Definition lsnap_ok (c : cfg) (table : list (N * tx)) (alls : list N) (x : lsnap) : bool :=
  let '(a, keys, ids, ns, ps) := x in
  strictly_asc keys && list_eqb keys ns && negb (is_nil keys) && (length keys <=? max_per c)%nat &&
  (length ids =? length keys)%nat &&
  forallb (fun ki => match afind (snd ki) table with
                     | Some t => (tsender t =? a) && (tnonce t =? fst ki) && mem (snd ki) alls
                     | None => false
                     end) (combine keys ids) &&
  gap_free_b ps && forallb (fun n => mem n keys) ps &&
  list_eqb ps (firstn (length ps) keys).   (* processables = the sender's lowest pooled nonces *)

Definition snap_ok (c : cfg) (table : list (N * tx)) (s : snap) : bool :=
  strictly_asc (s_all s) && (length (s_all s) <=? max_txs c)%nat && list_eqb (s_queue s) (s_all s) &&
  opt_eqb (s_qhead s)
          (match s_all s with
           | [] => None
           | _ => Some (min_prio (flat_map (fun id => match afind id table with Some t => [t] | None => [] end) (s_all s)))
           end) &&
  strictly_asc (map (fun x => fst (fst (fst (fst x)))) (s_lists s)) &&
  forallb (lsnap_ok c table (s_all s)) (s_lists s) &&
  forallb (fun id => (count id (flat_map (fun x => snd (fst (fst x))) (s_lists s)) =? 1)%nat) (s_all s).

Definition obs_ok (c : cfg) (table : list (N * tx)) (b : obs) : bool :=
  negb (b_hang b) && negb (b_panic b) && (b_skip b || (b_api b && snap_ok c table (b_snap b))).

Definition table_of (steps : list (opx * obs)) : list (N * tx) :=
  flat_map (fun so => match fst so with XAdd t _ _ => [(tid t, t)] | _ => [] end) steps.

(* index (from 1) of the first step where the implementation differs from the model; 0 = none *)
(* Equal fee priorities: container/heap may pop any minimal candidate (map iteration order), the model needs to be told
   which.  The ids that disappeared are observed per compared step - for an overlapped pair only for the pair as a whole -
   and an Add can drop two ids (capacity eviction + replacement), so the evaluator SEARCHES: for an Add it tries the
   whole disappeared list and each single disappeared id as the choice, and a choice is accepted if the rest of the case
   can be matched with it (backtracking; the lists have at most 2-3 elements).
   Result: 0 if some assignment of choices matches every compared step, else the index of the first step at which the
   first assignment fails. *)
Definition choices (o : opx) (gone : list N) : list (list N) :=
  match o with
  | XAdd _ _ _ => match gone with [] => [[]] | _ => gone :: map (fun g => [g]) gone end
  | _ => [[]]
  end.

Fixpoint first_diff (c : cfg) (steps : list (opx * obs)) (p : pool) (i : N) : N :=
  match steps with
  | [] => 0
  | (o, b) :: r =>
    if b_hang b || b_panic b then i
    else
      let results := map (fun ch =>
          let '(p', ret) := model_op c o ch p in
          (* a finish must have driven every reorg goroutine to its end (fuel exhaustion is a difference, not a state) *)
          let done := match o with XFinish _ => is_nil (pending p') | _ => true end in
          if done && Bool.eqb ret (b_ret b) && (b_skip b || snap_eqb (project p') (b_snap b))
          then first_diff c r p' (i + 1) else i) (choices o (b_gone b)) in
      if existsb (N.eqb 0) results then 0 else hd i results
  end.

(* transition clause: a newcomer that is pooled after its Add while a transaction of the same sender and nonce was pooled
   before it pays at least that one's fee plus the configured difference, and that one is gone (state-based replacement rule) *)
Definition repl_ok (c : cfg) (table : list (N * tx)) (prev_all : list N) (o : opx) (cur_all : list N) : bool :=
  match o with
  | XAdd t _ _ =>
    if mem (tid t) cur_all && negb (mem (tid t) prev_all) then
      forallb (fun oid => match afind oid table with
                          | Some old => if (tsender old =? tsender t) && (tnonce old =? tnonce t) && negb (oid =? tid t)
                                        then (tfee old + min_diff c <=? tfee t) && negb (mem oid cur_all) else true
                          | None => true
                          end) prev_all
    else true
  | _ => true
  end.

(* [known]: prev_all is the state right before this operation (false after an overlapped, unobserved step: the parked
   operation may legitimately have evicted the slot's occupant in between, so the transition clause is not applicable) *)
Fixpoint first_bad_from (c : cfg) (table : list (N * tx)) (prev_all : list N) (known : bool) (steps : list (opx * obs)) (i : N) : N :=
  match steps with
  | [] => 0
  | (o, b) :: r =>
    if obs_ok c table b && (b_skip b || negb known || repl_ok c table prev_all o (s_all (b_snap b)))
    then first_bad_from c table (if b_skip b then prev_all else s_all (b_snap b)) (negb (b_skip b)) r (i + 1) else i
  end.
Definition first_bad (c : cfg) (table : list (N * tx)) (steps : list (opx * obs)) (i : N) : N :=
  first_bad_from c table [] true steps i.

Definition check_seq (k : seq_case) : N :=
  let '(c, steps) := k in
  code (first_diff c steps pool_empty 1 =? 0) (first_bad c (table_of steps) steps 1 =? 0).
(* where: 1000 * first differing step + first oracle-violating step *)
Definition where_seq (k : seq_case) : N :=
  let '(c, steps) := k in
  1000 * first_diff c steps pool_empty 1 + first_bad c (table_of steps) steps 1.
