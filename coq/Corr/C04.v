(* Correspondence evaluator for C04: one case = one history (operations with the implementation's observation after each).
   Result (Base.Corr.code): 0 = every step agrees with the model and satisfies the four invariants evaluated on the
   implementation's own observations; 1 = differs from the model only; >= 2 = an invariant is violated. *)
From Coq Require Import List NArith Bool.
From LE Require Import Base.Corr Chain.Finality.
Import ListNotations.
Local Open Scope N_scope.

Definition ev := (N * N * N * N)%type.
Definition enc (e : fev) : ev :=
  match e with FNew id => (1, id, 0, 0) | FFinalize o n t => (2, o, n, t) | FDelete id => (3, id, 0, 0) end.
Definition ev_eqb (a b : ev) : bool :=
  let '(a1, a2, a3, a4) := a in let '(b1, b2, b3, b4) := b in (a1 =? b1) && (a2 =? b2) && (a3 =? b3) && (a4 =? b4).
Fixpoint list_eqb {A} (f : A -> A -> bool) (a b : list A) : bool :=
  match a, b with [], [] => true | x :: a', y :: b' => f x y && list_eqb f a' b' | _, _ => false end.

Record obs := mkO { o_fin : N; o_chain : list N; o_events : list ev }.
Definition hist := (N * list (op * obs))%type.

Definition finalize_pairs (l : list ev) : list (N * N) :=
  flat_map (fun e => let '(k, a, b, _) := e in if k =? 2 then [(a, b)] else []) l.
Definition pair_eqb (a b : N * N) : bool := (fst a =? fst b) && (snd a =? snd b).

(* the four invariants, on observations only *)
Definition oracle_step (pf : N) (pc : list N) (o : op) (b : obs) : bool :=
  let k := S (N.to_nat pf) in
  let grew := Nat.eqb (length (o_chain b)) (S (length pc)) in
  (pf <=? o_fin b)
  && list_eqb N.eqb (firstn k pc) (firstn k (o_chain b))
  && (match o with
      | Apply _ _ p _ => if grew then o_fin b =? N.max pf p else o_fin b =? pf
      | _ => o_fin b =? pf
      end)
  && list_eqb pair_eqb (finalize_pairs (o_events b)) (if pf <? o_fin b then [(pf, o_fin b)] else []).

Fixpoint walk (s : st) (pf : N) (pc : list N) (l : list (op * obs)) (am asp : bool) : bool * bool :=
  match l with
  | [] => (am, asp)
  | (o, b) :: rest =>
    let s' := step s o in
    let new_events := skipn (length (emitted s)) (emitted s') in
    let m := (fin s' =? o_fin b) && list_eqb N.eqb (chain s') (o_chain b) && list_eqb ev_eqb (map enc new_events) (o_events b) in
    walk s' (o_fin b) (o_chain b) rest (am && m) (asp && oracle_step pf pc o b)
  end.

Definition check_hist (h : hist) : N :=
  let '(g, l) := h in
  let '(am, asp) := walk (init g) 0 [g] l true true in
  code am asp.

(* index of the first step that disagrees (for reports): 0 = none, k = k-th step (1-based) *)
Fixpoint first_bad (s : st) (pf : N) (pc : list N) (l : list (op * obs)) (i : N) : N :=
  match l with
  | [] => 0
  | (o, b) :: rest =>
    let s' := step s o in
    let new_events := skipn (length (emitted s)) (emitted s') in
    let m := (fin s' =? o_fin b) && list_eqb N.eqb (chain s') (o_chain b) && list_eqb ev_eqb (map enc new_events) (o_events b) in
    if m && oracle_step pf pc o b then first_bad s' (o_fin b) (o_chain b) rest (i + 1) else i
  end.
Definition where_bad (h : hist) : N := let '(g, l) := h in first_bad (init g) 0 [g] l 1.
