(* Correspondence evaluators for C12.
   check_ops : one random operation sequence on the real diffdb (several prefix views, snapshots) followed by
               Commit + write + RevertDiff + write, with every read and both database dumps observed.
   check_scan: one scan of pkg/db (IterateRange / Iterate / IterateKey, on DB or on a Reader snapshot).
   Result code: Base.Corr.code agree_model agree_spec. The oracle (agree_spec) is the declarative
   specification: Store.DiffDBSpec (one sorted map with the staged writes applied) resp. the
   "keys inside the bounds, in order, truncated" functions of Store.PebbleIter. *)
From Coq Require Import List NArith ZArith Bool.
From LE Require Import Base.Corr Base.Lex Store.SMap Store.PebbleIter Store.DiffDB Store.DiffDBSpec Store.BatchDB.
Import ListNotations.
Local Open Scope N_scope.

Fixpoint list_eqb {A} (eqb : A -> A -> bool) (a b : list A) : bool :=
  match a, b with
  | [], [] => true
  | x :: a', y :: b' => eqb x y && list_eqb eqb a' b'
  | _, _ => false
  end.
Definition kv_eqb (a b : kv) : bool := keqb (fst a) (fst b) && keqb (snd a) (snd b).
Definition smap_eqb : smap -> smap -> bool := list_eqb kv_eqb.
Definition res_eqb (a b : res) : bool :=
  match a, b with
  | RNone, RNone => true
  | RVal None, RVal None => true
  | RVal (Some x), RVal (Some y) => keqb x y
  | RBool x, RBool y => Bool.eqb x y
  | RList x, RList y => smap_eqb x y
  | RId x, RId y => x =? y
  | RPanic, RPanic => true
  | RBadView, RBadView => true
  | _, _ => false
  end.

(* observed diff: three lists sorted by key by the harness; observed dumps after commit and after revert *)
Definition commit_obs : Type := (list key * list kv * list kv * smap * smap)%type.
Definition ops_case : Type := (key * smap * list (op * res) * commit_obs)%type.

Definition sort_kv (l : list kv) : list kv := isort ltb l.
Definition sort_keys (l : list key) : list key := map fst (isort ltb (map (fun k => (k, [])) l)).

Definition check_ops (c : ops_case) : N :=
  let '(root, db, ors, (o_added, o_updated, o_deleted, o_after, o_reverted)) := c in
  let ops := map fst ors in
  let obs := map snd ors in
  let '(d, rs) := run db (init_state root) ops in
  let '(s, srs) := spec_run (spec_init db root) ops in
  let '(ws, df) := db_Commit d in
  let m_after := apply_writes ws db in
  let m_reverted := apply_writes (revert_writes df) m_after in
  let agree_model :=
    sortedb db && list_eqb res_eqb obs rs
    && list_eqb keqb o_added (sort_keys (d_added df))
    && smap_eqb o_updated (sort_kv (d_updated df))
    && smap_eqb o_deleted (sort_kv (d_deleted df))
    && smap_eqb o_after m_after && smap_eqb o_reverted m_reverted in
  let agree_spec :=
    list_eqb res_eqb obs srs && smap_eqb o_after (s_map s) && smap_eqb o_reverted db in
  code agree_model agree_spec.

(* diagnostics: index of the first observation that differs from the model (1000 = diff, 1001 = dump after
   commit, 1002 = dump after revert, 9999 = none) *)
Fixpoint first_diff (i : N) (obs rs : list res) : option N :=
  match obs, rs with
  | [], [] => None
  | x :: a, y :: b => if res_eqb x y then first_diff (i + 1) a b else Some i
  | _, _ => Some i
  end.
Definition diag_ops (c : ops_case) : N :=
  let '(root, db, ors, (o_added, o_updated, o_deleted, o_after, o_reverted)) := c in
  let ops := map fst ors in
  let obs := map snd ors in
  let '(d, rs) := run db (init_state root) ops in
  let '(ws, df) := db_Commit d in
  let m_after := apply_writes ws db in
  match first_diff 0 obs rs with
  | Some i => i
  | None =>
      if negb (list_eqb keqb o_added (sort_keys (d_added df)) && smap_eqb o_updated (sort_kv (d_updated df))
               && smap_eqb o_deleted (sort_kv (d_deleted df))) then 1000
      else if negb (smap_eqb o_after m_after) then 1001
      else if negb (smap_eqb o_reverted (apply_writes (revert_writes df) m_after)) then 1002
      else 9999
  end.
Definition diag_ops_spec (c : ops_case) : N :=
  let '(root, db, ors, (_, _, _, o_after, o_reverted)) := c in
  let ops := map fst ors in
  let obs := map snd ors in
  let '(s, srs) := spec_run (spec_init db root) ops in
  match first_diff 0 obs srs with
  | Some i => i
  | None => if negb (smap_eqb o_after (s_map s)) then 1001 else if negb (smap_eqb o_reverted db) then 1002 else 9999
  end.

(* (db, kind, a, b, limit, reverse, observed): kind 0 = IterateRange a b, 1 = Iterate a, 2 = IterateKey a
   (observed values empty) *)
Definition scan_case : Type := (smap * N * key * key * Z * bool * list kv)%type.
Definition check_scan (c : scan_case) : N :=
  let '(db, kind, a, b, limit, reverse, observed) := c in
  let keys_only (l : list kv) := map (fun x => (fst x, @nil N)) l in
  let '(model, spec) :=
    match kind with
    | 0 => (iterate_range db a b limit reverse, range_spec db a b limit reverse)
    | 1 => (iterate_prefix db a limit reverse, prefix_spec db a limit reverse)
    | _ => (keys_only (iterate_prefix db a limit reverse), keys_only (prefix_spec db a limit reverse))
    end in
  code (sortedb db && smap_eqb observed model) (smap_eqb observed spec).

(* (prefix, db, batchdb operations with the observed results, dump after writing the batch) *)
Definition bdb_case : Type := (key * smap * list (bop * res) * smap)%type.
Definition check_bdb (c : bdb_case) : N :=
  let '(pfx, db, ors, after) := c in
  let ops := map fst ors in
  let obs := map snd ors in
  let '(batch, rs) := bdb_run db pfx [] ops in
  code (sortedb db && list_eqb res_eqb obs rs && smap_eqb after (apply_writes batch db))
       (list_eqb res_eqb obs (map (bdb_read_spec db pfx) ops)
        && smap_eqb after (s_map (fst (spec_run (spec_init db pfx) (flat_map bop_as_op ops))))).

(* ---- continued use of the same Database objects after Commit (the cache is NOT reset by Commit):
   (root, db, ops1 with results, (added, updated, deleted, dump after commit 1),
    ops2 with results, (added, updated, deleted, dump after commit 2, dump after RevertDiff of the second diff)) *)
Definition ops2_case : Type :=
  (key * smap * list (op * res) * (list key * list kv * list kv * smap)
   * list (op * res) * commit_obs)%type.

Definition diff_obs_eqb (a : list key) (u dl : list kv) (df : diff) : bool :=
  list_eqb keqb a (sort_keys (d_added df)) && smap_eqb u (sort_kv (d_updated df)) && smap_eqb dl (sort_kv (d_deleted df)).

Definition check_ops2 (c : ops2_case) : N :=
  let '(root, db, ors1, (a1, u1, dl1, after1), ors2, (a2, u2, dl2, after2, reverted2)) := c in
  let '(d1, rs1) := run db (init_state root) (map fst ors1) in
  let '(ws1, df1) := db_Commit d1 in
  let m1 := apply_writes ws1 db in
  (* the same cache goes on, over the store as it is now *)
  let '(d2, rs2) := run m1 d1 (map fst ors2) in
  let '(ws2, df2) := db_Commit d2 in
  let m2 := apply_writes ws2 m1 in
  let '(s1, srs1) := spec_run (spec_init db root) (map fst ors1) in
  let '(s2, srs2) := spec_run s1 (map fst ors2) in
  let agree_model :=
    sortedb db && list_eqb res_eqb (map snd ors1) rs1 && diff_obs_eqb a1 u1 dl1 df1 && smap_eqb after1 m1
    && list_eqb res_eqb (map snd ors2) rs2 && diff_obs_eqb a2 u2 dl2 df2 && smap_eqb after2 m2
    && smap_eqb reverted2 (apply_writes (revert_writes df2) m2) in
  (* oracle = the property as stated: reads keep being those of the one map with all staged writes applied; each Commit
     writes that map; reversing the diff returned by a Commit restores the PREVIOUS database contents, i.e. the contents
     right before that Commit's batch was written (for the second Commit: the map after the first) *)
  let agree_spec :=
    list_eqb res_eqb (map snd ors1) srs1 && smap_eqb after1 (s_map s1)
    && list_eqb res_eqb (map snd ors2) srs2 && smap_eqb after2 (s_map s2) && smap_eqb reverted2 (s_map s1) in
  code agree_model agree_spec.

(* ---- two diffdb.Database roots (own caches) over one store, used interleaved, committed one after the other:
   (root0, root1, db, operations tagged with the root, dump after commit of root 0, dump after commit of root 1) *)
Definition two_case : Type := (key * key * smap * list (N * (op * res)) * smap * smap)%type.

Definition check_two (c : two_case) : N :=
  let '(r0, r1, db, tors, after0, after1) := c in
  let sel (i : N) := map snd (filter (fun x => fst x =? i) tors) in
  let '(d0, rs0) := run db (init_state r0) (map fst (sel 0)) in
  let '(d1, rs1) := run db (init_state r1) (map fst (sel 1)) in
  let m0 := apply_writes (fst (db_Commit d0)) db in
  let m1 := apply_writes (fst (db_Commit d1)) m0 in
  let '(s0, srs0) := spec_run (spec_init db r0) (map fst (sel 0)) in
  let '(s1, srs1) := spec_run (spec_init db r1) (map fst (sel 1)) in
  let disjoint := negb (is_prefix r0 r1) && negb (is_prefix r1 r0) in
  let under (p : key) (m : smap) := filter (fun x => is_prefix p (fst x)) m in
  let outside (p : key) (m : smap) := filter (fun x => negb (is_prefix p (fst x))) m in
  let agree_model :=
    sortedb db && list_eqb res_eqb (map snd (sel 0)) rs0 && list_eqb res_eqb (map snd (sel 1)) rs1
    && smap_eqb after0 m0 && smap_eqb after1 m1 in
  (* oracle: nothing reaches the store before the commits, so every read is the one of the root's own staged map; with
     disjoint key spaces the final database is the union of both staged maps *)
  let agree_spec :=
    list_eqb res_eqb (map snd (sel 0)) srs0 && list_eqb res_eqb (map snd (sel 1)) srs1 && smap_eqb after0 (s_map s0)
    && (if disjoint then smap_eqb (under r1 after1) (under r1 (s_map s1)) && smap_eqb (outside r1 after1) (outside r1 (s_map s0))
        else true) in
  code agree_model agree_spec.

(* 0 = the part of an ops2 case before the first Commit satisfies the oracle (so a failure is about continued use) *)
Definition ops2_phase1 (c : ops2_case) : N :=
  let '(root, db, ors1, (a1, u1, dl1, after1), _, _) := c in
  let '(s1, srs1) := spec_run (spec_init db root) (map fst ors1) in
  if list_eqb res_eqb (map snd ors1) srs1 && smap_eqb after1 (s_map s1) then 0 else 1.
