(* Correspondence evaluators for C05 (blockchain + diffdb level).
   check_apply  : one processBlock-like step on the real Chain/DataAccess/diffdb: database dump before, inputs,
                  returned diff, database dump after.
   check_delete : one deleteBlock-like step: dump before, the decoded stored diff, the tip block, dump after.
   check_restore: the property oracle: dump before an apply vs dump after the delete that undoes it, equal
                  outside the enumerated exceptions.
   Opaque encodings (headers, transactions, assets, events, blocks, diffs) are interned by the driver. *)
From Coq Require Import List NArith ZArith Bool.
From LE Require Import Base.Corr Base.Lex Store.SMap Store.PebbleIter Store.DiffDB Store.DiffDBSpec Chain.BlockStore Corr.C12.
Import ListNotations.
Local Open Scope N_scope.

Definition opt_eqb (a b : option val) : bool :=
  match a, b with Some x, Some y => keqb x y | None, None => true | _, _ => false end.

Definition state_part (m : smap) : smap := filter (fun x => is_prefix [pfxState] (fst x)) m.

(* (pre, block, events, fh, remove_temp, keep, staged ops, diff_enc, prune bound, observed diff, post) *)
Definition apply_case : Type :=
  (smap * blk * option val * N * bool * Z * list op * val * option N * (list key * list kv * list kv) * smap)%type.

Definition check_apply (c : apply_case) : N :=
  let '(pre, b, events, fh, rt, keep, staged, diff_enc, prune, (o_added, o_updated, o_deleted), post) := c in
  let '(d, _) := run pre (init_state [pfxState]) staged in
  let '(s, _) := spec_run (spec_init pre [pfxState]) staged in
  let cch := d_cache d in
  let df := diff_of cch in
  let model_post := apply_writes (apply_batch pre cch diff_enc prune b events fh rt keep) pre in
  let agree_model :=
    sortedb pre && smap_eqb post model_post
    && list_eqb keqb o_added (sort_keys (d_added df))
    && smap_eqb o_updated (sort_kv (d_updated df))
    && smap_eqb o_deleted (sort_kv (d_deleted df)) in
  let agree_spec :=
    smap_eqb (state_part post) (state_part (s_map s))
    && opt_eqb (lookup post (kHeader b)) (Some (b_header b))
    && opt_eqb (lookup post (kHeight (b_height b))) (Some (b_id b))
    && opt_eqb (lookup post (kDiff (b_height b))) (Some diff_enc) in
  code agree_model agree_spec.

(* (pre, decoded diff, tip block, save_temp, post) *)
Definition delete_case : Type := (smap * (list key * list kv * list kv) * blk * bool * smap)%type.

Definition check_delete (c : delete_case) : N :=
  let '(pre, (a, u, dl), b, st, post) := c in
  let df := {| d_added := a; d_updated := u; d_deleted := dl |} in
  let model_post := apply_writes (delete_batch df b st) pre in
  let agree_model := sortedb pre && smap_eqb post model_post in
  let agree_spec :=
    opt_eqb (lookup post (kHeader b)) None
    && opt_eqb (lookup post (kHeight (b_height b))) None
    && opt_eqb (lookup post (kDiff (b_height b))) None
    && (if st then opt_eqb (lookup post (kTemp (b_height b))) (Some (b_block b)) else true) in
  code agree_model agree_spec.

(* (dump before the apply, dump after the matching delete, pruned-events bound, pruned-diffs bound, temp heights) *)
Definition restore_case : Type := (smap * smap * option N * option N * list N)%type.

Definition check_restore (c : restore_case) : N :=
  let '(pre, post, ev, dfb, temps) := c in
  let keep (m : smap) := filter (fun x => negb (exception ev dfb temps (fst x))) m in
  code true (smap_eqb (keep pre) (keep post)).

(* ---- Executer level (harness/cmd/c05e, real consensus.Executer through harness/internal/exh): the staged
   operations of liskbft are not visible, so the consensus-store part is checked through the stored diff:
   (pre, block, events, fh, remove_temp, keep, diff_enc, prune bound, decoded stored diff, post) *)
Definition eapply_case : Type :=
  (smap * blk * option val * N * bool * Z * val * option N * (list key * list kv * list kv) * smap)%type.

Definition nonstate_part (m : smap) : smap := filter (fun x => negb (is_prefix [pfxState] (fst x))) m.
Definition is_none (o : option val) : bool := match o with None => true | Some _ => false end.

Definition check_eapply (c : eapply_case) : N :=
  let '(pre, b, events, fh, rt, keep, diff_enc, prune, (a, u, dl), post) := c in
  let rest := [(kDiff (b_height b), Some diff_enc)] ++ prune_diffs pre prune ++ save_block pre b events fh rt keep in
  (* the diff applied forward with the values found in post *)
  let forward := map (fun k => (k, lookup post k)) (a ++ map fst u) ++ map (fun x => (fst x, @None val)) dl in
  let agree_model :=
    sortedb pre
    && smap_eqb (nonstate_part post) (nonstate_part (apply_writes rest pre))
    && smap_eqb (state_part post) (state_part (apply_writes forward pre)) in
  let diff_keys := a ++ map fst u ++ map fst dl in
  let changed (k : key) := negb (opt_eqb (lookup pre k) (lookup post k)) in
  let agree_spec :=
    (* the stored diff classifies exactly the changed consensus-store keys, with their previous values *)
    forallb (fun k => is_none (lookup pre k) && negb (is_none (lookup post k)) && is_prefix [pfxState] k) a
    && forallb (fun x => opt_eqb (lookup pre (fst x)) (Some (snd x)) && negb (is_none (lookup post (fst x)))) u
    && forallb (fun x => opt_eqb (lookup pre (fst x)) (Some (snd x)) && is_none (lookup post (fst x))) dl
    && forallb (fun x => negb (changed (fst x)) || existsb (keqb (fst x)) diff_keys) (state_part pre ++ state_part post)
    && opt_eqb (lookup post (kHeader b)) (Some (b_header b))
    && opt_eqb (lookup post (kHeight (b_height b))) (Some (b_id b))
    && opt_eqb (lookup post (kDiff (b_height b))) (Some diff_enc) in
  code agree_model agree_spec.
