(* Correspondence evaluator for C01: a universe = common prefix + two branches of blocks WITH IDENTITY (every block carries
   an opaque id; liskbft never sees it), run on the real liskbft module.
   Result: 0 ok (implementation agrees with the model on both chains and its finalized blocks -- ids included -- are on one
   chain, or the property's hypotheses do not hold); 1 implementation differs from the model (bookkeeping only); 2 differs on
   the property's observables; 9 malformed case (id lists do not match the block lists).  20/21/22 are reached ONLY when the
   implementation agrees with the model on both chains (then the oracle is evaluated on the model, Universe.texamine): the views
   finalize conflicting blocks although
   < 1/3 of the weight is Byzantine (Byzantine = some two DISTINCT blocks of the validator, distinct as identified histories,
   carry contradicting headers; a same-tuple / different-id double forger is Byzantine):
     21 the BFT parameters (precommit threshold, validator weights) in force at some height between the fork point and the
        finalized height of a branch differ from those in force at the fork point (known finding: fork-dependent change);
        a no-op change, a certificate-threshold-only change or a change taking effect above the branch's finalized height
        does NOT count;
     20 otherwise, with prevoteThr+precommitThr <= W+f for the parameters at the fork point (known finding: low threshold);
     22 otherwise (violation). *)
From Coq Require Import List NArith Bool.
From LE Require Import Base.Corr BFT.Contradiction BFT.Votes BFT.Universe Corr.C02.
Import ListNotations.
Local Open Scope N_scope.

Definition uni_case : Type :=
  nat * N * pchange * list block * list block * list block * bool * list obs * list obs * list N * list N * list N.

Definition last_fin (gh : N) (l : list obs) : N :=
  match rev l with o :: _ => (let '(_, pc, _) := o_heights o in pc) | [] => gh end.
Definition all_ok (n : nat) (l : list obs) : bool :=
  Nat.eqb (length l) n && forallb (fun o => (o_err o =? 0) && negb (o_contra o)) l.

(* parameters in force at height h on chain K: the last change announced by a block of height < h, else the initial ones *)
Definition in_force (gh : N) (c : pchange) (K : list block) (h : N) : pchange :=
  fold_left (fun acc x => match snd x with Some c' => c' | None => acc end) (firstn (N.to_nat (h - gh - 1)) K) c.
(* equal as far as safety is concerned: precommit threshold and validator weights (the prevote threshold is a function of them) *)
Definition same_bft (p q : pchange) : bool :=
  (c_pc p =? c_pc q) && vals_equal (sort_desc (c_vals p)) (sort_desc (c_vals q)).
Definition heights_above (fork f : N) : list N := map (fun i => fork + 1 + N.of_nat i) (seq 0 (N.to_nat (f - fork))).
Definition changed_below (gh : N) (c cf : pchange) (K : list block) (fork f : N) : bool :=
  negb (forallb (fun h => same_bft (in_force gh c K h) cf) (heights_above fork f)).

Definition check_uni (u : uni_case) : N :=
  let '(batch, gh, c, common, a, b, initok, obsA, obsB, idsC, idsA, idsB) := u in
  let K1 := common ++ a in let K2 := common ++ b in
  if negb (Nat.eqb (length idsC) (length common) && Nat.eqb (length idsA) (length a) && Nat.eqb (length idsB) (length b)) then 9 else
  let T1 := combine (idsC ++ idsA) K1 in let T2 := combine (idsC ++ idsB) K2 in
  let ca := check_hist (batch, gh, c, K1, initok, obsA) in
  let cb := check_hist (batch, gh, c, K2, initok, obsB) in
  if (2 <=? ca) || (2 <=? cb) then 2 else
  if (1 <=? ca) || (1 <=? cb) then 1 else
  if negb initok then 0 else
  (* From here on check_hist = 0 on both chains: every observation of the implementation (errors, contradiction flags, the three
     heights, window, active list, parameter keys) EQUALS the model's.  The safety oracle is therefore evaluated on the model
     (Universe.texamine over the id-tagged chains): validity of both chains (consecutive heights, header maxHeightPrevoted = the
     view's, no contradiction, no error), the finalized heights of both views, comparability of the finalized histories with ids.
     C01_texamine_safe / CheckUniSound.check_uni_static_not_22 then apply to the verdict verbatim. *)
  let v := texamine batch gh c T1 T2 in
  if negb (vd_valid v) then 0 else
  if vd_safe v then 0 else
  (* parameters in force at the fork point: the last change announced in the common prefix, else the initial ones *)
  let fork := gh + N.of_nat (length common) in
  let cf := in_force gh c common (fork + 1) in
  let W := total_weight (c_vals cf) in
  let f := tbyz_weight (c_vals cf) [T1; T2] in
  if negb (3 * f <? W) then 0 else
  if changed_below gh c cf K1 fork (vd_fin1 v) || changed_below gh c cf K2 fork (vd_fin2 v) then 21 else
  if (W * 2 / 3 + 1) + c_pc cf <=? W + f then 20 else 22.
