(* Correspondence evaluator for C01: a universe = common prefix + two branches, run on the real liskbft module.
   Result: 0 ok (implementation agrees with the model on both chains and its finalized blocks are on one chain, or the
   property's hypotheses do not hold); 1 implementation differs from the model (bookkeeping only); 2 differs on the
   property's observables; 20/21/22 = the implementation's own views finalize conflicting blocks although < 1/3 of the
   weight is Byzantine: 20 static validator set with prevoteThr+precommitThr <= W+f (known finding: low threshold),
   21 a parameter change at or above the fork point (known finding), 22 any other case (violation). *)
From Coq Require Import List NArith Bool.
From LE Require Import Base.Corr BFT.Contradiction BFT.Votes BFT.Universe Corr.C02.
Import ListNotations.
Local Open Scope N_scope.

Definition uni_case : Type := nat * N * pchange * list block * list block * list block * bool * list obs * list obs.

Definition last_fin (gh : N) (l : list obs) : N :=
  match rev l with o :: _ => (let '(_, pc, _) := o_heights o in pc) | [] => gh end.
Definition all_ok (n : nat) (l : list obs) : bool :=
  Nat.eqb (length l) n && forallb (fun o => (o_err o =? 0) && negb (o_contra o)) l.

Definition check_uni (u : uni_case) : N :=
  let '(batch, gh, c, common, a, b, initok, obsA, obsB) := u in
  let K1 := common ++ a in let K2 := common ++ b in
  let ca := check_hist (batch, gh, c, K1, initok, obsA) in
  let cb := check_hist (batch, gh, c, K2, initok, obsB) in
  if (2 <=? ca) || (2 <=? cb) then 2 else
  if (1 <=? ca) || (1 <=? cb) then 1 else
  if negb initok then 0 else
  (* safety oracle on the implementation's own answers *)
  if negb (all_ok (length K1) obsA && all_ok (length K2) obsB) then 0 else
  let valid := forallb (fun x => x) (map (fun p => h_mhp (fst (fst p)) =? snd p)
                 (combine K1 (gh :: map (fun o => let '(pv, _, _) := o_heights o in pv) obsA)))
            && forallb (fun x => x) (map (fun p => h_mhp (fst (fst p)) =? snd p)
                 (combine K2 (gh :: map (fun o => let '(pv, _, _) := o_heights o in pv) obsB))) in
  if negb valid then 0 else
  let f1 := last_fin gh obsA in let f2 := last_fin gh obsB in
  if comparable (finalized_prefix gh K1 f1) (finalized_prefix gh K2 f2) then 0 else
  (* parameters in force at the fork point: the last change announced in the common prefix, else the initial ones *)
  let cf := fold_left (fun acc x => match snd x with Some c' => c' | None => acc end) common c in
  let W := total_weight (c_vals cf) in
  let f := byz_weight (c_vals cf) [K1; K2] in
  if negb (3 * f <? W) then 0 else
  if static_chain a && static_chain b then
    (if (W * 2 / 3 + 1) + c_pc cf <=? W + f then 20 else 22)
  else 21.
