(* Correspondence evaluators for C19.  Result code per case (Base.Corr.code): 0 = the implementation agrees with
   the model and satisfies the declarative oracle; 1 = differs from the model only; >= 2 = violates the oracle. *)
From Coq Require Import List NArith ZArith Bool.
From LE Require Import Base.Corr Sync.PeerSelect Sync.Handlers.
Import ListNotations.
Local Open Scope N_scope.

(* ---------------------------------------------------------------- peer selection *)
(* (infos, distinct selected indexes over the runs, an error was returned, a panic was recovered) *)
Definition best_case : Type := list ni * list N * bool * bool.

Definition check_best (c : best_case) : N :=
  let '(infos, outs, err, pan) := c in
  let picked := map (fun i => nth_error infos (N.to_nat i)) outs in
  let all_ok (f : ni -> bool) := forallb (fun o => match o with Some x => f x | None => false end) picked in
  match infos with
  | [] => code (err && negb pan && match outs with [] => true | _ => false end) (negb pan)
  | _ => code (negb err && negb pan && negb (match outs with [] => true | _ => false end) && all_ok (valid_result_b infos))
              (negb err && negb pan && all_ok (best_spec_b infos))
  end.

(* ---------------------------------------------------------------- height helpers *)
(* (function: 0 gap, 1 start, 2 last; arguments; output; panic) *)
Definition gap_case : Type := N * list N * list N * bool.

Fixpoint list_eqb (a b : list N) : bool :=
  match a, b with
  | [], [] => true
  | x :: s, y :: t => (x =? y) && list_eqb s t
  | _, _ => false
  end.

Definition check_gap (c : gap_case) : N :=
  let '(fn, args, out, pan) := c in
  match fn, args with
  | 0, [start; minimum; gap; num] =>
      code (negb pan && list_eqb out (height_with_gap start minimum gap num))
           (negb pan && ((W32 <=? minimum + num * gap) || forallb (fun x => minimum <=? x) out))
  | 1, [h; r] => code (negb pan && list_eqb out [start_search_height h r])
                      (negb pan && match out with [s] => (s <=? h) && ((s mod r) =? 0) | _ => false end)
  | 2, [start; num] => code (negb pan && list_eqb out (last_heights start num))
                            (negb pan && forallb (fun x => x <=? start) out)
  | _, _ => 99
  end.

(* ---------------------------------------------------------------- handlers *)
Inductive obs :=
| ONone                                   (* nothing written (request rejected) *)
| ONil                                    (* Write(nil/empty) *)
| OErr                                    (* Error(err) *)
| OPanic
| OData (codes : list N) (heights : list N).

Definition blk_eqb (a b : blk) : bool := (fst a =? fst b) && (snd a =? snd b).
Fixpoint blks_eqb (a b : list blk) : bool :=
  match a, b with
  | [], [] => true
  | x :: s, y :: t => blk_eqb x y && blks_eqb s t
  | _, _ => false
  end.

Definition on_chain (c : chain) (id : N) : bool := match height_of_id c id with Some _ => true | None => false end.
Definition hgt (c : chain) (id : N) : N := match height_of_id c id with Some h => h | None => 0 end.

(* declarative oracle for getHighestCommonBlock on a well-formed request *)
Definition hcb_oracle (c : chain) (req : list N) (o : obs) : bool :=
  let common := filter (on_chain c) req in
  match o with
  | ONil => match common with [] => true | _ => false end
  | OData [id] [] => existsb (N.eqb id) common && forallb (fun x => hgt c x <=? hgt c id) common
  | _ => false
  end.

Definition well_formed_hreq (r : hreq) : bool :=
  match r with Some (x :: t) => forallb snd (x :: t) | _ => false end.

Definition check_hcb (k : chain * hreq * obs) : N :=
  let '(c, r, o) := k in
  let agree :=
    match hcb c r, o with
    | HBan, ONone => true
    | HNoData, ONil => true
    | HFound id, OData [x] [] => id =? x
    | _, _ => false
    end in
  let spec :=
    if well_formed_hreq r then hcb_oracle c (match r with Some l => map fst l | None => [] end) o
    else match o with OPanic | OData _ _ => false | _ => true end in
  code agree spec.

Definition obs_blocks (o : obs) : option (list blk) :=
  match o with
  | ONil => Some []
  | OData codes heights => if Nat.eqb (length codes) (length heights) then Some (combine heights codes) else None
  | _ => None
  end.

Definition check_bfi (k : chain * breq * obs) : N :=
  let '(c, r, o) := k in
  let agree :=
    match bfi c r, o with
    | BBan, ONone => true
    | BErr, OErr => true
    | BPanic, OPanic => true
    | BHang, _ => false
    | BBlocks l, _ => match obs_blocks o with Some l' => blks_eqb l l' | None => false end
    | _, _ => false
    end in
  let spec :=
    match r with
    | Some (id, true) =>
        match index_of id (ids c) with
        | Some i => match obs_blocks o with Some l' => blks_eqb (following c i) l' | None => false end
        | None => match o with OPanic | OData _ _ => false | _ => true end
        end
    | _ => match o with OPanic | OData _ _ => false | _ => true end
    end in
  code agree spec.

Definition check_last (k : chain * obs) : N :=
  let '(c, o) := k in
  let ok := match last_block c, o with
            | Some (h, id), OData [x] [y] => (x =? id) && (y =? h)
            | _, _ => false
            end in
  code ok ok.

(* ---------------------------------------------------------------- two-node sync runs *)
From LE Require Import Sync.Converge.

(* observation: chain after, peer banned, Sync returned an error, temp blocks (height, code) after, a block at or
   below the finalized height changed, the whole database equals the one before, penalty scores added during the sync by
   our connection gater for the peer and by the peer's for us *)
Definition sync_obs : Type := list N * bool * bool * list (N * N) * bool * bool * N * N.
(* ground truth of the scenario: the peers follow the protocol, the best peer's tip has priority over ours, height of
   the last block shared with it, its chain, the sender of the block is the best peer, the block's generator is a current validator *)
Definition sync_truth : Type := bool * bool * N * list N * bool * bool.
(* own tip height, height of the received block, number of validators, current slot - finalized slot; chain before,
   temp blocks (height, code) before, finalized height, peer's common-block answer, delivered blocks, ending (0 ok,
   1 error, 2 statelessly invalid block), valid links (parent, block), finalized height after each block (block code,
   height): the node's stored finalized height as a function of the chain, ground truth, observation *)
Definition sync_case : Type := N * N * N * Z * list N * list (N * N) * N * option N * list N * N * list (N * N) * list (N * N) * sync_truth * sync_obs.

Fixpoint lookup_fin (b : N) (l : list (N * N)) : N :=
  match l with [] => 0 | (k, v) :: r => if k =? b then v else lookup_fin b r end.

Definition link_valid (links : list (N * N)) (c : list N) (b : N) : bool :=
  match rev c with
  | p :: _ => existsb (fun l => (fst l =? p) && (snd l =? b)) links
  | [] => false
  end.

Fixpoint chain_valid (links : list (N * N)) (c : list N) (bs : list N) : bool :=
  match bs with [] => true | b :: r => link_valid links c b && chain_valid links (c ++ [b]) r end.

Definition obs_temp_lookup (h : nat) (t : list (N * N)) : option N :=
  match find (fun kv => Nat.eqb (N.to_nat (fst kv)) h) t with Some kv => Some (snd kv) | None => None end.

Definition oN_eqb (a b : option N) : bool :=
  match a, b with Some x, Some y => x =? y | None, None => true | _, _ => false end.

Definition check_sync (k : sync_case) : N :=
  let '(own_h, block_h, nv, gap, before, temp0, fin, common, delivered, e, links, finat, tr, o) := k in
  let '(honest, better, fork_h, peerchain, sender_is_best, gen_val) := tr in
  let '(after, banned_o, err_o, temp_o, lowdel, dbeq, pen_own, pen_peer) := o in
  let n0 := {| chain := before; temp := map (fun kv => (N.to_nat (fst kv), snd kv)) temp0; finalized := N.to_nat fin; banned := false |} in
  let en := match e with 0 => EndOk | 1 => EndErr | _ => EndInvalid end in
  let finality := fun (c : list N) => match rev c with b :: _ => N.to_nat (lookup_fin b finat) | [] => 0%nat end in
  let r2 := 2 * nv in
  let m := choose_sync own_h block_h nv gen_val gap in
  let '(n', out) := match m with
                    | MFast => fast_sync (link_valid links) finality false true true n0 common delivered en (N.to_nat block_h) (N.to_nat r2)
                    | MBlock => block_sync (link_valid links) finality n0 common delivered en
                    | MNone => (n0, Synced)            (* "Sync method cannot be determined": nil, nothing done *)
                    end in
  let synced := match out with Synced => true | _ => false end in
  let hs := seq 0 (length before + length delivered + 2) in
  let agree :=
    list_eqb after (chain n') && Bool.eqb banned_o (Converge.banned n') && Bool.eqb err_o (negb synced) &&
    forallb (fun h => oN_eqb (obs_temp_lookup h temp_o) (Converge.lookup h (Converge.temp n'))) hs in
  (* declarative oracle, clause 1 (from the peers' answers): valid delivered blocks end on the peer's chain; invalid
     blocks in fast sync: restored, equal database, banned *)
  let f := N.to_nat fin in
  let fast := match m with MFast => true | _ => false end in
  let keep_final := negb lowdel && list_eqb (firstn (S f) after) (firstn (S f) before) in
  let spec1 :=
    match m, common with
    | MNone, _ => true
    | _, Some cid =>
        match Converge.index_of cid before with
        | Some h =>
            let base := firstn (S h) before in
            let within := negb fast || (Nat.leb (length before - 1 - h) (N.to_nat r2) && negb (far32 (N.to_nat block_h) h (N.to_nat r2))) in
            if Nat.leb f h && within && (e =? 0) then
              if chain_valid links base delivered
              then list_eqb after (base ++ delivered) && negb err_o
              else if fast then list_eqb after before && banned_o && err_o && dbeq
              else true
            else true
        | None => true
        end
    | _, None => true
    end in
  (* clause 2 (ground truth, independent of what was answered): honest peers, the best peer's chain has priority, the
     fork point is not below the finalized height and a sync mechanism applies => the node ends on that chain *)
  let close := (abs_diff own_h block_h <=? r2) && gen_val in
  let applies :=
    if close then sender_is_best && (own_h <=? fork_h + r2) && (block_h <=? fork_h + r2)
    else (3 * Z.of_N nv <? gap)%Z in
  let spec2 := negb (honest && better && (fin <=? fork_h) && applies) || (list_eqb after peerchain && negb err_o) in
  (* clause 3: an honest peer serving valid blocks within the protocol's own request pace accrues no penalty, and neither
     does the syncing node at the peer (stated for syncs that complete: fast sync bans a peer on a fork deeper than two rounds by design) *)
  let spec3 := negb (honest && negb err_o) || ((pen_own =? 0) && (pen_peer =? 0)) in
  code agree (spec1 && spec2 && spec3 && keep_final).
