(* Correspondence evaluators for C19.  Result code per case (Base.Corr.code): 0 = the implementation agrees with
   the model and satisfies the declarative oracle; 1 = differs from the model only; >= 2 = violates the oracle. *)
From Coq Require Import List NArith Bool.
From LE Require Import Base.Corr Sync.PeerSelect Sync.Handlers.
Import ListNotations.
Local Open Scope N_scope.

(* ---------------------------------------------------------------- peer selection *)
(* (infos, distinct selected indexes over the runs, an error was returned, a panic was recovered) *)
Definition best_case : Type := list ni * list N * bool * bool.

Definition check_best (c : best_case) : N :=
  let '(infos, outs, err, pan) := c in
  let picked := map (fun i => nth_error infos (N.to_nat i)) outs in
  let all_ok (f : ni -> bool) := forallb (fun o => match o with Some x => f x | None => false end) picked in
  match infos with
  | [] => code (err && negb pan && match outs with [] => true | _ => false end) (negb pan)
  | _ => code (negb err && negb pan && negb (match outs with [] => true | _ => false end) && all_ok (valid_result_b infos))
              (negb err && negb pan && all_ok (best_spec_b infos))
  end.

(* ---------------------------------------------------------------- height helpers *)
(* (function: 0 gap, 1 start, 2 last; arguments; output; panic) *)
Definition gap_case : Type := N * list N * list N * bool.

Fixpoint list_eqb (a b : list N) : bool :=
  match a, b with
  | [], [] => true
  | x :: s, y :: t => (x =? y) && list_eqb s t
  | _, _ => false
  end.

Definition check_gap (c : gap_case) : N :=
  let '(fn, args, out, pan) := c in
  match fn, args with
  | 0, [start; minimum; gap; num] =>
      code (negb pan && list_eqb out (height_with_gap start minimum gap num))
           (negb pan && ((W32 <=? minimum + num * gap) || forallb (fun x => minimum <=? x) out))
  | 1, [h; r] => code (negb pan && list_eqb out [start_search_height h r])
                      (negb pan && match out with [s] => (s <=? h) && ((s mod r) =? 0) | _ => false end)
  | 2, [start; num] => code (negb pan && list_eqb out (last_heights start num))
                            (negb pan && forallb (fun x => x <=? start) out)
  | _, _ => 99
  end.

(* ---------------------------------------------------------------- handlers *)
Inductive obs :=
| ONone                                   (* nothing written (request rejected) *)
| ONil                                    (* Write(nil/empty) *)
| OErr                                    (* Error(err) *)
| OPanic
| OData (codes : list N) (heights : list N).

Definition blk_eqb (a b : blk) : bool := (fst a =? fst b) && (snd a =? snd b).
Fixpoint blks_eqb (a b : list blk) : bool :=
  match a, b with
  | [], [] => true
  | x :: s, y :: t => blk_eqb x y && blks_eqb s t
  | _, _ => false
  end.

Definition on_chain (c : chain) (id : N) : bool := match height_of_id c id with Some _ => true | None => false end.
Definition hgt (c : chain) (id : N) : N := match height_of_id c id with Some h => h | None => 0 end.

(* declarative oracle for getHighestCommonBlock on a well-formed request *)
Definition hcb_oracle (c : chain) (req : list N) (o : obs) : bool :=
  let common := filter (on_chain c) req in
  match o with
  | ONil => match common with [] => true | _ => false end
  | OData [id] [] => existsb (N.eqb id) common && forallb (fun x => hgt c x <=? hgt c id) common
  | _ => false
  end.

Definition well_formed_hreq (r : hreq) : bool :=
  match r with Some (x :: t) => forallb snd (x :: t) | _ => false end.

Definition check_hcb (k : chain * hreq * obs) : N :=
  let '(c, r, o) := k in
  let agree :=
    match hcb c r, o with
    | HBan, ONone => true
    | HNoData, ONil => true
    | HFound id, OData [x] [] => id =? x
    | _, _ => false
    end in
  let spec :=
    if well_formed_hreq r then hcb_oracle c (match r with Some l => map fst l | None => [] end) o
    else match o with OPanic | OData _ _ => false | _ => true end in
  code agree spec.

Definition obs_blocks (o : obs) : option (list blk) :=
  match o with
  | ONil => Some []
  | OData codes heights => if Nat.eqb (length codes) (length heights) then Some (combine heights codes) else None
  | _ => None
  end.

Definition check_bfi (k : chain * breq * obs) : N :=
  let '(c, r, o) := k in
  let agree :=
    match bfi c r, o with
    | BBan, ONone => true
    | BErr, OErr => true
    | BPanic, OPanic => true
    | BHang, _ => false
    | BBlocks l, _ => match obs_blocks o with Some l' => blks_eqb l l' | None => false end
    | _, _ => false
    end in
  let spec :=
    match r with
    | Some (id, true) =>
        match index_of id (ids c) with
        | Some i => match obs_blocks o with Some l' => blks_eqb (following c i) l' | None => false end
        | None => match o with OPanic | OData _ _ => false | _ => true end
        end
    | _ => match o with OPanic | OData _ _ => false | _ => true end
    end in
  code agree spec.

Definition check_last (k : chain * obs) : N :=
  let '(c, o) := k in
  let ok := match last_block c, o with
            | Some (h, id), OData [x] [y] => (x =? id) && (y =? h)
            | _, _ => false
            end in
  code ok ok.
