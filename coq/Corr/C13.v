(* Correspondence evaluators for C13 (Base.Corr.code: 0 agree with model and oracle, 1 differs from model only, >= 2 oracle violated).
   Databases are finite association lists over the keys of Chain/Crash.v (projection done by the harness). *)
From Coq Require Import List NArith Bool.
From LE Require Import Base.Corr Chain.Crash Chain.CrashFinite.
Import ListNotations.
Local Open Scope N_scope.

Definition agree_on (ks : list key) (d1 d2 : db) : bool := forallb (fun k => opt_eqb (d1 k) (d2 k)) ks.

Record step_case := mkSC {
  s_before : ldb; s_after : ldb; s_op : cop;
  s_syncs : N;            (* commit records appended to the write-ahead log during the step = durable writes *)
  s_impl_ok : bool;
  s_payload : list N }.   (* IDs of the blocks that have a payload (from their headers) *)

Definition check_step (c : step_case) : N :=
  let acts := actions_of (s_op c) in
  (* every key of either dump AND every key the model batch writes (a write the implementation omitted is in neither dump) *)
  let ks := map fst (s_before c) ++ map fst (s_after c) ++ map bop_key (concat (writes acts)) in
  let pred := durable_after (lget (s_before c)) acts in
  let agree_model := agree_on ks pred (lget (s_after c)) && (N.of_nat (length (writes acts)) =? s_syncs c) in
  let agree_spec := (s_syncs c <=? 1) && consistent2_b (s_payload c) (s_after c)
                    && (if s_impl_ok c then true else agree_on ks (lget (s_before c)) (lget (s_after c)) && (s_syncs c =? 0)) in
  code agree_model agree_spec.

Record crash_case := mkCC {
  c_before : ldb; c_after : ldb; c_recovered : ldb;
  c_eq_before : bool; c_eq_after : bool;      (* whole-database digests, computed by the harness *)
  c_reopen_ok : bool; c_next_ok : bool;       (* the node restarted, and accepted a valid successor of its tip *)
  c_j : N; c_syncs : N;                       (* syncs that reached the disk / syncs the step issued *)
  c_first_wal : N;                            (* position of the first sync of the write-ahead log among them (0: none) *)
  c_restore : option (N * N);
  c_payload : list N }.               (* restore from the temp table: (height, id) of the block being restored *)

Definition check_crash (c : crash_case) : N :=
  let ks := map fst (c_before c) ++ map fst (c_after c) ++ map fst (c_recovered c) in
  let rb := agree_on ks (lget (c_recovered c)) (lget (c_before c)) in
  let ra := agree_on ks (lget (c_recovered c)) (lget (c_after c)) in
  (* model: the write is one atomic action, so no sync reached the disk -> before; the step's sync reached it -> after *)
  (* model: the write is one atomic action: before the log is synced at all -> before; every sync on disk -> after; in between
     (pebble syncs a long record in pieces and rotates logs) either *)
  let agree_model := if (c_j c <? c_first_wal c) || (c_first_wal c =? 0) then rb && c_eq_before c
                     else if c_syncs c <=? c_j c then ra && c_eq_after c else rb || ra in
  (* first start: an empty data directory is a legitimate "before" *)
  let empty_start := match c_recovered c, c_before c with [], [] => true | _, _ => false end in
  let agree_spec := c_reopen_ok c && (empty_start || consistent2_b (c_payload c) (c_recovered c)) && (c_eq_before c || c_eq_after c) && (rb || ra) && c_next_ok c
                    && match c_restore c with Some (h, id) => restore_safe_b (c_recovered c) h id | None => true end in
  code agree_model agree_spec.
