(* Correspondence evaluators for C09.  Struct decode cases reuse Corr.C08.check_struct (model agreement on the
   outcome class, error class and re-encoded bytes).  BLS bitmap cases: the model's pre-check decides "false". *)
From Coq Require Import String List NArith ZArith Bool.
From LE Require Import Base.Corr Codec.Varint Codec.Bits Corr.C08.
Import ListNotations.
Local Open Scope N_scope.

(* (number of keys, bitmap, number of weights (= keys for the unweighted call), status, result) *)
Definition bits_case : Type := nat * list N * nat * N * bool.
Definition check_bits (c : bits_case) : N :=
  let '(nkeys, bits, nweights, st, res) := c in
  let pre := weighted_precheck nkeys bits (repeat 1 nweights) in
  let m := weighted_select nkeys bits (repeat 1 nweights) in
  (* model: Err = returns false before any cryptography; Ok = proceeds (result decided by the signature) *)
  code (match m with
        | Err _ => (st =? 0) && negb res
        | Ok _ => st =? 0
        | Panic => st =? 2
        | OutOfFuel => st =? 3
        end)
       (negb ((st =? 2) || (st =? 3)) && (pre || negb res)).

(* ---- rmt.VerifyProof / CalculateRootFromUpdateData against the panic-outcome model (Safe/RmtIndex.v) ----
   Hashes are byte strings; the model's hash values are numbers: an injective tagging (leading 1 byte) carries them.
   branchHash is the real one (SHA-256 of 0x01 || left || right), getHeight / getLayerStructure are the exact integer versions
   of RMT/Proof.v (equal to the floating-point code for size <= 2^53; larger sizes are skipped, code 100). *)
From LE Require Import Safe.RmtIndex Hash.Sha256.
Definition tagN (bs : list N) : N := fold_left (fun a b => a * 256 + b) bs 1.
Fixpoint untag_aux (fuel : nat) (n : N) (acc : list N) : list N :=
  match fuel with O => acc | S f => if n <=? 1 then acc else untag_aux f (n / 256) (n mod 256 :: acc) end.
Definition untagN (n : N) : list N := untag_aux 200 n [].
Definition bh_real (a b : N) : N := tagN (sha256 (1 :: untagN a ++ untagN b)).
Definition gh_exact (size : N) : N := gh_int size.
Definition gls_exact (size : N) : list Z := gls_int size.

(* (update?, query hashes or update data, size, idxs, sibling hashes, root, status, implementation result ok/true?) *)
Definition rmt_case : Type := bool * list (list N) * N * list N * list (list N) * list N * N * bool.
Definition check_rmt (c : rmt_case) : N :=
  let '(update, qs, size, idxs, sibs, root, st, res) := c in
  if 2^53 <? size then 100 else
  let qh := if update then map (fun d => tagN (sha256 (0 :: d))) qs else map tagN qs in
  let sb := map tagN sibs in
  if update then
    (* CalculateRootFromUpdateData: error iff size = 0, no index, length mismatch, cpn error or no root *)
    let m := if (size =? 0) || Nat.eqb (length idxs) 0 then Err ErrInvalidData
             else if negb (Nat.eqb (length qs) (length idxs)) then Err ErrInvalidData
             else match calculate_path_nodes bh_real gh_exact gls_exact qh size idxs sb with
                  | Ok tree => match mget tree 2 with Some r => Ok (r =? tagN root) | None => Err ErrInvalidData end
                  | Err e => Err e | Panic => Panic | OutOfFuel => OutOfFuel
                  end in
    (* [root] is the root the implementation computed: the model must compute the same one *)
    code (match m with Ok same => (st =? 0) && res && same | Err _ => (st =? 0) && negb res | Panic => st =? 2 | OutOfFuel => st =? 3 end)
         (negb ((st =? 2) || (st =? 3)))
  else
    let m := verify_proof bh_real gh_exact gls_exact qh size idxs sb (tagN root) in
    code (match m with Ok b => (st =? 0) && Bool.eqb b res | Err _ => false | Panic => st =? 2 | OutOfFuel => st =? 3 end)
         (negb ((st =? 2) || (st =? 3))).
