(* Correspondence evaluators for C09.  Struct decode cases reuse Corr.C08.check_struct (model agreement on the
   outcome class, error class and re-encoded bytes).  BLS bitmap cases: the model's pre-check decides "false". *)
From Coq Require Import String List NArith ZArith Bool.
From LE Require Import Base.Corr Codec.Varint Codec.Bits Corr.C08.
Import ListNotations.
Local Open Scope N_scope.

(* (number of keys, bitmap, number of weights (= keys for the unweighted call), status, result) *)
Definition bits_case : Type := nat * list N * nat * N * bool.
Definition check_bits (c : bits_case) : N :=
  let '(nkeys, bits, nweights, st, res) := c in
  let pre := weighted_precheck nkeys bits (repeat 1 nweights) in
  let m := weighted_select nkeys bits (repeat 1 nweights) in
  (* model: Err = returns false before any cryptography; Ok = proceeds (result decided by the signature) *)
  code (match m with
        | Err _ => (st =? 0) && negb res
        | Ok _ => st =? 0
        | Panic => st =? 2
        | OutOfFuel => st =? 3
        end)
       (negb ((st =? 2) || (st =? 3)) && (pre || negb res)).
