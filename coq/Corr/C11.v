(* Correspondence evaluators for C11 (regular Merkle tree).  The abstract hash of the model is instantiated with
   SHA-256 (LE.Hash.Sha256): emptyHash = H(""), leafHash v = H(0x00 ++ v), branchHash l r = H(0x01 ++ l ++ r).
   Leaves of a case are generated from (seed, n): leaf i = [seed; i/256; i mod 256], possibly overridden by updates.
   Codes: Base.Corr.code agree_model agree_spec. *)
From Coq Require Import List NArith Bool.
From LE Require Import Base.Corr Hash.Sha256 RMT.Root RMT.Append RMT.Proof RMT.NodeProofs RMT.ProofCompleteTop.
Import ListNotations.
Local Open Scope N_scope.

Definition hsh := list N.
Definition hempty : hsh := sha256 [].
Definition hleaf (v : list N) : hsh := sha256 (0 :: v).
Definition hbranch (l r : hsh) : hsh := sha256 (1 :: l ++ r).
Fixpoint bytes_eqb (a b : list N) : bool :=
  match a, b with
  | [], [] => true
  | x :: a', y :: b' => (x =? y) && bytes_eqb a' b'
  | _, _ => false
  end.
Fixpoint list_eqb {A} (e : A -> A -> bool) (a b : list A) : bool :=
  match a, b with
  | [], [] => true
  | x :: a', y :: b' => e x y && list_eqb e a' b'
  | _, _ => false
  end.

Definition leaf_val (seed i : N) : list N := [seed; i / 256; i mod 256].
Definition other_val (seed j : N) : list N := [238; seed; j / 256; j mod 256].   (* never a leaf: seeds are < 238 *)
Definition leaves (seed n : N) : list (list N) := map (fun i => leaf_val seed (N.of_nat i)) (seq 0 (N.to_nat n)).

Definition mroot' := mroot hempty hleaf hbranch.
Definition st : Type := hsh * list hsh * N.            (* root, append path, size *)
Definition st_eqb (a b : st) : bool :=
  let '(r1, p1, s1) := a in let '(r2, p2, s2) := b in
  bytes_eqb r1 r2 && list_eqb bytes_eqb p1 p2 && (s1 =? s2).
Definition of_rstate (s : option (rstate (Hsh := hsh))) : option st :=
  match s with Some (RS r p n) => Some (r, p, n) | None => None end.
Definition ost_eqb (a b : option st) : bool :=
  match a, b with Some x, Some y => st_eqb x y | None, None => true | _, _ => false end.

(* ---- append / predict / reload / batch ----
   (seed, n, state after n appends, prediction made at size n-1 for leaf n-1: (kind, st) with kind 0 = n/a (n = 0),
    1 = value, 2 = nil or panic; state reloaded from storage (None = error); CalculateRoot(leaves)) *)
Definition app_case : Type := N * N * st * (N * st) * option st * hsh.
Definition check_app (c : app_case) : N :=
  let '(seed, n, impl, (pk, pst), reload, batch) := c in
  let ls := leaves seed n in
  let model := of_rstate (append_all hleaf hbranch ls (rinit hempty)) in
  let spec : st := (mroot' ls, subtree_roots hempty hleaf hbranch ls, n) in
  let prev := append_all hleaf hbranch (firstn (N.to_nat (n - 1)) ls) (rinit hempty) in
  let mpred := match prev with
               | Some s => of_rstate (predict hleaf hbranch (leaf_val seed (n - 1)) (r_path s) (r_size s))
               | None => None
               end in
  let ipred := if pk =? 1 then Some pst else None in
  code (ost_eqb (Some impl) model && ((pk =? 0) || ost_eqb ipred mpred) && bytes_eqb batch (mroot' ls))
       (st_eqb impl spec && ((pk =? 0) || ost_eqb ipred (Some spec)) && ((n =? 0) || ost_eqb reload (Some spec))
        && bytes_eqb batch (mroot' ls)).

(* the original CalculateRootFromAppendPath (before the fix) — used by the refutation replay only *)
Definition check_app_buggy_pred (c : app_case) : N :=
  let '(seed, n, impl, (pk, pst), reload, batch) := c in
  let ls := leaves seed n in
  let prev := append_all hleaf hbranch (firstn (N.to_nat (n - 1)) ls) (rinit hempty) in
  let mpred := match prev with
               | Some s => of_rstate (predict_buggy hleaf hbranch (leaf_val seed (n - 1)) (r_path s) (r_size s))
               | None => None
               end in
  if ost_eqb (if pk =? 1 then Some pst else None) mpred then 0 else 1.

(* ---- store view of a leaf list: hash of the node at (layer, index) ---- *)
Definition node_at (ls : list (list N)) (layer ni : N) : option hsh := node_of hempty hleaf hbranch ls layer ni.
(* [node_of] is the store view of the theorems C11_proof_complete_single_query_partial / C11_update_..._partial *)

(* leaves with updates applied: (position, new value id j -> other_val) *)
Fixpoint set_nth {A} (i : nat) (x : A) (l : list A) : list A :=
  match l, i with
  | [], _ => []
  | _ :: t, O => x :: t
  | y :: t, S i' => y :: set_nth i' x t
  end.
Definition apply_updates (seed : N) (ups : list (N * N)) (ls : list (list N)) : list (list N) :=
  fold_left (fun l u => set_nth (N.to_nat (fst u)) (other_val seed (snd u)) l) ups ls.

Definition out_eqb {A} (e : A -> A -> bool) (a b : outcome A) : bool :=
  match a, b with Ok x, Ok y => e x y | Err, Err => true | OutOfFuel, OutOfFuel => true | _, _ => false end.

(* query: Some pos = leaf position, None = absent value (other_val seed j for the j-th query) *)
Definition query_hashes (seed : N) (ls : list (list N)) (qs : list (option N)) : list hsh :=
  map (fun p => match snd p with
                | Some pos => hleaf (nth (N.to_nat pos) ls [])
                | None => hleaf (other_val seed (N.of_nat (fst p)))
                end) (combine (seq 0 (length qs)) qs).

(* tamperings: (kind, i, impl verdict).  kind 0: query hash i replaced by another value's leaf hash;
   1: root replaced; 2: sibling hash i replaced; 3: idx i replaced by the idx of leaf position j (encoded in i as
   i = qi * 65536 + j); 4: the claim (idx of query i, another hash) put in FRONT of the honest claims; 5: proof.Size := i; 6: ancestor claim shadowing a false leaf claim; 7: extra claim at an index outside the tree *)
Definition other_hash (seed k : N) : hsh := hleaf (other_val seed (1000 + k)).
Definition replace_nth {A} (i : nat) (x : A) (l : list A) : list A := set_nth i x l.

(* (seed, updates applied before, n, queries, impl err flag, impl idxs, impl siblings, impl verify verdict, tamperings) *)
Definition proof_case : Type :=
  N * list (N * N) * N * list (option N) * bool * list N * list hsh * bool * list (N * N * bool).
Definition check_proof (c : proof_case) : N :=
  let '(seed, ups, n, qs, ierr, iidxs, isibs, iver, tampers) := c in
  let ls := apply_updates seed ups (leaves seed n) in
  let root := mroot' ls in
  let qh := query_hashes seed ls qs in
  let height := get_height n in
  let mproof := generate_proof (node_at ls) n (map (fun q => match q with Some p => Some (0, p) | None => None end) qs) in
  let agree_gen := match mproof with
                   | Ok (sz, idxs, sibs) => negb ierr && list_eqb N.eqb idxs iidxs && list_eqb bytes_eqb sibs isibs
                   | _ => ierr
                   end in
  let mver := verify_proof hbranch bytes_eqb qh n iidxs isibs root in
  let tamper_model (t : N * N * bool) : bool :=
    let '(k, i, _) := t in
    if k =? 0 then verify_proof hbranch bytes_eqb (replace_nth (N.to_nat i) (other_hash seed i) qh) n iidxs isibs root
    else if k =? 1 then verify_proof hbranch bytes_eqb qh n iidxs isibs (other_hash seed 7)
    else if k =? 2 then verify_proof hbranch bytes_eqb qh n iidxs (replace_nth (N.to_nat i) (other_hash seed i) isibs) root
    else if k =? 3 then
         match loc_index (i mod 65536) 0 height with
         | Some idx => verify_proof hbranch bytes_eqb qh n (replace_nth (N.to_nat (i / 65536)) idx iidxs) isibs root
         | None => false
         end
    else if k =? 4 then verify_proof hbranch bytes_eqb (other_hash seed i :: qh) n (nth (N.to_nat i) iidxs 0 :: iidxs) isibs root
    else if k =? 6 then (* claim (ancestor [i mod 64] levels above query [i / 64], honest hash) in front; the leaf claimed with another hash *)
      let qi := i / 64 in
      verify_proof hbranch bytes_eqb (nth (N.to_nat qi) qh [] :: replace_nth (N.to_nat qi) (other_hash seed qi) qh) n
                   (N.shiftr (nth (N.to_nat qi) iidxs 0) (i mod 64) :: iidxs) isibs root
    else if k =? 7 then (* an extra claim (index i that names no node of the tree, another hash) in front of the honest claims *)
      verify_proof hbranch bytes_eqb (other_hash seed 3 :: qh) n (i :: iidxs) isibs root
    else (* 5: proof.Size replaced by i (unauthenticated field) *) verify_proof hbranch bytes_eqb qh i iidxs isibs root in
  let agree_t := forallb (fun t => Bool.eqb (snd t) (tamper_model t)) tampers in
  let has_present := existsb (fun q => match q with Some _ => true | None => false end) qs in
  let present := flat_map (fun q => match q with Some p => [p] | None => [] end) qs in
  let nodup := Nat.eqb (length (nodup N.eq_dec present)) (length present) in
  (* a proof with another Size may still be accepted (the field is not authenticated, see C11_proof_position_wrong_size_refuted);
     what must remain true is the DATA claim: every claimed hash at a non-zero index is the hash of some leaf of the list *)
  let leaf_hashes := map hleaf ls in
  let data_ok := forallb (fun p => (fst p =? 0) || existsb (bytes_eqb (snd p)) leaf_hashes) (combine iidxs qh) in
  let spec := negb ierr && (if has_present && nodup then iver else true) &&
              forallb (fun t => let '(k, _, v) := t in if k =? 5 then negb v || data_ok else negb v) tampers in
  code (agree_gen && Bool.eqb iver mver && agree_t) spec.

(* ---- update through a proof ----
   (seed, n, updates (position, value id), impl err, impl root after Update, impl CalculateRootFromUpdateData result
    (None = error) on the proof generated before the update, root after one more Append (None = error)) *)
Definition upd_case : Type := N * N * list (N * N) * bool * hsh * list hsh * option hsh * option hsh.
Definition check_upd (c : upd_case) : N :=
  let '(seed, n, ups, ierr, iroot, ipath, icalc, iapp) := c in
  let ls := leaves seed n in
  let ls' := apply_updates seed ups ls in
  let height := get_height n in
  let idxs := map (fun u => match loc_index (fst u) 0 height with Some i => i | None => 0 end) ups in
  let newh := map (fun u => hleaf (other_val seed (snd u))) ups in
  let mroot_upd := update_root hbranch bytes_eqb (node_at ls) n idxs newh in
  let mcalc := match sibling_hashes (node_at ls) n idxs with
               | Ok sh => root_from_update hbranch bytes_eqb newh n idxs sh
               | _ => Err
               end in
  (* Append after Update: the append path is re-read from the updated nodes *)
  let mpath := update_path (node_at ls') n (subtree_roots hempty hleaf hbranch ls) in
  let mapp := match mroot_upd with
              | Ok r => of_rstate (append hleaf hbranch (leaf_val seed n) (RS r mpath n))
              | _ => None
              end in
  let opt_root_eqb (a : option hsh) (b : outcome hsh) :=
    match a, b with Some x, Ok y => bytes_eqb x y | None, Err => true | _, _ => false end in
  let agree_model :=
    match mroot_upd with Ok r => negb ierr && bytes_eqb r iroot && list_eqb bytes_eqb ipath mpath | _ => ierr end &&
    opt_root_eqb icalc mcalc &&
    match iapp, mapp with Some a, Some (r, _, _) => bytes_eqb a r | None, None => true | _, _ => false end in
  (* the same position twice with different data: Update may refuse (it does: conflicting hashes for one index) *)
  let conflict := existsb (fun u => existsb (fun v => (fst u =? fst v) && negb (snd u =? snd v)) ups) ups in
  let spec := (conflict && ierr) ||
    negb ierr && bytes_eqb iroot (mroot' ls') && list_eqb bytes_eqb ipath (subtree_roots hempty hleaf hbranch ls') &&
    match icalc with Some x => bytes_eqb x (mroot' ls') | None => false end &&
    match iapp with Some a => bytes_eqb a (mroot' (ls' ++ [leaf_val seed n])) | None => false end in
  code agree_model spec.

(* ---- right witness ----
   (seed, n, idx, impl witness (None = error), impl root from CalculateRootFromRightWitness
    (None = panic or hang), impl VerifyRightWitness verdict) *)
Definition rw_case : Type := N * N * N * option (list hsh) * option hsh * bool.
Definition check_rw (c : rw_case) : N :=
  let '(seed, n, idx, iw, iroot, iver) := c in
  let ls := leaves seed n in
  let path_full := subtree_roots hempty hleaf hbranch ls in
  let path_part := subtree_roots hempty hleaf hbranch (firstn (N.to_nat idx) ls) in
  let mw := gen_right_witness (node_at ls) path_full n idx in
  let agree_w := match mw, iw with Ok w, Some w' => list_eqb bytes_eqb w w' | Err, None => true | _, _ => false end in
  let mroot_w := match iw with
                 | Some w => Some (root_from_right_witness hempty hbranch idx path_part w)
                 | None => None
                 end in
  let agree_r := match mroot_w, iroot with
                 | Some (Ok r), Some r' => bytes_eqb r r'
                 | Some Err, Some [] => true
                 | Some OutOfFuel, None => true
                 | None, None => true
                 | _, _ => false
                 end in
  let spec := if n <? idx then true
              else match iw with Some _ => iver && match iroot with Some r => bytes_eqb r (mroot' ls) | None => false end
                               | None => false end in
  code (agree_w && agree_r) spec.

(* ---- right-witness reconstruction on arbitrary (also inconsistent) arguments: must terminate without panic ----
   (node index, append path, right witness, impl result: None = panic or hang, Some [] = nil, Some h = root) *)
Definition rwx_case : Type := N * list hsh * list hsh * option hsh.
Definition check_rwx (c : rwx_case) : N :=
  let '(idx, ap, rw, iroot) := c in
  let m := root_from_right_witness hempty hbranch idx ap rw in
  code (match m, iroot with
        | Ok r, Some r' => bytes_eqb r r'
        | Err, Some [] => true
        | OutOfFuel, None => true
        | _, _ => false
        end)
       (match iroot with Some _ => true | None => false end).

(* ---- scripts on lists with explicit (possibly repeated) leaf ids ----
   (seed, initial leaf ids, ops (0,id,_) = append leaf id / (1,pos,id) = update pos to leaf id, state after the script,
    reloaded state, proofs: (queried value ids, impl err, impl idxs, impl sibling hashes, impl verdict),
    right witnesses: (idx, impl witness, impl reconstructed root, impl verdict)).
   Queries are by value: with repeated values the implementation may answer with any position holding that value, so
   the proof is judged from ITS indexes: each must be a leaf index whose leaf has the queried value (oracle), the sibling
   hashes must be the model's for those indexes, and it must verify. *)
Definition seq_case : Type :=
  N * list N * list (N * N * N) * st * option st *
  list (list N * bool * list N * list hsh * bool) * list (N * option (list hsh) * option hsh * bool).
Definition apply_op (seed : N) (ls : list (list N)) (o : N * N * N) : list (list N) :=
  let '(k, a, b) := o in
  if k =? 0 then ls ++ [leaf_val seed a] else if k =? 2 then ls (* re-open from the store *) else set_nth (N.to_nat a) (leaf_val seed b) ls.
(* the hash->location index of rmt.go for LEAVES (saveNode: hash -> location, overwritten by every later write of the same
   hash, never deleted: replaceNode's Del(prevValue) deletes an un-prefixed key, i.e. nothing): the position a leaf value
   resolves to is the position of the LAST write of that value (Append or Update), whether or not it is still there *)
Definition writes (ids : list N) (ops : list (N * N * N)) : list (N * N) :=   (* (value id, position), oldest first *)
  let init := combine ids (map N.of_nat (seq 0 (length ids))) in
  fst (fold_left (fun (st : list (N * N) * N) (o : N * N * N) =>
                    let '(w, sz) := st in let '(k, a, b) := o in
                    if k =? 0 then (w ++ [(a, sz)], sz + 1) else if k =? 2 then (w, sz) else (w ++ [(b, a)], sz))
                 ops (init, N.of_nat (length ids))).
Definition last_write (w : list (N * N)) (id : N) : option N :=
  match find (fun p => fst p =? id) (rev w) with Some p => Some (snd p) | None => None end.
Definition check_seq (c : seq_case) : N :=
  let '(seed, ids, ops, ist, reload, proofs, rws) := c in
  let ls := fold_left (apply_op seed) ops (map (leaf_val seed) ids) in
  let wr := writes ids ops in
  let n := N.of_nat (length ls) in
  let root := mroot' ls in
  let path := subtree_roots hempty hleaf hbranch ls in
  let spec_st : st := (root, path, n) in
  let height := get_height n in
  let present (id : N) := existsb (bytes_eqb (leaf_val seed id)) ls in
  let run_proof (p : list N * bool * list N * list hsh * bool) : bool * bool * bool :=
    let '(qids, ierr, iidxs, isibs, iver) := p in
    let qh := map (fun id => hleaf (leaf_val seed id)) qids in
    let msibs := sibling_hashes (node_at ls) n iidxs in
    let mver := verify_proof hbranch bytes_eqb qh n iidxs isibs root in
    (* model of getIndexes: every query resolves to the leaf index of the last write of its value *)
    let midxs := map (fun id => match last_write wr id with Some p => 2 ^ height + p | None => 0 end) qids in
    let agree := if ierr then true
                 else match msibs with Ok sb => list_eqb bytes_eqb sb isibs | _ => false end && Bool.eqb mver iver &&
                      (negb (forallb (fun id => match last_write wr id with Some _ => true | None => false end) qids)
                       || list_eqb N.eqb midxs iidxs) in
    let idx_ok (qi : N * N) :=
      let '(id, idx) := qi in
      if present id then
        (2 ^ height <=? idx) && (idx <? 2 ^ height + n) &&
        bytes_eqb (nth (N.to_nat (idx - 2 ^ height)) ls []) (leaf_val seed id)
      else true in
    let all_present := forallb present qids in
    let spec := if all_present && negb (Nat.eqb (length qids) 0)
                then negb ierr && Nat.eqb (length iidxs) (length qids) && forallb idx_ok (combine qids iidxs) && iver
                else true in
    (* the known defect class: a queried value that IS in the list was resolved to the position where it was written LAST
       in this script and which an Update has overwritten since (the hash->location index is single-valued and Update
       never cleans it); any other mis-resolution is not this class *)
    let stale_hit (qi : N * N) :=
      let '(id, idx) := qi in
      present id && (2 ^ height <=? idx) && (idx <? 2 ^ height + n) &&
      negb (bytes_eqb (nth (N.to_nat (idx - 2 ^ height)) ls []) (leaf_val seed id)) &&
      (* ... and it is the position of the LAST write of the value in this script, since overwritten by an Update *)
      match last_write wr id with Some p => idx =? 2 ^ height + p | None => false end in
    let stale := negb ierr && Nat.eqb (length iidxs) (length qids) && existsb stale_hit (combine qids iidxs) in
    (agree, spec, stale) in
  let run_rw (w : N * option (list hsh) * option hsh * bool) : bool * bool :=
    let '(idx, iw, iroot, iver) := w in
    let path_part := subtree_roots hempty hleaf hbranch (firstn (N.to_nat idx) ls) in
    let mw := gen_right_witness (node_at ls) path n idx in
    let agree_w := match mw, iw with Ok x, Some y => list_eqb bytes_eqb x y | Err, None => true | _, _ => false end in
    let agree_r := match iw with
                   | Some x => match root_from_right_witness hempty hbranch idx path_part x, iroot with
                               | Ok r, Some r' => bytes_eqb r r'
                               | Err, Some [] => true
                               | _, _ => false
                               end
                   | None => true
                   end in
    let spec := if n <? idx then true
                else match iw, iroot with Some _, Some r => iver && bytes_eqb r root | _, _ => false end in
    (agree_w && agree_r, spec) in
  let ps := map run_proof proofs in
  let ws := map run_rw rws in
  let st_ok := st_eqb ist spec_st in
  let rl_ok := (n =? 0) || ost_eqb reload (Some spec_st) in
  let pf_ok := forallb (fun x => snd (fst x)) ps in
  let rw_ok := forallb snd ws in
  (* every failing proof is a hit of the stale hash->location index *)
  let pf_stale := forallb (fun x => snd (fst x) || snd x) ps in
  (* 0 ok, 1 model only; a violated oracle adds 2 and the detail 4*(1 state + 2 reload + 4 proofs + 8 right witnesses
     + 16 the failing proofs are all stale-index hits) *)
  code (st_ok && forallb (fun x => fst (fst x)) ps && forallb fst ws) (st_ok && rl_ok && pf_ok && rw_ok) +
  4 * ((if st_ok then 0 else 1) + (if rl_ok then 0 else 2) + (if pf_ok then 0 else 4) + (if rw_ok then 0 else 8) +
       (if negb pf_ok && pf_stale then 16 else 0)).
