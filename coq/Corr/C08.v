(* Correspondence evaluators for C08.  Result code per case: 0 = implementation agrees with the model and
   with the declarative oracle; 1 = differs from the model only; >=2 = violates the oracle; 100 = skipped
   (outcome depends on the NFC status of a string outside the decided fragment, see Codec/Str.v). *)
From Coq Require Import String List NArith ZArith Bool.
From LE Require Import Base.Corr Codec.Varint Codec.Reader Codec.Writer Codec.Str Codec.Schema Gen.Schemas.
Import ListNotations.
Local Open Scope N_scope.

Inductive pval := PZ (l : list Z) | PB (l : list (list N)).

Definition errcode (e : err) : N :=
  match e with
  | ErrInvalidData => 1 | ErrOutOfRange => 2 | ErrNoTerminate => 3 | ErrUnexpectedFieldNumber => 4
  | ErrFieldNumberNotFound => 5 | ErrUnreadBytes => 6 | ErrUnnecessaryLeadingBytes => 7
  | ErrSize => 8 | ErrUtf8 => 9 | ErrNfc => 10
  end.

Fixpoint lz_eqb (a b : list Z) : bool :=
  match a, b with [], [] => true | x :: a', y :: b' => (x =? y)%Z && lz_eqb a' b' | _, _ => false end.
Fixpoint ll_eqb (a b : list (list N)) : bool :=
  match a, b with [], [] => true | x :: a', y :: b' => list_eqb x y && ll_eqb a' b' | _, _ => false end.
Definition pval_eqb (a b : pval) : bool :=
  match a, b with PZ x, PZ y => lz_eqb x y | PB x, PB y => ll_eqb x y | _, _ => false end.

Definition b2z (b : bool) : Z := if b then 1%Z else 0%Z.
Definition liftp {A} (f : A -> pval) (x : res (A * reader)) : res (pval * reader) :=
  bind x (fun '(v, r) => Ok (f v, r)).

(* op codes: 0 UInt 1 UInt32 2 UInts 3 UInt32s 4 Int 5 Int32 6 Ints 7 Bool 8 Bools 9 Bytes 10 BytesArray
   11 String 12 Strings (13 Int32s: writer only) *)
Definition run_read (S : strops) (op : N) (r : reader) (fn : N) (strict : bool) : res (pval * reader) :=
  match op with
  | 0 => liftp (fun v => PZ [Z.of_N v]) (ReadUInt r fn strict)
  | 1 => liftp (fun v => PZ [Z.of_N v]) (ReadUInt32 r fn strict)
  | 2 => liftp (fun v => PZ (map Z.of_N v)) (ReadUInts r fn)
  | 3 => liftp (fun v => PZ (map Z.of_N v)) (ReadUInt32s r fn)
  | 4 => liftp (fun v => PZ [v]) (ReadInt r fn strict)
  | 5 => liftp (fun v => PZ [v]) (ReadInt32 r fn strict)
  | 6 => liftp PZ (ReadInts r fn)
  | 7 => liftp (fun v => PZ [b2z v]) (ReadBool r fn strict)
  | 8 => liftp (fun v => PZ (map b2z v)) (ReadBools r fn)
  | 9 => liftp (fun v => PB [v]) (ReadBytes r fn strict)
  | 10 => liftp PB (ReadBytesArray r fn)
  | 11 => liftp (fun v => PB [v]) (ReadString S r fn strict)
  | 12 => liftp PB (ReadStrings S r fn)
  | _ => Panic
  end.

Definition z2b (z : Z) : bool := negb (z =? 0)%Z.
Definition run_write (S : strops) (op : N) (fn : N) (v : pval) : list N :=
  match op, v with
  | 0, PZ [x] => WriteUInt fn (Z.to_N x)
  | 1, PZ [x] => WriteUInt32 fn (Z.to_N x)
  | 2, PZ l => WriteUInts fn (map Z.to_N l)
  | 3, PZ l => WriteUInt32s fn (map Z.to_N l)
  | 4, PZ [x] => WriteInt fn x
  | 5, PZ [x] => WriteInt32 fn x
  | 6, PZ l => WriteInts fn l
  | 13, PZ l => WriteInt32s fn l
  | 7, PZ [x] => WriteBool fn (z2b x)
  | 8, PZ l => WriteBools fn (map z2b l)
  | 9, PB [x] => WriteBytes fn x
  | 10, PB l => WriteBytesArray fn l
  | 11, PB [x] => WriteString S fn x
  | 12, PB l => WriteStrings S fn l
  | _, _ => [255; 255; 255; 255]
  end.

(* implementation observation: status (0 ok, 1 error, 2 recovered panic, 3 timeout), error code, value,
   reader index afterwards *)
Definition obs : Type := N * N * pval * nat.

Definition res_agrees (m : res (pval * reader)) (o : obs) : bool :=
  let '(st, ec, v, ix) := o in
  match m with
  | Ok (mv, r') => (st =? 0) && pval_eqb mv v && Nat.eqb (idx r') ix
  | Err e => (st =? 1) && (ec =? errcode e)
  | Panic => st =? 2
  | OutOfFuel => st =? 3
  end.

Definition res_same (a b : res (pval * reader)) : bool :=
  match a, b with
  | Ok (v1, r1), Ok (v2, r2) => pval_eqb v1 v2 && Nat.eqb (idx r1) (idx r2)
  | Err e1, Err e2 => errcode e1 =? errcode e2
  | Panic, Panic => true
  | OutOfFuel, OutOfFuel => true
  | _, _ => false
  end.

Definition is_default (v : pval) : bool :=
  match v with PZ [z] => (z =? 0)%Z | PZ [] => true | PB [[]] => true | PB [] => true | _ => false end.

(* ops for which acceptance is canonical (right-hand side of the read_*_canonical theorems) *)
Definition canonical_op (op : N) : bool :=
  match op with 0 | 4 | 7 | 9 | 10 | 11 | 12 => true | _ => false end.

(* ((op, fn, strict, data, idx, end), observation) *)
Definition read_case : Type := (N * N * bool * list N * nat * Z) * obs.

Definition read_oracle (op fn : N) (d : list N) (i : nat) (lm : Z) (o : obs) : bool :=
  let '(st, ec, v, ix) := o in
  if (st =? 2) || (st =? 3) then false else
  if negb (st =? 0) then true else
  if negb (canonical_op op && (lm =? Z.of_nat (length d))%Z && Nat.leb i (length d)) then true else
  let consumed := firstn (ix - i) (skipn i d) in
  Nat.leb i ix && Nat.leb ix (length d) &&
  (list_eqb consumed (run_write (corr_strops true) op fn v)
   || (match consumed with [] => true | _ => false end && is_default v)).

Definition check_read (c : read_case) : N :=
  let '((op, fn, strict, d, i, lm), o) := c in
  let r := mkR d i lm in
  let m1 := run_read (corr_strops true) op r fn strict in
  let m2 := run_read (corr_strops false) op r fn strict in
  if negb (res_same m1 m2) then 100 else
  code (res_agrees m1 o) (read_oracle op fn d i lm o).

(* (op, fn, value, bytes written by the implementation) *)
Definition write_case : Type := N * N * pval * list N.

Definition canon_pval (op : N) (v : pval) : pval :=
  match op, v with
  | 1, PZ l | 3, PZ l => PZ (map (fun z => Z.of_N (u32 (Z.to_N z))) l)
  | 7, PZ l | 8, PZ l => PZ (map (fun z => b2z (z2b z)) l)
  | 11, PB l | 12, PB l => PB (map nfc_norm_c l)
  | _, _ => v
  end.
Definition read_op_of (op : N) : N := if op =? 13 then 6 else op.

(* oracle: reading the implementation's bytes back yields the (canonicalised) value and consumes everything;
   an empty array writes nothing *)
Definition check_write (c : write_case) : N :=
  let '(op, fn, v, bs) := c in
  let m := run_write (corr_strops true) op fn v in
  let back := run_read (corr_strops true) (read_op_of op) (new_reader bs) fn true in
  code (list_eqb m bs)
       (match back with
        | Ok (v', r') => pval_eqb v' (canon_pval op v) && Nat.eqb (idx r') (length bs)
        | Err ErrFieldNumberNotFound => match bs with [] => is_default v | _ => false end
        | _ => false
        end).

(* ---- generated structs ---- *)
Definition sfuel : nat := Datatypes.S max_depth.

(* model of "Decode (or DecodeStrict) then Encode": the re-encoded bytes *)
Definition model_recode (S : strops) (strict : bool) (s : schema) (d : list N) : res (list N) :=
  bind (if strict then DecodeStrict S schemas_env sfuel s d else Decode S schemas_env sfuel s d)
       (fun vs => Ok (encode_struct S schemas_env sfuel s vs)).

Definition recode_same (a b : res (list N)) : bool :=
  match a, b with
  | Ok x, Ok y => list_eqb x y
  | Err e1, Err e2 => errcode e1 =? errcode e2
  | Panic, Panic | OutOfFuel, OutOfFuel => true
  | _, _ => false
  end.

(* observation of one decode: status, error code, re-encoded bytes *)
Definition dobs : Type := N * N * list N.
Definition recode_agrees (m : res (list N)) (o : dobs) : bool :=
  let '(st, ec, re) := o in
  match m with
  | Ok b => (st =? 0) && list_eqb b re
  | Err e => (st =? 1) && (ec =? errcode e)
  | Panic => st =? 2
  | OutOfFuel => st =? 3
  end.

(* (struct name, input, Decode obs, DecodeStrict obs, (st2, re2, sst2, sre2) = decodes of the re-encoding) *)
(* to keep the case terms small, byte strings equal to an earlier one are passed as None:
   sre None = re, re2 None = re, sre2 None = re2 *)
Definition struct_case : Type :=
  string * list N * dobs * (N * N * option (list N)) * (N * option (list N) * N * option (list N)).
Definition dflt (o : option (list N)) (d : list N) : list N := match o with Some x => x | None => d end.

Definition struct_oracle (s : schema) (d : list N) (o so : dobs) (o2 : N * list N * N * list N) : bool :=
  let '(st, _, re) := o in
  let '(sst, _, sre) := so in
  let '(st2, re2, sst2, sre2) := o2 in
  negb ((st =? 2) || (st =? 3) || (sst =? 2) || (sst =? 3)) &&
  (* round trip on the implementation's own encodings: Encode . Decode reaches a fixed point re2 (nil nested
     messages become zero messages, one level per round), which strict decoding accepts and re-encodes to itself *)
  (if st =? 0 then (st2 =? 0) && (sst2 =? 0) && list_eqb sre2 re2 else true) &&
  (* strict acceptance implies lenient acceptance of the same value; for flat canonical schemas only the canonical
     bytes are accepted *)
  (if sst =? 0 then (st =? 0) && list_eqb sre re && (if flat_canon s then list_eqb sre d else true) else true).

Definition check_struct (c : struct_case) : N :=
  let '(nm, d, o, so', o2') := c in
  let re := snd o in
  let so := (fst so', dflt (snd so') re) in
  let '(st2, re2', sst2, sre2') := o2' in
  let re2 := dflt re2' re in
  let o2 := (st2, re2, sst2, dflt sre2' re2) in
  match Schema.lookup schemas_env nm with
  | None => 3
  | Some s =>
    let l1 := model_recode (corr_strops true) false s d in
    let l2 := model_recode (corr_strops false) false s d in
    let s1 := model_recode (corr_strops true) true s d in
    let s2 := model_recode (corr_strops false) true s d in
    if negb (recode_same l1 l2 && recode_same s1 s2) then 100 else
    code (recode_agrees l1 o && recode_agrees s1 so) (struct_oracle s d o so o2)
  end.

(* ---- Lisk32 ---- *)
From LE Require Import Codec.Lisk32.
Definition l32code (e : l32err) : N := match e with L32Size => 1 | L32Prefix => 2 | L32Char => 3 | L32Checksum => 4 end.
(* (direction: true = bytes->text, input, status, error class, output, status of the inverse applied to the output,
    its output, must_reject: input is a valid address with exactly one character replaced) *)
Definition l32_case : Type := bool * list N * N * N * list N * N * list N * bool.
Definition check_l32 (c : l32_case) : N :=
  let '(b2t, inp, st, ec, out, bst, back, must_reject) := c in
  let m := if b2t then bytes_to_lisk32 inp else lisk32_to_bytes inp in
  code (match m with
        | L32Ok o => (st =? 0) && Str.list_eqb o out
        | L32Err e => (st =? 1) && (ec =? l32code e)
        end)
       (negb ((st =? 2) || (st =? 3)) &&
        (if st =? 0 then (bst =? 0) && Str.list_eqb back inp else true) &&
        (if must_reject then st =? 1 else true)).

(* ---- Go values built directly from model values: Encode, then Decode, compared field-wise ---- *)
Fixpoint lb_eqb (a b : list bool) : bool :=
  match a, b with [], [] => true | x :: a', y :: b' => Bool.eqb x y && lb_eqb a' b' | _, _ => false end.
Fixpoint ln_eqb (a b : list N) : bool :=
  match a, b with [], [] => true | x :: a', y :: b' => (x =? y) && ln_eqb a' b' | _, _ => false end.
Fixpoint value_eqb (fuel : nat) (a b : value) : bool :=
  match fuel with
  | O => false
  | Datatypes.S f =>
    let vl := fix vl (x y : list value) : bool :=
                match x, y with [], [] => true | p :: x', q :: y' => value_eqb f p q && vl x' y' | _, _ => false end in
    let vll := fix vll (x y : list (list value)) : bool :=
                 match x, y with [], [] => true | p :: x', q :: y' => vl p q && vll x' y' | _, _ => false end in
    match a, b with
    | VBool x, VBool y => Bool.eqb x y
    | VU x, VU y => x =? y
    | VI x, VI y => (x =? y)%Z
    | VBytes x, VBytes y => ln_eqb x y
    | VBytesL x, VBytesL y => ll_eqb x y
    | VBools x, VBools y => lb_eqb x y
    | VUs x, VUs y => ln_eqb x y
    | VMsg None, VMsg None => true
    | VMsg (Some x), VMsg (Some y) => vl x y
    | VMsgs x, VMsgs y => vll x y
    | _, _ => false
    end
  end.
Fixpoint values_eqb (a b : list value) : bool :=
  match a, b with [], [] => true | x :: a', y :: b' => value_eqb 12 x y && values_eqb a' b' | _, _ => false end.
Definition top_not_nil (vs : list value) : bool :=
  forallb (fun v => match v with VMsg None => false | _ => true end) vs.

(* (struct, value, bytes of the real Encode, status, value read off the real Decode, status of the real DecodeStrict) *)
Definition direct_case : Type := string * list value * list N * N * list value * N.
Definition check_direct (c : direct_case) : N :=
  let '(nm, v, enc, st, back, sst) := c in
  match Schema.lookup schemas_env nm with
  | None => 3
  | Some s =>
    let S := corr_strops true in
    let menc := encode_struct S schemas_env sfuel s v in
    let mdec := Decode S schemas_env sfuel s enc in
    let mstrict := DecodeStrict S schemas_env sfuel s enc in
    code (Str.list_eqb menc enc &&
          match mdec with Ok v' => (st =? 0) && values_eqb v' back | Err _ => st =? 1 | Panic => st =? 2 | OutOfFuel => st =? 3 end &&
          match mstrict with Ok _ => sst =? 0 | _ => sst =? 1 end)
         ((st =? 0) && values_eqb back (canon_struct S schemas_env sfuel s v) &&
          (if top_not_nil v then sst =? 0 else true))
  end.
