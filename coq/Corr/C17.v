(* Correspondence evaluators for C17.  One case = one request() call observed on real loopback hosts (harness/cmd/c17):
   the per-attempt plan the responder followed, the observed outcome, and a schedule of model events built from them.
   Result code: 0 = implementation agrees with the model run and with the declarative oracle; 1 = differs from the model
   only; 2/3 = violates the oracle (the property statement read on the plan: a reply sent well before the deadline is
   delivered, with the ID/attempt correlation; nothing but a timeout after exhausted retries or a cancellation otherwise). *)
From Coq Require Import List NArith Bool.
From LE Require Import Base.Corr P2P.ReqResp Gen.ReqResp.
Import ListNotations.
Local Open Scope N_scope.

(* per attempt: some right-ID reply is sent well before the timeout; an early crafted reply is sent; number of duplicates;
   the normal reply (and its duplicates) are sent well before the timeout *)
Record aplan := mkPlan { p_in_time : bool; p_early : bool; p_dups : N; p_norm_in_time : bool }.

(* observed: class (0 ok, 1 timeout, 2 cancelled, 3 other/hang), attempt number in the delivered payload, payload kind
   (1 normal, 2 early, 3 duplicate, 4 wrong-id, 0 none/unparsable), attempts seen by the responder,
   1 if the payload names this very call (0 otherwise) *)
Definition obs : Type := (N * N * N * N * N)%type.

(* ... plus, per attempt, the number of responses the requester's onResponse ACCEPTED into the attempt's channel (observed
   through the node's logger: decoded - dropped as unknown - dropped as duplicate), and whether these statistics are available *)
Definition c17_case : Type := (list aplan * bool * bool * obs * (bool * list N) * list ev)%type.

(* a response accepted while the attempt was registered is never lost: at most ONE attempt of a call can have an accepted response
   (an accepted response ends the call), the call then ends with a response - the one of that very attempt - or with the caller's
   own cancellation, never with a timeout or another error. The attempts are numbered by the RESPONDER in the order in which their
   requests reached its handler, which under load need not be the order in which the requester sent them: the clause is
   therefore phrased without assuming that the accepted attempt is the last in that numbering. *)
Fixpoint acc_idx (acc : list N) (k : N) : list N :=
  match acc with
  | [] => []
  | a :: rest => (if 1 <=? a then [k] else []) ++ acc_idx rest (k + 1)
  end.
Definition acc_ok (acc : list N) (patt attempts cls : N) : bool :=
  match acc_idx acc 1 with
  | [] => true
  | [k] => ((cls =? 0) && (patt =? k)) || (cls =? 2)
  | _ => false
  end.

Definition payload_code (att kind : N) : N := att * 10 + kind.

(* model side: run the schedule on the repaired configuration; attempt k of the (single) call has ID k *)
Definition model_obs (evs : list ev) (attempts : N) : option (N * N * bool * bool) :=
  match run fixed init evs with
  | Some s =>
      match get (reqs s) attempts, get (reqs s) (attempts + 1) with
      | Some q, None =>
          let cls_pay := match outcome_of (st q) with
                         | OOk r => (0, payload r) | OTimeout => (1, 0) | OCancelled => (2, 0) | OSendErr => (3, 0) | OPending => (4, 0)
                         end in
          Some (fst cls_pay, snd cls_pay,
                match chans s with [] => true | _ => false end,
                match mu s with None => true | Some _ => false end)
      | _, _ => None
      end
  | None => None
  end.

Fixpoint first_in_time (pl : list aplan) (k : N) : option (N * aplan) :=
  match pl with
  | [] => None
  | a :: pl' => if p_in_time a then Some (k, a) else first_in_time pl' (k + 1)
  end.

Definition kind_allowed (a : aplan) (kind : N) : bool :=
  ((kind =? 1) && p_norm_in_time a) || ((kind =? 2) && p_early a) || ((kind =? 3) && p_norm_in_time a && (0 <? p_dups a)).

Definition spec_ok (pl : list aplan) (cancel strict : bool) (o : obs) (stats : bool * list N) : bool :=
  let '(cls, patt, kind, attempts, mine) := o in
  let budget := N.of_nat (length pl) in
  (if fst stats then acc_ok (snd stats) patt attempts cls else true) &&
  if strict then
    if cancel then (cls =? 2) && (attempts =? 1)
    else match first_in_time pl 1 with
         | Some (k, a) => (cls =? 0) && (attempts =? k) && (patt =? k) && (mine =? 1) && kind_allowed a kind
         | None => (cls =? 1) && (attempts =? budget) && (budget =? gen_max_retries + 1)   (* the whole budget, pinned *)
         end
  else
    (* latency around the timeout: either outcome is legal, but the correlation and the budget are not negotiable *)
    ((cls =? 0) && (1 <=? patt) && (patt <=? attempts) && (mine =? 1) && ((kind =? 1) || (kind =? 2) || (kind =? 3)) && (1 <=? attempts) && (attempts <=? budget))
    || ((cls =? 1) && (attempts =? budget))
    || (cancel && (cls =? 2) && (1 <=? attempts) && (attempts <=? budget)).

Definition check_call (c : c17_case) : N :=
  let '(pl, cancel, strict, o, stats, evs) := c in
  let '(cls, patt, kind, attempts, mine) := o in
  let agree_model :=
    match model_obs evs attempts with
    | Some (mcls, mpay, mempty, mfree) =>
        (mcls =? cls) && (if cls =? 0 then mpay =? payload_code patt kind else true) && mempty && mfree
    | None => false
    end in
  code agree_model (spec_ok pl cancel strict o stats).

(* ---- shutdown scenarios (Connection.Stop with requests in flight; the replies would come after the stop).
   class per call: 0 response, 1 non-nil error, 2 neither a response nor an error, 3 panic, 4 hang; Stop() hung; len(resCh) after
   (negative = resMu not acquirable). *)
Definition shut_case : Type := (list N * bool * bool * N)%type.   (* classes, stop hung, table blocked, pending entries *)

(* model: the stop is an environment in which no response arrives any more and sends start to fail: every attempt in flight ends
   with its timeout, the retry with a send error (or, if sends still succeed, the budget is exhausted): an error either way *)
Definition shutdown_model_outcomes : list outcome :=
  let run1 evs id := match run fixed init evs with
                     | Some s => match get (reqs s) id with Some q => outcome_of (st q) | None => OPending end
                     | None => OPending end in
  [run1 [NewCall 1; Register 1; Send 1; Fire 1; SelTimeout 1; Dereg 1; Retry 1 2; Register 2; SendFail 2] 2;
   run1 [NewCall 1; Register 1; Send 1; Fire 1; SelTimeout 1; Dereg 1; Retry 1 2; Register 2; Send 2; Fire 2; SelTimeout 2; Dereg 2;
         Retry 2 3; Register 3; Send 3; Fire 3; SelTimeout 3; Dereg 3; Retry 3 4; Register 4; Send 4; Fire 4; SelTimeout 4; Dereg 4] 4].
Definition outcome_is_error (o : outcome) : bool := match o with OTimeout | OSendErr => true | _ => false end.

Definition check_shutdown (c : shut_case) : N :=
  let '(classes, stop_hung, blocked, pending) := c in
  let agree_model := forallb outcome_is_error shutdown_model_outcomes && forallb (N.eqb 1) classes && negb stop_hung &&
                     negb blocked && (pending =? 0) in
  (* oracle: every request ends with a response or an error - never neither -, nothing panics, hangs or leaks *)
  let spec := forallb (fun x => (x =? 0) || (x =? 1)) classes && negb stop_hung && negb blocked && (pending =? 0) in
  code agree_model spec.
