(* Correspondence evaluators for C15.  Result code per case (Base.Corr.code): 0 = the implementation agrees with
   the model and satisfies the declarative oracle; 1 = differs from the model only; >= 2 = violates the oracle. *)
From Coq Require Import List NArith Bool.
From LE Require Import Base.Corr BFT.Contradiction Forge.Select Forge.GenInfo.
Import ListNotations.
Local Open Scope N_scope.

(* ---------------------------------------------------------------- selection *)
(* pool, size limit, scripted verdict per transaction code (0 verify fails, 1 execute fails, 2 good),
   codes of the transactions submitted to VerifyTransaction in order, codes of the returned transactions,
   panic flag *)
Definition sel_case : Type := list tx * N * list (N * N) * list N * list N * bool.

Fixpoint lookup (k : N) (l : list (N * N)) : N :=
  match l with [] => 2 | (a, v) :: r => if a =? k then v else lookup k r end.

(* scripted verdict of a transaction given the transactions executed (selected) before it: codes 0 verify fails,
   1 execute fails, 2 good, 3 good iff an EVEN number of transactions were executed before (else verification fails),
   4 good iff an ODD number were (else execution fails): outcomes that depend on the state reached so far *)
Definition verdict_of (script : list (N * N)) (acc : list tx) (t : tx) : verdict :=
  match lookup (tid t) script with
  | 0 => VerifyFails
  | 1 => ExecuteFails
  | 3 => if Nat.even (length acc) then Good else VerifyFails
  | 4 => if Nat.odd (length acc) then Good else ExecuteFails
  | _ => Good
  end.

Fixpoint find_tx (pool : list tx) (c : N) : option tx :=
  match pool with [] => None | t :: r => if tid t =? c then Some t else find_tx r c end.

Fixpoint resolve (pool : list tx) (cs : list N) : option (list tx) :=
  match cs with
  | [] => Some []
  | c :: r => match find_tx pool c, resolve pool r with Some t, Some l => Some (t :: l) | _, _ => None end
  end.

Fixpoint splits_forall {A : Type} (f : list A -> A -> list A -> bool) (pre rest : list A) : bool :=
  match rest with
  | [] => true
  | t :: r => f pre t r && splits_forall f (pre ++ [t]) r
  end.

Definition is_good (v : verdict) : bool := match v with Good => true | _ => false end.

Fixpoint senders_of (l : list tx) (seen : list N) : list N :=
  match l with
  | [] => seen
  | t :: r => if existsb (N.eqb (sender t)) seen then senders_of r seen else senders_of r (seen ++ [sender t])
  end.

Fixpoint prefix_eqb (a b : list tx) : bool :=   (* a is a prefix of b *)
  match a, b with
  | [], _ => true
  | x :: s, y :: t => tx_eqb x y && prefix_eqb s t
  | _, _ => false
  end.

(* every tried transaction with its outcome, the outcome judged after the successful ones before it *)
Fixpoint tagged (oc : list tx -> tx -> verdict) (acc trace : list tx) : list (tx * bool) :=
  match trace with
  | [] => []
  | t :: r => if is_good (oc acc t) then (t, true) :: tagged oc (acc ++ [t]) r else (t, false) :: tagged oc acc r
  end.

(* the property text, clause by clause *)
Definition sel_spec_b (pool : list tx) (limit : N) (script : list (N * N)) (trace out : list tx) : bool :=
  let oc := verdict_of script in
  let tg := tagged oc [] trace in
  let ss := senders_of pool [] in
  let of_s (s : N) (l : list (tx * bool)) := filter (fun p => sender (fst p) =? s) l in
  (* the result is the successful part of what was tried, in order *)
  txs_eqb out (map fst (filter snd tg)) &&
  (* per sender: taken from the lowest nonce upwards, without gaps *)
  forallb (fun s => prefix_eqb (of_sender s trace) (sender_queue pool s)) ss &&
  (* payload size limit *)
  (sum_size out <=? limit) &&
  (* each tried transaction has maximal fee priority among the next transactions of all senders not dropped *)
  splits_forall (fun pre p _ =>
      forallb (fun s =>
          if forallb snd (of_s s pre)
          then match nth_error (sender_queue pool s) (length (of_s s pre)) with
               | Some u => prio u <=? prio (fst p)
               | None => true
               end
          else true) ss) [] tg &&
  (* a sender is dropped after its first failing transaction *)
  splits_forall (fun _ p post => snd p || negb (existsb (fun q => sender (fst q) =? sender (fst p)) post)) [] tg.

Definition check_sel (c : sel_case) : N :=
  let '(pool, limit, script, trace_c, out_c, pan) := c in
  match resolve pool trace_c, resolve pool out_c with
  | Some trace, Some out =>
      code (negb pan && valid_selection limit (verdict_of script) pool trace out)
           (negb pan && sel_spec_b pool limit script trace out)
  | _, _ => 3
  end.

(* ---------------------------------------------------------------- generator info *)
Inductive gev :=
| GForge (who : N) (lost : bool) (forged : bool) (hdr : bh) (at_handoff stored : option geninfo)
| GForgeAbort (who : N) (forged : bool) (stored : option geninfo)   (* the tick dies before the persist *)
| GPowerLoss (stored : list (N * option geninfo))   (* power loss + reopen: the records of the keys afterwards *)
| GTip (t : tip) | GSync (b : bool) | GRestart.

Definition bh_eqb (a b : bh) : bool :=
  (height a =? height b) && (gen a =? gen b) && (mhg a =? mhg b) && (mhp a =? mhp b).
Definition gi_eqb (a b : geninfo) : bool :=
  (gi_height a =? gi_height b) && (gi_mhp a =? gi_mhp b) && (gi_mhg a =? gi_mhg b).
Definition ogi_eqb (a b : option geninfo) : bool :=
  match a, b with Some x, Some y => gi_eqb x y | None, None => true | _, _ => false end.

(* state of the walk: model state (one record per generator address), headers the implementation handed on (newest
   first, all generators), agreement, oracle *)
Fixpoint walk (m : mst) (pubs : list bh) (agree spec : bool) (evs : list gev) : bool * bool :=
  match evs with
  | [] => (agree, spec)
  | e :: r =>
      match e with
      | GForge who lost forged hdr ath stored =>
          let m' := mstep init_header m (MForge who (if lost then CrashAfterPersist else NoCrash)) in
          let expected := if msyncing m then None else init_header (mdisk m who) (mnode m) who in
          let a := match expected with
                   | Some (h, info) => forged && bh_eqb hdr h && ogi_eqb ath (Some info) && ogi_eqb stored (Some info)
                   | None => negb forged && ogi_eqb stored (mdisk m who)
                   end in
          let mine := signed_by who pubs in
          let sp := negb forged ||
                    ((* signed by the generator of the slot *)
                     (gen hdr =? who) &&
                     (* maxHeightGenerated reports the largest height THIS generator generated before *)
                     (max_height mine <=? mhg hdr) &&
                     (* what is on disk for this generator at hand-off time is the info of this very header *)
                     ogi_eqb ath (Some (Build_geninfo (height hdr) (mhp hdr) (mhg hdr))) &&
                     (* the header contradicts none of the earlier ones (of any generator of the node) *)
                     (lost || forallb (fun p => negb (contradicting p hdr) && negb (contradicting hdr p)) pubs)) in
          walk m' (if forged && negb lost then hdr :: pubs else pubs) (agree && a) (spec && sp) r
      | GForgeAbort who forged stored =>
          walk (mstep init_header m (MForge who CrashBeforePersist)) pubs
               (agree && negb forged && ogi_eqb stored (mdisk m who)) (spec && negb forged) r
      | GPowerLoss stored =>
          (* what was persisted before a hand-off (or before the crash) is durable: the records are those of the model *)
          let ok := forallb (fun kv => ogi_eqb (snd kv) (mdisk m (fst kv))) stored in
          walk (mstep init_header m MRestart) pubs (agree && ok) (spec && ok) r
      | GTip t => walk (mstep init_header m (MTip t)) pubs agree spec r
      | GSync b => walk (mstep init_header m (MSync b)) pubs agree spec r
      | GRestart => walk (mstep init_header m MRestart) pubs agree spec r
      end
  end.

Definition gen_case : Type := tip * list gev.

Definition check_gen (c : gen_case) : N :=
  let '(t0, evs) := c in
  let '(a, sp) := walk (minit t0) [] true true evs in
  code a sp.

(* misbehaving environment on the real node: (first forged, second forged, the two headers contradict) *)
Definition check_dbl (c : bool * bool * bool) : N :=
  let '(f1, f2, contra) := c in
  code (f1 && negb f2) (f1 && negb (f2 && contra)).

(* ---------------------------------------------------------------- generated block accepted by the own node *)
(* (forged, accepted without error, tip is the generated block afterwards, panic, payload size, size limit,
   number of transactions in the block that were scripted to fail verification or to execute as invalid,
   every sealed field equals the value the harness recomputed independently (state root of the application, transaction /
   asset / event roots, validatorsHash, previous ID, generator of the slot, timestamp slot, aggregation bits length, pooled
   aggregate commit used), tip height and node maxHeightPrevoted before forging, the generator's persisted info before,
   (height, maxHeightPrevoted, maxHeightGenerated) of the generated header) *)
Definition check_accept (c : bool * bool * bool * bool * N * N * N * bool * N * N * option geninfo * (N * N * N)) : N :=
  let '(forged, accepted, tip_is_block, pan, payload, limit, bad_in, fields_ok, tiph, nodemhp, disk0, hdr) := c in
  let '(hh, hmhp, hmhg) := hdr in
  (* the BFT fields of the header are those initBlockHeader (Forge.GenInfo) yields from the persisted info and the tip *)
  let hdr_ok := match init_header disk0 {| t_smhp := nodemhp; t_height := tiph |} 0 with
                | Some (h, _) => (height h =? hh) && (mhp h =? hmhp) && (mhg h =? hmhg)
                | None => false
                end in
  let ok := forged && accepted && tip_is_block && negb pan && (payload <=? limit) && (bad_in =? 0) && fields_ok in
  code (ok && hdr_ok) ok.
