(* C18 — peer penalties, bans, expiry, rate limits: property theorems only (statements full, proofs [exact lemma]).
   Gater states are reached by ANY sequence of events (penalties of any amount on any IP key at any time, sweeps, blacklist
   changes); IPs (v4/v6) are opaque keys; time and sweeps are explicit. *)
From Coq Require Import List ZArith NArith Bool.
From LE Require Import P2P.Gater P2P.GaterProofs P2P.RateLimit P2P.RateLimitProofs P2P.PenaltySites Gen.Penalties.
Import ListNotations.
Local Open Scope Z_scope.

(* penalties accumulate per IP: without an intervening sweep the score is the old score plus the sum of the penalties on
   that IP, whatever else happens to other IPs or the blacklist *)
Theorem C18_penalties_accumulate : forall es g ip, no_sweep es -> score_of (grun g es) ip = score_of g ip + pen_sum ip es.
Proof. exact penalties_accumulate. Qed.

(* ban <-> threshold: after any event sequence with non-negative penalties (sweeps included), an IP is banned iff its
   accumulated score is at least MaxPenaltyScore *)
Theorem C18_ban_iff_threshold : forall es e, 0 <= e -> nonneg es -> timed es ->
  forall ip, banned (grun (empty_gater e) es) ip = true <-> max_penalty <= score_of (grun (empty_gater e) es) ip.
Proof. intros es e E NN TM. exact (ban_iff_threshold es (empty_gater e) E (consistent_empty e) NN TM). Qed.

(* for arbitrary (also negative) amounts: reaching the threshold bans until now + expiry, and nothing else creates a ban *)
Theorem C18_threshold_bans : forall g ip amt now, max_penalty <= score_of g ip + amt -> now + exp_secs g <> -1 ->
  banned (fst (add_penalty g ip amt now)) ip = true /\ expiry_of (fst (add_penalty g ip amt now)) ip = now + exp_secs g.
Proof. exact threshold_bans. Qed.

Theorem C18_ban_only_via_threshold : forall g e ip, banned g ip = false -> banned (gstep g e) ip = true ->
  exists amt now, e = EPenalty ip amt now /\ max_penalty <= score_of g ip + amt.
Proof. exact ban_only_via_threshold. Qed.

(* a banned or blacklisted IP is refused by every gate on both the outbound and the inbound path, and only such IPs are *)
Theorem C18_banned_or_blacklisted_refused_everywhere : forall g ip,
  (banned g ip || blk g ip = true) <->
  (intercept_addr_dial g (Some ip) = false /\ intercept_accept g (Some ip) = false /\
   intercept_secured g Inbound (Some ip) = false /\ outbound_ok g (Some ip) = false /\ inbound_ok g (Some ip) = false).
Proof. exact refused_everywhere. Qed.

Theorem C18_others_accepted : forall g ip,
  (banned g ip = false /\ blk g ip = false) <-> (outbound_ok g (Some ip) = true /\ inbound_ok g (Some ip) = true).
Proof. exact accepted_everywhere. Qed.

(* ... until the ban expires: no event sequence whose sweeps are not later than T ends a ban running until T *)
Theorem C18_ban_persists_until_expiry : forall es g ip T, 0 <= T -> banned_until g ip T ->
  Forall (respects ip T g) es -> banned_until (grun g es) ip T.
Proof. exact ban_persists. Qed.

Theorem C18_banned_until_is_banned : forall g ip T, banned_until g ip T -> banned g ip = true.
Proof. exact banned_until_banned. Qed.

(* after expiry the next sweep removes the entry: accepted again in both directions (unless blacklisted) with a clean score *)
Theorem C18_accepted_again_clean_after_expiry_sweep : forall g ip now, banned g ip = true -> expiry_of g ip < now ->
  let g' := sweep g now in
  sc g' ip = None /\ score_of g' ip = 0 /\ banned g' ip = false /\
  outbound_ok g' (Some ip) = negb (blk g ip) /\ inbound_ok g' (Some ip) = negb (blk g ip) /\
  (forall amt t, snd (add_penalty g' ip amt t) = amt).
Proof. exact accepted_again_clean. Qed.

(* the whole life of a ban over time, composed: reaching the threshold at time t bans; refused on both paths while the sweeps come
   no later than t + exp, whatever else happens; not penalised again and a sweep after t + exp => entry gone, clean score *)
Theorem C18_ban_lifecycle : forall g ip amt t es1 es2,
  0 <= t -> 0 <= exp_secs g -> max_penalty <= score_of g ip + amt ->
  let g1 := fst (add_penalty g ip amt t) in
  let T := t + exp_secs g in
  (Forall (respects ip T g1) es1 ->
     banned (grun g1 es1) ip = true /\ inbound_ok (grun g1 es1) (Some ip) = false /\ outbound_ok (grun g1 es1) (Some ip) = false) /\
  (no_pen ip es2 -> (exists now, In (ESweep now) es2 /\ T < now) ->
     sc (grun g1 es2) ip = None /\ score_of (grun g1 es2) ip = 0 /\ banned (grun g1 es2) ip = false).
Proof. exact ban_lifecycle. Qed.

(* ... and over ONE run es1 ++ es2: es1 = anything that respects the ban (further penalties on the IP included: they renew it),
   es2 = the IP is not penalised and some sweep comes after the expiry the ban has after es1: at the end the IP is accepted on both
   paths iff it is not blacklisted *)
Theorem C18_ban_lifecycle_one_run : forall g ip amt t es1 es2,
  0 <= t -> 0 <= exp_secs g -> max_penalty <= score_of g ip + amt ->
  let g1 := fst (add_penalty g ip amt t) in
  Forall (respects ip (t + exp_secs g) g1) es1 ->
  no_pen ip es2 -> (exists now, In (ESweep now) es2 /\ expiry_of (grun g1 es1) ip < now) ->
  let gf := grun g1 (es1 ++ es2) in
  banned (grun g1 es1) ip = true /\ sc gf ip = None /\
  inbound_ok gf (Some ip) = negb (blk gf ip) /\ outbound_ok gf (Some ip) = negb (blk gf ip).
Proof. exact ban_lifecycle_one_run. Qed.

(* a permanently blacklisted IP stays refused on both paths through every event sequence that does not unblock it *)
Theorem C18_blacklisted_refused_forever : forall es g ip, ~ In (EUnblock ip) es -> blk g ip = true ->
  inbound_ok (grun g es) (Some ip) = false /\ outbound_ok (grun g es) (Some ip) = false.
Proof. exact blacklisted_refused_forever. Qed.

Example C18_timed_schedule_runs :
  let g n := grun (empty_gater 5) (firstn n timed_schedule) in
  (banned (g 2%nat) 9%N, banned (g 7%nat) 9%N, inbound_ok (g 7%nat) (Some 9%N), sc (g 8%nat) 9%N, inbound_ok (g 8%nat) (Some 9%N),
   score_of (g 8%nat) 8%N, inbound_ok (g 8%nat) (Some 7%N)) = (true, true, false, None, true, 30, false).
Proof. exact timed_schedule_runs. Qed.

Theorem C18_sweep_keeps_unexpired : forall g ip now,
  (banned g ip = false \/ now <= expiry_of g ip) -> sc (sweep g now) ip = sc g ip.
Proof. exact sweep_keeps. Qed.

(* the peer whose penalty reaches the threshold is disconnected, and cannot come back while refused *)
Theorem C18_threshold_disconnects : forall n ip pid amt now,
  max_penalty <= score_of (gt n) ip + amt -> now + exp_secs (gt n) <> -1 ->
  let n' := peer_add_penalty n (ip, Some pid) amt now in
  banned (gt n') ip = true /\ connected n' pid = false.
Proof. exact threshold_disconnects. Qed.

(* a peer connected from several IPs at once: BanPeer bans EVERY IP it was connected from (each refused on both paths) and
   disconnects it - the loop over the connection snapshot keeps going after the first Disconnect *)
Theorem C18_ban_peer_all_ips : forall n pid now,
  nonneg_scores (gt n) -> 0 <= now -> 0 <= exp_secs (gt n) -> connected n pid = true ->
  let n' := ban_peer_id n pid now in
  (forall ip, In (pid, ip) (conns n) -> banned (gt n') ip = true /\ inbound_ok (gt n') (Some ip) = false /\
                                        outbound_ok (gt n') (Some ip) = false) /\
  connected n' pid = false.
Proof. exact ban_peer_all_ips. Qed.

Theorem C18_no_connection_while_refused : forall n pid ip, banned (gt n) ip || blk (gt n) ip = true ->
  connect_in n pid ip = n /\ connect_out n pid ip = n.
Proof. exact no_connection_while_refused. Qed.

(* malformed envelope / unknown procedure (request or response): ban and disconnect *)
Theorem C18_malformed_leads_to_penalty : forall known m pid ip cls now,
  (cls = Malformed \/ cls = UnknownProcedure \/ exists proc, cls = WellFormed proc /\ known proc = false) ->
  0 <= score_of (gt (nd m)) ip -> now + exp_secs (gt (nd m)) <> -1 ->
  let m' := on_message true known m pid ip cls now in
  banned (gt (nd m')) ip = true /\ connected (nd m') pid = false /\
  score_of (gt (nd m')) ip = score_of (gt (nd m)) ip + max_penalty.
Proof. exact malformed_leads_to_penalty. Qed.

(* rate above the limit: the message following [limit] messages of one procedure and peer in one interval is penalised *)
Theorem C18_excess_leads_to_penalty : forall lim pen pre proc peer,
  legal lim pre -> since_reset proc peer (List.rev pre) = lim proc ->
  snd (rrun (new_limiter lim pen) (pre ++ [RMsg proc peer])) = [(proc, peer, pen proc)].
Proof. exact excess_leads_to_penalty. Qed.

(* ... per peer AND per procedure under arbitrarily interleaved traffic: the penalties of a (procedure, peer) pair in ANY trace
   (other peers and procedures sending, tripping the limiter, being penalised in between) are exactly the penalties of that
   pair's own messages and the resets; and n messages of one pair without a reset in between, starting from a counter c0 within
   the limit, yield exactly (c0 + n) / (limit + 1) penalties of that procedure's amount *)
Theorem C18_excess_penalised_per_peer_and_procedure : forall es proc peer r r',
  cnt r proc peer = cnt r' proc peer -> limit r = limit r' -> penalty r = penalty r' ->
  filter (pen_of proc peer) (snd (rrun r es)) = snd (rrun r' (project proc peer es)).
Proof. exact pairwise_independent. Qed.

Theorem C18_single_pair_penalty_count : forall n r proc peer, 0 <= cnt r proc peer <= limit r proc ->
  let '(r', ps) := rrun r (repeat (RMsg proc peer) n) in
  exists c, cnt r' proc peer = c /\ 0 <= c <= limit r proc /\
            cnt r proc peer + Z.of_nat n = Z.of_nat (length ps) * (limit r proc + 1) + c /\
            Forall (fun x => x = (proc, peer, penalty r proc)) ps.
Proof. exact single_pair_count. Qed.

Theorem C18_rate_excess_penalty_applied : forall ahp known m pid ip proc now, known proc = true ->
  limit (rl m) proc < cnt (rl m) proc pid + 1 ->
  score_of (gt (nd (on_message ahp known m pid ip (WellFormed proc) now))) ip = score_of (gt (nd m)) ip + penalty (rl m) proc.
Proof. exact rate_excess_leads_to_penalty. Qed.

(* well-formed traffic within the limits is never penalised: no penalty is emitted by the limiter over any legal trace,
   and a legal message changes neither scores, bans nor connections *)
Theorem C18_legal_traffic_never_penalised : forall lim pen es, legal lim es -> snd (rrun (new_limiter lim pen) es) = [].
Proof. exact legal_traffic_never_penalised. Qed.

(* ... also at the granularity of the code: increaseCounter and checkLimit are two critical sections; for EVERY interleaving of
   the increments and checks of concurrent messages (checks late, reordered, doubled or missing) legal traffic is never penalised *)
Theorem C18_legal_traffic_never_penalised_interleaved : forall lim pen es,
  ilegal lim es -> snd (irun (new_limiter lim pen) es) = [].
Proof. exact legal_traffic_never_penalised_interleaved. Qed.

Theorem C18_on_msg_is_inc_then_check : forall r proc peer,
  snd (on_msg r proc peer) = snd (check (inc r proc peer) proc peer) /\
  forall p q, cnt (fst (on_msg r proc peer)) p q = cnt (fst (check (inc r proc peer) proc peer)) p q.
Proof. intros. split. apply on_msg_penalty_split. intros. apply on_msg_cnt_split. Qed.

Theorem C18_legal_message_changes_nothing : forall ahp known m pid ip proc now, known proc = true ->
  cnt (rl m) proc pid + 1 <= limit (rl m) proc -> nd (on_message ahp known m pid ip (WellFormed proc) now) = nd m.
Proof. exact legal_message_no_penalty. Qed.

(* the penalty call sites of the whole code base (regenerated from the sources) are exactly the catalogued ones: 2 malformed
   envelope, 2 unknown procedure, 7 invalid sync request, 6 invalid sync response + 1 sync peer not ahead, 2 rate above the limit (request and response
   path), and the 4 forwarding
   calls modelled in Gater.v; every deciding site is guarded; nobody else declares such a function *)
Theorem C18_penalty_sites_catalogue :
  gen_penalty_sites = map fst expected_sites /\ gen_penalty_decls = expected_decls /\ sites_well_guarded = true /\
  (count_class MalformedEnvelope, count_class UnknownProc, count_class InvalidSyncRequest, count_class InvalidSyncResponse,
   count_class RateAboveLimit, count_class Plumbing, count_class SyncPeerNotAhead) = (2, 2, 7, 6, 2, 4, 1)%nat.
Proof. vm_compute. repeat split; reflexivity. Qed.

(* ---- the code before the fix commit: banPeer got an address without /p2p/<peerID>; the ban was recorded, the Disconnect skipped *)
Theorem C18_malformed_disconnect_refuted :
  let n' := on_bad_message false node0 5%N 9%N 1000 in
  banned (gt n') 9%N = true /\ connected n' 5%N = true.
Proof. exact bad_message_orig_keeps_connection. Qed.

Example C18_malformed_disconnect_fixed :
  let n' := on_bad_message true node0 5%N 9%N 1000 in
  banned (gt n') 9%N = true /\ connected n' 5%N = false.
Proof. exact bad_message_fixed_example. Qed.
