(* C02 — property theorems only.  Model: BFT/Votes.v (faithful to pkg/consensus/liskbft); proofs: BFT/VotesProofs.v.
   Heights are unbounded N: the statements are about chains whose heights stay below 2^32-1 (Go computes h+1 on uint32). *)
From Coq Require Import List NArith Bool.
From LE Require Import BFT.Contradiction BFT.Votes BFT.VotesProofs.
Import ListNotations.
Local Open Scope N_scope.

(* Two nodes that processed the same header chain hold the same BFT view (heights, weights, parameters): the view is a
   function of the header sequence alone.  (Definitional for a Gallina function; the content is that the Go module computes
   this function — the correspondence check.) *)
Theorem C02_same_chain_same_view : forall batch gh c K s0 s0' s s',
  init_store batch gh c = Ok s0 -> init_store batch gh c = Ok s0' ->
  run_blocks batch s0 K = Ok s -> run_blocks batch s0' K = Ok s' -> s = s'.
Proof. intros; congruence. Qed.

(* Counting rule (LIP-0058): a block whose generator is active and whose maxHeightGenerated is below its height adds its
   generator's weight (weight in force at the target height) as a precommit to every window entry at or above
   max(minActiveHeight, heightNotPrevoted+1, largestHeightPrecommit+1) that already has a prevote quorum, and then as a
   prevote to every window entry at or above max(maxHeightGenerated+1, minActiveHeight); nothing else changes. *)
Theorem C02_vote_counting_rule : forall batch s b s1 tip, (0 < batch)%nat ->
  Inv tip s -> h_height b = tip + 1 -> v_mhp (s_votes s) <= tip -> v_mhpc (s_votes s) <= tip ->
  before_txs batch s b = Ok s1 ->
  votes_rule (s_params s) (insert_info (window s) b (3 * batch)) (v_act (s_votes s)) (window s1).
Proof. intros batch s b s1 tip Hb HI Hh Hp Hpc H. exact (proj1 (proj2 (proj2 (proj2 (before_txs_step batch s b s1 tip Hb HI Hh Hp Hpc H))))). Qed.

(* maxHeightPrevoted / maxHeightPrecommitted = the largest windowed height whose entry reaches the threshold in force at
   that height; unchanged if there is none *)
Theorem C02_heights_are_max_quorum : forall batch s b s1 tip, (0 < batch)%nat -> Inv tip s -> h_height b = tip + 1 ->
  before_txs batch s b = Ok s1 ->
  ((exists bi, In bi (window s1) /\ i_height bi = v_mhp (s_votes s1) /\ meets (s_params s) p_pv i_pv bi) /\
   (forall x, In x (window s1) -> meets (s_params s) p_pv i_pv x -> i_height x <= v_mhp (s_votes s1))
   \/ (v_mhp (s_votes s1) = v_mhp (s_votes s) /\ forall x, In x (window s1) -> ~ meets (s_params s) p_pv i_pv x)) /\
  ((exists bi, In bi (window s1) /\ i_height bi = v_mhpc (s_votes s1) /\ meets (s_params s) p_pc i_pc bi) /\
   (forall x, In x (window s1) -> meets (s_params s) p_pc i_pc x -> i_height x <= v_mhpc (s_votes s1))
   \/ (v_mhpc (s_votes s1) = v_mhpc (s_votes s) /\ forall x, In x (window s1) -> ~ meets (s_params s) p_pc i_pc x)).
Proof. exact heights_are_max_quorum. Qed.

(* For every chain (any length relative to the window, any parameter-change schedule): the prevoted and precommitted
   heights never decrease. *)
Theorem C02_heights_monotone : forall batch gh c K1 K2 s0 s1 s2, (0 < batch)%nat ->
  init_store batch gh c = Ok s0 -> consecutive gh (K1 ++ K2) ->
  run_blocks batch s0 K1 = Ok s1 -> run_blocks batch s1 K2 = Ok s2 ->
  v_mhp (s_votes s1) <= v_mhp (s_votes s2) /\ v_mhpc (s_votes s1) <= v_mhpc (s_votes s2) /\
  gh <= v_mhp (s_votes s1) /\ gh <= v_mhpc (s_votes s1).
Proof.
  intros batch gh c K1 K2 s0 s1 s2 Hb Hi Hc H1 H2.
  destruct (consecutive_app _ _ _ Hc) as [Hc1 Hc2].
  pose proof (init_good _ _ _ _ Hi) as Hg0.
  destruct (heights_monotone batch K1 s0 s1 gh Hb Hg0 Hc1 H1) as (Hg1 & Ha & Hb1).
  destruct (heights_monotone batch K2 s1 s2 _ Hb Hg1 Hc2 H2) as (_ & Hm & Hmc).
  assert (E : v_mhp (s_votes s0) = gh /\ v_mhpc (s_votes s0) = gh).
  { unfold init_store in Hi. destruct (set_params_step _ _ _ _ _ _ _ (genesis_inv gh) Hi) as (_ & _ & E1 & E2 & _). rewrite E1, E2. split; reflexivity. }
  destruct E as [E1 E2]. rewrite E1 in Ha. rewrite E2 in Hb1. auto.
Qed.

(* Parameters (thresholds, weights) of a height that is still inside the vote window never change: pruning keeps every
   entry that a later lookup needs and SetBFTParameters only adds an entry for tip+1. *)
Theorem C02_params_stable_in_window : forall batch s x s1 tip, (0 < batch)%nat -> good tip s -> h_height (fst x) = tip + 1 ->
  apply_block batch s x = Ok s1 ->
  forall h, oldest_height (window s1) <= h <= tip + 1 -> get_params (s_params s1) h = get_params (s_params s) h.
Proof. exact params_stable_in_window. Qed.

(* The vote window always consists of the (at most 3*batch) most recent headers of the chain, newest first. *)
Theorem C02_window_is_recent_headers : forall batch gh c K s0 s, (0 < batch)%nat ->
  init_store batch gh c = Ok s0 -> consecutive gh K -> run_blocks batch s0 K = Ok s ->
  map static (window s) = firstn (3 * batch) (rev (map (fun x => static_hdr (fst x)) K)).
Proof.
  intros batch gh c K s0 s Hb Hi Hc H.
  pose proof (init_vgood _ _ _ _ Hi) as (Hg & _).
  assert (Hw : map static (window s0) = firstn (3 * batch) []).
  { unfold init_store in Hi. destruct (set_params_step _ _ _ _ _ _ _ (genesis_inv gh) Hi) as (_ & Ew & _). rewrite Ew. rewrite firstn_nil. reflexivity. }
  rewrite (window_is_recent_headers batch K s0 s gh [] Hb Hg Hc Hw H). rewrite app_nil_r. reflexivity.
Qed.

(* Fault-free round-robin runs, for EVERY number n >= 1 of unit-weight validators (thresholds floor(2n/3)+1, batch = n) and
   every chain length: every header carries the node's own maxHeightPrevoted and maxHeightGenerated = the generator's previous
   height (h - n, 0 for h <= n); [rr_run n fuel] (BFT/RoundRobin.v) applies [fuel] such blocks and checks after each block h that
   the block is accepted by both BFT rules, maxHeightPrevoted = h-(thr-1) (0 before) and maxHeightPrecommitted = h-(2*thr-1)
   (0 before): block j is prevoted once block j+thr-1 is applied and final once block j+2*thr-1 is applied — "within two voting
   quorums of blocks" (a precommit needs the prevote quorum to be visible first). Proof: closed-form window invariant
   (prevote weight of entry e = min(h+1-e, n), precommit weight = min(h+1-e-thr, n)). Also non-vacuity for the theorems above. *)
From LE Require Import BFT.RoundRobin.
Theorem C02_round_robin_finality : forall n fuel, 1 <= n -> rr_run n fuel = true.
Proof. exact RoundRobin.C02_round_robin_finality. Qed.
Example C02_round_robin_example : rr_run 4 40 = true /\ rr_run 7 30 = true.
Proof. split; vm_compute; reflexivity. Qed.

(* ------------------------------------------------------------------ generator keys (SetGeneratorKeys / GetGeneratorKeys /
   deleteGeneratorKeys / Generators.AtTimestamp) and convert.go *)
From LE Require Import BFT.GenKeys BFT.GenKeysProofs.

(* pruning (same bound as for the BFT parameters) never changes the generator list of a height at or above the bound *)
Theorem C02_generator_keys_prune_stable : forall (ks : @kstore generators) m h, ksorted ks -> m <= h ->
  klookup (kprune ks m) h None = klookup ks h None.
Proof. exact kprune_lookup. Qed.

(* keys set for height k (= tip+1) are what every lookup at h >= k returns until the next set, and do not affect lower heights *)
Theorem C02_generator_keys_set_visible : forall (ks : @kstore generators) k g h, k <= h -> ksorted ks ->
  (forall k' g', In (k', g') ks -> k' <= k) -> klookup (kinsert ks k g) h None = Some g.
Proof. exact kinsert_lookup_at. Qed.
Theorem C02_generator_keys_set_no_effect_below : forall (ks : @kstore generators) k g h best, h < k ->
  klookup (kinsert ks k g) h best = klookup ks h best.
Proof. exact kinsert_lookup_below. Qed.

(* the generator assigned to a slot is always one of the configured generators, and exists whenever the list is non-empty *)
Theorem C02_slot_generator_is_configured : forall gens slot,
  (forall g, generator_at gens slot = Some g -> In g gens) /\ (gens <> [] -> exists g, generator_at gens slot = Some g).
Proof. intros. split; [apply generator_at_in|apply generator_at_total]. Qed.

(* convert.go: splitting the application's validator list into BFT validators (positive weight) and generators (all) and
   converting back is lossless when addresses are distinct and zero-weight entries carry the empty BLS key *)
Theorem C02_convert_roundtrip : forall (l : list labi_validator) e,
  NoDup (map (fun v => let '(a, _, _, _) := v in a) l) ->
  (forall a g w b, In (a, g, w, b) l -> w = 0 -> b = e) ->
  labi_of (bft_validators_of l) (generators_of l) e = l.
Proof. exact convert_roundtrip. Qed.

(* ------------------------------------------------------------------ declarative (sum) form of the vote weights *)
From LE Require Import BFT.VotesGhost BFT.VotesGhostDyn.

(* For every valid chain K (blocks may carry parameter changes; [viewD] = the view after K, see C01_valid_chain_spec /
   validD_spec for its spelled-out form) and every windowed entry e: the prevote weight of e is the sum — with the weights
   in force at e's height — over a duplicate-free list of generators, each of which has a block X on K with
   maxHeightGenerated X < height e <= height X; the precommit weight likewise over generators with a precommitting block P
   (height e <= maxHeightPrevoted P, e had a prevote quorum in P's parent view, P's own previous blocks linked through
   maxHeightGenerated down to below e). No weight is ever counted twice or without a justifying header of the chain. *)
Theorem C02_prevote_weight_is_sum : forall batch, (0 < batch)%nat -> forall gh c s0, init_store batch gh c = Ok s0 ->
  forall K s, viewD batch gh s0 K = Some s ->
  forall e p, In e (window s) -> get_params (s_params s) (i_height e) = Ok p ->
  exists L : list chain, i_pv e = wsum (p_vals p) (map genC L) /\ NoDup (map genC L) /\
    forall X, In X L -> prefix X K /\ X <> [] /\ mhgC X < i_height e <= tipof gh X.
Proof. intros batch Hb gh c s0 Hi K s Hv. exact (di_pv batch gh s0 K s (dinv_view batch Hb gh c s0 Hi K s Hv)). Qed.

Theorem C02_precommit_weight_is_sum : forall batch, (0 < batch)%nat -> forall gh c s0, init_store batch gh c = Ok s0 ->
  forall K s, viewD batch gh s0 K = Some s ->
  forall e p, In e (window s) -> get_params (s_params s) (i_height e) = Ok p ->
  exists L : list chain, i_pc e = wsum (p_vals p) (map genC L) /\ NoDup (map genC L) /\
    forall P, In P L -> prefix P K /\ pc_evD batch gh s0 (i_height e) P /\ noprec (v_act (s_votes s)) (genC P) (i_height e).
Proof. intros batch Hb gh c s0 Hi K s Hv. exact (di_pc batch gh s0 K s (dinv_view batch Hb gh c s0 Hi K s Hv)). Qed.

(* ------------------------------------------------------------------ the wrap-faithful model (BFT/Votes32.v) *)
(* Votes32.v re-defines every arithmetic step of the vote model with Go's uint32/uint64 wrap-around (heights +1/-1, weight sums,
   the repaired prevote-threshold formula and the overflow rejection, the parameter-cache loop over heights). On every valid
   chain whose heights stay <= 2^32-2 and whose aggregate weights stay < 2^64 it computes exactly what the unbounded model
   computes (results AND error codes), so every theorem above transfers to the wrap-faithful model under exactly that bound.
   (What happens AT the bound is outside every statement: hypothesis gh + length K < 2^32 - 1.) *)
From LE Require Import BFT.Votes32 BFT.Votes32Proofs.
Theorem C02_votes32_agrees : forall batch gh c s0 K, (0 < batch)%nat ->
  init_store batch gh c = Ok s0 -> total_weight (c_vals c) < M64 ->
  validD_decl batch gh s0 K -> gh + N.of_nat (length K) < M32 - 1 ->
  (forall x, In x K -> cert_ok (fst x) /\ chg_ok x) ->
  init_store32 batch gh c = Ok s0 /\ run_blocks32 batch s0 K = run_blocks batch s0 K.
Proof. exact votes32_agrees_valid. Qed.

(* ------------------------------------------------------------------ SetBFTParameters and the certified height *)
(* SetBFTParameters (api.go): accepted only within the bounds; either a no-op (the requested parameters are those in force) or
   the new parameters are in force from the NEXT height on and only from there, the vote record keeps heights and window, a
   continuing validator keeps its vote bookkeeping (minActiveHeight, largestHeightPrecommit) and a new validator may vote from
   the activation height on. *)
From LE Require Import BFT.SetParamsProofs.
Theorem C02_set_parameters_spec : forall batch s pcT certT vals s' tip,
  Inv tip s -> set_params batch s pcT certT vals = Ok s' ->
  (length vals <= batch)%nat /\ (forall x, In x vals -> 0 < snd x) /\
  total_weight vals / 3 + 1 <= pcT <= total_weight vals /\ total_weight vals / 3 + 1 <= certT <= total_weight vals /\
  (s' = s \/
   (let p := {| p_pv := total_weight vals * 2 / 3 + 1; p_pc := pcT; p_cert := certT; p_vals := sort_desc vals |} in
    (forall h, tip + 1 <= h -> get_params (s_params s') h = Ok p) /\
    (forall h, h <= tip -> get_params (s_params s') h = get_params (s_params s) h) /\
    window s' = window s /\ v_mhp (s_votes s') = v_mhp (s_votes s) /\ v_mhpc (s_votes s') = v_mhpc (s_votes s) /\
    v_mhc (s_votes s') = v_mhc (s_votes s) /\
    (forall a, In a (v_act (s_votes s')) <->
       exists x, In x vals /\
         a = match find_active (v_act (s_votes s)) (fst x) with
             | Some old => old
             | None => {| a_addr := fst x; a_min := tip + 1; a_lhp := tip |}
             end))).
Proof. exact set_params_spec. Qed.
(* ... and the no-op case is EXACTLY the case "the requested parameters are the ones in force at the current height" (same
   validators with the same weights in canonical order, same precommit and certificate threshold); otherwise the requested
   parameters are what GetBFTParameters returns for the next height. *)
Theorem C02_set_parameters_noop_iff : forall batch s pcT certT vals s' tip,
  Inv tip s -> set_params batch s pcT certT vals = Ok s' ->
  (in_force_equal s tip pcT certT vals = true /\ s' = s) \/
  (in_force_equal s tip pcT certT vals = false /\
   get_params (s_params s') (tip + 1) =
     Ok {| p_pv := total_weight vals * 2 / 3 + 1; p_pc := pcT; p_cert := certT; p_vals := sort_desc vals |}).
Proof. exact set_params_noop_iff. Qed.
Theorem C02_validator_lists_equal_spec : forall a b, vals_equal a b = true <-> a = b.
Proof. exact vals_equal_spec. Qed.
(* non-vacuity: the genesis store satisfies the invariant and accepts a 4-validator set *)
Example C02_set_parameters_example :
  Inv 0 (genesis_store 0) /\ exists s', set_params 4 (genesis_store 0) 3 3 [(1,1);(2,1);(3,1);(4,1)] = Ok s' /\ s' <> genesis_store 0.
Proof. split; [exact (genesis_inv 0)|]. eexists. split; [vm_compute; reflexivity|]. vm_compute. discriminate. Qed.

(* maxHeightCertified is the height named by the newest non-empty aggregate commit of the chain (unchanged by empty ones) *)
Theorem C02_certified_height_rule : forall batch s b s1, before_txs batch s b = Ok s1 ->
  v_mhc (s_votes s1) = match h_cert b with Some h => h | None => v_mhc (s_votes s) end.
Proof. exact certified_height_rule. Qed.
(* chain level: after any chain, maxHeightCertified is the height named by its newest non-empty aggregate commit (the value
   before the chain if there is none) *)
Theorem C02_certified_height_of_chain : forall batch K s s', run_blocks batch s K = Ok s' ->
  v_mhc (s_votes s') = newest_cert K (v_mhc (s_votes s)).
Proof. exact certified_height_of_chain. Qed.

(* ImpliesMaximalPrevotes (LIP-0058), asked about the block just processed: true exactly when the header casts prevotes at all
   (maxHeightGenerated < height) and the block of this chain at height maxHeightGenerated, if still in the window, was generated
   by the same validator (a block at that height outside the window counts as "yes"). *)
Theorem C02_implies_maximal_prevotes_spec : forall s b tip, Inv tip s -> window s <> [] -> h_height b = tip ->
  exists r, implies_max_prevotes (s_votes s) b = Ok r /\
    (r = true <-> h_mhg b < h_height b /\ forall e, In e (window s) -> i_height e = h_mhg b -> i_gen e = h_gen b).
Proof. intros s b tip HI. exact (implies_max_prevotes_spec (s_votes s) b tip (inv_hts tip s HI)). Qed.

(* NextHeightBFTParameters(h): the smallest stored parameter height above h, if any (it bounds the height an aggregate commit may
   certify: C06). *)
Theorem C02_next_parameter_height_spec : forall ps h, keys_sorted ps ->
  match next_params_height ps h with
  | Some k => (exists p, In (k, p) ps) /\ h < k /\ forall k' p', In (k', p') ps -> h < k' -> k <= k'
  | None => forall k' p', In (k', p') ps -> k' <= h
  end.
Proof. exact next_params_height_spec. Qed.
