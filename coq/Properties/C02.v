(* C02 — property theorems only (filled as the proofs land). *)
From Coq Require Import List NArith Bool.
From LE Require Import BFT.Contradiction BFT.Votes.
Local Open Scope N_scope.

Theorem C02_placeholder_determinism : forall batch s l r1 r2,
  run_blocks batch s l = r1 -> run_blocks batch s l = r2 -> r1 = r2.
Proof. intros; congruence. Qed.
