(* C12 — property theorems only. *)
From Coq Require Import List NArith ZArith Bool.
From LE Require Import Base.Lex Store.SMap Store.PebbleIter Store.DiffDB Store.DiffDBSpec.
Import ListNotations.

Theorem C12_upperBound_spec : forall p k, wf_key p -> wf_key k ->
  is_prefix p k = (leb p k && below_ub k (upper_bound p)).
Proof. exact upper_bound_spec. Qed.
