(* C12 — staged store reads = database with staged writes applied; db scans exact.
   Property theorems only: full statements, proofs are [exact lemma]. Models: Store.DiffDB (pkg/db/diffdb),
   Store.PebbleIter (pkg/db iterator.go/db.go/reader.go), specification: Store.DiffDBSpec. *)
From Coq Require Import List NArith ZArith Bool.
From LE Require Import Base.Lex Store.SMap Store.PebbleIter Store.PebbleIterProofs Store.DiffDB Store.DiffDBProofs
  Store.DiffDBScanProofs Store.DiffDBSpec Store.DiffDBRefine Store.BatchDB Chain.BlockStore Chain.U32 Chain.HeightIndex.
Import ListNotations.

(* For every initial database, every root prefix and EVERY sequence of get/has/set/del/range/iterate/snapshot/
   restore/delete-snapshot/with-prefix operations over any number of prefix views (any bounds, limits,
   directions, key lengths): the list of results of the implementation model equals the list of results of the
   same operations on ONE sorted map with the staged writes applied (saved maps for snapshots); in particular
   the model never reaches the panic of cacheDB.set.  Commit then writes exactly that map, and RevertDiff of the
   returned diff restores the previous database as a list (byte for byte).  [wf_*]: bytes are < 256. *)
Theorem C12_refinement : forall db root ops, sorted db -> wf_db db -> wf_key root -> Forall op_wf ops ->
  let d := fst (run db (init_state root) ops) in
  let s := fst (spec_run (spec_init db root) ops) in
  snd (run db (init_state root) ops) = snd (spec_run (spec_init db root) ops) /\
  apply_writes (fst (db_Commit d)) db = s_map s /\
  apply_writes (revert_writes (snd (db_Commit d))) (apply_writes (fst (db_Commit d)) db) = db.
Proof. exact diffdb_refinement. Qed.

(* one step, from any related pair of states (the inductive core of the above) *)
Theorem C12_step_refines : forall db d s o, sorted db -> wf_db db -> R db d s -> op_wf o ->
  snd (step db d o) = snd (spec_step s o) /\ R db (fst (step db d o)) (fst (spec_step s o)).
Proof. exact step_refines. Qed.

(* restoring a snapshot returns exactly the staged map at the time of the snapshot, whatever reads, writes,
   scans, new views and snapshot operations of other views happened in between *)
Theorem C12_restore_exact : forall s i vw,
  nth_error (s_views s) i = Some vw ->
  let s1 := fst (spec_step s (OSnapshot i)) in
  forall ops, (forall o, In o ops -> no_snap_op_on i o) ->
  let s2 := fst (spec_run s1 ops) in
  s_map (fst (spec_step s2 (ORestore i (sv_count vw)))) = s_map s.
Proof. exact spec_restore_exact. Qed.

(* the same with nested snapshots: any operation may happen in between — further snapshots of the same view, restores and
   deletions of other snapshot ids, on any view — except restoring or deleting the snapshot id itself *)
Theorem C12_restore_exact_nested : forall s i vw,
  nth_error (s_views s) i = Some vw ->
  let id := sv_count vw in
  let s1 := fst (spec_step s (OSnapshot i)) in
  forall ops, (forall o, In o ops -> keeps_snapshot i id o) ->
  let s2 := fst (spec_run s1 ops) in
  s_map (fst (spec_step s2 (ORestore i id))) = s_map s.
Proof. exact spec_restore_exact_nested. Qed.

Theorem C12_commit_writes_final_state : forall db c m, sorted db -> Inv db c -> sorted m ->
  (forall k, lookup m k = overlay db c k) -> apply_writes (commit_writes c) db = m.
Proof. exact commit_writes_final_state. Qed.

Theorem C12_revert_commit_id : forall db c, sorted db -> Inv db c ->
  apply_writes (revert_writes (diff_of c)) (apply_writes (commit_writes c) db) = db.
Proof. exact revert_commit_id. Qed.

(* Range / Iterate through a view with prefix pfx, from any cache state representing the map m *)
Theorem C12_range_exact : forall db c m pfx s e limit reverse,
  sorted db -> sorted m -> Inv db c -> (forall k, lookup m k = overlay db c k) ->
  fst (db_Range db c pfx s e limit reverse) =
    take_limit limit (map (strip (length pfx))
      (dir reverse (filter (fun x => leb (pfx ++ s) (fst x) && leb (fst x) (pfx ++ e)) m))) /\
  Inv db (snd (db_Range db c pfx s e limit reverse)) /\
  forall k, overlay db (snd (db_Range db c pfx s e limit reverse)) k = overlay db c k.
Proof. exact range_refines. Qed.

Theorem C12_iterate_exact : forall db c m pfx p limit reverse,
  sorted db -> wf_db db -> wf_key (pfx ++ p) -> sorted m -> Inv db c -> (forall k, lookup m k = overlay db c k) ->
  fst (db_Iterate db c pfx p limit reverse) =
    take_limit limit (map (strip (length pfx)) (dir reverse (filter (fun x => is_prefix (pfx ++ p) (fst x)) m))) /\
  Inv db (snd (db_Iterate db c pfx p limit reverse)) /\
  forall k, overlay db (snd (db_Iterate db c pfx p limit reverse)) k = overlay db c k.
Proof. exact iterate_refines. Qed.

(* pkg/db scans: exactly the keys inside the bounds, in order, truncated.  [eff_limit] = the limit reading of
   diffdb's mergeSortLimit: a limit >= 0 is the maximum number of results (0 = none), any negative limit = no limit. *)
Theorem C12_db_scans_exact_range : forall db s e limit reverse, sorted db ->
  iterate_range db s e limit reverse =
  eff_limit limit (dir reverse (filter (fun x => leb s (fst x) && leb (fst x) e) db)).
Proof. exact iterate_range_exact. Qed.

Theorem C12_db_scans_exact_prefix : forall db p limit reverse, wf_key p -> wf_db db ->
  iterate_prefix db p limit reverse = eff_limit limit (dir reverse (filter (fun x => is_prefix p (fst x)) db)) /\
  iterate_key db p limit reverse = map fst (eff_limit limit (dir reverse (filter (fun x => is_prefix p (fst x)) db))).
Proof. intros. split; [apply iterate_prefix_exact|apply iterate_key_exact]; assumption. Qed.

Theorem C12_eff_limit_sane : forall limit (l : list kv),
  (limit < 0 -> eff_limit limit l = l)%Z /\ (0 <= limit -> eff_limit limit l = firstn (Z.to_nat limit) l)%Z.
Proof. exact eff_limit_sane. Qed.

(* the two layers agree for EVERY limit value: with nothing staged, Range / Iterate through a view return exactly what
   IterateRange / Iterate of pkg/db return for the prefixed arguments and the SAME limit (view prefix removed) *)
Theorem C12_layers_agree_on_limits : forall db pfx s e p limit reverse, sorted db -> wf_db db -> wf_key (pfx ++ p) ->
  fst (db_Range db [] pfx s e limit reverse) =
    map (strip (length pfx)) (iterate_range db (pfx ++ s) (pfx ++ e) limit reverse) /\
  fst (db_Iterate db [] pfx p limit reverse) =
    map (strip (length pfx)) (iterate_prefix db (pfx ++ p) limit reverse).
Proof.
  intros db pfx s e p limit reverse Hs Hw Hp.
  assert (Hmap : forall (l : list kv), take_limit limit (map (strip (length pfx)) l) = map (strip (length pfx)) (eff_limit limit l)).
  { intros l. unfold take_limit, eff_limit. destruct (limit >? -1)%Z; auto. apply firstn_map. }
  split.
  - rewrite (proj1 (range_refines db [] db pfx s e limit reverse Hs Hs (Inv_nil db) (fun k => eq_refl))).
    rewrite iterate_range_exact by auto. unfold spec_range, range_spec. apply Hmap.
  - rewrite (proj1 (iterate_refines db [] db pfx p limit reverse Hs Hw Hp Hs (Inv_nil db) (fun k => eq_refl))).
    rewrite iterate_prefix_exact by auto. unfold spec_iterate, prefix_spec. apply Hmap.
Qed.

Theorem C12_upperBound_spec : forall p k, wf_key p -> wf_key k ->
  is_prefix p k = (leb p k && below_ub k (upper_bound p)).
Proof. exact upper_bound_spec. Qed.

(* bytes.Compare is a total order (what every "sorted" above means) *)
Theorem C12_lex_total_order : forall a b c,
  (ltb a b = true -> ltb b c = true -> ltb a c = true) /\ ltb a a = false /\
  (a <> b -> ltb a b = true \/ ltb b a = true) /\ (leb a b = true -> leb b a = true -> a = b).
Proof. intros. repeat split; eauto using ltb_trans, ltb_irrefl, ltb_total, leb_antisym. Qed.

(* bytes.FromUint32 keys are ordered like the numbers, and the use made of Range by liskbft/util.go
   (getBFTParams, getGeneratorKeys: Range(FromUint32(0), FromUint32(h), 1, reverse)) returns, through any view and
   any staged state, the entry of the greatest height <= h, or nothing when there is none *)
Theorem C12_u32be_order : forall a b, (a < 4294967296 -> b < 4294967296 -> lex_cmp (u32be a) (u32be b) = (a ?= b))%N.
Proof. exact u32be_cmp. Qed.

Theorem C12_range_latest_at_or_below : forall db c m pfx h,
  sorted db -> sorted m -> Inv db c -> (forall k, lookup m k = overlay db c k) ->
  height_keyed m pfx -> (h < 4294967296)%N ->
  match fst (db_Range db c pfx (u32be 0) (u32be h) 1 true) with
  | [] => forall n v, (n < 4294967296)%N -> In (pfx ++ u32be n, v) m -> (h < n)%N
  | [(k, v)] => exists n, (n < 4294967296)%N /\ k = u32be n /\ In (pfx ++ u32be n, v) m /\ (n <= h)%N /\
                         forall n' v', (n' < 4294967296)%N -> In (pfx ++ u32be n', v') m -> (n' <= h)%N -> (n' <= n)%N
  | _ => False
  end.
Proof.
  intros db c m pfx h Hsdb Hsm HI Hm Hk Hh.
  rewrite (proj1 (range_refines db c m pfx (u32be 0) (u32be h) 1 true Hsdb Hsm HI Hm)).
  apply latest_at_or_below; assumption.
Qed.

(* the specification's range IS the database scan of the staged map: for every limit, direction and bounds *)
Theorem C12_spec_range_is_db_scan : forall m pfx s e limit reverse, sorted m ->
  spec_range m pfx s e limit reverse = map (strip (length pfx)) (iterate_range m (pfx ++ s) (pfx ++ e) limit reverse).
Proof.
  intros m pfx s e limit reverse Hs. rewrite iterate_range_exact by auto. unfold spec_range, range_spec, take_limit, eff_limit.
  destruct (limit >? -1)%Z; auto. apply firstn_map.
Qed.

(* after Commit: writing the batch leaves every read unchanged, but Commit does not (and, because of dry-run commits,
   must not) reset the cache, so using the same Database further after the batch was WRITTEN is outside the refinement
   (known finding c12:ops2:spec:after-commit): witness of a staged delete lost after a written Commit *)
Theorem C12_post_commit_reads_unchanged : forall db c k, sorted db -> Inv db c ->
  overlay (apply_writes (commit_writes c) db) c k = overlay db c k.
Proof. exact post_commit_overlay. Qed.

Theorem C12_continued_use_after_commit_refuted :
  exists db root ops1 ops2,
    let d1 := fst (run db (init_state root) ops1) in
    let m1 := apply_writes (fst (db_Commit d1)) db in
    let s1 := fst (spec_run (spec_init db root) ops1) in
    sorted db /\ m1 = s_map s1 /\ snd (run m1 d1 ops2) <> snd (spec_run s1 ops2).
Proof. exact continued_use_after_commit_refuted. Qed.

(* pkg/db/batchdb (no overlay): for every operation sequence the reads return the DATABASE value, whatever was
   put in the batch before (batchdb does not stage), and writing the batch gives exactly the map the overlay
   specification reaches with the same set/del operations *)
Theorem C12_batchdb_reads_ignore_batch : forall db pfx ops batch,
  snd (bdb_run db pfx batch ops) = map (bdb_read_spec db pfx) ops.
Proof. exact bdb_reads_ignore_batch. Qed.

Theorem C12_batchdb_write_equals_spec : forall db pfx ops,
  apply_writes (fst (bdb_run db pfx [] ops)) db = s_map (fst (spec_run (spec_init db pfx) (flat_map bop_as_op ops))).
Proof. exact bdb_write_equals_spec. Qed.

(* non-vacuity: a concrete run with staged delete + limit, prefix views, snapshot/restore *)
Local Open Scope N_scope.
Example C12_example_limit_after_delete :
  snd (run [([10;97],[1]); ([10;98],[2]); ([10;99],[3])] (init_state [10])
           [ODel 0%nat [97]; ORange 0%nat [97] [122] 1%Z false]) = [RNone; RList [([98],[2])]].
Proof. vm_compute. reflexivity. Qed.

Example C12_example_views_restore :
  snd (run [([10;112;107;48],[1])] (init_state [10])
           [OWithPrefix 0%nat [112]; OSnapshot 0%nat; OSet 1%nat [107;49] [2]; OIterate 1%nat [107] (-1)%Z false;
            ORestore 0%nat 0; OIterate 1%nat [] (-1)%Z true; OGet 1%nat [107;49]])
  = [RNone; RId 0; RNone; RList [([107;48],[1]); ([107;49],[2])]; RBool true; RList [([107;48],[1])]; RVal None].
Proof. vm_compute. reflexivity. Qed.
