(* C08 — property theorems only.  Statements are full; proofs are [exact lemma]. *)
From Coq Require Import List NArith ZArith Bool.
From LE Require Import Codec.Varint Codec.VarintProofs Codec.Reader Codec.Writer.
Import ListNotations.
Local Open Scope N_scope.

(* readUint (Go, index-based) reads back what binary.PutUvarint wrote, for every uint64 and every context *)
Theorem C08_varint_roundtrip : forall n pre rest, n < 2^64 ->
  read_uint_at (pre ++ enc_varint n ++ rest) (length pre) = Ok (n, length (enc_varint n)).
Proof. intros. rewrite read_uint_at_app. apply varint_roundtrip. assumption. Qed.

(* readUint accepts only the shortest encoding: the consumed bytes are exactly PutUvarint of the value *)
Theorem C08_varint_canonical : forall data off n k, bytes_ok data ->
  read_uint_at data off = Ok (n, k) -> firstn k (skipn off data) = enc_varint n /\ n < 2^64.
Proof.
  intros data off n k Hok H. rewrite read_uint_at_skipn in H. apply varint_canonical in H; auto.
  unfold bytes_ok in *. rewrite Forall_forall in *. intros x Hx. apply Hok.
  rewrite <- (firstn_skipn off data). apply in_or_app. right. exact Hx.
Qed.
