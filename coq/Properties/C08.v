(* C08 — property theorems only.  Statements are full; proofs are [exact lemma] (plus instantiation glue). *)
From Coq Require Import String List NArith ZArith Bool.
From LE Require Import Codec.Varint Codec.VarintProofs Codec.Reader Codec.Writer Codec.ReaderProofs
                       Codec.Schema Codec.SchemaProofs Codec.SchemaProofs2 Codec.CanonProofs Gen.Schemas
                       Codec.Lisk32 Codec.Lisk32Conv Codec.Lisk32Poly Codec.Lisk32Proofs Codec.Str Codec.StrProofs.
Import ListNotations.
Local Open Scope N_scope.

(* ---- varints ---- *)
(* readUint (Go, index-based) reads back what binary.PutUvarint wrote, for every uint64 and every context *)
Theorem C08_varint_roundtrip : forall n pre rest, n < 2^64 ->
  read_uint_at (pre ++ enc_varint n ++ rest) (List.length pre) = Ok (n, List.length (enc_varint n)).
Proof. intros. rewrite read_uint_at_app. apply varint_roundtrip. assumption. Qed.

(* readUint accepts only the shortest encoding: the consumed bytes are exactly PutUvarint of the value *)
Theorem C08_varint_canonical : forall data off n k, bytes_ok data ->
  read_uint_at data off = Ok (n, k) -> firstn k (skipn off data) = enc_varint n /\ n < 2^64.
Proof.
  intros data off n k Hok H. rewrite read_uint_at_skipn in H. apply varint_canonical in H; auto.
  unfold bytes_ok in *. rewrite Forall_forall in *. intros x Hx. apply Hok.
  rewrite <- (firstn_skipn off data). apply in_or_app. right. exact Hx.
Qed.

(* ---- primitives: Read*(fn, strict) after Write*(fn, v), reader anywhere inside any buffer ---- *)
Theorem C08_ReadUInt_WriteUInt : forall fn n strict pre post lm, fn_ok fn -> n < 2^64 -> (Z.of_nat (List.length pre) < lm)%Z ->
  ReadUInt (at_ pre (WriteUInt fn n ++ post) lm) fn strict = Ok (n, at_ (pre ++ WriteUInt fn n) post lm).
Proof. exact ReadUInt_WriteUInt. Qed.
Theorem C08_ReadUInt32_WriteUInt32 : forall fn n strict pre post lm, fn_ok fn -> n < 2^32 -> (Z.of_nat (List.length pre) < lm)%Z ->
  ReadUInt32 (at_ pre (WriteUInt32 fn n ++ post) lm) fn strict = Ok (n, at_ (pre ++ WriteUInt32 fn n) post lm).
Proof. exact ReadUInt32_WriteUInt32. Qed.
Theorem C08_ReadInt_WriteInt : forall fn z strict pre post lm, fn_ok fn -> (- 2^63 <= z < 2^63)%Z -> (Z.of_nat (List.length pre) < lm)%Z ->
  ReadInt (at_ pre (WriteInt fn z ++ post) lm) fn strict = Ok (z, at_ (pre ++ WriteInt fn z) post lm).
Proof. exact ReadInt_WriteInt. Qed.
Theorem C08_ReadInt32_WriteInt32 : forall fn z strict pre post lm, fn_ok fn -> (- 2^31 <= z < 2^31)%Z -> (Z.of_nat (List.length pre) < lm)%Z ->
  ReadInt32 (at_ pre (WriteInt32 fn z ++ post) lm) fn strict = Ok (z, at_ (pre ++ WriteInt32 fn z) post lm).
Proof. exact ReadInt32_WriteInt32. Qed.
Theorem C08_ReadBool_WriteBool : forall fn b strict pre post lm, fn_ok fn -> (Z.of_nat (List.length pre) < lm)%Z ->
  ReadBool (at_ pre (WriteBool fn b ++ post) lm) fn strict = Ok (b, at_ (pre ++ WriteBool fn b) post lm).
Proof. exact ReadBool_WriteBool. Qed.
Theorem C08_ReadBytes_WriteBytes : forall fn bs strict pre post lm, fn_ok fn ->
  (Z.of_nat (List.length (pre ++ WriteBytes fn bs ++ post)) < 2^62)%Z -> (Z.of_nat (List.length pre) < lm)%Z ->
  ReadBytes (at_ pre (WriteBytes fn bs ++ post) lm) fn strict = Ok (bs, at_ (pre ++ WriteBytes fn bs) post lm).
Proof. exact ReadBytes_WriteBytes. Qed.
Theorem C08_ReadString_WriteString : forall S fn s strict pre post lm, fn_ok fn -> str_laws S -> utf8_valid S s = true ->
  (Z.of_nat (List.length (pre ++ WriteString S fn s ++ post)) < 2^62)%Z -> (Z.of_nat (List.length pre) < lm)%Z ->
  ReadString S (at_ pre (WriteString S fn s ++ post) lm) fn strict
  = Ok (nfc_norm S s, at_ (pre ++ WriteString S fn s) post lm).
Proof. exact ReadString_WriteString. Qed.
(* packed arrays (ReadUInts/ReadUInt32s/ReadInts/ReadBools) and repeated fields (ReadBytesArray/ReadStrings/
   ReadDecodables) are covered by the generic loop lemmas, used for every field type in C08_decode_encode *)
Theorem C08_read_packed_write_packed : forall A (elem : reader -> res (A * reader)) (w : A -> list N) (ok : A -> Prop),
  (forall v, ok v -> w v <> []) ->
  (forall v pre post lm, ok v -> elem (at_ pre (w v ++ post) lm) = Ok (v, at_ (pre ++ w v) post lm)) ->
  forall fn l pre post lm, fn_ok fn -> Forall ok l -> l <> [] ->
  (Z.of_nat (List.length (pre ++ write_packed w fn l ++ post)) < 2^62)%Z -> (Z.of_nat (List.length pre) < lm)%Z ->
  read_packed elem (at_ pre (write_packed w fn l ++ post) lm) fn = Ok (l, at_ (pre ++ write_packed w fn l) post lm).
Proof. exact read_packed_write_packed. Qed.

(* ---- generated codec, generic in the struct environment ---- *)
(* Decode (Encode v) = canon v : NFC-normalised strings, nil nested message read back as the zero message *)
Theorem C08_decode_encode : forall S E, str_laws S -> wf_env E = true ->
  forall fuel s vs, wt_struct S E fuel s vs -> increasing 0 s = true ->
  (Z.of_nat (List.length (encode_struct S E fuel s vs)) < 2^62)%Z ->
  Decode S E fuel s (encode_struct S E fuel s vs) = Ok (canon_struct S E fuel s vs).
Proof. intros S E L W. apply decode_encode; auto. apply wf_env_increasing; assumption. Qed.

(* DecodeStrict accepts its own encodings, provided no top-level nested message is nil
   (full statement without the hypothesis is false: see C08_strict_rejects_nil_nested_refuted) *)
Theorem C08_decode_strict_encode_partial : forall S E, str_laws S -> wf_env E = true ->
  forall fuel s vs, wt_struct S E (Datatypes.S fuel) s vs -> increasing 0 s = true -> Forall not_nil vs ->
  (Z.of_nat (List.length (encode_struct S E (Datatypes.S fuel) s vs)) < 2^62)%Z ->
  DecodeStrict S E (Datatypes.S fuel) s (encode_struct S E (Datatypes.S fuel) s vs)
  = Ok (canon_struct S E (Datatypes.S fuel) s vs).
Proof. intros S E L W. apply decode_strict_encode; auto. apply wf_env_increasing; assumption. Qed.

(* re-encoding stability (IDs are hashes of re-encodings): without nil nested messages, decoding an encoding and
   encoding again yields the same bytes *)
Theorem C08_reencode_stable : forall S E, str_laws S -> wf_env E = true ->
  forall fuel s vs v', wt_struct S E fuel s vs -> full fuel vs -> increasing 0 s = true ->
  (Z.of_nat (List.length (encode_struct S E fuel s vs)) < 2^62)%Z ->
  Decode S E fuel s (encode_struct S E fuel s vs) = Ok v' ->
  encode_struct S E fuel s v' = encode_struct S E fuel s vs.
Proof. intros S E L W. apply reencode_stable; auto. apply wf_env_increasing; assumption. Qed.

(* IDs are unchanged by store/load: DataAccess stores Encode v; a getter decodes the stored bytes (leniently for headers,
   strictly for transactions) and the ID is the hash of the re-encoding of the loaded value (the getter's hash of the stored
   bytes is the same number by definition of [id_of], so it is not stated).  The hash
   is arbitrary (an argument).  Hypothesis [full]: no nil nested message (every producer of headers sets aggregateCommit). *)
Theorem C08_id_stable_store_load : forall S E (hash : list N -> list N), str_laws S -> wf_env E = true ->
  forall fuel s vs, wt_struct S E fuel s vs -> full fuel vs -> increasing 0 s = true ->
  (Z.of_nat (List.length (encode_struct S E fuel s vs)) < 2^62)%Z ->
  let stored := encode_struct S E fuel s vs in
  exists v', Decode S E fuel s stored = Ok v' /\
             id_of S E hash fuel s v' = id_of S E hash fuel s vs /\
             encode_struct S E fuel s v' = stored.
Proof. intros S E hash L W. apply id_stable_store_load; auto. apply wf_env_increasing; assumption. Qed.

(* encoding is deterministic: Encode is a Gallina function of the value (the generated Go Encode bodies are straight-line
   writer calls, nil guards and range loops over []*T slices only — the translator rejects anything else, in particular a map
   range or a call that is not a Writer method), and values equal up to the canonical form have the same bytes and the same ID *)
Theorem C08_encode_deterministic : forall S E (hash : list N -> list N), str_laws S ->
  forall fuel s v1 v2, wt_struct S E fuel s v1 -> wt_struct S E fuel s v2 -> full fuel v1 -> full fuel v2 ->
  canon_struct S E fuel s v1 = canon_struct S E fuel s v2 ->
  encode_struct S E fuel s v1 = encode_struct S E fuel s v2 /\ id_of S E hash fuel s v1 = id_of S E hash fuel s v2.
Proof. intros S E hash L. apply encode_deterministic; assumption. Qed.

Theorem C08_id_stable_store_load_strict : forall S E (hash : list N -> list N), str_laws S -> wf_env E = true ->
  forall fuel s vs, wt_struct S E (Datatypes.S fuel) s vs -> full (Datatypes.S fuel) vs -> Forall not_nil vs ->
  increasing 0 s = true ->
  (Z.of_nat (List.length (encode_struct S E (Datatypes.S fuel) s vs)) < 2^62)%Z ->
  let stored := encode_struct S E (Datatypes.S fuel) s vs in
  exists v', DecodeStrict S E (Datatypes.S fuel) s stored = Ok v' /\
             id_of S E hash (Datatypes.S fuel) s v' = id_of S E hash (Datatypes.S fuel) s vs /\
             encode_struct S E (Datatypes.S fuel) s v' = stored.
Proof. intros S E hash L W. apply id_stable_store_load_strict; auto. apply wf_env_increasing; assumption. Qed.

(* strict decoding of a flat schema accepts only the canonical byte string *)
Theorem C08_strict_accepts_only_canonical : forall S E, str_laws S ->
  forall fuel s d vs, flat_canon s = true -> increasing 0 s = true -> bytes_ok d -> (Z.of_nat (List.length d) < 2^62)%Z ->
  DecodeStrict S E (Datatypes.S fuel) s d = Ok vs -> d = encode_struct S E (Datatypes.S fuel) s vs.
Proof. intros S E L. apply strict_accepts_only_canonical; assumption. Qed.

(* ---- instantiation on the schemas translated from the repository ---- *)
Definition tx_schema : schema := enc_pkg_blockchain_Transaction.

(* NewTransaction = DecodeStrict + hash of Encode: the ID is the hash of exactly the accepted bytes *)
Theorem C08_transaction_strict_canonical : forall S, str_laws S -> forall d vs, bytes_ok d ->
  (Z.of_nat (List.length d) < 2^62)%Z ->
  DecodeStrict S schemas_env (Datatypes.S max_depth) tx_schema d = Ok vs ->
  d = encode_struct S schemas_env (Datatypes.S max_depth) tx_schema vs.
Proof. intros S L d vs. apply strict_accepts_only_canonical; auto. Qed.

Theorem C08_all_generated_structs_roundtrip : forall S, str_laws S -> forall nm s vs,
  Schema.lookup schemas_env nm = Some s -> wt_struct S schemas_env (Datatypes.S max_depth) s vs ->
  (Z.of_nat (List.length (encode_struct S schemas_env (Datatypes.S max_depth) s vs)) < 2^62)%Z ->
  Decode S schemas_env (Datatypes.S max_depth) s (encode_struct S schemas_env (Datatypes.S max_depth) s vs)
  = Ok (canon_struct S schemas_env (Datatypes.S max_depth) s vs).
Proof.
  intros S L nm s vs Hl Hwt Hs. apply decode_encode; auto.
  - apply wf_env_increasing. exact env_wf.
  - eapply wf_env_increasing; [exact env_wf|exact Hl].
Qed.

(* the translator's obligations, restated: the three generated bodies agree, schemas are well formed, and the
   one integer type whose zig-zag decoding was repaired (int64) is not used by any struct *)
Theorem C08_generated_sequences_agree :
  forallb (fun p => let '(e, d, s) := snd p in schema_eqb e d && schema_eqb e s) all_seqs = true.
Proof. exact seqs_agree. Qed.
Theorem C08_generated_env_wf : wf_env schemas_env = true.
Proof. exact env_wf. Qed.

(* ---- Lisk32 ---- *)
(* every 20-byte address converts to a 41-character text starting with "lsk" that converts back to the same bytes *)
Theorem C08_lisk32_bytes_text_bytes : forall bs, List.length bs = 20%nat -> Forall (fun v => v < 256) bs ->
  exists t, bytes_to_lisk32 bs = L32Ok t /\ List.length t = 41%nat /\ firstn 3 t = lsk /\ lisk32_to_bytes t = L32Ok bs.
Proof. exact bytes_text_bytes. Qed.
(* every accepted (non-empty) text converts to 20 bytes that convert back to the same text *)
Theorem C08_lisk32_text_bytes_text : forall t bs, t <> [] -> lisk32_to_bytes t = L32Ok bs ->
  List.length bs = 20%nat /\ bytes_to_lisk32 bs = L32Ok t.
Proof. exact text_bytes_text. Qed.
(* the checksum appended by createChecksum always verifies, and a text whose checksum does not verify is rejected *)
Theorem C08_lisk32_checksum_valid : forall u5, Forall (fun v => v < 32) u5 -> polymod (u5 ++ create_checksum u5) = 1.
Proof. exact checksum_valid. Qed.
Theorem C08_lisk32_bad_checksum_rejected : forall t idx, List.length t = 41%nat -> firstn 3 t = lsk ->
  indices (skipn 3 t) = Some idx -> polymod idx <> 1 -> lisk32_to_bytes t = L32Err L32Checksum.
Proof. exact bad_checksum_rejected. Qed.
(* the bit regrouping of convertUIntArray is lossless in both directions *)
Theorem C08_lisk32_convert_8_5_8 : forall bs, List.length bs = 20%nat -> Forall (fun v => v < 256) bs ->
  List.length (convert 8 5 bs) = 32%nat /\ Forall (fun v => v < 32) (convert 8 5 bs) /\ convert 5 8 (convert 8 5 bs) = bs.
Proof. exact convert_8_5_8. Qed.

(* the string functions with which the model is evaluated in the correspondence (Codec/Str.v, undecided strings answered
   "normal") satisfy the laws the theorems assume, so e.g. the round trip holds for that very instance *)
Theorem C08_str_laws_of_evaluated_instance : str_laws (corr_strops true).
Proof. exact corr_strops_laws. Qed.
Theorem C08_all_generated_structs_roundtrip_evaluated_instance : forall nm s vs,
  Schema.lookup schemas_env nm = Some s -> wt_struct (corr_strops true) schemas_env (Datatypes.S max_depth) s vs ->
  (Z.of_nat (List.length (encode_struct (corr_strops true) schemas_env (Datatypes.S max_depth) s vs)) < 2^62)%Z ->
  Decode (corr_strops true) schemas_env (Datatypes.S max_depth) s (encode_struct (corr_strops true) schemas_env (Datatypes.S max_depth) s vs)
  = Ok (canon_struct (corr_strops true) schemas_env (Datatypes.S max_depth) s vs).
Proof. intros. eapply C08_all_generated_structs_roundtrip; eauto. exact corr_strops_laws. Qed.

(* ---- refutations kept honest ---- *)
Definition id_strops : strops := {| utf8_valid := fun _ => true; is_nfc := fun _ => true; nfc_norm := fun s => s |}.
(* a struct with a nil nested message: strict decoding rejects its own encoding *)
Theorem C08_strict_rejects_nil_nested_refuted : exists E s vs,
  wf_env E = true /\ wt_struct id_strops E 2 s vs /\
  DecodeStrict id_strops E 2 s (encode_struct id_strops E 2 s vs) = Err ErrFieldNumberNotFound.
Proof.
  exists [("A"%string, [(1, TMsg "B"%string)]); ("B"%string, [(1, TU64)])], [(1, TMsg "B"%string)], [VMsg None].
  split; [reflexivity|]. split; [cbn; split; [eexists; reflexivity|exact I]|reflexivity].
Qed.
(* packed arrays are not canonical: an element may straddle the declared length *)
Theorem C08_packed_not_canonical_refuted : exists d vs,
  DecodeStrict id_strops [] 1 [(1, TU64s)] d = Ok vs /\ d <> encode_struct id_strops [] 1 [(1, TU64s)] vs.
Proof. exists [10; 1; 128; 1], [VUs [128]]. split; [reflexivity|discriminate]. Qed.
(* uint32 fields truncate silently: strict decoding accepts a value >= 2^32 *)
Theorem C08_uint32_truncation_refuted : exists d vs,
  DecodeStrict id_strops [] 1 [(1, TU32)] d = Ok vs /\ d <> encode_struct id_strops [] 1 [(1, TU32)] vs.
Proof. exists [8; 128; 128; 128; 128; 16], [VU 0]. split; [vm_compute; reflexivity|discriminate]. Qed.

(* ---- non-vacuity ---- *)
Example C08_tx_example :
  let v := [VBytes [116]; VBytes [120]; VU 5; VU (2^64 - 1); VBytes [1; 2]; VBytes []; VBytesL [[7]; []]] in
  wt_struct id_strops schemas_env (Datatypes.S max_depth) tx_schema v /\
  DecodeStrict id_strops schemas_env (Datatypes.S max_depth) tx_schema
    (encode_struct id_strops schemas_env (Datatypes.S max_depth) tx_schema v) = Ok v.
Proof. split; [cbn; repeat split; reflexivity|vm_compute; reflexivity]. Qed.

(* nested instances: a block header (with its aggregate commit) and a block (header, two transactions, one asset) *)
Definition ex_header : list value :=
  [VU 2; VU 1700000000; VU (2^32 - 1); VBytes (repeat 7 32); VBytes (repeat 9 20); VBytes []; VBytes [1]; VBytes [2]; VBytes [3];
   VU 5; VU 4; VBool true; VBytes [4]; VMsg (Some [VU 3; VBytes [255]; VBytes (repeat 1 96)]); VBytes (repeat 8 64)].
Definition ex_tx : list value :=
  [VBytes [116]; VBytes [120]; VU 5; VU (2^64 - 1); VBytes [1; 2]; VBytes []; VBytesL [[7]; []]].
Definition ex_block : list value :=
  [VMsg (Some ex_header); VMsgs [ex_tx; ex_tx]; VMsgs [[VBytes [97]; VBytes [0; 1]]]].

Ltac wt_step := first [ exact I | reflexivity | split | (eexists; split; [vm_compute; reflexivity|]) | constructor ].
Ltac solve_wt := unfold ex_block, ex_header, ex_tx, max_depth;
  repeat (cbn [wt_struct wt_fields wt_field full full_field enc_pkg_blockchain_BlockHeader enc_pkg_blockchain_Block
               enc_pkg_blockchain_Transaction enc_pkg_blockchain_BlockAsset enc_pkg_blockchain_AggregateCommit utf8_valid id_strops]; wt_step).

Example C08_header_example :
  wt_struct id_strops schemas_env (Datatypes.S max_depth) enc_pkg_blockchain_BlockHeader ex_header /\
  full (Datatypes.S max_depth) ex_header /\
  Decode id_strops schemas_env (Datatypes.S max_depth) enc_pkg_blockchain_BlockHeader
    (encode_struct id_strops schemas_env (Datatypes.S max_depth) enc_pkg_blockchain_BlockHeader ex_header) = Ok ex_header.
Proof. split; [solve_wt|]. split; [solve_wt|vm_compute; reflexivity]. Qed.

Example C08_block_example :
  wt_struct id_strops schemas_env (Datatypes.S max_depth) enc_pkg_blockchain_Block ex_block /\
  full (Datatypes.S max_depth) ex_block /\
  Decode id_strops schemas_env (Datatypes.S max_depth) enc_pkg_blockchain_Block
    (encode_struct id_strops schemas_env (Datatypes.S max_depth) enc_pkg_blockchain_Block ex_block) = Ok ex_block /\
  DecodeStrict id_strops schemas_env (Datatypes.S max_depth) enc_pkg_blockchain_Block
    (encode_struct id_strops schemas_env (Datatypes.S max_depth) enc_pkg_blockchain_Block ex_block) = Ok ex_block.
Proof. split; [solve_wt|]. split; [solve_wt|]. split; vm_compute; reflexivity. Qed.

(* the generic theorem applied to the nested example (its hypotheses are the first two conjuncts above) *)
Example C08_block_example_by_theorem :
  Decode id_strops schemas_env (Datatypes.S max_depth) enc_pkg_blockchain_Block
    (encode_struct id_strops schemas_env (Datatypes.S max_depth) enc_pkg_blockchain_Block ex_block)
  = Ok (canon_struct id_strops schemas_env (Datatypes.S max_depth) enc_pkg_blockchain_Block ex_block).
Proof.
  apply (C08_all_generated_structs_roundtrip id_strops) with (nm := "pkg/blockchain.Block"%string).
  - split; intros; [split; reflexivity|reflexivity].
  - reflexivity.
  - apply C08_block_example.
  - vm_compute. reflexivity.
Qed.
