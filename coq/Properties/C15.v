(* C15 — property theorems only.  Statements are full; proofs are [exact lemma]. *)
From Coq Require Import List NArith Bool.
From LE Require Import BFT.Contradiction Forge.GenInfo Forge.GenInfoProofs.
Import ListNotations.
Local Open Scope N_scope.

(* ---------------------------------------------------------------- generator info (repaired code) *)
(* over ALL event sequences accepted by the step relation (forge with a crash before the persist, between
   persist and hand-off, or none; tip change by fork choice; chain switch with arbitrary deletes / applies;
   restart), the headers handed on by one generator never contradict each other *)
Theorem C15_never_self_contradicting : forall g t0 evs s,
  tip_ok t0 = true -> run g init_header (init t0) evs = Some s ->
  follower_ge (published s) /\
  forall b1 b2, In b1 (published s) -> In b2 (published s) -> b1 <> b2 -> contradicting b1 b2 = false.
Proof. exact never_self_contradicting. Qed.

(* without a crash between persist and hand-off the history is exactly a protocol follower of C07
   (C07_follower_never_flagged applies), and the next header reports the largest height generated so far *)
Theorem C15_crash_free_history_is_follower : forall g t0 evs s,
  tip_ok t0 = true -> no_crash_after_persist evs -> run g init_header (init t0) evs = Some s ->
  follower (published s) /\
  (forall t, mhg (fst (init_header (disk s) t g)) = max_height (published s)).
Proof. exact crash_free_history_is_follower. Qed.

(* persist-then-hand-off: whatever was handed on is covered by the generator DB *)
Theorem C15_persisted_covers_published : forall g t0 evs s,
  tip_ok t0 = true -> run g init_header (init t0) evs = Some s ->
  match disk s with
  | Some i => max_height (published s) <= N.max (gi_height i) (gi_mhg i)
  | None => published s = []
  end.
Proof. exact persisted_covers_published. Qed.

Theorem C15_follower_ge_never_flagged : forall hs, follower_ge hs ->
  forall b1 b2, In b1 hs -> In b2 hs -> b1 <> b2 -> contradicting b1 b2 = false.
Proof. exact follower_ge_never_flagged. Qed.

(* the code before the fix (maxHeightGenerated = height of the LAST generated block) *)
Theorem C15_never_self_contradicting_orig_refuted :
  exists g t0 evs s, tip_ok t0 = true /\ run g init_header_orig (init t0) evs = Some s /\
    exists b1 b2, In b1 (published s) /\ In b2 (published s) /\ b1 <> b2 /\ contradicting b1 b2 = true.
Proof. exact never_self_contradicting_orig_refuted. Qed.

(* non-vacuity: the witness events are accepted by the repaired model, with maxHeightGenerated 0,99,100,100 *)
Example C15_ex_repaired :
  exists s, run 7 init_header (init {| t_hmhp := 50; t_smhp := 50; t_height := 98 |}) w_evs = Some s /\
            map mhg (published s) = [100; 100; 99; 0].
Proof. exact repaired_on_witness. Qed.
