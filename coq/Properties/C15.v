(* C15 — property theorems only.  Statements are full; proofs are [exact lemma]. *)
From Coq Require Import List NArith Bool.
From LE Require Import BFT.Contradiction Forge.GenInfo Forge.GenInfoProofs Forge.Select Forge.SelectProofs.
Import ListNotations.
Local Open Scope N_scope.

(* ---------------------------------------------------------------- generator info (current code) *)
(* over ALL event sequences — every event is enabled in every state: forge ticks (crash before the persist, between
   persist and hand-off, or none), the tip becoming ANYTHING (own block processed, not yet processed or dropped;
   fork choice; block deletes; a failed sync leaving a lower tip), syncing on/off, restarts — the headers handed on
   by one generator never contradict each other.  No hypothesis on the environment. *)
Theorem C15_never_self_contradicting : forall g t0 evs,
  let s := run g init_header (init t0) evs in
  follower_ge (published s) /\
  forall b1 b2, In b1 (published s) -> In b2 (published s) -> b1 <> b2 -> contradicting b1 b2 = false.
Proof. exact never_self_contradicting. Qed.

(* without a crash between persist and hand-off the history is exactly a protocol follower of C07
   (C07_follower_never_flagged applies), and every header reports the largest height generated so far *)
Theorem C15_crash_free_history_is_follower : forall g t0 evs,
  no_crash_after_persist evs ->
  let s := run g init_header (init t0) evs in
  follower (published s) /\
  (forall t h info, init_header (disk s) t g = Some (h, info) -> mhg h = max_height (published s)).
Proof. exact crash_free_history_is_follower. Qed.

(* persist-then-hand-off: whatever was handed on is covered by the generator DB *)
Theorem C15_persisted_covers_published : forall g t0 evs,
  let s := run g init_header (init t0) evs in
  match disk s with
  | Some i => max_height (published s) <= N.max (gi_height i) (gi_mhg i)
  | None => published s = []
  end.
Proof. exact persisted_covers_published. Qed.

Theorem C15_follower_ge_never_flagged : forall hs, follower_ge hs ->
  forall b1 b2, In b1 hs -> In b2 hs -> b1 <> b2 -> contradicting b1 b2 = false.
Proof. exact follower_ge_never_flagged. Qed.

(* the guard refuses only what would not exceed the header generated last *)
Theorem C15_forge_not_refused_when_exceeding : forall d t g,
  match d with Some i => exceeds i (t_smhp t) (u32 (t_height t + 1)) = true | None => True end ->
  exists h info, init_header d t g = Some (h, info).
Proof. exact forge_not_refused_when_exceeding. Qed.

(* several generator keys enabled on one node (generator DB = one record per address), any interleaving of their forge
   ticks with crashes, arbitrary tip changes, syncing and restarts: the headers signed by EACH generator address are
   pairwise non-contradicting, and so are all headers signed on the node *)
Theorem C15_never_self_contradicting_multi : forall t0 evs g,
  let s := mrun init_header (minit t0) evs in
  follower_ge (signed_by g (mpublished s)) /\
  forall b1 b2, In b1 (signed_by g (mpublished s)) -> In b2 (signed_by g (mpublished s)) -> b1 <> b2 -> contradicting b1 b2 = false.
Proof. exact never_self_contradicting_multi. Qed.

Theorem C15_never_contradicting_multi_all : forall t0 evs b1 b2,
  let s := mrun init_header (minit t0) evs in
  In b1 (mpublished s) -> In b2 (mpublished s) -> b1 <> b2 -> contradicting b1 b2 = false.
Proof. exact never_contradicting_multi_all. Qed.

(* one shared in-memory copy of the last info for all keys instead of the per-address record is refuted *)
Theorem C15_shared_info_cache_refuted :
  exists b1 b2 : bh, gen b1 = gen b2 /\ b1 <> b2 /\ contradicting b1 b2 = true /\
    init_header None {| t_smhp := 5; t_height := 11 |} 2 = Some (b1, Build_geninfo 12 5 0) /\
    hdr_shared_cache (Some (Build_geninfo 10 5 0)) (Some (Build_geninfo 12 5 0)) {| t_smhp := 5; t_height := 10 |} 2
      = Some (b2, Build_geninfo 11 5 10).
Proof. exact shared_cache_refuted. Qed.

(* the original code (maxHeightGenerated = height of the LAST generated block) *)
Theorem C15_never_self_contradicting_orig_refuted :
  exists g t0 evs b1 b2, let s := run g init_header_orig (init t0) evs in
    In b1 (published s) /\ In b2 (published s) /\ b1 <> b2 /\ contradicting b1 b2 = true.
Proof. exact never_self_contradicting_orig_refuted. Qed.

(* the first repair alone (largest height, no guard): double forging when the own block is not processed before the
   next tick, and a contradicting header from a tip lowered by a failed sync *)
Theorem C15_never_self_contradicting_noguard_refuted :
  (exists g t0 b1 b2, let s := run g init_header_noguard (init t0) [EForge NoCrash; EForge NoCrash] in
     In b1 (published s) /\ In b2 (published s) /\ b1 <> b2 /\ contradicting b1 b2 = true) /\
  (exists g t0 t1 b1 b2, let s := run g init_header_noguard (init t0) [EForge NoCrash; ETip t1; EForge NoCrash] in
     t_height t1 < t_height t0 /\ In b1 (published s) /\ In b2 (published s) /\ b1 <> b2 /\ contradicting b1 b2 = true).
Proof. exact never_self_contradicting_noguard_refuted. Qed.

(* non-vacuity: the witness events on the current code *)
Example C15_ex_repaired :
  map (fun b => (height b, mhg b)) (published (run 7 init_header (init {| t_smhp := 50; t_height := 98 |}) w_evs))
  = [(91, 100); (90, 100); (100, 99); (99, 0)] /\
  length (published (run 7 init_header (init {| t_smhp := 3; t_height := 3 |}) [EForge NoCrash; EForge NoCrash])) = 1%nat.
Proof. exact repaired_on_witness. Qed.

(* ---------------------------------------------------------------- transaction selection *)
(* for every pool, size limit, outcome oracle (which may depend on what was executed before) and every pop
   trace the heap loop can produce: the output is the successful part of the trace in order, its size is within
   the limit, every popped transaction is the first remaining one of its sender and has maximal fee priority
   among the first remaining transactions of all senders still queued, and after a failing verify / execute
   nothing of that sender is tried again *)
Theorem C15_selection_spec : forall limit outcome pool trace out,
  valid_selection limit outcome pool trace out = true ->
  out = goods outcome [] trace /\
  sum_size out <= limit /\
  (forall pre t post, trace = pre ++ t :: post ->
     exists s1, run_trace limit outcome (start pool) pre = Some s1 /\
       is_head t (qs s1) = true /\ (forall h, In h (heads (qs s1)) -> prio h <= prio t) /\
       (outcome (rev (picked s1)) t <> Good -> forall p, In p post -> sender p <> sender t)).
Proof. exact selection_spec. Qed.

(* per-sender nonce order: what is tried of one sender is a gap-free prefix of its transactions sorted by nonce,
   each popped transaction being exactly the next one of its sender *)
Theorem C15_selection_nonce_order : forall limit outcome pool trace st',
  run_trace limit outcome (start pool) trace = Some st' ->
  (forall s, exists rest, of_sender s trace ++ rest = sender_queue pool s) /\
  (forall pre t post, trace = pre ++ t :: post ->
     exists rest, of_sender (sender t) pre ++ t :: rest = sender_queue pool (sender t)).
Proof. exact nonce_order. Qed.

(* the heads compared against are the next not yet tried transactions of the senders still queued *)
Theorem C15_selection_heads_are_next : forall limit outcome pool pre s1,
  run_trace limit outcome (start pool) pre = Some s1 ->
  forall s u l, queue_of s (qs s1) = Some (u :: l) -> of_sender s pre ++ u :: l = sender_queue pool s.
Proof. exact heads_are_next. Qed.

Example C15_ex_selection :
  let a1 := Build_tx 1 0 100 10 1 in let a2 := Build_tx 1 1 900 10 2 in let b1 := Build_tx 2 5 500 10 3 in
  valid_selection 25 (fun _ _ => Good) [a2; b1; a1] [b1; a1] [b1; a1] = true.
Proof. vm_compute. reflexivity. Qed.

(* ---------------------------------------------------------------- generated block accepted (composition with C03's model) *)
From LE Require Import Exec.VerifyBlock Exec.Process Forge.Seal Forge.Accept.
From LE Require BFT.Votes.
(* The block is CONSTRUCTED (Forge.Accept.forge) from the node's own environment at that moment — clock, generator list
   and maxHeightPrevoted of the verifier's venv — from the generator's reachable persisted info, from a valid selection, with
   the transaction / asset roots computed by the same functions the validator uses and the state root the application computes.
   Discharged inside the proof: height, previous block ID, version, slot not in the future, the slot's generator, own
   maxHeightPrevoted, payload size (C15_selection_spec), statically valid transactions, both roots, state root, and the
   CONTRADICTION verdict (IsHeaderContradictingChain of BFT.Votes on the node's store, from the generator invariant).
   "partial": the remaining named hypotheses are S (byte lengths, sorted assets), L (same size limit configured), T (shouldForge:
   a later slot than the tip's), G (generator list readable), W (window entries with this generator's address are headers it
   handed on: unforgeability), A (aggregate commit accepted: C06 / empty commit below), X (signature verifies), D (the
   application answers deterministically between generation and execution). *)
Theorem C15_generated_block_accepted_partial :
  forall (txroot_f : list tx -> bstr) (assetroot_f : list asset -> bstr) (idf : N -> bstr)
         s tip v x limit outcome pool trace out assets imp agg eventroot vhash sig id app_root
         g t0 evs (vts : Votes.votes) b,
  let gs := run g init_header (init t0) evs in
  tip_header s = Some tip ->
  valid_selection limit outcome pool trace out = true ->
  forge txroot_f assetroot_f idf tip v (disk gs) out assets imp agg eventroot app_root vhash sig id = Some b ->
  g = b_code (h_gen (b_header b)) ->
  b_len (h_id tip) = 32 -> b_len (h_gen (b_header b)) = 20 -> b_len sig = 64 ->
  strictly_sorted (map as_module assets) = true ->
  limit <= ve_max_payload v ->
  slot_of v (h_timestamp tip) < slot_of v (ve_now v) ->
  ve_gen_lookup_ok v = true ->
  (forall bi, In bi (Votes.v_infos vts) -> Votes.i_gen bi = g -> In (Votes.bh_of_info bi) (published gs)) ->
  ve_contradicting v = Votes.chain_contradicting vts
    {| Votes.h_height := h_height (b_header b); Votes.h_gen := g; Votes.h_mhg := h_mhg (b_header b);
       Votes.h_mhp := h_mhp (b_header b); Votes.h_cert := None |} ->
  agg_commit_ok (b_header b) v = true ->
  ve_sig_ok v = true ->
  xe_abi_init_ok x = true -> xe_abi_verify_assets_ok x = true -> xe_bft_ok x = true -> xe_abi_before_ok x = true ->
  (forall p, In p (xe_tx x) -> p = (true, true)) -> xe_abi_after_ok x = true ->
  (xe_params_changed x = true -> xe_set_params_ok x = true) ->
  xe_post_vhash x = vhash -> xe_nevents x <= max_events -> xe_eventroot x = eventroot ->
  xe_abi_commit_ok x = beq app_root (h_stateroot (b_header b)) ->
  receive s b (mkPE (txroot_f (b_txs b)) (assetroot_f (b_assets b))) v x = (Accepted, commit_block s b x).
Proof. exact generated_block_accepted_composed. Qed.

(* the header the generator is about to sign is never reported by IsHeaderContradictingChain of the node's own store *)
Theorem C15_forged_not_chain_contradicting : forall g t0 evs t h info (vts : Votes.votes) (hd : Votes.hdr),
  let s := run g init_header (init t0) evs in
  init_header (disk s) t g = Some (h, info) -> Votes.bh_of_hdr hd = h ->
  (forall bi, In bi (Votes.v_infos vts) -> Votes.i_gen bi = g -> In (Votes.bh_of_info bi) (published s)) ->
  Votes.chain_contradicting vts hd = false.
Proof. intros g t0 evs t h info vts hd s. apply forged_not_chain_contradicting. apply reachable_inv. Qed.

(* the empty aggregate commit at maxHeightCertified (what GetAggregateCommit returns when nothing can be aggregated)
   discharges hypothesis A *)
Theorem C15_empty_aggregate_commit_ok : forall tip g v,
  b_len (ge_agg_bits g) = 0 -> b_len (ge_agg_sig g) = 0 -> ge_agg_height g = ve_mh_cert v ->
  agg_commit_ok (b_header (forge_block tip g)) v = true.
Proof. exact empty_agg_commit_ok. Qed.

(* non-vacuity: an instantiated forge (tip at height 5, the slot's generator with persisted info (4,2,0), two selected
   transactions) is built and accepted by `receive` *)
Example C15_ex_forged_and_accepted :
  match Ex.blk with
  | Some b => h_height (b_header b) = 6 /\ h_mhg (b_header b) = 4 /\ h_mhp (b_header b) = 3 /\ h_gen (b_header b) = mkB 20 1 /\
              fst (receive (mkNode [Ex.tipB] 0 0 [] (Ex.B32 8)) b (mkPE (Ex.txroot_f (b_txs b)) (Ex.assetroot_f (b_assets b))) Ex.v Ex.x) = Accepted
  | None => False
  end.
Proof. exact Ex.forged_and_accepted. Qed.

(* ---------------------------------------------------------------- hypothesis A: bridge to C06's model of the aggregate commit *)
From LE Require Cert.AggCommit Cert.AssembleProofs Forge.AggBridge.
From Coq Require Import Permutation.
(* with the translation [corresponds] between the header / verifier environment of Exec.VerifyBlock and the commit / node
   state of Cert.AggCommit (same height, same emptiness of bitmap and signature, same BFT heights and next-parameter height,
   the two external verdicts computed as C06's verify computes them), whatever C06's verify accepts is accepted here *)
Theorem C15_aggregate_commit_bridge : forall (sigT msgT : Type) (sig_len0 : sigT -> bool) (msg_of : AggCommit.cert -> msgT)
    (fav : list AggCommit.key -> msgT -> sigT -> bool) h v ce a,
  AggBridge.corresponds sigT msgT sig_len0 msg_of fav h v ce a ->
  AggCommit.verify sig_len0 msg_of fav ce a = AggCommit.Accept -> agg_commit_ok h v = true.
Proof. exact AggBridge.verify_accept_bridge. Qed.

(* hypothesis A holds for every aggregate commit GetAggregateCommit assembles from a valid, duplicate-free pool
   (C06_assemble_accepts), under the ideal-BLS hypotheses of C06 *)
Theorem C15_assembled_aggregate_commit_accepted : forall (sigT msgT : Type) (sig_len0 : sigT -> bool) (msg_of : AggCommit.cert -> msgT)
    (fav : list AggCommit.key -> msgT -> sigT -> bool) (vrf : AggCommit.key -> msgT -> sigT -> bool) (agg : list sigT -> sigT)
    (key_ok : AggCommit.key -> Prop),
  (forall ks ss m ks', Forall key_ok ks -> Forall2 (fun k s => vrf k m s = true) ks ss -> ks <> [] -> Permutation ks ks' ->
                       fav ks' m (agg ss) = true) ->
  (forall ss, sig_len0 (agg ss) = false) ->
  forall e g ng a h v,
    AssembleProofs.params_wf key_ok e -> AssembleProofs.pool_ok sigT msgT msg_of vrf e (g ++ ng) ->
    AggCommit.get_aggregate_commit agg e g ng = AggCommit.GOk a ->
    AggBridge.corresponds sigT msgT sig_len0 msg_of fav h v e a ->
    agg_commit_ok h v = true.
Proof. exact AggBridge.assembled_commit_accepted. Qed.

(* ---------------------------------------------------------------- hypothesis T and shouldForge *)
From Coq Require Import ZArith.
(* shouldForge implies T provided the clock does not show a slot before the tip's (a block of a future slot is never
   accepted, so with a monotone clock the tip's slot is not ahead) ... *)
Theorem C15_should_forge_implies_T : forall cur last now start wait,
  (last <= cur)%Z -> should_forge cur last now start wait = true -> (last < cur)%Z.
Proof. exact should_forge_implies_T. Qed.

(* ... and only then: with the clock stepped back below the tip's slot shouldForge still says yes *)
Theorem C15_should_forge_clock_back_refuted :
  exists cur last now start wait, should_forge cur last now start wait = true /\ (cur < last)%Z.
Proof. exact should_forge_clock_back_refuted. Qed.
