(* C15 — property theorems only.  Statements are full; proofs are [exact lemma]. *)
From Coq Require Import List NArith Bool.
From LE Require Import BFT.Contradiction Forge.GenInfo Forge.GenInfoProofs Forge.Select Forge.SelectProofs.
Import ListNotations.
Local Open Scope N_scope.

(* ---------------------------------------------------------------- generator info (current code) *)
(* over ALL event sequences — every event is enabled in every state: forge ticks (crash before the persist, between
   persist and hand-off, or none), the tip becoming ANYTHING (own block processed, not yet processed or dropped;
   fork choice; block deletes; a failed sync leaving a lower tip), syncing on/off, restarts — the headers handed on
   by one generator never contradict each other.  No hypothesis on the environment. *)
Theorem C15_never_self_contradicting : forall g t0 evs,
  let s := run g init_header (init t0) evs in
  follower_ge (published s) /\
  forall b1 b2, In b1 (published s) -> In b2 (published s) -> b1 <> b2 -> contradicting b1 b2 = false.
Proof. exact never_self_contradicting. Qed.

(* without a crash between persist and hand-off the history is exactly a protocol follower of C07
   (C07_follower_never_flagged applies), and every header reports the largest height generated so far *)
Theorem C15_crash_free_history_is_follower : forall g t0 evs,
  no_crash_after_persist evs ->
  let s := run g init_header (init t0) evs in
  follower (published s) /\
  (forall t h info, init_header (disk s) t g = Some (h, info) -> mhg h = max_height (published s)).
Proof. exact crash_free_history_is_follower. Qed.

(* persist-then-hand-off: whatever was handed on is covered by the generator DB *)
Theorem C15_persisted_covers_published : forall g t0 evs,
  let s := run g init_header (init t0) evs in
  match disk s with
  | Some i => max_height (published s) <= N.max (gi_height i) (gi_mhg i)
  | None => published s = []
  end.
Proof. exact persisted_covers_published. Qed.

Theorem C15_follower_ge_never_flagged : forall hs, follower_ge hs ->
  forall b1 b2, In b1 hs -> In b2 hs -> b1 <> b2 -> contradicting b1 b2 = false.
Proof. exact follower_ge_never_flagged. Qed.

(* the guard refuses only what would not exceed the header generated last *)
Theorem C15_forge_not_refused_when_exceeding : forall d t g,
  match d with Some i => exceeds i (t_smhp t) (u32 (t_height t + 1)) = true | None => True end ->
  exists h info, init_header d t g = Some (h, info).
Proof. exact forge_not_refused_when_exceeding. Qed.

(* the original code (maxHeightGenerated = height of the LAST generated block) *)
Theorem C15_never_self_contradicting_orig_refuted :
  exists g t0 evs b1 b2, let s := run g init_header_orig (init t0) evs in
    In b1 (published s) /\ In b2 (published s) /\ b1 <> b2 /\ contradicting b1 b2 = true.
Proof. exact never_self_contradicting_orig_refuted. Qed.

(* the first repair alone (largest height, no guard): double forging when the own block is not processed before the
   next tick, and a contradicting header from a tip lowered by a failed sync *)
Theorem C15_never_self_contradicting_noguard_refuted :
  (exists g t0 b1 b2, let s := run g init_header_noguard (init t0) [EForge NoCrash; EForge NoCrash] in
     In b1 (published s) /\ In b2 (published s) /\ b1 <> b2 /\ contradicting b1 b2 = true) /\
  (exists g t0 t1 b1 b2, let s := run g init_header_noguard (init t0) [EForge NoCrash; ETip t1; EForge NoCrash] in
     t_height t1 < t_height t0 /\ In b1 (published s) /\ In b2 (published s) /\ b1 <> b2 /\ contradicting b1 b2 = true).
Proof. exact never_self_contradicting_noguard_refuted. Qed.

(* non-vacuity: the witness events on the current code *)
Example C15_ex_repaired :
  map (fun b => (height b, mhg b)) (published (run 7 init_header (init {| t_smhp := 50; t_height := 98 |}) w_evs))
  = [(91, 100); (90, 100); (100, 99); (99, 0)] /\
  length (published (run 7 init_header (init {| t_smhp := 3; t_height := 3 |}) [EForge NoCrash; EForge NoCrash])) = 1%nat.
Proof. exact repaired_on_witness. Qed.

(* ---------------------------------------------------------------- transaction selection *)
(* for every pool, size limit, outcome oracle (which may depend on what was executed before) and every pop
   trace the heap loop can produce: the output is the successful part of the trace in order, its size is within
   the limit, every popped transaction is the first remaining one of its sender and has maximal fee priority
   among the first remaining transactions of all senders still queued, and after a failing verify / execute
   nothing of that sender is tried again *)
Theorem C15_selection_spec : forall limit outcome pool trace out,
  valid_selection limit outcome pool trace out = true ->
  out = goods outcome [] trace /\
  sum_size out <= limit /\
  (forall pre t post, trace = pre ++ t :: post ->
     exists s1, run_trace limit outcome (start pool) pre = Some s1 /\
       is_head t (qs s1) = true /\ (forall h, In h (heads (qs s1)) -> prio h <= prio t) /\
       (outcome (rev (picked s1)) t <> Good -> forall p, In p post -> sender p <> sender t)).
Proof. exact selection_spec. Qed.

(* per-sender nonce order: what is tried of one sender is a gap-free prefix of its transactions sorted by nonce,
   each popped transaction being exactly the next one of its sender *)
Theorem C15_selection_nonce_order : forall limit outcome pool trace st',
  run_trace limit outcome (start pool) trace = Some st' ->
  (forall s, exists rest, of_sender s trace ++ rest = sender_queue pool s) /\
  (forall pre t post, trace = pre ++ t :: post ->
     exists rest, of_sender (sender t) pre ++ t :: rest = sender_queue pool (sender t)).
Proof. exact nonce_order. Qed.

(* the heads compared against are the next not yet tried transactions of the senders still queued *)
Theorem C15_selection_heads_are_next : forall limit outcome pool pre s1,
  run_trace limit outcome (start pool) pre = Some s1 ->
  forall s u l, queue_of s (qs s1) = Some (u :: l) -> of_sender s pre ++ u :: l = sender_queue pool s.
Proof. exact heads_are_next. Qed.

Example C15_ex_selection :
  let a1 := Build_tx 1 0 100 10 1 in let a2 := Build_tx 1 1 900 10 2 in let b1 := Build_tx 2 5 500 10 3 in
  valid_selection 25 (fun _ _ => Good) [a2; b1; a1] [b1; a1] [b1; a1] = true.
Proof. vm_compute. reflexivity. Qed.
