(* C11 — property theorems only.  Statements are full; proofs are [exact lemma].
   The hash is abstract: [hempty], [hleaf], [hbranch] are arbitrary (universally quantified) functions. *)
From Coq Require Import List NArith Bool.
From LE Require Import RMT.Root RMT.Append RMT.AppendProofs.
Import ListNotations.
Local Open Scope N_scope.

(* Appending leaves one by one = batch root (LIP-0031), for every list; size = length; the append path is the list of
   roots of the perfect sub-trees of the binary expansion of the length (smallest first); never panics. *)
Theorem C11_append_is_batch : forall (D Hsh : Type) (hempty : Hsh) (hleaf : D -> Hsh) (hbranch : Hsh -> Hsh -> Hsh) (l : list D),
  append_all hleaf hbranch l (rinit hempty) =
  Some (RS (mroot hempty hleaf hbranch l) (subtree_roots hempty hleaf hbranch l) (N.of_nat (length l))).
Proof. exact @append_is_batch. Qed.

(* mroot is the LIP-0031 root: empty, single leaf, and split at the largest power of two strictly below the length *)
Theorem C11_mroot_is_lip31 : forall (D Hsh : Type) (hempty : Hsh) (hleaf : D -> Hsh) (hbranch : Hsh -> Hsh -> Hsh),
  mroot hempty hleaf hbranch [] = hempty /\
  (forall x, mroot hempty hleaf hbranch [x] = hleaf x) /\
  (forall a l, pow2 a < length l <= pow2 (S a) ->
     mroot hempty hleaf hbranch l =
     hbranch (mroot hempty hleaf hbranch (firstn (pow2 a) l)) (mroot hempty hleaf hbranch (skipn (pow2 a) l)))%nat.
Proof.
  intros. split; [reflexivity|]. split; [reflexivity|]. intros a l [H1 H2]. apply mroot_split; assumption.
Qed.

(* continuing from any reachable state: appending l2 to the tree of l1 gives the tree of l1 ++ l2 *)
Theorem C11_append_continues : forall (D Hsh : Type) (hempty : Hsh) (hleaf : D -> Hsh) (hbranch : Hsh -> Hsh -> Hsh) (l1 l2 : list D),
  match append_all hleaf hbranch l1 (rinit hempty) with
  | Some s => append_all hleaf hbranch l2 s =
              Some (RS (mroot hempty hleaf hbranch (l1 ++ l2)) (subtree_roots hempty hleaf hbranch (l1 ++ l2))
                       (N.of_nat (length (l1 ++ l2))))
  | None => False
  end.
Proof. exact @append_all_app. Qed.

(* CalculateRootFromAppendPath (as repaired) computes exactly what Append does, on every state *)
Theorem C11_predict_equals_append : forall (D Hsh : Type) (hleaf : D -> Hsh) (hbranch : Hsh -> Hsh -> Hsh) (v : D) (s : rstate),
  (r_size s = 0 -> r_path s = []) ->
  predict hleaf hbranch v (r_path s) (r_size s) = append hleaf hbranch v s.
Proof. exact @predict_equals_append. Qed.

(* ... hence root, size and append path predicted from the append path of the tree of l are those of l ++ [x] *)
Theorem C11_predict_is_batch : forall (D Hsh : Type) (hempty : Hsh) (hleaf : D -> Hsh) (hbranch : Hsh -> Hsh -> Hsh) (l : list D) (x : D),
  predict hleaf hbranch x (subtree_roots hempty hleaf hbranch l) (N.of_nat (length l)) =
  Some (RS (mroot hempty hleaf hbranch (l ++ [x])) (subtree_roots hempty hleaf hbranch (l ++ [x]))
           (N.of_nat (length (l ++ [x])))).
Proof. exact @predict_is_batch. Qed.

(* the ORIGINAL CalculateRootFromAppendPath (folding the whole append path) is refuted: free hash, two leaves *)
Inductive fh := FE | FL (n : nat) | FB (l r : fh).
Theorem C11_original_predict_refuted : exists (l : list nat) (x : nat),
  predict_buggy FL FB x (subtree_roots FE FL FB l) (N.of_nat (length l)) <>
  Some (RS (mroot FE FL FB (l ++ [x])) (subtree_roots FE FL FB (l ++ [x])) (N.of_nat (length (l ++ [x])))).
Proof. exists [1; 2]%nat, 3%nat. vm_compute. discriminate. Qed.

(* non-vacuity *)
Example C11_ex_append5 :
  append_all FL FB [1; 2; 3; 4; 5]%nat (rinit FE) =
  Some (RS (FB (FB (FB (FL 1) (FL 2)) (FB (FL 3) (FL 4))) (FL 5)) [FL 5; FB (FB (FL 1) (FL 2)) (FB (FL 3) (FL 4))] 5)%nat.
Proof. vm_compute. reflexivity. Qed.
