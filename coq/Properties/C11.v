(* C11 — property theorems only.  Statements are full; proofs are [exact lemma].
   The hash is abstract: [hempty], [hleaf], [hbranch] are arbitrary (universally quantified) functions. *)
From Coq Require Import List NArith Bool.
From LE Require Import RMT.Root RMT.Append RMT.AppendProofs.
Import ListNotations.
Local Open Scope N_scope.

(* Appending leaves one by one = batch root (LIP-0031), for every list; size = length; the append path is the list of
   roots of the perfect sub-trees of the binary expansion of the length (smallest first); never panics. *)
Theorem C11_append_is_batch : forall (D Hsh : Type) (hempty : Hsh) (hleaf : D -> Hsh) (hbranch : Hsh -> Hsh -> Hsh) (l : list D),
  append_all hleaf hbranch l (rinit hempty) =
  Some (RS (mroot hempty hleaf hbranch l) (subtree_roots hempty hleaf hbranch l) (N.of_nat (length l))).
Proof. exact @append_is_batch. Qed.

(* mroot is the LIP-0031 root: empty, single leaf, and split at the largest power of two strictly below the length *)
Theorem C11_mroot_is_lip31 : forall (D Hsh : Type) (hempty : Hsh) (hleaf : D -> Hsh) (hbranch : Hsh -> Hsh -> Hsh),
  mroot hempty hleaf hbranch [] = hempty /\
  (forall x, mroot hempty hleaf hbranch [x] = hleaf x) /\
  (forall a l, pow2 a < length l <= pow2 (S a) ->
     mroot hempty hleaf hbranch l =
     hbranch (mroot hempty hleaf hbranch (firstn (pow2 a) l)) (mroot hempty hleaf hbranch (skipn (pow2 a) l)))%nat.
Proof.
  intros. split; [reflexivity|]. split; [reflexivity|]. intros a l [H1 H2]. apply mroot_split; assumption.
Qed.

(* continuing from any reachable state: appending l2 to the tree of l1 gives the tree of l1 ++ l2 *)
Theorem C11_append_continues : forall (D Hsh : Type) (hempty : Hsh) (hleaf : D -> Hsh) (hbranch : Hsh -> Hsh -> Hsh) (l1 l2 : list D),
  match append_all hleaf hbranch l1 (rinit hempty) with
  | Some s => append_all hleaf hbranch l2 s =
              Some (RS (mroot hempty hleaf hbranch (l1 ++ l2)) (subtree_roots hempty hleaf hbranch (l1 ++ l2))
                       (N.of_nat (length (l1 ++ l2))))
  | None => False
  end.
Proof. exact @append_all_app. Qed.

(* CalculateRootFromAppendPath (as repaired) computes exactly what Append does, on every state *)
Theorem C11_predict_equals_append : forall (D Hsh : Type) (hleaf : D -> Hsh) (hbranch : Hsh -> Hsh -> Hsh) (v : D) (s : rstate),
  (r_size s = 0 -> r_path s = []) ->
  predict hleaf hbranch v (r_path s) (r_size s) = append hleaf hbranch v s.
Proof. exact @predict_equals_append. Qed.

(* ... hence root, size and append path predicted from the append path of the tree of l are those of l ++ [x] *)
Theorem C11_predict_is_batch : forall (D Hsh : Type) (hempty : Hsh) (hleaf : D -> Hsh) (hbranch : Hsh -> Hsh -> Hsh) (l : list D) (x : D),
  predict hleaf hbranch x (subtree_roots hempty hleaf hbranch l) (N.of_nat (length l)) =
  Some (RS (mroot hempty hleaf hbranch (l ++ [x])) (subtree_roots hempty hleaf hbranch (l ++ [x]))
           (N.of_nat (length (l ++ [x])))).
Proof. exact @predict_is_batch. Qed.

(* the ORIGINAL CalculateRootFromAppendPath (folding the whole append path) is refuted: free hash, two leaves *)
Inductive fh := FE | FL (n : nat) | FB (l r : fh).
Theorem C11_original_predict_refuted : exists (l : list nat) (x : nat),
  predict_buggy FL FB x (subtree_roots FE FL FB l) (N.of_nat (length l)) <>
  Some (RS (mroot FE FL FB (l ++ [x])) (subtree_roots FE FL FB (l ++ [x])) (N.of_nat (length (l ++ [x])))).
Proof. exists [1; 2]%nat, 3%nat. vm_compute. discriminate. Qed.

(* non-vacuity *)
Example C11_ex_append5 :
  append_all FL FB [1; 2; 3; 4; 5]%nat (rinit FE) =
  Some (RS (FB (FB (FB (FL 1) (FL 2)) (FB (FL 3) (FL 4))) (FL 5)) [FL 5; FB (FB (FL 1) (FL 2)) (FB (FL 3) (FL 4))] 5)%nat.
Proof. vm_compute. reflexivity. Qed.

(* ==================== proofs, update, reload (second round) ==================== *)
From LE Require Import RMT.Proof RMT.NodeProofs RMT.IndexProofs RMT.ProofSoundTop RMT.ProofCompleteTop RMT.Reload RMT.ReloadScript RMT.UpdatePath RMT.MultiLists RMT.MultiFinal RMT.WitnessTop.

(* The (layer, index) addressing of the Go code: node (k, i) of l carries the LIP-0031 root of the slice
   l[i*2^k, (i+1)*2^k); a node whose right half is empty has the value of its left child, otherwise it is the branch
   hash of its children. *)
Theorem C11_node_addressing : forall (D Hsh : Type) (hempty : Hsh) (hleaf : D -> Hsh) (hbranch : Hsh -> Hsh -> Hsh)
    (l : list D) (k i : N),
  i * 2 ^ (k + 1) < len l ->
  nval hempty hleaf hbranch l (k + 1) i =
  if (2 * i + 1) * 2 ^ k <? len l
  then hbranch (nval hempty hleaf hbranch l k (2 * i)) (nval hempty hleaf hbranch l k (2 * i + 1))
  else nval hempty hleaf hbranch l k (2 * i).
Proof. exact @nval_step. Qed.

(* SOUNDNESS of VerifyProof (the faithful VerifyProof / calculatePathNodes model), every tree size 1 <= n <= 2^29, any
   number of claims, any sibling hashes, ARBITRARY index list (proof.Idxs comes with the proof and is not trusted): if the
   proof verifies against the LIP-0031 root of l then every claim at a leaf index (leaf_idx n pos = 2^height + pos) carries
   the leaf hash of l at that position -- whatever claims at internal, pass-through or ancestor indexes accompany it.
   (No hypothesis on idxs any more: as repaired, VerifyProof rejects indexes that are not 0 and not nodes of the tree, and
   calculatePathNodes compares a hash claimed for a parent index with the computed branch hash AND with the hash carried up
   through a node without sibling; before fix 373680a an ancestor claim could shadow a false leaf claim.)
   Hypotheses on the hash: the equality test decides equality, the branch hash is injective.  The size is the verifier's
   (len l = n): see C11_proof_position_wrong_size_refuted. *)
Theorem C11_proof_sound : forall (n : N), size_ok n ->
  forall (D Hsh : Type) (hempty : Hsh) (hleaf : D -> Hsh) (hbranch : Hsh -> Hsh -> Hsh) (heqb : Hsh -> Hsh -> bool),
  (forall a b, heqb a b = true -> a = b) ->
  (forall a b c d, hbranch a b = hbranch c d -> a = c /\ b = d) ->
  forall (l : list D), len l = n ->
  forall (qs : list Hsh) (idxs : list N) (sibs : list Hsh),
  verify_proof hbranch heqb qs n idxs sibs (mroot hempty hleaf hbranch l) = true ->
  forall (j : nat) (pos : N) (q : Hsh) (x : D),
  nth_error idxs j = Some (leaf_idx n pos) -> nth_error qs j = Some q -> nth_error l (N.to_nat pos) = Some x ->
  q = hleaf x.
Proof. exact @proof_sound. Qed.

(* ... and more: every accepted index is 0 or the index of a node (layer k, index i) of the tree, and EVERY claim -- leaf,
   branch node, pass-through node -- carries the value of its node, nval l k i = mroot of the 2^k-block i of l *)
Theorem C11_proof_sound_every_claim : forall (n : N), size_ok n ->
  forall (D Hsh : Type) (hempty : Hsh) (hleaf : D -> Hsh) (hbranch : Hsh -> Hsh -> Hsh) (heqb : Hsh -> Hsh -> bool),
  (forall a b, heqb a b = true -> a = b) ->
  (forall a b c d, hbranch a b = hbranch c d -> a = c /\ b = d) ->
  forall (l : list D), len l = n ->
  forall (qs : list Hsh) (idxs : list N) (sibs : list Hsh),
  verify_proof hbranch heqb qs n idxs sibs (mroot hempty hleaf hbranch l) = true ->
  (forall idx, In idx idxs -> idx = 0 \/ exists k i, vnode n k i /\ idx = nidx (get_height n) k i) /\
  (forall (j : nat) (k i : N) (q : Hsh),
     nth_error idxs j = Some (nidx (get_height n) k i) -> vnode n k i -> nth_error qs j = Some q ->
     q = nval hempty hleaf hbranch l k i).
Proof. exact @proof_sound_any. Qed.

(* "... or root": a proof that verifies against one root verifies against no other root (exact equality test) *)
Theorem C11_proof_rejects_other_root :
  forall (Hsh : Type) (hbranch : Hsh -> Hsh -> Hsh) (heqb : Hsh -> Hsh -> bool),
  (forall a b, heqb a b = true -> a = b) ->
  forall (qs : list Hsh) (n : N) (idxs : list N) (sibs : list Hsh) (root root' : Hsh),
  verify_proof hbranch heqb qs n idxs sibs root = true -> root' <> root ->
  verify_proof hbranch heqb qs n idxs sibs root' = false.
Proof.
  intros Hsh hbranch heqb He qs n idxs sibs root root' Hv Hne. unfold verify_proof in *.
  destruct (n =? 0)%N; [discriminate|].
  destruct (negb (forallb (fun i => (i =? 0)%N || valid_idx n i) idxs)); [discriminate|].
  destruct (root_of (calc_path_nodes hbranch heqb qs n idxs sibs)) as [r| |]; try discriminate.
  destruct (heqb r root') eqn:E; [|reflexivity]. exfalso. apply Hne.
  apply He in E. apply He in Hv. congruence.
Qed.

(* non-vacuity of the soundness hypotheses: the free hash is injective and its equality test is exact *)
Fixpoint fh_eqb (a b : fh) : bool :=
  match a, b with
  | FE, FE => true
  | FL x, FL y => Nat.eqb x y
  | FB a1 a2, FB b1 b2 => fh_eqb a1 b1 && fh_eqb a2 b2
  | _, _ => false
  end.
(* proof.Size is an UNAUTHENTICATED field of the Go proof: C11_proof_sound fixes the size by [len l = n], i.e. it is a
   statement for verifiers that know the size of the tree.  With a wrong size the POSITIONAL reading is false: the
   three-leaf tree accepts "position 1 of a two-leaf tree is leaf 3" (the data is a leaf of the tree, the position is not
   its position).  What is tested for wrong sizes (harness tampering kind 5) is the data-level reading: an accepted proof
   claims only hashes of leaves of the list.  VerifyProof has no caller in the repository; a caller must compare
   proof.Size with a trusted size. *)
Theorem C11_proof_position_wrong_size_refuted :
  exists (l : list nat) (size : N) (pos : N) (d : nat) (sibs : list fh),
    size <> len l /\
    verify_proof FB fh_eqb [FL d] size [leaf_idx size pos] sibs (mroot FE FL FB l) = true /\
    nth_error l (N.to_nat pos) <> Some d /\ In d l.
Proof.
  exists [1; 2; 3]%nat, 2, 1, 3%nat, [FB (FL 1%nat) (FL 2%nat)].
  split; [cbn; discriminate|]. split; [vm_compute; reflexivity|]. split; [cbn; discriminate|cbn; auto].
Qed.

(* ... hence a proof never verifies for other leaf data (under leaf-hash injectivity) *)
Theorem C11_proof_rejects_other_data : forall (n : N), size_ok n ->
  forall (D Hsh : Type) (hempty : Hsh) (hleaf : D -> Hsh) (hbranch : Hsh -> Hsh -> Hsh) (heqb : Hsh -> Hsh -> bool),
  (forall a b, heqb a b = true -> a = b) ->
  (forall a b c d, hbranch a b = hbranch c d -> a = c /\ b = d) ->
  (forall x y, hleaf x = hleaf y -> x = y) ->
  forall (l : list D), len l = n ->
  forall (ds : list D) (idxs : list N) (sibs : list Hsh) (j : nat) (pos : N) (d x : D),
  nth_error idxs j = Some (leaf_idx n pos) -> nth_error ds j = Some d -> nth_error l (N.to_nat pos) = Some x -> d <> x ->
  verify_proof hbranch heqb (map hleaf ds) n idxs sibs (mroot hempty hleaf hbranch l) = false.
Proof.
  intros n Hn D Hsh hempty hleaf hbranch heqb He Hb Hl l Hlen ds idxs sibs j pos d x Hi Hd Hx Hne.
  destruct (verify_proof hbranch heqb (map hleaf ds) n idxs sibs (mroot hempty hleaf hbranch l)) eqn:E; [|reflexivity].
  exfalso. apply Hne. apply Hl.
  eapply (proof_sound n Hn hempty hleaf hbranch heqb He Hb l Hlen (map hleaf ds) idxs sibs E j pos); eauto.
  rewrite nth_error_map, Hd. reflexivity.
Qed.

(* Queries are leaf POSITIONS in the model ([Some (0, pos)]).  The Go GenerateProof takes leaf HASHES and resolves them
   through a single-valued hash -> location index; that resolution is outside the model and is unambiguous only when the
   node hashes of the tree are pairwise distinct (known finding c11:seq:stale-hash-index for repeated values + Update). *)
(* COMPLETENESS, any subset of leaves: for every tree size 1 <= n <= 2^29 and every non-empty ascending list of leaf
   positions ps, GenerateProof on the store view [node_of l] returns (n, leaf indexes of ps, sibs) and VerifyProof of
   the leaf values at ps with that proof accepts against the LIP-0031 root of l.  (Prover and verifier are shown to
   process every level of the tree with the same emission / next-level functions; RMT/Multi*.v.)
   Hypothesis on the hash: the equality test is exact. *)
Theorem C11_proof_complete : forall (n : N), size_ok n ->
  forall (D Hsh : Type) (hempty : Hsh) (hleaf : D -> Hsh) (hbranch : Hsh -> Hsh -> Hsh) (heqb : Hsh -> Hsh -> bool),
  (forall a, heqb a a = true) -> (forall a b, heqb a b = true -> a = b) ->
  forall (l : list D), len l = n ->
  forall ps : list N, (forall p, In p ps -> p < n) -> asc ps -> ps <> [] ->
  exists sibs, generate_proof (node_of hempty hleaf hbranch l) n (map (fun p => Some (0, p)) ps) = Ok (n, map (leaf_idx n) ps, sibs) /\
               verify_proof hbranch heqb (map (nval hempty hleaf hbranch l 0) ps) n (map (leaf_idx n) ps) sibs
                            (mroot hempty hleaf hbranch l) = true.
Proof. exact @proof_complete_multi. Qed.

(* the leaf value of position p is the leaf hash of the p-th element *)
Theorem C11_leaf_value : forall (D Hsh : Type) (hempty : Hsh) (hleaf : D -> Hsh) (hbranch : Hsh -> Hsh -> Hsh) (l : list D) (i : N) (x : D),
  nth_error l (N.to_nat i) = Some x -> nval hempty hleaf hbranch l 0 i = hleaf x.
Proof. exact @nval_leaf. Qed.

(* UPDATE through a proof, any index set: lv is the list after the update (any list of the same length that agrees
   with l outside the positions ps); Update with the leaf hashes of lv at ps, using the sibling hashes read from the old
   tree, yields exactly the LIP-0031 root of lv. *)
Theorem C11_update_gives_root_of_modified_list : forall (n : N), size_ok n ->
  forall (D Hsh : Type) (hempty : Hsh) (hleaf : D -> Hsh) (hbranch : Hsh -> Hsh -> Hsh) (heqb : Hsh -> Hsh -> bool),
  (forall a, heqb a a = true) -> (forall a b, heqb a b = true -> a = b) ->
  forall (l : list D), len l = n ->
  forall ps : list N, (forall p, In p ps -> p < n) -> asc ps -> ps <> [] ->
  forall lv : list D, len lv = n -> (forall q, ~ In (N.of_nat q) ps -> nth_error lv q = nth_error l q) ->
  update_root hbranch heqb (node_of hempty hleaf hbranch l) n (map (leaf_idx n) ps) (map (nval hempty hleaf hbranch lv 0) ps) =
  Ok (mroot hempty hleaf hbranch lv).
Proof. exact @update_multi. Qed.

(* RIGHT WITNESS, every position 0 <= idx <= n of every list (1 <= n <= 2^29), any hash: GenerateRightWitness(idx) on the
   store view of l succeeds, and CalculateRootFromRightWitness applied to the append path of the first idx leaves and that
   witness returns the LIP-0031 root of l.  (Both Go loops keep incrementalIdx = (ancestor index + 1) * 2^layer; the
   witness is the list of existing right siblings of the left-child ancestors of leaf idx-1, the partial append path the
   list of perfect blocks of the binary expansion of idx: RMT/Witness*.v.) *)
Theorem C11_right_witness_reconstructs_root :
  forall (D Hsh : Type) (hempty : Hsh) (hleaf : D -> Hsh) (hbranch : Hsh -> Hsh -> Hsh) (n : N), size_ok n ->
  forall (l : list D), len l = n -> forall idx, idx <= n ->
  exists w, gen_right_witness (node_of hempty hleaf hbranch l) (subtree_roots hempty hleaf hbranch l) n idx = Ok w /\
            root_from_right_witness hempty hbranch idx (subtree_roots hempty hleaf hbranch (firstn (N.to_nat idx) l)) w =
            Ok (mroot hempty hleaf hbranch l).
Proof. exact @right_witness_reconstructs_root. Qed.

(* the append path alone reconstructs the root (getRootFromPath) *)
Theorem C11_append_path_reconstructs_root :
  forall (D Hsh : Type) (hempty : Hsh) (hleaf : D -> Hsh) (hbranch : Hsh -> Hsh -> Hsh) (l : list D), l <> [] ->
  root_from_path hempty hbranch (subtree_roots hempty hleaf hbranch l) = mroot hempty hleaf hbranch l.
Proof. exact @path_root. Qed.

(* Reload: after appending any non-empty list to a new tree, decoding the stored info record gives back the current
   state, which is (batch root, append path, size) of the list.  The codec round trip of the info record (C08) is the
   hypothesis. *)
Theorem C11_reload_preserves : forall (D Hsh : Type) (hempty : Hsh) (hleaf : D -> Hsh) (hbranch : Hsh -> Hsh -> Hsh)
    (enc : @rstate Hsh -> list N) (dec : list N -> option (@rstate Hsh)),
  (forall s, dec (enc s) = Some s) ->
  forall l : list D, l <> [] ->
  exists s c, append_all_st hleaf hbranch enc l (rinit hempty, None) = Some (s, c) /\ load dec c = Some s /\
              s = RS (mroot hempty hleaf hbranch l) (subtree_roots hempty hleaf hbranch l) (N.of_nat (length l)).
Proof. exact @reload_preserves. Qed.

(* Update writes the append path of the updated list (Update re-reads, after the node writes, the perfect blocks of the
   binary expansion of the size) *)
Theorem C11_update_refreshes_append_path : forall (n : N), size_ok n ->
  forall (D Hsh : Type) (hempty : Hsh) (hleaf : D -> Hsh) (hbranch : Hsh -> Hsh -> Hsh) (l l' : list D),
  len l = n -> len l' = n ->
  update_path (node_of hempty hleaf hbranch l') n (subtree_roots hempty hleaf hbranch l) = subtree_roots hempty hleaf hbranch l'.
Proof. exact @update_path_spec. Qed.

(* Reload over the whole life of a tree: every script of Append, Update (non-empty ascending existing positions, at most
   2^29 leaves) and re-open steps (after the first write) runs to the end on the model of the Go object + store cell,
   the final in-memory state is (LIP-0031 root, append path, size) of the final list, and the store cell decodes to that
   state -- in particular after an Update (saveInfo after the path refresh) and across re-open steps in the middle.
   Hypothesis: round trip of the info codec (C08).  That the Go node store holds the view node_of of the current list is
   tested (seq scripts with re-open steps), not proved. *)
Theorem C11_reload_continues :
  forall (D Hsh : Type) (hempty : Hsh) (hleaf : D -> Hsh) (hbranch : Hsh -> Hsh -> Hsh) (heqb : Hsh -> Hsh -> bool),
  (forall a, heqb a a = true) -> (forall a b, heqb a b = true -> a = b) ->
  forall (enc : @rstate Hsh -> list N) (dec : list N -> option (@rstate Hsh)), (forall s, dec (enc s) = Some s) ->
  forall os : list (@op D), script_ok [] os ->
  exists s' c', run hempty hleaf hbranch heqb enc dec os ([], rinit hempty, None) = Some (final [] os, s', c') /\
                s' = RS (mroot hempty hleaf hbranch (final [] os)) (subtree_roots hempty hleaf hbranch (final [] os))
                        (N.of_nat (length (final [] os))) /\
                (final [] os <> [] -> load dec c' = Some s').
Proof. exact @reload_script_new. Qed.

Example C11_ex_proof5 :
  exists sibs, generate_proof (node_of FE FL FB [1; 2; 3; 4; 5]%nat) 5 [Some (0, 4)] = Ok (5, [leaf_idx 5 4], sibs) /\
               sibs = [FB (FB (FL 1) (FL 2)) (FB (FL 3) (FL 4))]%nat /\
               verify_proof FB fh_eqb [FL 5%nat] 5 [leaf_idx 5 4] sibs (mroot FE FL FB [1; 2; 3; 4; 5]%nat) = true.
Proof. eexists. split; [vm_compute; reflexivity|]. split; [reflexivity|vm_compute; reflexivity]. Qed.

From Coq Require Import Lia.
(* non-vacuity of C11_reload_continues: a script with appends, a single and a double Update and two re-open steps
   satisfies script_ok (second audit's witness) *)
Definition C11_ex_script : list (@op nat) :=
  [OApp 1%nat; OApp 2%nat; OApp 3%nat; OUpd [2%N] [1; 2; 9]%nat; OReopen; OApp 4%nat; OUpd [0%N; 3%N] [7; 2; 9; 8]%nat; OReopen].
Example C11_ex_reload_script_ok : script_ok [] C11_ex_script /\ final [] C11_ex_script = [7; 2; 9; 8]%nat.
Proof.
  split; [|reflexivity].
  cbn [C11_ex_script script_ok op_ok after app].
  repeat split; try discriminate; try (cbn; lia).
  - intros q Hq. do 3 (destruct q as [|q]; [try reflexivity; exfalso; apply Hq; cbn; auto|]). reflexivity.
  - intros q Hq. do 4 (destruct q as [|q]; [try reflexivity; exfalso; apply Hq; cbn; auto|]). reflexivity.
Qed.

(* KNOWN FINDING c11:seq:stale-hash-index as a theorem.  GenerateProof takes leaf HASHES and resolves them through the
   hash -> location index of rmt.go.  Its leaf part: saveNode(hash, location) overwrites the entry of that hash on every
   Append and Update, nothing is ever deleted (replaceNode's Del(prevValue) deletes an un-prefixed key, i.e. nothing).  So a
   hash resolves to the position of its LAST write, whether or not the value is still there: after [a; b; a] and
   Update(2 := c) the value a is in the list (position 0) but resolves to position 2, which holds c.  The correspondence
   (Corr.C11.check_seq: writes / last_write) checks that the Go resolution is exactly this function on every script. *)
Section HashIndex.
  Context {D Hsh : Type}.
  Variable hleaf : D -> Hsh.
  Variable heqb : Hsh -> Hsh -> bool.
  Inductive iop := IApp (v : D) | IUpd (pos : nat) (v : D).
  Definition istep (st : list D * list (Hsh * nat)) (o : iop) : list D * list (Hsh * nat) :=
    let '(l, ix) := st in
    match o with
    | IApp v => (l ++ [v], (hleaf v, length l) :: ix)
    | IUpd pos v => (upd l pos v, (hleaf v, pos) :: ix)
    end.
  Definition resolve (ix : list (Hsh * nat)) (h : Hsh) : option nat :=
    match find (fun p => heqb (fst p) h) ix with Some p => Some (snd p) | None => None end.
End HashIndex.
Theorem C11_resolution_by_hash_refuted :
  exists (script : list (@iop nat)) (a : nat),
    let '(l, ix) := fold_left (istep FL) script ([], []) in
    In a l /\ exists p, resolve fh_eqb ix (FL a) = Some p /\ nth_error l p <> Some a.
Proof.
  exists [IApp 1; IApp 2; IApp 1; IUpd 2 3]%nat, 1%nat. cbn. split; [auto|]. exists 2%nat. split; [reflexivity|discriminate].
Qed.

(* why VerifyProof must check the indexes (fix 0399db1): calculatePathNodes alone reaches the true root of [1..6] from the
   FALSE claim "node (layer 1, index 2) has hash H(5)" (its value is B(H 5, H 6)) helped by a claim at index 11 = (layer 1,
   index 3), which names no node of a tree of 6 leaves; VerifyProof rejects that index *)
Example C11_ex_index_check_needed :
  let sibs := [FB (FB (FL 1) (FL 2)) (FB (FL 3) (FL 4))]%nat in
  let root := mroot FE FL FB [1; 2; 3; 4; 5; 6]%nat in
  root_of (calc_path_nodes FB fh_eqb [FL 5; FL 6]%nat 6 [10; 11]%N sibs) = Ok root /\
  nval FE FL FB [1; 2; 3; 4; 5; 6]%nat 1 2 <> FL 5%nat /\
  verify_proof FB fh_eqb [FL 5; FL 6]%nat 6 [10; 11]%N sibs root = false.
Proof. vm_compute. repeat split; try reflexivity. discriminate. Qed.
