(* C17 — P2P request/response: property theorems only.  Statements are full; proofs are [exact lemma].
   [reachable c s] = s is reached from the empty state by ANY finite sequence of events (any interleaving of any
   number of requesters, response-handler goroutines, timers, cancellations, retries, send failures; responses may be
   early, late, duplicated or carry any ID).  [good c] = the skeleton facts of the repaired code ([fixed]); the
   generated skeleton (Gen/ReqResp.v, from the Go source) must compute to [fixed]. *)
From Coq Require Import List NArith Bool.
From LE Require Import P2P.ReqResp P2P.ReqRespProofs P2P.ReqRespCount P2P.ReqRespDrop Gen.ReqResp.
Import ListNotations.
Local Open Scope N_scope.

(* the Go source currently has the modelled skeleton and constants *)
Theorem C17_generated_skeleton_is_modelled :
  gen_send_skel = skel_send_fixed /\ gen_onresp_skel = skel_onresp_fixed /\
  cfg_of_skel gen_send_skel gen_onresp_skel gen_max_retries = Some fixed /\ good fixed = true /\
  (0 <? gen_timeout_ms) = true.
Proof. vm_compute. repeat split; reflexivity. Qed.

(* correlation: a delivered response is a response message that really arrived and carries the request's own ID
   (holds for the code before the fix as well) *)
Theorem C17_correlation : forall c s, reachable c s -> forall id q r,
  get (reqs s) id = Some q -> st q = RDone r -> rid r = id /\ In r (emitted s).
Proof. exact correlation. Qed.

(* ... hence, when the remote side answers request id with h(id), the caller of id gets h(id) *)
Theorem C17_correlation_honest : forall c s (h : N -> N), reachable c s ->
  (forall r, In r (emitted s) -> payload r = h (rid r)) ->
  forall id q r, get (reqs s) id = Some q -> st q = RDone r -> payload r = h id.
Proof. exact correlation_honest. Qed.

(* no lost reply: if a response for id reached onResponse's lookup after id was sent, before its timer fired and
   while its context was live ([arrived]), then id cannot end with a timeout or any other error: it ends with a
   response carrying id, unless the caller cancelled in the meantime *)
Theorem C17_no_lost_reply : forall c s, good c = true -> reachable c s -> forall id q,
  get (reqs s) id = Some q -> arrived q = true -> ended (st q) = true ->
  (exists r, st q = RDone r /\ rid r = id) \/ (st q = RCancelled /\ mem (call q) (cancelled s) = true).
Proof. exact no_lost_reply. Qed.

(* ... where "arrives" means: reaches the lookup. Before the lock onResponse can drop a message at exactly the pinned early
   returns (stream read error, envelope does not decode, no handler registered for the procedure, rate limiter error): in the
   model these are the [RespondBad] messages, whose only step is [Drop]; it changes nothing but the goroutine itself, and such a
   goroutine can neither take resMu nor deliver. So: arrived in time /\ well-formed /\ known procedure /\ limiter passes
   ==> delivered (C17_no_lost_reply), and nothing else is dropped before the lock (the list is regenerated from the source). *)
Theorem C17_drops_before_lock_are_the_pinned_ones :
  gen_onresp_drops = onresp_drops_modelled /\ gen_onreq_drops = onreq_drops_modelled.
Proof. vm_compute. split; reflexivity. Qed.

(* ... over every continuation of every state (so in particular of every reachable one): the goroutine of such a message never takes
   resMu and never delivers *)
Theorem C17_bad_message_never_delivered : forall c es s s' t th,
  run c s es = Some s' -> get (thrs s) t = Some th -> inert (tpc th) ->
  (exists th', get (thrs s') t = Some th' /\ inert (tpc th')) /\
  forall pre e post, es = pre ++ e :: post -> e <> Lock t /\ e <> Deliver t.
Proof. exact bad_message_never_delivered. Qed.

Theorem C17_pinned_bodies : gen_pinned_bodies = pinned_bodies_modelled /\ gen_timeout_writers = nil.
Proof. vm_compute. split; reflexivity. Qed.

Theorem C17_drop_only_bad_and_inert : forall c s t s', step c s (Drop t) = Some s' ->
  (exists th, get (thrs s) t = Some th /\ tpc th = TBad) /\ reqs s' = reqs s /\ chans s' = chans s /\ mu s' = mu s.
Proof. exact drop_only_bad. Qed.

Theorem C17_bad_message_never_reaches_lookup : forall c s t th, get (thrs s) t = Some th -> tpc th = TBad ->
  step c s (Lock t) = None /\ step c s (Deliver t) = None.
Proof. exact bad_thread_inert. Qed.

(* progress: the goroutine holding resMu is never blocked *)
Theorem C17_progress_lock_holder_never_blocked : forall c s, good c = true -> reachable c s ->
  forall t, mu s = Some t -> step c s (Deliver t) <> None.
Proof. exact progress_holder. Qed.

(* no reachable state is stuck: every unfinished attempt can be completed from ANY reachable state by at most six steps:
   the lock holder's release, the attempt's own steps and its own timer; nobody else has to move *)
Theorem C17_no_stuck_state : forall c s, good c = true -> reachable c s -> forall id q,
  get (reqs s) id = Some q -> ended (st q) = false ->
  exists s', run c s (finish_evs s id) = Some s' /\ ended_in s' id /\ (length (finish_evs s id) <= 6)%nat.
Proof. exact can_finish. Qed.

(* no leak: resCh holds exactly the attempts between registration and deregistration; it is empty once all ended *)
Theorem C17_pending_exact : forall c s, reachable c s -> forall id,
  mem id (chans s) = true <-> exists q, get (reqs s) id = Some q /\ registered_st (st q) = true.
Proof. exact pending_exact. Qed.

Theorem C17_no_leak : forall c s, reachable c s -> all_ended s -> chans s = [].
Proof. exact no_leak. Qed.

Theorem C17_pending_no_duplicates : forall c s, reachable c s -> NoDup (chans s).
Proof. exact inv_nodup. Qed.

(* bounded completion: at most max_retries + 1 attempts per call (loop index never exceeds the budget), each attempt
   takes at most four own steps in any run; together with C17_no_stuck_state every call ends after at most
   (max_retries + 1) timer periods *)
Theorem C17_bounded_attempts : forall c s, reachable c s -> forall id q,
  get (reqs s) id = Some q -> attempt q <= max_retries c.
Proof. exact inv_att. Qed.

(* ... as a count: any set of distinct attempt IDs belonging to one call has at most max_retries + 1 elements, in every
   reachable state of every configuration (attempt numbers are unique within a call) *)
Theorem C17_attempts_per_call_bounded : forall c s, reachable c s -> forall cl l, NoDup l ->
  (forall id, In id l -> exists q, get (reqs s) id = Some q /\ call q = cl) ->
  (length l <= N.to_nat (max_retries c) + 1)%nat.
Proof. exact attempts_per_call_bounded. Qed.

Theorem C17_bounded_own_steps : forall c es s s' id q,
  run c s es = Some s' -> get (reqs s) id = Some q -> (count_own es id <= 4)%nat.
Proof. exact attempt_own_steps_le4. Qed.

(* ---- the code before the fix commit (configuration [orig], skeleton [skel_send_orig]/[skel_onresp_orig]) *)

Theorem C17_orig_skeleton : cfg_of_skel skel_send_orig skel_onresp_orig 3 = Some orig.
Proof. exact skel_orig_cfg. Qed.

(* a response handled between send and registration is lost and the attempt times out *)
Theorem C17_no_lost_reply_refuted :
  exists s q, run orig init lost_reply_schedule = Some s /\ get (reqs s) 1 = Some q /\
              arrived q = true /\ st q = RTimedOut /\ In r1 (emitted s).
Proof. exact orig_loses_early_reply. Qed.

(* a response racing the timeout: onResponse blocks on the unbuffered channel holding resMu, the requester needs resMu;
   from that reachable state NO continuation ever releases resMu or ends the request *)
Theorem C17_progress_refuted :
  run orig init deadlock_schedule = Some deadlock_state /\
  mu deadlock_state = Some 7 /\ step orig deadlock_state (Deliver 7) = None /\ step orig deadlock_state (Dereg 1) = None /\
  forall es s', run orig deadlock_state es = Some s' ->
    mu s' = Some 7 /\ (exists q, get (reqs s') 1 = Some q /\ st q = RTimedSel) /\ mem 1 (chans s') = true.
Proof. exact progress_refuted. Qed.

(* buffering the channel without making the send non-blocking is not enough: a duplicate response deadlocks *)
Theorem C17_buffer_alone_insufficient :
  exists s, run buffered_blocking init duplicate_schedule = Some s /\ mu s = Some 8 /\
            step buffered_blocking s (Deliver 8) = None /\ step buffered_blocking s (Dereg 1) = None.
Proof. exact buffer_alone_insufficient. Qed.

(* non-vacuity: the repaired configuration runs the same races to a good end *)
Example C17_fixed_keeps_early_reply :
  exists s q, run fixed init early_reply_schedule_fixed = Some s /\ get (reqs s) 1 = Some q /\ st q = RDone r1 /\ chans s = [].
Proof. exact fixed_keeps_early_reply. Qed.

Example C17_fixed_survives_duplicate :
  exists s q, run fixed init (duplicate_schedule ++ [Deliver 8; Dereg 1]) = Some s /\ get (reqs s) 1 = Some q /\
              st q = RDone r1 /\ chans s = [] /\ mu s = None.
Proof. exact fixed_survives_duplicate. Qed.
