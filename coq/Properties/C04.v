(* C04 — finalized blocks are irreversible and the finalized height never decreases.  Statements only. *)
From Coq Require Import List NArith Bool.
From LE Require Import Chain.Finality Chain.FinalityProofs Chain.MutatorsExpected Gen.Mutators.
Import ListNotations.
Local Open Scope list_scope.
Local Open Scope N_scope.

(* the cache invariant under which the operations are those of the code holds along every history *)
Theorem C04_cache_invariant : forall g ops, Inv (run (init g) ops).
Proof. intros. apply inv_run, inv_init. Qed.

Theorem C04_finalized_monotone : forall ops s, fin s <= fin (run s ops).
Proof. exact finalized_monotone. Qed.

(* for every height at or below the finalized height, the block served never changes, along every sequence of
   applies (valid or not, any post-state precommit value), delete requests (any height, with/without temp), restarts
   and temp clears *)
Theorem C04_finalized_ids_stable : forall ops s h x, Inv s -> h <= fin s ->
  block_at s h = Some x -> block_at (run s ops) h = Some x.
Proof. exact finalized_ids_stable. Qed.

Theorem C04_finalized_ids_stable_history : forall ops1 ops2 s h x, Inv s ->
  h <= fin (run s ops1) -> block_at (run s ops1) h = Some x -> block_at (run s (ops1 ++ ops2)) h = Some x.
Proof. exact finalized_ids_stable_history. Qed.

(* the stored height is raised to max(stored, maxHeightPrecommited) in the step that appends the block *)
Theorem C04_finalized_tracks_precommit : forall s id p rt, Inv s ->
  let s' := step s (Apply id true p rt) in
  fin s' = N.max (fin s) p /\ chain s' = chain s ++ [id] /\ block_at s' (N.of_nat (length (chain s))) = Some id.
Proof. exact finalized_tracks_precommit. Qed.

Theorem C04_finalized_changes_only_on_accept : forall s o,
  fin (step s o) <> fin s -> exists id p rt, o = Apply id true p rt /\ fin s < p /\ fin (step s o) = p.
Proof. exact finalized_changes_only_on_accept. Qed.

(* the finalize events published along a history are exactly its raises, in order, each (old value, new value) *)
Theorem C04_finalize_event_iff_raise : forall ops s,
  finalizes (emitted (run s ops)) = finalizes (emitted s) ++ raises s ops.
Proof. exact finalize_event_iff_raise. Qed.

Theorem C04_raises_strict : forall ops s o n, In (o, n) (raises s ops) -> o < n.
Proof. exact raises_strict. Qed.

(* whatever height a delete request names, the block removed is the tip and it lies strictly above the finalized height *)
Theorem C04_delete_respects_finality : forall s h save env id,
  In (FDelete id) (emitted (step s (Delete h save env))) -> ~ In (FDelete id) (emitted s) ->
  let n := length (chain (step s (Delete h save env))) in
  fin s < N.of_nat n /\ (Inv s -> block_at s (N.of_nat n) = Some id /\ length (chain s) = S n).
Proof. exact delete_respects_finality. Qed.

(* ---- mutator closure, regenerated from the source on every run (abstract interpretation, helpers inlined) ---- *)
(* every exported step creates at most one batch, stages only into it (or into the batch it was given), commits it exactly once
   and writes nothing to the database directly *)
Theorem C04_steps_shape : found_steps = expected_steps.
Proof. vm_compute. reflexivity. Qed.

(* in the two packages: three database.Write call sites (AddBlock, RemoveBlock, ClearTempBlocks) and no direct database write,
   not even through a parameter bound to the database handle *)
Theorem C04_global_writes : found_global = expected_global.
Proof. vm_compute. reflexivity. Qed.

(* every block handed to deleteBlock (directly, through the syncers' reverter, through helpers) comes from LastBlock() *)
Theorem C04_delete_origin : found_delete_origin = expected_delete_origin.
Proof. vm_compute. reflexivity. Qed.

(* non-vacuity: a history with a fork, a refused deletion at the finalized height and a restart *)
Example C04_example :
  let ops := [Apply 11 true 0 false; Apply 12 true 1 false; Apply 13 false 9 false; Delete 2 true true; Apply 22 true 1 false;
              Restart; Delete 2 false true; Delete 1 false true; Delete 0 false true; ClearTemp] in
  let s := run (init 10) ops in
  chain s = [10; 11] /\ fin s = 1 /\ finalizes (emitted s) = [(0, 1)] /\ temp s = [].
Proof. vm_compute. repeat split. Qed.
