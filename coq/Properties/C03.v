(* C03 — only fully valid blocks extend the chain; rejected blocks change nothing.  Statements only. *)
From Coq Require Import List NArith Bool.
From LE Require Import BFT.ForkChoice Exec.VerifyBlock Exec.Process Exec.ProcessProofs Exec.ProcessTrace Exec.ProcessTraceProofs.
Import ListNotations.
Local Open Scope N_scope.

(* The ordered checks of Block.Validate + verifyBlock + processValidated accept a block exactly when it satisfies the
   declarative rule list of the property statement ([valid_block], Exec/Process.v), for every node state with a tip, every
   block and every combination of external answers. *)
Theorem C03_accept_iff_rules : forall s tip b p v x, tip_header s = Some tip ->
  (fst (receive s b p v x) = Accepted <-> valid_block tip b p v x).
Proof. exact accept_iff_rules. Qed.

(* The boolean oracle used by the correspondence is that same rule list. *)
Theorem C03_oracle_is_rule_list : forall tip b p v x, valid_block_b tip b p v x = true <-> valid_block tip b p v x.
Proof. exact valid_block_b_ok. Qed.

(* A block that is not accepted leaves chain, consensus store, finalized height, published events and the state root last
   committed to the application exactly as they were. *)
Theorem C03_reject_no_change : forall s b p v x, fst (receive s b p v x) <> Accepted -> snd (receive s b p v x) = s.
Proof. exact reject_no_change. Qed.

Theorem C03_reject_no_change_processValidated : forall s b v x,
  fst (process_validated s b v x) <> Accepted -> snd (process_validated s b v x) = s.
Proof. exact reject_no_change_pv. Qed.

(* An accepted block is appended; the consensus store becomes the post-state store, the finalized height the maximum of the
   stored one and the post-state maxHeightPrecommited, and the publications are Finalize (iff raised), New, ValidatorsChange. *)
Theorem C03_accepted_is_append : forall s b p v x, fst (receive s b p v x) = Accepted ->
  let s' := snd (receive s b p v x) in
  n_chain s' = n_chain s ++ [b] /\
  n_cs s' = xe_post_cs x /\
  n_finalized s' = N.max (n_finalized s) (xe_post_precommit x) /\
  n_emitted s' = n_emitted s
                 ++ (if n_finalized s <? xe_post_precommit x
                     then [PFinalize (n_finalized s) (xe_post_precommit x) (h_id (b_header b))] else [])
                 ++ [PNew (h_id (b_header b)) (xe_nevents x)]
                 ++ (if xe_params_changed x then [PValidators] else []) /\
  n_app s' = h_stateroot (b_header b).
Proof. exact accepted_is_append. Qed.

(* Fork-choice entry point.  Full statement wanted:
     forall s b k p v x t, accepted_p (fst (process s b k p v x t)) = false -> snd (process s b k p v x t) = s.
   It holds for every fork-choice class except TieBreak (extra hypothesis k <> TieBreak); see the refutation below. *)
Theorem C03_process_reject_no_change_partial : forall s b k p v x t, k <> TieBreak ->
  accepted_p (fst (process s b k p v x t)) = false -> snd (process s b k p v x t) = s.
Proof. exact process_reject_no_change_partial. Qed.

(* Tie-break branch, rejected competitor, old tip re-applied.  PARTIAL: the extra hypothesis [reexecution_deterministic] is an
   ASSUMPTION about the environment (re-executing the deleted tip on the state it was deleted from gives the answers of its first
   execution: same consensus store, precommitted height not above the stored finalized height, its state root is the
   application's); it is not derived in the model, where execution answers are inputs.  Under it the node is EXACTLY as before
   except for the publications Delete(old tip), New(old tip) (and ValidatorsChange again if the old tip changed the parameters). *)
Theorem C03_process_tiebreak_restores_state_partial : forall s b p v x t r s' old rest,
  rev (n_chain s) = old :: rest ->
  process s b TieBreak p v x t = (PTieRestored r, s') ->
  reexecution_deterministic s t old ->
  s' = mkNode (n_chain s) (n_cs s) (n_finalized s)
              (n_emitted s ++ [PDelete (h_id (b_header old)); PNew (h_id (b_header old)) (xe_nevents (te_old_x t))]
                           ++ (if xe_params_changed (te_old_x t) then [PValidators] else []))
              (n_app s).
Proof. exact process_tiebreak_restores_state_partial. Qed.

(* processValidated as ordered stages (Exec/ProcessTrace.v: a check followed by the effects performed right after it, in the
   order of execute.go).  A block failing ANY check leaves no effect at all: no application commit (ABI Commit), no database
   write, no cache push, no publication.  Unlike C03_reject_no_change this is a statement about the ORDER of the stage list: moving
   the ABI commit (or the write) before a check makes it false. *)
Theorem C03_no_effect_before_last_check : forall s b v x cache_ok r acc,
  pv_trace s b v x cache_ok = (TRejected r, acc) -> acc = [].
Proof. exact no_effect_before_last_check. Qed.

(* every check passed: application commit, then exactly one database write, then the cache push, then the publications *)
Theorem C03_accepted_trace_order : forall s b v x acc,
  pv_trace s b v x true = (TAccepted, acc) ->
  exists pubs, acc = [EAbiCommit (h_stateroot (b_header b));
                      EDbWrite b (xe_post_cs x) (N.max (n_finalized s) (xe_post_precommit x)); ECachePush] ++ map EPublish pubs.
Proof. exact accepted_trace_order. Qed.

(* Chain.AddBlock returning the cache-push error: it is returned AFTER the application commit and the database write (the block is
   durably appended although an error is reported; nothing is published).  Not a rule failure; unreachable while the cache
   invariant of C04 holds (C04_cache_invariant). *)
Theorem C03_cache_error_after_commit : forall s b v x acc,
  pv_trace s b v x false = (TCommittedThenCacheError, acc) ->
  acc = [EAbiCommit (h_stateroot (b_header b)); EDbWrite b (xe_post_cs x) (N.max (n_finalized s) (xe_post_precommit x))].
Proof. exact cache_error_after_commit. Qed.

(* the stage list is the step function: same verdict, and applying its effects gives the node of process_validated *)
Theorem C03_trace_refines_process_validated : forall s b v x,
  tip_header s <> None ->
  let '(o, acc) := pv_trace s b v x true in
  let '(o', s') := process_validated s b v x in
  apply_effs s acc = s' /\
  match o, o' with
  | TAccepted, Accepted => True
  | TRejected r, Rejected r' => r = r'
  | _, _ => False
  end.
Proof. exact trace_refines_process_validated. Qed.

(* ---- witnesses ---- *)
Definition id (n : N) : bstr := mkB 32 n.
Definition ad (n : N) : bstr := mkB 20 n.
Definition ex_hdr (height ts : N) (prev self gen : N) (sigc : N) : header :=
  mkH 2 ts height (id prev) (ad gen) (id 100) (id 101) (id 102) (id 103) 0 0 false (id 104) 0 (mkB 0 0) (mkB 0 0) (mkB 64 sigc) (id self).
Definition ex_parent : block := mkBlk (ex_hdr 4 1040 3 4 7 1) [] [].
Definition ex_tip : block := mkBlk (ex_hdr 5 1050 4 5 8 2) [] [].
Definition ex_new : block := mkBlk (ex_hdr 5 1060 4 6 9 3) [] [].
Definition ex_succ : block := mkBlk (ex_hdr 6 1060 5 6 9 3) [mkTx (id 50) 120 true] [mkAs 1 (mkB 4 60); mkAs 2 (mkB 8 61)].
Definition ex_pe : payload_env := mkPE (id 100) (id 101).
Definition ex_ve (sig_ok : bool) : venv := mkVE 1000 10 1065 15360 true [ad 9; ad 7; ad 8] 0 false 3 0 None true true sig_ok.
Definition ex_xe (cs : N) : xenv := mkXE true true true true [(true, true)] true false true (id 104) 2 (id 102) 3 true cs.
Definition ex_node : node := mkNode [ex_parent; ex_tip] 77 1 [] (id 103).

(* non-vacuity: a block satisfying every rule exists and is accepted, with a finality raise *)
Example C03_example_accept :
  receive ex_node ex_succ ex_pe (ex_ve true) (ex_xe 78)
  = (Accepted, mkNode [ex_parent; ex_tip; ex_succ] 78 3 [PFinalize 1 3 (id 6); PNew (id 6) 2] (id 103)).
Proof. vm_compute. reflexivity. Qed.

Example C03_example_reject_signature :
  receive ex_node ex_succ ex_pe (ex_ve false) (ex_xe 78) = (Rejected RSignature, ex_node).
Proof. vm_compute. reflexivity. Qed.

(* the aggregate-commit rule is the declarative one, and its bounds are tight: with last certified height 0, precommitted
   height 7 and a change of BFT parameters at height 5, genuine commits for heights 1..4 pass, 0, 5 and 8 do not *)
Theorem C03_aggregate_commit_rule : forall h v, agg_commit_ok h v = true <-> valid_aggregate_commit h v.
Proof. exact agg_commit_ok_ok. Qed.

Definition ex_agg_hdr (aggh : N) : header :=
  mkH 2 1060 6 (id 5) (ad 9) (id 100) (id 101) (id 102) (id 103) 0 0 false (id 104) aggh (mkB 1 7) (mkB 96 8) (mkB 64 3) (id 6).
Definition ex_agg_ve : venv := mkVE 1000 10 1065 15360 true [ad 9; ad 7; ad 8] 0 false 7 0 (Some 5) true true true.
Example C03_example_aggregate_bounds :
  map (fun a => agg_commit_ok (ex_agg_hdr a) ex_agg_ve) [0; 1; 4; 5; 7; 8] = [false; true; true; false; false; false].
Proof. vm_compute. reflexivity. Qed.

(* non-vacuity of the partial tie-break theorem: its hypotheses are satisfiable and the outcome is PTieRestored *)
Definition ex_old_x : xenv := mkXE true true true true [(true, true)] true false true (id 104) 2 (id 102) 1 true 77.
Definition ex_tenv : tenv := mkTE (mkDE true true 76) (mkVE 1000 10 1065 15360 true [ad 9; ad 7; ad 8] 0 false 3 0 None true true true) ex_old_x.
Example C03_example_tiebreak_restored :
  fst (process ex_node ex_new TieBreak ex_pe (ex_ve false) (ex_xe 79) ex_tenv) = PTieRestored RSignature /\
  reexecution_deterministic ex_node ex_tenv ex_tip /\
  snd (process ex_node ex_new TieBreak ex_pe (ex_ve false) (ex_xe 79) ex_tenv)
  = mkNode [ex_parent; ex_tip] 77 1 [PDelete (id 5); PNew (id 5) 2] (id 103).
Proof. vm_compute. repeat split; try reflexivity; discriminate. Qed.

(* the full "rejected blocks change nothing" statement is false of process: tie-break with an invalid competing block *)
Theorem C03_process_reject_no_change_refuted : exists s b k p v x t,
  accepted_p (fst (process s b k p v x t)) = false /\
  n_chain (snd (process s b k p v x t)) = n_chain s /\
  n_emitted (snd (process s b k p v x t)) <> n_emitted s.
Proof.
  exists ex_node, ex_new, TieBreak, ex_pe, (ex_ve false), (ex_xe 79),
         (mkTE (mkDE true true 76) (mkVE 1000 10 1065 15360 true [ad 9; ad 7; ad 8] 0 false 3 0 None true true true) (ex_xe 77)).
  vm_compute. repeat split; discriminate.
Qed.
