(* C06 — property theorems only.  Statements are full; proofs are [exact lemma].
   BLS enters as the universally quantified oracles sig_len0 / msg_of / fav / vrf / agg / sign_own; the only facts
   assumed about them are the two hypotheses of the assembly theorems (completeness of aggregation, length of an
   aggregate signature). *)
From Coq Require Import List NArith Bool Permutation Lia.
From Coq Require Import Sorting.Sorted.
From LE Require Import Cert.Bits Cert.BitsProofs Cert.AggCommit Cert.AggCommitProofs Cert.SortProofs Cert.AssembleProofs Cert.Pool Cert.PoolProofs.
Import ListNotations.
Local Open Scope N_scope.

(* accepted => empty commit at maxHeightCertified, or: header of the own chain at that height, parameters of that
   height, signers = validators of that height picked by the bitmap over the ascending-key order, valid aggregate by
   exactly their keys over that header's certificate, true weight >= threshold, height window, next-parameter bound *)
Theorem C06_verify_sound : forall (sigT msgT : Type) (sig_len0 : sigT -> bool) (msg_of : cert -> msgT)
    (fav : list key -> msgT -> sigT -> bool) (e : env) (a : agg_commit sigT),
  verify sig_len0 msg_of fav e a = Accept ->
  (ac_empty sig_len0 a = true /\ ac_height a = e_mhc e) \/
  exists hd p signers,
    chain_at (e_chain e) (ac_height a) = Some hd /\
    get_params e (ac_height a) = Some p /\
    select_from (ac_bits a) 0 (sort_by v_key (p_validators p)) = Some signers /\
    length (ac_bits a) = bits_len (length (p_validators p)) /\
    incl signers (p_validators p) /\
    fav (map v_key signers) (msg_of (h_cert hd)) (ac_sig a) = true /\
    p_threshold p <= sumN (map v_weight signers) /\
    e_mhc e < ac_height a /\ ac_height a <= e_mhp e /\
    (forall nh, next_params e (u32 (e_mhc e + 1)) = Some nh -> ac_height a <= sub32 nh 1).
Proof. exact verify_sound. Qed.

(* what the three model functions used in C06_verify_sound mean *)
(* "the parameters of that height": the entry of the parameter store with the greatest key <= h *)
Theorem C06_get_params_is_greatest_key_le : forall e h,
  match get_params e h with
  | Some p => exists k, In (k, p) (e_params e) /\ k <= h /\ forall k' p', In (k', p') (e_params e) -> k' <= h -> k' <= k
  | None => forall k p, In (k, p) (e_params e) -> h < k
  end.
Proof. exact get_params_spec. Qed.

(* "the next validator-set change": NextHeightBFTParameters(x) is the least key >= uint32(x+1); verify calls it with
   x = uint32(maxHeightCertified+1), i.e. the least parameter height >= maxHeightCertified + 2 *)
Theorem C06_next_params_is_least_key_ge : forall e x,
  match next_params e x with
  | Some k => u32 (x + 1) <= k /\ (exists p, In (k, p) (e_params e)) /\
              forall k' p', In (k', p') (e_params e) -> u32 (x + 1) <= k' -> k <= k'
  | None => forall k p, In (k, p) (e_params e) -> k < u32 (x + 1)
  end.
Proof. exact next_params_spec. Qed.

(* "ascending key order": the list verify / Aggregate work on is sorted by bytes.Compare on the BLS key ... *)
Theorem C06_sort_is_ascending : forall vs,
  StronglySorted (fun x y => lex_lt (v_key y) (v_key x) = false) (sort_by v_key vs).
Proof. exact (sort_by_sorted v_key). Qed.

(* ... so the signers picked by the bitmap are exactly the validators whose rank (number of validators of the set with a
   smaller BLS key) has its bit set *)
Theorem C06_signers_are_the_validators_with_rank_bit_set : forall (vs : list validator) bits signers,
  NoDup (map v_key vs) -> select_from bits 0 (sort_by v_key vs) = Some signers ->
  forall v, In v signers <->
            In v vs /\ read_bit bits (length (filter (fun w => lex_lt (v_key w) (v_key v)) vs)) = Some true.
Proof. exact signers_by_rank. Qed.

(* the uint32 expression heightNextBFTParams-1 is the predecessor for every real parameter height *)
Theorem C06_next_bound_is_predecessor : forall nh, 0 < nh -> nh < 2 ^ 32 -> sub32 nh 1 = nh - 1.
Proof. exact sub32_pred. Qed.

(* the order the code sorts in is a permutation of the validators, and the two sides (verify: validators by key,
   Aggregate: address/key pairs by key) produce the same key sequence *)
Theorem C06_sort_is_permutation : forall vs, Permutation (sort_by v_key vs) vs.
Proof. exact (sort_by_perm v_key). Qed.
Theorem C06_same_key_order_both_sides : forall vs,
  map v_key (sort_by v_key vs) = map snd (sort_by (@snd N key) (map (fun v => (v_addr v, v_key v)) vs)).
Proof.
  intros. rewrite <- (sort_by_map (fun v => (v_addr v, v_key v)) (@snd N key)). rewrite map_map. reflexivity.
Qed.

(* bitmap laws used above: a written bit reads as set, other bits are unchanged, a fresh bitmap reads as clear,
   reads inside ceil(n/8) bytes never panic *)
Theorem C06_bits_read_write : forall b i b', write_bit b i = Some b' ->
  read_bit b' i = Some true /\ (forall j, i <> j -> read_bit b' j = read_bit b j) /\ length b' = length b.
Proof.
  intros. split; [|split]. - eapply read_write_same; eauto. - intros; eapply read_write_other; eauto.
  - eapply write_bit_length; eauto.
Qed.
Theorem C06_bits_in_range : forall b i n, length b = bits_len n -> (i < n)%nat -> exists v, read_bit b i = Some v.
Proof. exact read_in_range. Qed.

(* [key_ok]: valid BLS public keys.  FastAggregateVerify does not validate keys (an identity-point key contributes nothing
   to the aggregate key while its weight would be counted), so the BLS law is assumed for valid keys only and params_wf
   demands that every validator's registered key is valid; pkg/crypto/bls.go validates keys (see docs/C06.md). *)
(* every aggregate commit assembled from a valid, duplicate-free pool is accepted; the result is never an error,
   a panic or out-of-fuel *)
Theorem C06_assemble_accepts : forall (sigT msgT : Type) (sig_len0 : sigT -> bool) (msg_of : cert -> msgT)
    (fav : list key -> msgT -> sigT -> bool) (vrf : key -> msgT -> sigT -> bool) (agg : list sigT -> sigT)
    (key_ok : key -> Prop),
  (forall ks ss m ks', Forall key_ok ks -> Forall2 (fun k s => vrf k m s = true) ks ss -> ks <> [] -> Permutation ks ks' ->
                       fav ks' m (agg ss) = true) ->
  (forall ss, sig_len0 (agg ss) = false) ->
  forall e g ng,
    params_wf key_ok e -> pool_ok sigT msgT msg_of vrf e (g ++ ng) ->
    match get_aggregate_commit agg e g ng with
    | GOk a => verify sig_len0 msg_of fav e a = Accept
    | GEmpty h => h = e_mhc e
    | _ => False
    end.
Proof. exact assemble_accepts. Qed.

Theorem C06_empty_commit_accepted : forall (sigT msgT : Type) (sig_len0 : sigT -> bool) (msg_of : cert -> msgT)
    (fav : list key -> msgT -> sigT -> bool) e (a : agg_commit sigT),
  ac_bits a = [] -> sig_len0 (ac_sig a) = true -> ac_height a = e_mhc e -> verify sig_len0 msg_of fav e a = Accept.
Proof. exact empty_commit_accepted. Qed.

(* singleCommitValidator: whatever the message, a commit that is in the pool afterwards was there before or is by an
   active validator of its height, for the block of the own chain at that height, with a verifying signature *)
Theorem C06_pool_admits_only_valid : forall (sigT msgT : Type) (msg_of : cert -> msgT) (vrf : key -> msgT -> sigT -> bool)
    e p m p' r,
  single_commit_validator msg_of vrf e p m = (p', r) ->
  forall c, In c (gossiped p' ++ nongossiped p') ->
    In c (gossiped p ++ nongossiped p) \/
    exists hd prm v,
      chain_at (e_chain e) (sc_height c) = Some hd /\ c_block (h_cert hd) = sc_block c /\
      get_params e (sc_height c) = Some prm /\ find_validator (p_validators prm) (sc_addr c) = Some v /\
      vrf (v_key v) (msg_of (h_cert hd)) (sc_sig c) = true.
Proof. exact scv_admits_only_valid. Qed.

(* every pool state reachable through gossip validation, Certify (with the registered key), Cleanup, Select and
   Upgrade is valid and duplicate-free ... *)
Theorem C06_reachable_pool_valid : forall (sigT msgT : Type) (msg_of : cert -> msgT) (vrf : key -> msgT -> sigT -> bool)
    (sign_own : cert -> sigT) e p,
  chain_wf e -> reachable sigT msgT msg_of vrf sign_own e p ->
  pool_ok sigT msgT msg_of vrf e (gossiped p ++ nongossiped p).
Proof. exact reachable_ok. Qed.

(* ... and therefore assembles into an accepted aggregate commit *)
Theorem C06_reachable_assembles_accepted : forall (sigT msgT : Type) (sig_len0 : sigT -> bool) (msg_of : cert -> msgT)
    (fav : list key -> msgT -> sigT -> bool) (vrf : key -> msgT -> sigT -> bool) (agg : list sigT -> sigT)
    (sign_own : cert -> sigT) (key_ok : key -> Prop),
  (forall ks ss m ks', Forall key_ok ks -> Forall2 (fun k s => vrf k m s = true) ks ss -> ks <> [] -> Permutation ks ks' ->
                       fav ks' m (agg ss) = true) ->
  (forall ss, sig_len0 (agg ss) = false) ->
  forall e p, chain_wf e -> params_wf key_ok e -> reachable sigT msgT msg_of vrf sign_own e p ->
    match get_aggregate_commit agg e (gossiped p) (nongossiped p) with
    | GOk a => verify sig_len0 msg_of fav e a = Accept
    | GEmpty h => h = e_mhc e
    | _ => False
    end.
Proof. intros. eapply reachable_assembles_accepted; eauto. Qed.

(* chains that move.  Pool operations interleaved with blocks being applied (headers / parameters at the heights of
   pooled commits unchanged) and with blocks being deleted and replaced by siblings (nothing below the deleted height
   changes; deleteBlock purges the pool from that height up, fix 5889739): the pool stays valid with respect to the
   CURRENT chain, so whatever GetAggregateCommit assembles is accepted.  Before the fix this failed on the real code:
   a commit for a deleted block stayed in the pool (findings/C06.json, c06:reorg:spec). *)
Theorem C06_pool_valid_across_reorgs : forall (sigT msgT : Type) (msg_of : cert -> msgT) (vrf : key -> msgT -> sigT -> bool)
    (sign_own : cert -> sigT) e p,
  reachable_chain sigT msgT msg_of vrf sign_own e p -> pool_ok sigT msgT msg_of vrf e (gossiped p ++ nongossiped p).
Proof. exact reachable_chain_ok. Qed.

Theorem C06_assemble_accepts_across_reorgs : forall (sigT msgT : Type) (sig_len0 : sigT -> bool) (msg_of : cert -> msgT)
    (fav : list key -> msgT -> sigT -> bool) (vrf : key -> msgT -> sigT -> bool) (agg : list sigT -> sigT)
    (sign_own : cert -> sigT) (key_ok : key -> Prop),
  (forall ks ss m ks', Forall key_ok ks -> Forall2 (fun k s => vrf k m s = true) ks ss -> ks <> [] -> Permutation ks ks' ->
                       fav ks' m (agg ss) = true) ->
  (forall ss, sig_len0 (agg ss) = false) ->
  forall e p, params_wf key_ok e -> reachable_chain sigT msgT msg_of vrf sign_own e p ->
    match get_aggregate_commit agg e (gossiped p) (nongossiped p) with
    | GOk a => verify sig_len0 msg_of fav e a = Accept
    | GEmpty h => h = e_mhc e
    | _ => False
    end.
Proof. intros. eapply reachable_chain_assembles_accepted; eauto. Qed.

(* the evaluator's instance of BLS (ideal functionality on symbolic signatures, Corr/C06.v) satisfies the two BLS
   hypotheses of the theorems above (key_ok := not the point at infinity), so what the check evaluates IS an instance of the theorems *)
From LE Require Import Corr.C06 Corr.C06Proofs.
Theorem C06_evaluator_instance_satisfies_BLS_hypotheses : forall kt,
  (forall ks ss m ks', Forall (fun k => key_valid_i k = true) ks -> Forall2 (fun k s => vrf_i kt k m s = true) ks ss -> ks <> [] ->
                       Permutation ks ks' -> fav_i kt ks' m (agg_i ss) = true) /\
  (forall ss, sig_len0_i (agg_i ss) = false).
Proof. intro kt. split; [apply inst_Hfav | apply inst_Hlen]. Qed.

(* the declarative oracle of the check is implied by the model: the model never accepts what the oracle forbids
   (distinct BLS keys per parameter set, uint32 heights) *)
Theorem C06_oracle_is_implied_by_model : forall kt e a, env_wf e ->
  verify sig_len0_i msg_of_i (fav_i kt) e a = Accept -> verify_spec kt e a = true.
Proof. exact model_accept_implies_spec. Qed.

(* non-vacuity (ideal BLS of Corr/C06.v): two validators (keys in descending order in the parameter set), both signed the
   block at height 2, maxHeightCertified 0 < 2 <= maxHeightPrecommitted 2: the assembled commit has bitmap 3 and is accepted;
   with the second validator's bit cleared the same signature is rejected *)
Example C06_example :
  let kt : list key := [[9]; [4]] in
  let c2 := Build_cert 12 2 30 1 1 in
  let e := Build_env 2 0 [(1, Build_params [Build_validator 1 5 [9]; Build_validator 2 7 [4]] 12)]
                     [(0, Build_header (Build_cert 10 0 10 1 1) 0); (1, Build_header (Build_cert 11 1 20 1 1) 0); (2, Build_header c2 0)] in
  let ng := [Build_single_commit 12 2 1 (CSig [(0, c2)]) false; Build_single_commit 12 2 2 (CSig [(1, c2)]) false] in
  match get_aggregate_commit agg_i e [] ng with
  | GOk a => ac_bits a = [3] /\ verify sig_len0_i msg_of_i (fav_i kt) e a = Accept /\
             verify sig_len0_i msg_of_i (fav_i kt) e (Build_agg_commit 2 [1] (ac_sig a)) = RejInvalid /\
             (* an over-long bitmap is rejected by the model AND forbidden by the oracle *)
             verify sig_len0_i msg_of_i (fav_i kt) e (Build_agg_commit 2 [3; 0] (ac_sig a)) = RejInvalid /\
             verify_spec kt e (Build_agg_commit 2 [3; 0] (ac_sig a)) = false /\ verify_spec kt e a = true
  | _ => False
  end.
Proof. vm_compute. repeat split; reflexivity. Qed.

(* a history with a reorg: a commit for the block at height 2 is admitted, the block is deleted and replaced (the view
   below height 2 is unchanged), the pool is purged: reachable_chain holds for the new view with the empty pool *)
Example C06_reachable_chain_with_delete :
  let c2 := Build_cert 12 2 30 1 1 in let c2' := Build_cert 13 2 31 1 1 in
  let prm := [(1, Build_params [Build_validator 1 5 [9]; Build_validator 2 7 [4]] 12)] in
  let base := [(0, Build_header (Build_cert 10 0 10 1 1) 0); (1, Build_header (Build_cert 11 1 20 1 1) 0)] in
  let e := Build_env 0 0 prm (base ++ [(2, Build_header c2 0)]) in
  let e' := Build_env 0 0 prm (base ++ [(2, Build_header c2' 0)]) in
  let kt : list key := [[9]; [4]] in
  let p := on_delete_block (fst (single_commit_validator msg_of_i (vrf_i kt) e (empty_pool csig)
                                   (Some [(Build_single_commit 12 2 1 (CSig [(0, c2)]) false, true)]))) 2 in
  reachable_chain csig cert msg_of_i (vrf_i kt) (fun c => CSig [(0, c)]) e' p /\ gossiped p ++ nongossiped p = [].
Proof.
  intros. split; [|vm_compute; reflexivity].
  apply (rch_delete csig cert msg_of_i (vrf_i kt) (fun c => CSig [(0, c)]) e e' _ 2).
  - eapply rch_step; [apply rch_start | apply ps_gossip].
  - intros h Hh. unfold env_agrees_at. assert (h = 0 \/ h = 1) by lia. destruct H; subst; vm_compute; auto.
Qed.

(* broadcastCertificate (cleanup with the current BFT heights, selection, publish, upgrade) keeps the pool valid and
   duplicate-free — that is all the property asks of it.  C06_broadcast_cleanup_model below only DESCRIBES the model's
   filter as the code computes it today, including the uint32 wrap of maxHeightPrecommited-100 (a liveness defect outside
   C06: a repaired bound would be a model difference, not a violation). *)
Theorem C06_broadcast_preserves_pool_validity : forall (sigT msgT : Type) (msg_of : cert -> msgT)
    (vrf : key -> msgT -> sigT -> bool) e tip published (p : pool sigT),
  pool_ok sigT msgT msg_of vrf e (gossiped p ++ nongossiped p) ->
  pool_ok sigT msgT msg_of vrf e (gossiped (broadcast_certificate e tip published p) ++
                                  nongossiped (broadcast_certificate e tip published p)).
Proof. intros sigT msgT msg_of vrf. exact (broadcast_preserves_ok sigT msgT msg_of vrf). Qed.

Theorem C06_broadcast_cleanup_model : forall e rh h,
  cleanup_keep e rh h = true <->
  rh < h /\ ((sub32 (e_mhp e) 100 <= h /\ h < e_mhp e) \/ exist_params e (u32 (h + 1)) = true).
Proof. exact broadcast_cleanup_spec. Qed.
