(* C05 — deleting the tip restores the exact previous state (blockchain + diffdb level).
   Property theorems only. Models: Store.DiffDB (consensus store), Chain.BlockStore (saveBlock/removeBlock and the
   processBlock/deleteBlock batches, block cache). *)
From Coq Require Import List NArith ZArith Bool.
From LE Require Import Base.Lex Store.SMap Store.PebbleIter Store.PebbleIterProofs Store.DiffDB Store.DiffDBProofs
  Store.DiffDBSpec Store.DiffDBRefine Store.Diff Chain.BlockStore Chain.BlockStoreProofs Chain.U32 Chain.Reorg Chain.History Chain.HistoryExample Chain.Exceptions.
Import ListNotations.
Local Open Scope N_scope.

(* For every database and EVERY staged operation sequence (any views, snapshots, scans; keys created, overwritten
   and deleted in the same block included): writing the Commit batch and then the RevertDiff batch of the stored
   diff (encoded, then decoded) gives back the previous database as a list — byte for byte.  [encode]/[decode]
   are any codec with the round-trip law (C08). *)
Theorem C05_revert_commit_id : forall (encode : diff -> val) (decode : val -> option diff),
  (forall d, decode (encode d) = Some d) ->
  forall db root ops, sorted db -> wf_db db -> wf_key root -> Forall op_wf ops ->
  let d := fst (run db (init_state root) ops) in
  let batch := fst (db_Commit d) in
  let stored := encode (snd (db_Commit d)) in
  exists df, decode stored = Some df /\
             apply_writes (revert_writes df) (apply_writes batch db) = db.
Proof. exact revert_stored_diff_id. Qed.

(* the same for any cache state satisfying the invariant *)
Theorem C05_revert_commit_id_cache : forall db c, sorted db -> Inv db c ->
  apply_writes (revert_writes (diff_of c)) (apply_writes (commit_writes c) db) = db.
Proof. exact revert_commit_id. Qed.

(* the diff classifies exactly the changed keys, with their previous values *)
Theorem C05_diff_sound : forall db c, Inv db c ->
  (forall k, In k (d_added (diff_of c)) -> lookup db k = None /\ overlay db c k <> None) /\
  (forall k v, In (k, v) (d_updated (diff_of c)) -> lookup db k = Some v /\ overlay db c k <> None) /\
  (forall k v, In (k, v) (d_deleted (diff_of c)) -> lookup db k = Some v /\ overlay db c k = None).
Proof. exact diff_sound. Qed.

Theorem C05_diff_complete : forall db c k, Inv db c -> overlay db c k <> lookup db k ->
  In k (d_added (diff_of c)) \/ (exists v, In (k, v) (d_updated (diff_of c))) \/ (exists v, In (k, v) (d_deleted (diff_of c))).
Proof. exact diff_complete. Qed.

(* every key the staged store touches carries its root prefix (DBPrefixState): the consensus-store batch never
   collides with block records *)
Theorem C05_staged_keys_prefixed : forall db root ops, sorted db -> wf_db db -> wf_key root -> Forall op_wf ops ->
  forall x, In x (d_cache (fst (run db (init_state root) ops))) -> is_prefix root (fst x) = true.
Proof. exact staged_keys_prefixed. Qed.

(* PARTIAL (known finding c05:dup-tx): the full statements would quantify over ANY contents of a valid block.  The
   theorems below carry the explicit hypothesis [fresh db (... block_keys b)], whose substantive part is: no
   transaction id of the block is already stored (block ids, the height index entry, the events/diff records of a
   new tip height are fresh on any valid chain).  The engine never rejects a block repeating a stored transaction
   id, and removeBlock deletes txID->tx unconditionally: without the hypothesis the statement is false, see
   C05_remove_inverts_save_refuted (reproduced on the real Executer by harness/cmd/c05e, record "edup"). *)
(* removeBlock inverts saveBlock on every key outside the enumerated exceptions — the finalized-height marker,
   the temp record of that height, the event records pruned by saveBlock — when the block's ids are fresh *)
Theorem C05_remove_inverts_save_partial : forall db b events fh rt keep st k,
  sorted db -> fresh db (block_keys b) ->
  exception (ev_bound fh (b_height b) keep) None [b_height b] k = false ->
  lookup (apply_writes (remove_block b st) (apply_writes (save_block db b events fh rt keep) db)) k = lookup db k.
Proof. exact remove_inverts_save. Qed.

(* witness: block b repeats transaction [9;9] of an earlier stored block; every other key of b is fresh; after
   saveBlock + removeBlock the earlier block's transaction record is gone (and it is not an exception) *)
Theorem C05_remove_inverts_save_refuted :
  exists db b events fh rt keep st k,
    sorted db /\ fresh db (filter (fun k' => negb (keqb k' k)) (block_keys b)) /\
    exception (ev_bound fh (b_height b) keep) None [b_height b] k = false /\
    lookup (apply_writes (remove_block b st) (apply_writes (save_block db b events fh rt keep) db)) k <> lookup db k.
Proof.
  exists [([4;0;0;0;1],[7;7]); ([5;7;7],[9;9]); ([6;9;9],[101]); ([27],[0;0;0;0])],
         (Build_blk [8;8] 2 [100] [([9;9],[101])] None [102]), None, 0, false, (-1)%Z, false, [6;9;9].
  split; [apply sortedb_sound; vm_compute; reflexivity|]. split.
  - intros k0 Hin. vm_compute in Hin. repeat (destruct Hin as [<-|Hin]; [vm_compute; reflexivity|]). destruct Hin.
  - split; [vm_compute; reflexivity|]. vm_compute. discriminate.
Qed.

(* the whole deleteBlock batch (RevertDiff + delete diff record + removeBlock) inverts the whole processBlock batch
   (Commit + diff record + pruning of finalized diffs + saveBlock), for every staged cache state, block contents,
   finality advance and flags; exceptions as above plus the pruned diff records *)
Theorem C05_delete_inverts_apply_partial : forall db c diff_enc prune b events fh rt keep st k,
  sorted db -> wf_db db -> Inv db c -> cache_pref [pfxState] c ->
  fresh db (kDiff (b_height b) :: block_keys b) ->
  exception (ev_bound fh (b_height b) keep) prune [b_height b] k = false ->
  lookup (apply_writes (delete_batch (diff_of c) b st)
           (apply_writes (apply_batch db c diff_enc prune b events fh rt keep) db)) k = lookup db k.
Proof. exact delete_inverts_apply. Qed.

(* reading of the exceptions for 4-byte height keys: the pruned event records are those of heights <= the bound,
   the pruned diff records those of heights < the bound *)
Theorem C05_exception_events_heights : forall h m, h < 4294967296 -> m < 4294967296 ->
  leb (kEvents 0) (kEvents h) && leb (kEvents h) (kEvents m) = (h <=? m).
Proof. exact events_range_heights. Qed.

Theorem C05_exception_diff_heights : forall h, h < 4294967296 -> u32_of (tl (kDiff h)) = h.
Proof. exact diff_key_height. Qed.

(* the exceptions are confined to the finalized part of the chain: apart from the marker 1b and the temp record 07|h
   of the block's height, an exception key is an event record of a height <= the finalized height or a diff record of
   a height < it; so deleting the tip restores every record that is not about finalized heights *)
Theorem C05_exception_within_finalized : forall fh h keep prune k, fh < 4294967296 ->
  (forall m, prune = Some m -> m <= fh) ->
  exception (ev_bound fh h keep) prune [h] k = true ->
  keqb k kFinalized || keqb k (kTemp h) || below_finalized fh k = true.
Proof. exact exception_within_finalized. Qed.

Theorem C05_delete_inverts_apply_above_finalized_partial : forall db c diff_enc prune b events fh rt keep st k,
  sorted db -> wf_db db -> Inv db c -> cache_pref [pfxState] c ->
  fresh db (kDiff (b_height b) :: block_keys b) ->
  fh < 4294967296 -> (forall m, prune = Some m -> m <= fh) ->
  k <> kFinalized -> k <> kTemp (b_height b) -> below_finalized fh k = false ->
  lookup (apply_writes (delete_batch (diff_of c) b st)
           (apply_writes (apply_batch db c diff_enc prune b events fh rt keep) db)) k = lookup db k.
Proof. exact delete_inverts_apply_above_finalized. Qed.

(* deleting blocks never touches the finalized-height marker (so it cannot be lowered by a delete; that an apply never
   lowers it is a property of the caller, which passes max(current, maxHeightPrecommitted): checked by the harness) *)
Theorem C05_delete_keeps_marker : forall db c b st, sorted db -> cache_pref [pfxState] c ->
  lookup (apply_writes (delete_batch (diff_of c) b st) db) kFinalized = lookup db kFinalized.
Proof. exact delete_keeps_marker. Qed.

(* removed blocks are kept retrievable as temporary blocks when requested *)
Theorem C05_temp_block_saved : forall db b, sorted db ->
  lookup (apply_writes (remove_block b true) db) (kTemp (b_height b)) = Some (b_block b).
Proof. exact temp_block_saved. Qed.

(* reorg confluence at batch level: databases equal outside a key set stay equal outside it under the same batch
   (with C05_delete_inverts_apply_partial: apply B, delete B, apply B' agrees with apply B' outside the exceptions,
   provided B' produces the same batch — its staged reads only see consensus-store keys, which are restored) *)
Theorem C05_same_batch_preserves_agreement : forall (W : list wr) db1 db2 (E : key -> bool), sorted db1 -> sorted db2 ->
  (forall k, E k = false -> lookup db1 k = lookup db2 k) ->
  forall k, E k = false -> lookup (apply_writes W db1) k = lookup (apply_writes W db2) k.
Proof. exact same_batch_preserves_agreement. Qed.

(* REORG CONFLUENCE.  The execution of a block against the consensus store is an adaptive program [p'] (results so
   far -> next staged operation).  Apply B, delete B, then execute and apply B': B' observes exactly the reads it
   observes when executed directly on the original database, and the two resulting databases agree on every key
   outside the exceptions of B.  ([wf_db db2]: the keys written by B are byte strings.) *)
Theorem C05_reorg_confluence_partial : forall fuel (p' : prog) db c diff_enc prune b events fh rt keep st
    diff_enc' prune' b' events' fh' rt',
  sorted db -> wf_db db -> Inv db c -> cache_pref [pfxState] c ->
  fresh db (kDiff (b_height b) :: block_keys b) -> prog_wf p' ->
  let db1 := apply_writes (apply_batch db c diff_enc prune b events fh rt keep) db in
  let db2 := apply_writes (delete_batch (diff_of c) b st) db1 in
  wf_db db2 ->
  let E := exception (ev_bound fh (b_height b) keep) prune [b_height b] in
  let direct := run_prog fuel db (init_state [pfxState]) p' [] in
  let after := run_prog fuel db2 (init_state [pfxState]) p' [] in
  snd after = snd direct /\
  forall k, E k = false ->
    lookup (apply_writes (apply_batch db2 (d_cache (fst after)) diff_enc' prune' b' events' fh' rt' keep) db2) k =
    lookup (apply_writes (apply_batch db (d_cache (fst direct)) diff_enc' prune' b' events' fh' rt' keep) db) k.
Proof. exact reorg_confluence. Qed.

(* its core: the same adaptive block on two databases that agree outside a key set E containing no consensus-store
   key reads the same values and leaves databases that agree outside E *)
Theorem C05_same_block_on_agreeing_dbs : forall fuel (p : prog) db1 db2 (E : key -> bool)
    diff_enc prune b events fh rt keep,
  sorted db1 -> sorted db2 -> wf_db db1 -> wf_db db2 -> prog_wf p ->
  (forall k, E k = false -> lookup db1 k = lookup db2 k) ->
  (forall k, is_prefix [pfxState] k = true -> E k = false) ->
  let r1 := run_prog fuel db1 (init_state [pfxState]) p [] in
  let r2 := run_prog fuel db2 (init_state [pfxState]) p [] in
  snd r1 = snd r2 /\
  forall k, E k = false ->
    lookup (apply_writes (apply_batch db1 (d_cache (fst r1)) diff_enc prune b events fh rt keep) db1) k =
    lookup (apply_writes (apply_batch db2 (d_cache (fst r2)) diff_enc prune b events fh rt keep) db2) k.
Proof. exact same_block_on_agreeing_dbs. Qed.

(* adaptive programs refine the specification too (the refinement of C12 for programs instead of fixed sequences) *)
Theorem C05_run_prog_refines : forall fuel db p d s acc, sorted db -> wf_db db -> prog_wf p -> R db d s ->
  snd (run_prog fuel db d p acc) = snd (spec_run_prog fuel s p acc) /\
  R db (fst (run_prog fuel db d p acc)) (fst (spec_run_prog fuel s p acc)).
Proof. exact run_prog_refines. Qed.

(* ANY NUMBER OF APPLY/REMOVE STEPS.  A history is well bracketed: apply B, <any history on top of B>, delete B,
   <any history after>.  An apply executes an adaptive program against the consensus store of the CURRENT database
   and writes the processBlock batch (with the encoded diff record); a delete decodes the diff record it finds in
   the CURRENT database (None = "diff does not exist" / decode error) and writes the deleteBlock batch.
   [hist_ok]: keys are byte strings, ids are fresh at every apply, programs well formed, and the history on top of
   a block does not prune that block's diff record (= does not finalize it).  Then the final database agrees with
   the initial one on every key outside the union of the exceptions of the applied blocks. *)
Theorem C05_history_restores_partial : forall (encode : diff -> val) (decode : val -> option diff),
  (forall d, decode (encode d) = Some d) ->
  forall (keep : Z) (h : hist) (db db' : smap),
  sorted db -> hist_ok encode decode keep h db -> run_hist encode decode keep h db = Some db' ->
  forall k, exc_hist keep h k = false -> lookup db' k = lookup db k.
Proof. exact history_restores. Qed.

(* non-vacuity of C05_history_restores_partial: a concrete codec with a proved round trip, and a closed nested
   history (apply B1 [tx, events, staged read+create+delete], apply B2 on top [assets, staged range read, create,
   overwrite, create+delete], delete B2, delete B1 keeping it as temp block) that satisfies [hist_ok] and runs to
   completion: the final database is the initial one plus the temp record *)
Theorem C05_codec_roundtrip_instance : forall d, decode_diff (encode_diff d) = Some d.
Proof. exact codec_roundtrip. Qed.

Example C05_history_example :
  hist_ok encode_diff decode_diff ex_keep ex_hist db0 /\
  run_hist encode_diff decode_diff ex_keep ex_hist db0
    = Some [([4;0;0;0;1],[7]); ([7;0;0;0;2],[102]); ([10;97],[1]); ([27],[0;0;0;1])] /\
  do_apply encode_diff ex_keep a2 (do_apply encode_diff ex_keep a1 db0)
    = [([3;8;8],[100]); ([3;8;9],[110]); ([4;0;0;0;1],[7]); ([4;0;0;0;2],[8;8]); ([4;0;0;0;3],[8;9]);
       ([5;8;8],[9;9]); ([6;9;9],[101]); ([8;8;9],[111]); ([9;0;0;0;2],[104]); ([10;98],[6]); ([27],[0;0;0;1]);
       ([51;0;0;0;2],[1;2;10;98;0;2;2;10;97;1;1]); ([51;0;0;0;3],[0;2;2;10;98;1;5;0])].
Proof. exact history_example. Qed.

(* cached tip: the block cache stays a non-empty prefix of the chain in the database, so LastBlock() is the
   database tip after every AddBlock / (repaired) RemoveBlock *)
Theorem C05_cached_tip_after_add : forall maxSize c chain h id c',
  cache_ok c chain -> bc_push maxSize c h id = Some c' -> cache_ok c' ((h, id) :: chain) /\ bc_last c' = Some (h, id).
Proof. exact cached_tip_after_add. Qed.

Theorem C05_cached_tip_after_remove : forall c chain x,
  cache_ok c (x :: chain) -> cache_ok (bc_remove c chain) chain /\ bc_last (bc_remove c chain) = hd_error chain.
Proof. exact cached_tip_after_remove. Qed.

(* restart: PrepareCache (repaired: never reads below the genesis height) rebuilds the cache as the newest
   maxSize blocks of the contiguous chain in the database, so the cached tip is the database tip *)
Theorem C05_cached_tip_after_prepare : forall maxSize chain, (1 <= maxSize)%nat -> contig chain ->
  exists c, bc_prepare maxSize chain = Some c /\ cache_ok c chain /\ bc_last c = hd_error chain.
Proof. exact cached_tip_after_prepare. Qed.

(* the pop of the unrepaired code alone loses the tip (witness) *)
Theorem C05_pop_without_refill_refuted :
  exists c chain x, cache_ok c (x :: chain) /\ chain <> [] /\ bc_last (bc_pop c) = None.
Proof. exact pop_without_refill_loses_tip. Qed.

(* non-vacuity: a block with a transaction and events, a staged create+overwrite+delete of one key, a staged
   delete of a stored key and a staged creation; applied, then deleted with saveTemp: everything is back except
   the temp record *)
Example C05_example_apply_delete :
  let db := [([4;0;0;0;1],[7]); ([10;97],[1]); ([27],[0;0;0;1])] in
  let c := d_cache (fst (run db (init_state [10]) [OSet 0%nat [98] [5]; OSet 0%nat [98] [6]; ODel 0%nat [98];
                                                   ODel 0%nat [97]; OSet 0%nat [99] [9]])) in
  let b := Build_blk [8;8] 2 [100] [([9;9],[101])] None [102] in
  let db1 := apply_writes (apply_batch db c [103] None b (Some [104]) 1 false 300) db in
  db1 = [([3;8;8],[100]); ([4;0;0;0;1],[7]); ([4;0;0;0;2],[8;8]); ([5;8;8],[9;9]); ([6;9;9],[101]);
         ([9;0;0;0;2],[104]); ([10;99],[9]); ([27],[0;0;0;1]); ([51;0;0;0;2],[103])]
  /\ apply_writes (delete_batch (diff_of c) b true) db1
     = [([4;0;0;0;1],[7]); ([7;0;0;0;2],[102]); ([10;97],[1]); ([27],[0;0;0;1])].
Proof. vm_compute. split; reflexivity. Qed.
