(* C05 — property theorems only. *)
From Coq Require Import List NArith ZArith Bool.
From LE Require Import Base.Lex Store.SMap Store.PebbleIter Store.DiffDB Store.DiffDBProofs Chain.BlockStore.
Import ListNotations.

Theorem C05_revert_commit_id_cache : forall db c, sorted db -> Inv db c ->
  apply_writes (revert_writes (diff_of c)) (apply_writes (commit_writes c) db) = db.
Proof. exact revert_commit_id. Qed.
