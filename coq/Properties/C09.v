(* C09 — property theorems only: no panic and no fuel exhaustion, for EVERY byte string and reader state. *)
From Coq Require Import String List NArith ZArith Bool.
From LE Require Import Codec.Varint Codec.VarintProofs Codec.Reader Codec.Schema Codec.TotalProofs
                       Codec.Bits Codec.BitsProofs Gen.Schemas
                       Safe.RmtIndex Safe.RmtIndexProofs.
Import ListNotations.
Local Open Scope N_scope.

(* readUint never indexes out of range, whatever the buffer and offset *)
Theorem C09_read_uint_never_panics : forall data off,
  read_uint_at data off <> Panic /\ read_uint_at data off <> OutOfFuel.
Proof. exact read_uint_at_never_panics. Qed.

(* every exported Read* primitive, in every reader state with index <= len(data) (end arbitrary: nested readers),
   returns a value or an error, stays inside the buffer and never moves backwards *)
Theorem C09_ReadUInt_never_panics : forall r fn strict, rinv r -> total r (ReadUInt r fn strict).
Proof. intros. apply ReadUInt_total. assumption. Qed.
Theorem C09_ReadUInt32_never_panics : forall r fn strict, rinv r -> total r (ReadUInt32 r fn strict).
Proof. intros. apply ReadUInt32_total. assumption. Qed.
Theorem C09_ReadUInts_never_panics : forall r fn, rinv r -> total r (ReadUInts r fn).
Proof. intros. apply ReadUInts_total. assumption. Qed.
Theorem C09_ReadUInt32s_never_panics : forall r fn, rinv r -> total r (ReadUInt32s r fn).
Proof. intros. apply ReadUInt32s_total. assumption. Qed.
Theorem C09_ReadInt_never_panics : forall r fn strict, rinv r -> total r (ReadInt r fn strict).
Proof. intros. apply ReadInt_total. assumption. Qed.
Theorem C09_ReadInt32_never_panics : forall r fn strict, rinv r -> total r (ReadInt32 r fn strict).
Proof. intros. apply ReadInt32_total. assumption. Qed.
Theorem C09_ReadInts_never_panics : forall r fn, rinv r -> total r (ReadInts r fn).
Proof. intros. apply ReadInts_total. assumption. Qed.
Theorem C09_ReadBool_never_panics : forall r fn strict, rinv r -> total r (ReadBool r fn strict).
Proof. intros. apply ReadBool_total. assumption. Qed.
Theorem C09_ReadBools_never_panics : forall r fn, rinv r -> total r (ReadBools r fn).
Proof. intros. apply ReadBools_total. assumption. Qed.
Theorem C09_ReadBytes_never_panics : forall r fn strict, rinv r -> total r (ReadBytes r fn strict).
Proof. intros. apply ReadBytes_total. assumption. Qed.
Theorem C09_ReadBytesArray_never_panics : forall r fn, rinv r -> total r (ReadBytesArray r fn).
Proof. intros. apply ReadBytesArray_total. assumption. Qed.
Theorem C09_ReadString_never_panics : forall S r fn strict, rinv r -> total r (ReadString S r fn strict).
Proof. intros. apply ReadString_total. assumption. Qed.
Theorem C09_ReadStrings_never_panics : forall S r fn, rinv r -> total r (ReadStrings S r fn).
Proof. intros. apply ReadStrings_total. assumption. Qed.

(* the generated decoders: for every struct environment, every schema whose nesting depth fits the fuel, every
   byte string (shorter than 2^62 bytes) the outcome is a value or an error *)
Theorem C09_decode_never_panics : forall S E fuel s d, depth_le E fuel s = true ->
  (Z.of_nat (List.length d) < 2^62)%Z -> is_value_or_error (Decode S E fuel s d).
Proof. exact Decode_never_panics. Qed.
Theorem C09_decode_strict_never_panics : forall S E fuel s d, depth_le E fuel s = true ->
  (Z.of_nat (List.length d) < 2^62)%Z -> is_value_or_error (DecodeStrict S E fuel s d).
Proof. exact DecodeStrict_never_panics. Qed.

(* instantiated on the schemas translated from the repository: all 103 generated structs *)
Theorem C09_all_generated_decoders_never_panic : forall S nm s d, Schema.lookup schemas_env nm = Some s ->
  (Z.of_nat (List.length d) < 2^62)%Z ->
  is_value_or_error (Decode S schemas_env (Datatypes.S max_depth) s d) /\
  is_value_or_error (DecodeStrict S schemas_env (Datatypes.S max_depth) s d).
Proof.
  intros S nm s d Hl Hd.
  assert (Hdep : depth_le schemas_env (Datatypes.S max_depth) s = true).
  { pose proof env_wf as W. unfold wf_env in W. rewrite forallb_forall in W.
    assert (Hin : In (nm, s) schemas_env).
    { clear W. revert Hl. generalize schemas_env. induction e as [|[n0 s0] e IH]; cbn; [discriminate|].
      destruct (String.eqb_spec n0 nm); intros H; [inversion H; subst; left; reflexivity|right; auto]. }
    specialize (W (nm, s) Hin). cbn [snd] in W. unfold wf_schema in W. apply andb_prop in W. destruct W as [_ W].
    revert W. generalize max_depth. clear. intros n. revert s.
    induction n as [|n IH]; intros s W; [discriminate|].
    cbn [depth_le] in *. rewrite forallb_forall in *. intros f Hf. specialize (W f Hf).
    destruct (snd f); auto; destruct (Schema.lookup schemas_env name); auto. }
  split; [apply Decode_never_panics|apply DecodeStrict_never_panics]; assumption.
Qed.

(* Bits.read is safe under the (repaired) length check, and the weighted key selection never panics *)
Theorem C09_bits_read_safe : forall bits n i, List.length bits = ((n + 7) / 8)%nat -> (i < n)%nat ->
  exists b, bits_read bits i = Ok b.
Proof. exact bits_read_safe. Qed.
Theorem C09_weighted_select_never_panics : forall nkeys bits weights,
  weighted_select nkeys bits weights <> Panic /\ weighted_select nkeys bits weights <> OutOfFuel.
Proof. exact weighted_select_never_panics. Qed.
(* the repaired defect: without the check, reading bit 8 of a one-byte bitmap panics *)
Theorem C09_bits_read_unchecked_refuted : exists bits i, bits_read bits i = Panic.
Proof. exists [255], 8%nat. exact bits_read_short_bitmap_panics. Qed.

(* memory bound: readBytes (the only allocation proportional to an attacker-chosen number) never allocates more than
   the input that remains *)
Theorem C09_read_bytes_alloc_bounded : forall r bs r', rinv r -> read_bytes_r r = Ok (bs, r') ->
  (List.length bs <= List.length (data r) - idx r)%nat.
Proof. exact read_bytes_alloc_bounded. Qed.

(* ---- the payload decoders of every network-facing entry point (gossip validators, RPC handlers, p2p envelopes) ---- *)
Local Open Scope string_scope.
Definition network_entry_points : list string :=
  [ "pkg/p2p.Message"; "pkg/p2p.Request"; "pkg/p2p.responseMsg";
    "pkg/blockchain.RawBlock"; "pkg/blockchain.Block"; "pkg/blockchain.BlockHeader"; "pkg/blockchain.Transaction";
    "pkg/blockchain.BlockAsset"; "pkg/blockchain.AggregateCommit";
    "pkg/consensus.EventPostBlock"; "pkg/consensus.EventPostSingleCommits"; "pkg/consensus/certificate.SingleCommit";
    "pkg/consensus/certificate.Certificate";
    "pkg/consensus/sync.GetHighestCommonBlockRequest"; "pkg/consensus/sync.GetHighestCommonBlockResponse";
    "pkg/consensus/sync.GetBlocksFromIDRequest"; "pkg/consensus/sync.GetBlocksFromIDResponse";
    "pkg/consensus/sync.getHighestCommonBlockRequest"; "pkg/consensus/sync.getHighestCommonBlockResponse";
    "pkg/consensus/sync.getBlocksFromIDRequest"; "pkg/consensus/sync.getBlocksFromIDResponse"; "pkg/consensus/sync.NodeInfo";
    "pkg/txpool.GetTransactionsResponse"; "pkg/trie/smt.Proof"; "pkg/trie/rmt.Proof" ].
Local Close Scope string_scope.

Theorem C09_network_payload_decoders_never_panic : forall (S : strops) nm, In nm network_entry_points ->
  exists s, Schema.lookup schemas_env nm = Some s /\
    forall d, (Z.of_nat (List.length d) < 2^62)%Z ->
      is_value_or_error (Decode S schemas_env (Datatypes.S max_depth) s d) /\
      is_value_or_error (DecodeStrict S schemas_env (Datatypes.S max_depth) s d).
Proof.
  intros S nm H. cbn [network_entry_points In] in H.
  repeat (destruct H as [<-|H];
          [match goal with |- exists s, Schema.lookup _ ?n = Some s /\ _ =>
             destruct (Schema.lookup schemas_env n) as [s0|] eqn:E;
             [exists s0; split; [reflexivity|intros d Hd; exact (C09_all_generated_decoders_never_panic S n s0 d E Hd)]
             |vm_compute in E; discriminate]
           end|]).
  contradiction.
Qed.

(* ---- rmt.VerifyProof / CalculateRootFromUpdateData: index arithmetic with explicit Panic / OutOfFuel outcomes ----
   for every branch hash function and every (getHeight, getLayerStructure) pair with one layer entry per level and height
   <= 4096 (the Go code appends exactly one entry per layer < height; its floating-point height is <= 65) *)
Theorem C09_rmt_calculate_path_nodes_never_panics : forall bh gh gls size,
  List.length (gls size) = N.to_nat (gh size) -> gh size <= 4096 ->
  forall qh idxs sibs, fine (calculate_path_nodes bh gh gls qh size idxs sibs).
Proof. intros. apply calculate_path_nodes_total; assumption. Qed.

Theorem C09_rmt_verify_proof_never_panics : forall bh gh gls size,
  List.length (gls size) = N.to_nat (gh size) -> gh size <= 4096 ->
  forall qh idxs sibs root, fine (verify_proof bh gh gls qh size idxs sibs root).
Proof. intros. apply verify_proof_total; assumption. Qed.

(* the hypotheses discharged for the integer getHeight / getLayerStructure used in the correspondence, every uint64 size *)
Theorem C09_rmt_verify_proof_never_panics_int : forall bh qh size idxs sibs root, size < 2^64 ->
  fine (verify_proof bh gh_int gls_int qh size idxs sibs root).
Proof. exact verify_proof_total_int. Qed.
Theorem C09_rmt_calculate_path_nodes_never_panics_int : forall bh qh size idxs sibs, size < 2^64 ->
  fine (calculate_path_nodes bh gh_int gls_int qh size idxs sibs).
Proof. exact calculate_path_nodes_total_int. Qed.

(* the main loop runs with fuel [measure (sort idxs)], at most 65 iterations per index of the proof *)
Theorem C09_rmt_fuel_bounded_by_input : forall sorted, Forall (fun x => x < 2^64) sorted ->
  (RmtIndex.measure (idx_sort sorted) <= 65 * List.length sorted)%nat.
Proof. exact cpn_fuel_bound. Qed.
