(* C20 — property theorems only.  Statements are full; proofs are [exact lemma]. *)
From Coq Require Import List Bool Permutation.
From LE Require Import Conc.RWMutex Conc.Skeleton Conc.Progress Conc.SharedAppend Conc.SnapshotRead Conc.Atomic Conc.TipCache Gen.Skeletons Conc.Instances.
Import ListNotations.

(* Progress for safe skeletons under the writer-preferring RWMutex: if every program is balanced on every path, never
   acquires a lock it holds (read-after-read included), nests locks only in the one fixed strict order and never blocks
   on a channel/WaitGroup while holding a lock ([safe] = typing judgement of Conc/Skeleton.v), then every reachable
   configuration (any number of goroutines, any interleaving, any environment answers) is finished, or can step, or all
   its unfinished goroutines own no lock and wait at a blocking operation for the environment. *)
Theorem C20_safe_skeleton_progress : forall M progs, Forall (safe M) progs ->
  forall c, reachable (init progs) c -> finished c \/ (exists c', step c c') \/ env_parked c.
Proof. exact safe_skeleton_progress. Qed.

Theorem C20_safe_prog_sound : forall M p, safe_prog M p = true -> typed M [] p [].
Proof. exact safe_prog_sound. Qed.

(* a goroutine waiting for a lock is never stuck: some goroutine can step *)
Theorem C20_lock_waiter_never_stuck : forall M progs, Forall (safe M) progs ->
  forall c t l m k, reachable (init progs) c -> In t c -> stack t = Acq l m :: k -> exists c', step c c'.
Proof. exact lock_waiter_never_stuck. Qed.

(* no blocking operation at all => every reachable configuration is finished or can step *)
Theorem C20_blockfree_progress : forall M progs, Forall (safe M) progs -> forallb blockfree progs = true ->
  forall c, reachable (init progs) c -> finished c \/ exists c', step c c'.
Proof. exact blockfree_progress. Qed.

(* instances on the skeletons regenerated from /repo in this run: any number of goroutines, each running any function *)
Theorem C20_all_listed_code_progress :
  forall progs, Forall (fun p => In p all_ops) progs ->
  forall c, reachable (init progs) c -> finished c \/ (exists c', step c c') \/ env_parked c.
Proof. exact all_ops_progress. Qed.
Theorem C20_all_listed_code_lock_waiters_live :
  forall progs, Forall (fun p => In p all_ops) progs ->
  forall c t l m k, reachable (init progs) c -> In t c -> stack t = Acq l m :: k -> exists c', step c c'.
Proof. exact all_ops_lock_waiters_live. Qed.
Theorem C20_blockCache_progress :
  forall progs, Forall (fun p => In p ops_blockCache) progs ->
  forall c, reachable (init progs) c -> finished c \/ exists c', step c c'.
Proof. exact blockCache_progress. Qed.
Theorem C20_chain_readers_writer_progress : progress3 (ops_blockCache ++ ops_DataAccess ++ ops_Chain).
Proof. exact chain_readers_writer_progress. Qed.
Theorem C20_certificate_pool_progress : progress2 ops_Pool.
Proof. exact certificate_pool_progress. Qed.
(* emitter + subscriptions, no liveness assumption on subscribers: plain sends are Block in the skeleton, so the old
   Publish (send under the emitter lock) is not a safe program and this theorem does not survive a revert of the repair *)
Theorem C20_event_emitter_progress : progress2 (ops_EventEmitter ++ ops_subscription).
Proof. exact event_emitter_progress. Qed.
(* for EVERY lock class of the translated packages: no operation that may wait for another party (Block, Guarded select)
   happens while it is held - except under subscription.sendMutex, whose only waiting operation is select{send, <-done};
   that exemption rests on the remover closing done BEFORE it asks for the mutex, pinned on the source below *)
Theorem C20_no_wait_under_any_lock :
  forallb (fun l => if Nat.eqb l wait_exempt_lock then true else forallb (never_waits_holding l) all_ops) (seq 0 n_locks) = true.
Proof. exact no_wait_under_any_lock. Qed.
Theorem C20_close_signals_before_locking : close_signals_before_locking = true.
Proof. exact close_signals_before_locking_ok. Qed.
Theorem C20_methods_lock_as_pinned : forallb (fun x => snd x) locking_table = true.
Proof. exact locking_table_ok. Qed.
(* the emitter lock is never held at an operation that may wait for another party (plain send/receive, Wait, select) *)
Theorem C20_emitter_lock_never_held_while_waiting :
  forallb (never_waits_holding lk_EventEmitter_rwMutex) ((ops_EventEmitter ++ ops_subscription) ++ ops_event_funcs) = true.
Proof. exact emitter_lock_never_held_while_waiting. Qed.
Theorem C20_diffdb_progress : progress2 ops_Database.
Proof. exact diffdb_progress. Qed.
Theorem C20_sync_progress : progress3 (ops_blockSyncer ++ ops_Syncer ++ ops_DataAccess ++ ops_Chain).
Proof. exact sync_progress. Qed.

(* bulk lookups: with per-index slots (or appends under a lock) every existing item is returned exactly once,
   whatever the order in which the goroutines publish their results *)
Theorem C20_bulk_lookup_exactly_once : forall (A : Type) (items : list (option A)) sched,
  Permutation sched (seq 0 (length items)) ->
  result_slots items sched = found items /\ Permutation (run_locked items sched) (found items).
Proof. intros A. exact bulk_lookup_exactly_once. Qed.
(* ... and every goroutine fan-out of the listed files uses one of these two disciplines (classified from the source) *)
Theorem C20_fanouts_not_racy : forallb (fun p => discipline_ok (snd p)) fanouts = true.
Proof. exact fanouts_ok. Qed.

(* complete committed TIP.  Model (Conc/TipCache.v): AddBlock = database batch, then cache push; RemoveBlock = read the tip and
   fetch the parent if the cache holds a single block, database batch, then popAndRefill; LastBlock = one atomic read of
   the cache head at any moment in between.  For every cache size >= 1 and every operation sequence, in every state the
   writer passes through a read returns a block, and it is the tip of the chain immediately before or immediately after
   the writer operation in progress (the harness checks exactly this bracket with the writer's operation numbers). *)
Theorem C20_tip_linearizable : forall mx ops s, Inv mx s ->
  Forall (fun y => let '(s0, s1, x) := y in
                   exists b, read x = Some b /\ (tip s0 = Some b \/ tip s1 = Some b)) (trace mx s ops).
Proof. exact tip_linearizable. Qed.
Theorem C20_quiescent_read_is_tip : forall mx ops s, Inv mx s ->
  let s' := fold_left (fun a o => last (steps_of mx a o) a) ops s in read s' = tip s' /\ read s' <> None.
Proof. exact quiescent_read_is_tip. Qed.
(* pop first and reload afterwards (the code before ac4bab0): a reachable state in which LastBlock() has nothing to return *)
Theorem C20_nil_tip_refuted : exists mx s o x, Inv mx s /\ In x (steps_of_old mx s o) /\ read x = None.
Proof. exact nil_tip_refuted. Qed.

(* complete blocks: a block is stored under several keys committed in one batch.  A getter that performs all its reads
   on one snapshot returns, in every state of every history of batches, exactly the block committed under that id or
   "not found" - never the header of one state with the transactions of another *)
Theorem C20_snapshot_read_atomic : forall s0 ops n id,
  let s := fold_left apply (firstn n ops) s0 in
  read_snapshot s id = lookup id s.
Proof. exact snapshot_read_committed. Qed.
(* ... every getter of the listed files that assembles a block from its parts reads through one snapshot (from the source) *)
Theorem C20_multi_reads_use_one_snapshot :
  andb (negb (match multi_reads with [] => true | _ => false end))
       (forallb (fun p => read_discipline_ok (snd p)) multi_reads) = true.
Proof. exact multi_reads_ok. Qed.
(* ... whereas separate Gets racing with ONE removal return a block that no state of the history ever contained *)
Theorem C20_separate_reads_torn_refuted :
  exists s0 ops id torn,
    let s1 := fold_left apply ops s0 in
    read_separate s0 s1 s1 id = Some torn /\
    forall s, In s (history s0 ops) -> read_snapshot s id <> Some torn.
Proof. exact separate_reads_torn_refuted. Qed.

(* every method of a lock-owning type of the listed files (block cache, certificate pool, emitter, subscription, staged
   store, tx pool, sender list) enters its own lock at most once per call: check and mutation share one critical section,
   so each method is one atomic step for the other goroutines (no check-then-act across two sections) *)
Theorem C20_operations_are_single_critical_sections :
  forallb (fun x => single_section (snd (fst x)) (snd x)) atomic_ops = true.
Proof. exact atomic_ops_single_section. Qed.

(* the unsafe patterns really are stuck / lossy: none of the premises can be dropped *)
Theorem C20_nested_rlock_refuted : exists c, reachable (init [last_unsafe; push_prog]) c /\ stuck c.
Proof. exact nested_rlock_reachable_stuck. Qed.
Theorem C20_rlock_under_lock_refuted : exists c, reachable (init [add_unsafe]) c /\ stuck c.
Proof. exact rlock_under_lock_reachable_stuck. Qed.
Theorem C20_lock_order_inversion_refuted : stuck [ab_holder; ba_holder].
Proof. exact lock_order_inversion_refuted. Qed.
Theorem C20_block_under_lock_refuted : stuck [lock_waiter; blocked_owner].
Proof. exact block_under_lock_refuted. Qed.
Theorem C20_racy_append_loses_refuted :
  exists (items : list (option nat)) sched,
    valid_racy_sched (length items) sched = true /\
    length (run_racy items sched) < length (found items) /\
    ~ Permutation (run_racy items sched) (found items).
Proof. exact racy_append_loses_refuted. Qed.

(* non-vacuity: the generated skeletons contain real nesting, goroutines and blocking operations *)
Example C20_nonvacuous :
  existsb (fun p => negb (blockfree p)) all_ops = true /\ 2 <= n_locks /\ 50 <= length all_ops.
Proof. vm_compute. repeat split; repeat constructor. Qed.
