(* C10 — property theorems only.  Statements are full; proofs are [exact lemma].
   The hash is abstract: [hempty], [hleaf], [hbranch] are arbitrary (universally quantified) functions. *)
From Coq Require Import List Bool.
From LE Require Import SMT.Spec SMT.Tree SMT.TreeProofs.
Import ListNotations.

(* For every key length n and every sequence of batches (inserts, overwrites, deletes = empty values, duplicates inside
   a batch resolved as trie.Update does) the hash of the incrementally maintained trie is the LIP-0039 root of the
   resulting key->value map. *)
Theorem C10_history_independent :
  forall (V Hsh : Type) (hempty : Hsh) (hleaf : key -> V -> Hsh) (hbranch : Hsh -> Hsh -> Hsh)
         (n : nat) (batches : list (list (@op V))),
    keys_ok n batches ->
    hash hempty hleaf hbranch (fold_left (batch_update n) batches E) =
    smt_root hempty hleaf hbranch n (fold_left map_batch batches []).
Proof. exact @history_independent. Qed.

(* The root is a function of the map only: histories with the same final map (as a function key -> option value)
   give the same root, whatever the order, batching, overwrites, intermediate deletions. *)
Theorem C10_root_is_function_of_map :
  forall (V Hsh : Type) (hempty : Hsh) (hleaf : key -> V -> Hsh) (hbranch : Hsh -> Hsh -> Hsh)
         (n : nat) (h1 h2 : list (list (@op V))),
    keys_ok n h1 -> keys_ok n h2 ->
    (forall k, mget k (fold_left map_batch h1 []) = mget k (fold_left map_batch h2 [])) ->
    hash hempty hleaf hbranch (fold_left (batch_update n) h1 E) =
    hash hempty hleaf hbranch (fold_left (batch_update n) h2 E).
Proof. exact @root_is_function_of_map. Qed.

Theorem C10_empty_root :
  forall (V Hsh : Type) (hempty : Hsh) (hleaf : key -> V -> Hsh) (hbranch : Hsh -> Hsh -> Hsh) (n : nat),
    hash hempty hleaf hbranch (@E V) = hempty /\ smt_root hempty hleaf hbranch n [] = hempty.
Proof. exact @empty_root. Qed.

(* non-vacuity: three 2-bit keys, one deleted again *)
Inductive fh := FE | FL (k : key) (v : nat) | FB (l r : fh).
Example C10_ex :
  hash FE FL FB (fold_left (batch_update 2)
     [[([false; false], Some 1); ([true; false], Some 2)]; [([false; true], Some 3)]; [([true; false], None)]] E)
  = FB (FB (FL [false; false] 1) (FL [false; true] 3)) FE.
Proof. vm_compute. reflexivity. Qed.

(* ---- proofs ---- *)
From LE Require Import SMT.Verify SMT.PathProofs SMT.VerifyProofs.

(* The faithful model of smt.CalculateRoot, run on a single query, is the bottom-up path recomputation [recompute]
   (bitmap bottom-first, sibling hashes in consumption order, direction = key bit at index height-1). *)
Theorem C10_calculate_root_single_query :
  forall (Hsh : Type) (hempty : Hsh) (hbranch : Hsh -> Hsh -> Hsh) (heqb : Hsh -> Hsh -> bool) (hnull : Hsh -> bool),
    (forall h, hnull h = false) ->
    forall kb bm sibs h,
      calculate_root hempty hbranch heqb hnull sibs [W kb bm h] = recompute hempty hbranch (to_bools kb) bm sibs h.
Proof. exact @calculate_root_single. Qed.

(* PARTIAL (single query).  Full statement aimed at: for every query set, [verify keys sibs queries (root of m) = VTrue]
   implies that every (requested key, query) pair states a true claim about m.  Proved here: for ONE query, under an
   injective, domain-separated hash, if the recomputed root equals the hash of a well-formed trie then
   - a non-empty claim (qk, v) is in the map, and every key of the map that shares the first [height] bits with qk is qk
     itself (so a requested key k <> qk with that common prefix — what Verify checks — is absent);
   - an empty claim means that no key of the map has those first [height] bits (the requested key is absent).
   Missing for the full statement: the multi-query merge of CalculateRoot (sibling pairing, insertAndFilterQueries) and
   the byte-level wrapper of Verify; both are covered by the correspondence runs (every accepted tampered proof must
   state only true claims) but not by a Coq proof. *)
Theorem C10_verify_sound_single_query_partial :
  forall (V Hsh : Type) (hempty : Hsh) (hleaf : key -> V -> Hsh) (hbranch : Hsh -> Hsh -> Hsh),
    (forall a b c d, hbranch a b = hbranch c d -> a = c /\ b = d) ->
    (forall k v k' v', length k = length k' -> hleaf k v = hleaf k' v' -> k = k' /\ v = v') ->
    (forall k v a b, hleaf k v <> hbranch a b) ->
    (forall k v, hleaf k v <> hempty) ->
    (forall a b, hbranch a b <> hempty) ->
    forall n (t : @T V) qk bm sibs,
      wf n 0 t -> length qk = n -> length bm <= length qk ->
      (forall v, recompute hempty hbranch qk bm sibs (hleaf qk v) = Some (hash hempty hleaf hbranch t) ->
         In (qk, v) (tomap t) /\
         forall k v', In (k, v') (tomap t) -> firstn (length bm) k = firstn (length bm) qk -> k = qk /\ v' = v) /\
      (recompute hempty hbranch qk bm sibs hempty = Some (hash hempty hleaf hbranch t) ->
         forall k v', In (k, v') (tomap t) -> firstn (length bm) k <> firstn (length bm) qk).
Proof. exact @single_query_sound. Qed.

(* every trie produced by any history is well-formed (so the theorem above applies to every reachable trie) *)
Theorem C10_reachable_tries_wf :
  forall (V : Type) (n : nat) (batches : list (list (@op V))),
    keys_ok n batches -> wf n 0 (fold_left (batch_update n) batches E).
Proof.
  intros V n batches Hk.
  exact (proj1 (@batches_tree_map V unit tt (fun _ _ => tt) (fun _ _ => tt) n batches E [] Hk I (Permutation.Permutation_refl _))).
Qed.

(* ==================== second round: any number of queries ==================== *)
From Coq Require Import NArith.
From LE Require Import SMT.MultiProofs SMT.MultiTop SMT.NodeClaims SMT.PathComplete.

(* SOUNDNESS of smt.Verify (faithful model of Verify + CalculateRoot as repaired), ANY number of queries, any sibling
   hashes, any trie t: if Verify accepts against the hash of t then every query of the proof ends at a real node of t —
   the sub-tree of t at the path given by the first [height] bits of the query key exists and its hash is the claimed
   one (the leaf hash of (Key, Value) for a non-empty value, the empty hash otherwise).
   Hash hypotheses: the equality test decides equality, branch hash injective, leaf/branch/empty domain separation. *)
Theorem C10_verify_sound :
  forall (V Hsh : Type) (hempty : Hsh) (hleaf : key -> V -> Hsh) (hleafb : list N -> list N -> Hsh)
         (hbranch : Hsh -> Hsh -> Hsh) (heqb : Hsh -> Hsh -> bool) (hnull : Hsh -> bool),
    (forall a b, heqb a b = true -> a = b) ->
    (forall a b c d, hbranch a b = hbranch c d -> a = c /\ b = d) ->
    (forall k v a b, hleaf k v <> hbranch a b) ->
    (forall a b, hbranch a b <> hempty) ->
    forall (t : @T V) keys sibs qs kl,
      verify hempty hleafb hbranch heqb hnull keys sibs qs (hash hempty hleaf hbranch t) kl = VTrue ->
      forall q, In q qs ->
        exists nd, subtree_at t (bpath (mk_wq hempty hleafb q)) = Some nd /\
                   hash hempty hleaf hbranch nd = w_hash (mk_wq hempty hleafb q).
Proof. exact @verify_sound. Qed.

(* ... and what such a node statement means for the map of a well-formed trie: a leaf hash (qk, v) at path p puts
   (qk, v) in the map as the only key below p; the empty hash at p means no key of the map lies below p.
   (Gluing the wire leaf hash hleafb(key bytes, value) to the trie leaf hash hleaf(key bits, value) needs the
   ToBools/FromBools round trip on byte strings, which is tied by the correspondence runs only.) *)
Theorem C10_node_claims :
  forall (V Hsh : Type) (hempty : Hsh) (hleaf : key -> V -> Hsh) (hbranch : Hsh -> Hsh -> Hsh),
    (forall k v k' v', length k = length k' -> hleaf k v = hleaf k' v' -> k = k' /\ v = v') ->
    (forall k v a b, hleaf k v <> hbranch a b) ->
    (forall k v, hleaf k v <> hempty) ->
    (forall a b, hbranch a b <> hempty) ->
    forall n (t nd : @T V) p, wf n 0 t -> subtree_at t p = Some nd ->
      (forall qk v, length qk = n -> hash hempty hleaf hbranch nd = hleaf qk v ->
         In (qk, v) (tomap t) /\ forall k v', In (k, v') (tomap t) -> firstn (length p) k = p -> k = qk /\ v' = v) /\
      (hash hempty hleaf hbranch nd = hempty -> forall k v', In (k, v') (tomap t) -> firstn (length p) k <> p).
Proof. exact @node_claims. Qed.

(* PARTIAL (canonical proof of one key).  Full statement aimed at: Verify(keys, Prove(keys), root) = true for every key
   set.  Proved: for one key, walking down the trie collects a bitmap and sibling hashes from which CalculateRoot's
   fold (started at the hash of the leaf / empty node reached) recomputes the root hash; no hash hypothesis.
   Missing: that the model of trie.Prove (with its sibling-hash de-duplication across queries) outputs exactly these
   data and several queries at once — tied by the correspondence (Go proofs = model proofs, all verify). *)
Theorem C10_prove_verify_complete_single_key_partial :
  forall (V Hsh : Type) (hempty : Hsh) (hleaf : key -> V -> Hsh) (hbranch : Hsh -> Hsh -> Hsh) (t : @T V) (bits : key),
    let '(nd, bm, sb) := walk hempty hleaf hbranch t bits in
    recompute hempty hbranch bits (rev bm) (rev sb) (hash hempty hleaf hbranch nd) = Some (hash hempty hleaf hbranch t) /\
    (nd = E \/ exists k v, nd = L k v).
Proof. exact @canonical_proof_verifies. Qed.

From LE Require Import SMT.ClaimsTop.
(* END-TO-END SOUNDNESS against the map, any number of queries.  Trie over keys of kl bytes (8*kl bits), values = byte
   strings, trie leaf hash = wire leaf hash of the re-packed key (hleaf bits v = hleafb (FromBools bits) v, as in the
   correspondence instantiation).  If the faithful Verify accepts against the root of a well-formed trie t (every trie
   reachable by any batch history is well-formed: C10_reachable_tries_wf) then for every (requested key, query) pair:
   a non-empty value is in the map under the query key; an empty value means the requested key is absent; a query key
   whose bits differ from the requested key's means the requested key is absent.
   Hash hypotheses: equality test exact, branch hash injective, wire leaf hash injective AMONG KEYS OF EQUAL LENGTH (a leaf
   commits to key ++ value, not to the split point — which is why Verify must, and after fix bde225a does, reject query keys
   whose length is not the trie's key length), leaf / branch / empty disjoint. *)
Theorem C10_verify_sound_against_map :
  forall (Hsh : Type) (hempty : Hsh) (hleafb : list N -> list N -> Hsh) (hbranch : Hsh -> Hsh -> Hsh)
         (heqb : Hsh -> Hsh -> bool) (hnull : Hsh -> bool),
    (forall a b, heqb a b = true -> a = b) ->
    (forall a b c d, hbranch a b = hbranch c d -> a = c /\ b = d) ->
    (forall k v k' v', length k = length k' -> hleafb k v = hleafb k' v' -> k = k' /\ v = v') ->
    (forall k v a b, hleafb k v <> hbranch a b) ->
    (forall k v, hleafb k v <> hempty) ->
    (forall a b, hbranch a b <> hempty) ->
    forall kl (t : @T (list N)) keys sibs qs,
      wf (8 * kl) 0 t ->
      verify hempty hleafb hbranch heqb hnull keys sibs qs (hash hempty (ClaimsTop.hleaf hleafb) hbranch t) kl = VTrue ->
      forall i k q, nth_error keys i = Some k -> nth_error qs i = Some q ->
        (q_value q <> [] -> In (to_bools (q_key q), q_value q) (tomap t)) /\
        (q_value q = [] -> forall v, ~ In (to_bools k, v) (tomap t)) /\
        (to_bools k <> to_bools (q_key q) -> forall v, ~ In (to_bools k, v) (tomap t)).
Proof. exact @verify_claims. Qed.

From LE Require Import SMT.Prove.
Local Open Scope N_scope.
(* NON-VACUITY of the Verify theorems (audit round 7, L2): with a free (injective, domain-separated) hash over byte keys the
   faithful Verify ACCEPTS the proof that the model of trie.Prove generates — three keys of one byte, two present and
   one absent — so "verify ... = VTrue" in C10_verify_sound / C10_verify_sound_against_map is satisfiable, the conclusions
   hold on this instance, and a changed value is rejected.  (ex_trie is reachable by batches, hence well-formed by
   C10_reachable_tries_wf.) *)
Inductive bh := BE | BL (k v : list N) | BB (l r : bh).
Fixpoint bh_eqb (a b : bh) : bool :=
  match a, b with
  | BE, BE => true
  | BL k v, BL k' v' => bytes_eqb k k' && bytes_eqb v v'
  | BB l r, BB l' r' => bh_eqb l l' && bh_eqb r r'
  | _, _ => false
  end.
Definition ex_trie : @T (list N) :=
  fold_left (batch_update 8)
    [[(to_bools [0x11], Some [1]); (to_bools [0x90], Some [2])]; [(to_bools [0x13], Some [3]); (to_bools [0x90], Some [4])]] E.
Definition ex_root : bh := hash BE (ClaimsTop.hleaf BL) BB ex_trie.
Definition ex_keys : list (list N) := [[0x13]; [0x90]; [0x40]].
Example C10_ex_verify_accepts :
  let '(sibs, qs) := prove BE BL BB bh_eqb ex_trie ex_keys in
  verify BE BL BB bh_eqb (fun _ => false) ex_keys sibs qs ex_root 1 = VTrue /\
  map q_value qs = [[3]; [4]; []] /\
  verify BE BL BB bh_eqb (fun _ => false) ex_keys sibs (Q [0x13] [9] (q_bitmap (nth 0 qs (Q [] [] []))) :: tl qs) ex_root 1 = VFalse.
Proof. vm_compute. repeat split; reflexivity. Qed.

(* ================= LAYERED MODEL of the Go update path and its node store (SMT/Layered.v) =================
   [layered_history hempty hleaf hbranch heqb h lv (store, root) batches] runs trie.Update batch after batch on the
   model of smt.go's storage design: sub-trees of height h (the code: 8 or 4) stored under their root hash as
   (structure, nodes), stubs for lower sub-trees, getSubtree / db.Set / db.Del as in updateSubtree / updateNode,
   calculateSubTree's collapsing; keys have lv*h bits; [None] = an error or panic of the Go code.  The trie object of
   the Go code holds nothing but the root hash, so a re-opened trie is the pair (store, root) again.
   Hash hypotheses (explicit): equality test exact, branch hash injective, leaf hash injective among keys of equal
   length, leaf / branch / empty disjoint. *)
From Coq Require Import Permutation Arith.
From LE Require Import SMT.Layered SMT.LayeredBatch SMT.LayeredProofs SMT.LayeredTop.
Local Open Scope nat_scope.

(* REFINEMENT.  From the empty trie, for every sub-tree height h > 0, every number of layers and every history of batches
   (keys of (S lv')*h bits): the layered update never fails; its root is the LIP-0039 root of the resulting map and the
   hash of the reference trie of C10_history_independent (so all reference theorems transfer to the sub-tree design);
   and the store holds every sub-tree reachable from that root: reading the trie back through the store ([abs], what
   NewTrie + getSubtree do, recursively through the stubs) gives a well-formed reference trie t holding exactly that map
   whose hash is the root. *)
Theorem C10_layered_refines :
  forall (V Hsh : Type) (hempty : Hsh) (hleaf : key -> V -> Hsh) (hbranch : Hsh -> Hsh -> Hsh) (heqb : Hsh -> Hsh -> bool),
    (forall a b, heqb a b = true <-> a = b) ->
    (forall a b c d, hbranch a b = hbranch c d -> a = c /\ b = d) ->
    (forall k v k' v', length k = length k' -> hleaf k v = hleaf k' v' -> k = k' /\ v = v') ->
    (forall k v a b, hleaf k v <> hbranch a b) ->
    (forall k v, hleaf k v <> hempty) ->
    (forall a b, hbranch a b <> hempty) ->
    forall (h lv' : nat) (bs : list (list (@op V))), 0 < h -> keys_ok (S lv' * h) bs ->
    exists s t,
      layered_history hempty hleaf hbranch heqb h (S lv') ([], hempty) bs = Some (s, hash hempty hleaf hbranch t) /\
      hash hempty hleaf hbranch t = smt_root hempty hleaf hbranch (S lv' * h) (fold_left map_batch bs []) /\
      hash hempty hleaf hbranch t = hash hempty hleaf hbranch (fold_left (batch_update (S lv' * h)) bs E) /\
      abs hempty heqb h (S lv') s (hash hempty hleaf hbranch t) = Some t /\
      wf (S lv' * h) 0 t /\ Permutation (tomap t) (fold_left map_batch bs []).
Proof. exact @layered_refines. Qed.

(* RE-OPENING.  After any history bs1 the store answers getSubtree for the current root (the sub-tree read hashes to that
   root), and continuing with bs2 from the pair (store, root) — all a re-created trie object has — succeeds, ends in
   the LIP-0039 root of the map of the whole history, and is the uninterrupted run. *)
Theorem C10_layered_reopen_continues :
  forall (V Hsh : Type) (hempty : Hsh) (hleaf : key -> V -> Hsh) (hbranch : Hsh -> Hsh -> Hsh) (heqb : Hsh -> Hsh -> bool),
    (forall a b, heqb a b = true <-> a = b) ->
    (forall a b c d, hbranch a b = hbranch c d -> a = c /\ b = d) ->
    (forall k v k' v', length k = length k' -> hleaf k v = hleaf k' v' -> k = k' /\ v = v') ->
    (forall k v a b, hleaf k v <> hbranch a b) ->
    (forall k v, hleaf k v <> hempty) ->
    (forall a b, hbranch a b <> hempty) ->
    forall (h lv' : nat) (bs1 bs2 : list (list (@op V))), 0 < h -> keys_ok (S lv' * h) (bs1 ++ bs2) ->
    exists s1 r1 st,
      layered_history hempty hleaf hbranch heqb h (S lv') ([], hempty) bs1 = Some (s1, r1) /\
      layered_open hempty heqb h s1 r1 = Some st /\ shash hempty hleaf hbranch st = r1 /\
      exists s2 r2,
        layered_history hempty hleaf hbranch heqb h (S lv') (s1, r1) bs2 = Some (s2, r2) /\
        r2 = smt_root hempty hleaf hbranch (S lv' * h) (fold_left map_batch (bs1 ++ bs2) []) /\
        layered_history hempty hleaf hbranch heqb h (S lv') ([], hempty) (bs1 ++ bs2) = Some (s2, r2).
Proof. exact @layered_reopen_continues. Qed.

(* SUB-TREE LAYOUT.  Two sub-tree heights dividing the key length (the code: 4 and 8) give the same root after every history. *)
Theorem C10_layered_layout_independent :
  forall (V Hsh : Type) (hempty : Hsh) (hleaf : key -> V -> Hsh) (hbranch : Hsh -> Hsh -> Hsh) (heqb : Hsh -> Hsh -> bool),
    (forall a b, heqb a b = true <-> a = b) ->
    (forall a b c d, hbranch a b = hbranch c d -> a = c /\ b = d) ->
    (forall k v k' v', length k = length k' -> hleaf k v = hleaf k' v' -> k = k' /\ v = v') ->
    (forall k v a b, hleaf k v <> hbranch a b) ->
    (forall k v, hleaf k v <> hempty) ->
    (forall a b, hbranch a b <> hempty) ->
    forall (h1 h2 lv1 lv2 : nat) (bs : list (list (@op V))), 0 < h1 -> 0 < h2 -> S lv1 * h1 = S lv2 * h2 ->
    keys_ok (S lv1 * h1) bs ->
    exists s1 s2 r,
      layered_history hempty hleaf hbranch heqb h1 (S lv1) ([], hempty) bs = Some (s1, r) /\
      layered_history hempty hleaf hbranch heqb h2 (S lv2) ([], hempty) bs = Some (s2, r).
Proof. exact @layered_layout_independent. Qed.

(* The layered root is a function of the final map only (order, batching, overwrites, intermediate deletions). *)
Theorem C10_layered_root_is_function_of_map :
  forall (V Hsh : Type) (hempty : Hsh) (hleaf : key -> V -> Hsh) (hbranch : Hsh -> Hsh -> Hsh) (heqb : Hsh -> Hsh -> bool),
    (forall a b, heqb a b = true <-> a = b) ->
    (forall a b c d, hbranch a b = hbranch c d -> a = c /\ b = d) ->
    (forall k v k' v', length k = length k' -> hleaf k v = hleaf k' v' -> k = k' /\ v = v') ->
    (forall k v a b, hleaf k v <> hbranch a b) ->
    (forall k v, hleaf k v <> hempty) ->
    (forall a b, hbranch a b <> hempty) ->
    forall (h lv' : nat) (b1 b2 : list (list (@op V))), 0 < h -> keys_ok (S lv' * h) b1 -> keys_ok (S lv' * h) b2 ->
    (forall k, mget k (fold_left map_batch b1 []) = mget k (fold_left map_batch b2 [])) ->
    exists s1 s2 r,
      layered_history hempty hleaf hbranch heqb h (S lv') ([], hempty) b1 = Some (s1, r) /\
      layered_history hempty hleaf hbranch heqb h (S lv') ([], hempty) b2 = Some (s2, r).
Proof. exact @layered_root_is_function_of_map. Qed.

(* THE FLAT LOOPS.  utils.go calculateSubTree (level by level from the deepest row, temp nodes, temp-holder queue) and
   hasher.go treeHasher, transcribed on the (structure, nodes) lists in SMT/LayeredFlat.v, compute what the layered model
   uses: the bottom-up collapsing [norm] and the tree hash [shash] of the tree reading — for every sub-tree, no hypothesis. *)
From LE Require Import SMT.LayeredFlat SMT.LayeredFlatProofs.
Theorem C10_layered_calculateSubTree_is_norm :
  forall (V Hsh : Type) (hempty : Hsh) (hleaf : key -> V -> Hsh) (raw : @ST V Hsh),
    calc_subtree (flatten 0 raw) = Some (flatten 0 (norm raw)).
Proof. exact @calc_subtree_norm. Qed.
Theorem C10_layered_treeHasher_is_shash :
  forall (V Hsh : Type) (hempty : Hsh) (hleaf : key -> V -> Hsh) (hbranch : Hsh -> Hsh -> Hsh) (st : @ST V Hsh),
    tree_hasher hempty hleaf hbranch (flatten 0 st) = Some (shash hempty hleaf hbranch st).
Proof. exact @tree_hasher_shash. Qed.

(* ... and therefore the variant of the layered model that calls the flat loops (and re-decodes their output, as the Go code
   re-reads what it wrote) IS the layered model: same result on every store, root and batch, no hypothesis. *)
Theorem C10_layered_update_flat_is_layered :
  forall (V Hsh : Type) (hempty : Hsh) (hleaf : key -> V -> Hsh) (hbranch : Hsh -> Hsh -> Hsh) (heqb : Hsh -> Hsh -> bool)
         (h lv : nat) (sr : @store V Hsh * Hsh) (ops : list (@op V)),
    layered_update_flat hempty hleaf hbranch heqb h lv sr ops = layered_update hempty hleaf hbranch heqb h lv sr ops.
Proof. exact @layered_update_flat_eq. Qed.

(* SUB-TREE BYTE ENCODING (subtree.go encode / newSubTree; SMT/LayeredCodec.v).  Decoding an encoded sub-tree gives it back
   provided it has 1..256 bottom nodes (length byte = count - 1, a uint8), every leaf key has 8*kl bits, EVERY LEAF VALUE HAS
   32 BYTES and every stub hash has 32 bytes; and the sub-tree the layered model stores for a trie whose keys have 8*kl bits
   and whose values have 32 bytes, with a 32-byte branch hash and sub-tree height <= 8, satisfies these conditions. *)
From LE Require Import SMT.LayeredCodec.
Theorem C10_layered_subtree_codec_roundtrip :
  forall (kl : nat) (c : bflat), 1 <= length c <= 256 -> Forall (fun e => node_ok kl (snd e)) c ->
    dec_bytes kl (enc_bytes c) = Some c.
Proof. exact dec_enc. Qed.
Theorem C10_layered_stored_entry_decodes :
  forall (hempty : list N) (hleaf : key -> list N -> list N) (hbranch : list N -> list N -> list N),
    (forall a b, length (hbranch a b) = 32) ->
    forall (kl h : nat) (t : @T (list N)), h <= 8 -> kv_ok kl t ->
      dec_bytes kl (enc_bytes (flatten 0 (trunc hempty hleaf hbranch h t))) = Some (flatten 0 (trunc hempty hleaf hbranch h t)).
Proof. exact stored_entry_decodes. Qed.

(* trie.Prove THROUGH THE STORE (SMT/LayeredProve.v: generateQueryProof reading sub-trees with getSubtree, recursing through
   the stubs, then the same sort + calculateSiblingHashes merge).  After every history from the empty trie the code-shaped
   prover succeeds for every list of query keys and returns exactly [prove t keys] (SMT/Prove.v) for the reference trie t read
   back from the store (well-formed, holding exactly the map of the history) — so C10_verify_sound*, C10_node_claims and
   C10_prove_verify_complete_single_key_partial, stated for [prove] / tries, hold for the prover that reads the store. *)
From LE Require Import SMT.LayeredProve.
Theorem C10_layered_prove_refines :
  forall (Hsh : Type) (hempty : Hsh) (hleafb : list N -> list N -> Hsh) (hbranch : Hsh -> Hsh -> Hsh) (heqb : Hsh -> Hsh -> bool),
    (forall a b, heqb a b = true <-> a = b) ->
    (forall a b c d, hbranch a b = hbranch c d -> a = c /\ b = d) ->
    (forall k v k' v', length k = length k' -> Prove.hleaf hleafb k v = Prove.hleaf hleafb k' v' -> k = k' /\ v = v') ->
    (forall k v a b, Prove.hleaf hleafb k v <> hbranch a b) ->
    (forall k v, Prove.hleaf hleafb k v <> hempty) ->
    (forall a b, hbranch a b <> hempty) ->
    forall (h lv' : nat) (bs : list (list (@op (list N)))) (keys : list (list N)), 0 < h -> keys_ok (S lv' * h) bs ->
    exists s t,
      layered_history hempty (Prove.hleaf hleafb) hbranch heqb h (S lv') ([], hempty) bs =
        Some (s, hash hempty (Prove.hleaf hleafb) hbranch t) /\
      wf (S lv' * h) 0 t /\ Permutation (tomap t) (fold_left map_batch bs []) /\
      lprove hempty hleafb hbranch heqb h (S lv') s (hash hempty (Prove.hleaf hleafb) hbranch t) keys =
        Some (prove hempty hleafb hbranch heqb t keys).
Proof. exact @layered_prove_refines. Qed.

(* NON-VACUITY.  The free hash xh (SMT/LayeredEx.v) satisfies every hash hypothesis above (so the theorems apply to it), and on 4-bit keys
   a history with inserts, an overwrite, and deletions that empty a lower sub-tree runs on the layered model with
   sub-trees of height 2 (two layers) and of height 1 (four layers): same root as the reference trie, the trie read back
   through the store is the reference trie, the lower sub-tree written by the first batch (key FB (FL 0000 1) (FL 0010 2))
   is in the store after batch 1 and deleted by batch 2, and a store missing a reachable sub-tree makes [abs] fail. *)
From LE Require Import SMT.LayeredEx.
Example C10_ex_layered_hypotheses_hold :
  (forall a b, xh_eqb a b = true <-> a = b) /\
  (forall a b c d, XB a b = XB c d -> a = c /\ b = d) /\
  (forall k v k' v', length k = length k' -> XL k v = XL k' v' -> k = k' /\ v = v') /\
  (forall k v a b, XL k v <> XB a b) /\ (forall k v, XL k v <> XE) /\ (forall a b, XB a b <> XE).
Proof. exact xh_hyps. Qed.

Definition lex_hist : list (list (@op nat)) :=
  [[([false; false; false; false], Some 1); ([false; false; true; false], Some 2); ([true; false; false; false], Some 3)];
   [([false; false; true; true], Some 4); ([false; false; false; false], Some 5); ([false; false; false; false], Some 9)];
   [([false; false; true; false], None); ([false; false; true; true], None); ([false; true; true; true], None)]].
Definition lex_ref : @T nat := fold_left (batch_update 4) lex_hist E.
Definition lex_low1 : xh := XB (XL [false; false; false; false] 1) (XL [false; false; true; false] 2).
Example C10_ex_layered :
  (* two layers of height 2, four layers of height 1: root of the reference trie, trie read back = reference trie *)
  (match layered_history XE XL XB xh_eqb 2 2 ([], XE) lex_hist with
   | Some (s, r) => r = hash XE XL XB lex_ref /\ abs XE xh_eqb 2 2 s r = Some lex_ref
   | None => False end) /\
  (match layered_history XE XL XB xh_eqb 1 4 ([], XE) lex_hist with
   | Some (s, r) => r = hash XE XL XB lex_ref /\ abs XE xh_eqb 1 4 s r = Some lex_ref
   | None => False end) /\
  lex_ref = B (L [false; false; false; false] 5) (L [true; false; false; false] 3) /\
  (* the lower sub-tree of batch 1 is stored, then deleted when batch 2 rewrites it *)
  (match layered_history XE XL XB xh_eqb 2 2 ([], XE) (firstn 1 lex_hist) with
   | Some (s, r) => sget xh_eqb lex_low1 s = Some [(1, NL [false; false; false; false] 1); (1, NL [false; false; true; false] 2)] /\
                    (* dropping it from the store breaks reading the trie back *)
                    abs XE xh_eqb 2 2 (sdel xh_eqb lex_low1 s) r = None
   | None => False end) /\
  (match layered_history XE XL XB xh_eqb 2 2 ([], XE) (firstn 2 lex_hist) with
   | Some (s, r) => sget xh_eqb lex_low1 s = None
   | None => False end).
Proof. vm_compute. repeat split; reflexivity. Qed.

(* ---- stepping stones towards multi-key completeness (which stays partial, see docs/C10.md) ---- *)
From LE Require Import SMT.NodeDistinct SMT.ProveFacts.
(* Distinct nodes have distinct hashes: in a well-formed trie, under the injective and domain-separated hash, two non-empty
   sub-tries at paths p and p' with the same hash sit at the same path.  (trie.Prove drops a sibling hash iff it EQUALS an
   ancestor hash or an already emitted hash; by this theorem "equal hash" means "same node".) *)
Theorem C10_node_hash_distinct :
  forall (V Hsh : Type) (hempty : Hsh) (hleaf : key -> V -> Hsh) (hbranch : Hsh -> Hsh -> Hsh),
    (forall a b c d, hbranch a b = hbranch c d -> a = c /\ b = d) ->
    (forall k v k' v', length k = length k' -> hleaf k v = hleaf k' v' -> k = k' /\ v = v') ->
    (forall k v a b, hleaf k v <> hbranch a b) ->
    (forall k v, hleaf k v <> hempty) ->
    (forall a b, hbranch a b <> hempty) ->
    forall n (t a b : @T V) p p', wf n 0 t ->
      subtree_at t p = Some a -> subtree_at t p' = Some b -> a <> E ->
      hash hempty hleaf hbranch a = hash hempty hleaf hbranch b -> p = p'.
Proof. exact @node_hash_distinct. Qed.

(* Honest bitmaps survive the wire: the per-query bitmap read off a well-formed trie (top-first [qbm], sent bottom-first) has
   a TRUE bottom bit whenever it is not empty, and a bitmap starting with true is unchanged by FromBools (left padding)
   followed by ToBools + the stripping of leading false bits that Verify performs. *)
Theorem C10_honest_bitmap_bottom_bit :
  forall (Hsh : Type) (hempty : Hsh) (hleafb : list N -> list N -> Hsh) (hbranch : Hsh -> Hsh -> Hsh)
         (t : @T (list N)) (d i : nat) (bits : key),
    wf d i t -> qbm (qpath hempty hleafb hbranch t bits i) <> [] ->
    last (qbm (qpath hempty hleafb hbranch t bits i)) false = true.
Proof. exact @qpath_bottom_bit. Qed.
Theorem C10_bitmap_wire_roundtrip :
  forall l : list bool, strip_false (to_bools (from_bools (true :: l))) = true :: l.
Proof. exact bitmap_wire_roundtrip. Qed.
