(* C10 — property theorems only.  Statements are full; proofs are [exact lemma].
   The hash is abstract: [hempty], [hleaf], [hbranch] are arbitrary (universally quantified) functions. *)
From Coq Require Import List Bool.
From LE Require Import SMT.Spec SMT.Tree SMT.TreeProofs.
Import ListNotations.

(* For every key length n and every sequence of batches (inserts, overwrites, deletes = empty values, duplicates inside
   a batch resolved as trie.Update does) the hash of the incrementally maintained trie is the LIP-0039 root of the
   resulting key->value map. *)
Theorem C10_history_independent :
  forall (V Hsh : Type) (hempty : Hsh) (hleaf : key -> V -> Hsh) (hbranch : Hsh -> Hsh -> Hsh)
         (n : nat) (batches : list (list (@op V))),
    keys_ok n batches ->
    hash hempty hleaf hbranch (fold_left (batch_update n) batches E) =
    smt_root hempty hleaf hbranch n (fold_left map_batch batches []).
Proof. exact @history_independent. Qed.

(* The root is a function of the map only: histories with the same final map (as a function key -> option value)
   give the same root, whatever the order, batching, overwrites, intermediate deletions. *)
Theorem C10_root_is_function_of_map :
  forall (V Hsh : Type) (hempty : Hsh) (hleaf : key -> V -> Hsh) (hbranch : Hsh -> Hsh -> Hsh)
         (n : nat) (h1 h2 : list (list (@op V))),
    keys_ok n h1 -> keys_ok n h2 ->
    (forall k, mget k (fold_left map_batch h1 []) = mget k (fold_left map_batch h2 [])) ->
    hash hempty hleaf hbranch (fold_left (batch_update n) h1 E) =
    hash hempty hleaf hbranch (fold_left (batch_update n) h2 E).
Proof. exact @root_is_function_of_map. Qed.

Theorem C10_empty_root :
  forall (V Hsh : Type) (hempty : Hsh) (hleaf : key -> V -> Hsh) (hbranch : Hsh -> Hsh -> Hsh) (n : nat),
    hash hempty hleaf hbranch (@E V) = hempty /\ smt_root hempty hleaf hbranch n [] = hempty.
Proof. exact @empty_root. Qed.

(* non-vacuity: three 2-bit keys, one deleted again *)
Inductive fh := FE | FL (k : key) (v : nat) | FB (l r : fh).
Example C10_ex :
  hash FE FL FB (fold_left (batch_update 2)
     [[([false; false], Some 1); ([true; false], Some 2)]; [([false; true], Some 3)]; [([true; false], None)]] E)
  = FB (FB (FL [false; false] 1) (FL [false; true] 3)) FE.
Proof. vm_compute. reflexivity. Qed.
