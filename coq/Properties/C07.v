(* C07 — property theorems only.  Statements are full; proofs are [exact lemma]. *)
From Coq Require Import List NArith Bool.
From LE Require Import BFT.Contradiction BFT.ContradictionProofs BFT.ForkChoice BFT.ForkChoiceProofs.
Import ListNotations.
Local Open Scope N_scope.

Theorem C07_contradicting_sym : forall b1 b2, contradicting b1 b2 = contradicting b2 b1.
Proof. exact contradicting_sym. Qed.

Theorem C07_contradicting_iff : forall b1 b2,
  contradicting b1 b2 = true <->
  gen b1 = gen b2 /\ ~ legit_successor b1 b2 /\ ~ legit_successor b2 b1.
Proof. exact contradicting_iff. Qed.

Theorem C07_different_generators_never : forall b1 b2, gen b1 <> gen b2 -> contradicting b1 b2 = false.
Proof. exact different_generators_never. Qed.

Theorem C07_double_forging_flagged : forall b1 b2,
  gen b1 = gen b2 -> height b1 = height b2 -> mhp b1 = mhp b2 -> contradicting b1 b2 = true.
Proof. exact double_forging_flagged. Qed.

Theorem C07_lower_mhp_chain_flagged : forall e l,
  gen e = gen l -> mhg e < mhg l -> mhp l < mhp e -> contradicting e l = true.
Proof. exact lower_mhp_chain_flagged. Qed.

Theorem C07_violating_own_mhg_flagged : forall e l,
  gen e = gen l -> mhg e <= mhg l -> mhg l < height e -> height e < height l -> contradicting e l = true.
Proof. exact violating_own_mhg_flagged. Qed.

Theorem C07_follower_never_flagged : forall hs, follower hs ->
  forall b1 b2, In b1 hs -> In b2 hs -> b1 <> b2 -> contradicting b1 b2 = false.
Proof. exact follower_never_flagged. Qed.

(* LIP-0014 classification, order-free: [spec_cases] lists every case whose COMPLETE condition (ForkChoice.v [spec_conditions]:
   each case spelled out on header fields and slot numbers, including what must not hold) is met; exactly one case applies, and
   it is the one the evaluation order of Executer.process ([classify]) selects — the order of the tests is immaterial. *)
Theorem C07_classify_lip14 : forall c last cur t_last t_cur,
  spec_cases c last cur t_last t_cur = [classify c last cur t_last t_cur].
Proof. exact spec_cases_singleton. Qed.
Theorem C07_lip14_case_unique : forall c last cur t_last t_cur k,
  In k (spec_cases c last cur t_last t_cur) <-> k = classify c last cur t_last t_cur.
Proof. exact spec_case_unique. Qed.
(* the slot number used by the tie-break conditions is plain floor division for timestamps not before genesis *)
Theorem C07_slot_number_is_floor_division : forall c ts, genesis_ts c <= ts -> ts < 4294967296 ->
  slot_number c ts = (ts - genesis_ts c) / interval c.
Proof. exact slot_number_spec. Qed.

(* API.HeaderHasPriority (version-2 headers) and Executer.Synced: "has priority over (height, maxHeightPrevoted)" is the strict
   LIP-0014 order on (maxHeightPrevoted, height), the same order IsDifferentChain uses, read from the other side; two chains
   neither of which has priority over the other have equal (maxHeightPrevoted, height). Version-0 (genesis) tip: both bounded
   by its height. *)
Theorem C07_priority_is_lip14_order : forall hm hh height mhp,
  has_priority hm hh height mhp = true <-> lex_lt (mhp, height) (hm, hh).
Proof. exact has_priority_is_lex. Qed.
Theorem C07_priority_is_different_chain : forall hm hh height mhp,
  has_priority hm hh height mhp = is_different_chain_raw mhp hm height hh.
Proof. exact has_priority_is_different_chain. Qed.
Theorem C07_priority_total : forall hm hh height mhp,
  has_priority hm hh height mhp = false -> has_priority mhp height hh hm = false -> hm = mhp /\ hh = height.
Proof. exact has_priority_total. Qed.
Theorem C07_priority_v0 : forall hh height mhp, has_priority_v0 hh height mhp = true <-> height <= hh /\ mhp <= hh.
Proof. exact has_priority_v0_spec. Qed.

Theorem C07_different_chain_is_lex_order : forall lm cm lh ch,
  is_different_chain_raw lm cm lh ch = true <-> lex_lt (lm, lh) (cm, ch).
Proof. exact different_chain_is_lex. Qed.

Theorem C07_different_chain_asym : forall lm cm lh ch,
  is_different_chain_raw lm cm lh ch = true -> is_different_chain_raw cm lm ch lh = false.
Proof. exact different_chain_asym. Qed.

Theorem C07_different_chain_trans : forall m1 h1 m2 h2 m3 h3,
  is_different_chain_raw m1 m2 h1 h2 = true -> is_different_chain_raw m2 m3 h2 h3 = true ->
  is_different_chain_raw m1 m3 h1 h3 = true.
Proof. exact different_chain_trans. Qed.

Theorem C07_classification_sound : forall c last cur tl tc,
  match classify c last cur tl tc with
  | DifferentChain => lex_lt (f_mhp last, f_height last) (f_mhp cur, f_height cur)
  | TieBreak | DoubleForging => f_mhp last = f_mhp cur /\ f_height last = f_height cur /\ f_prev last = f_prev cur
  | ValidBlock => f_height cur = u32 (f_height last + 1) /\ f_prev cur = f_id last
  | Identical => f_id cur = f_id last
  | Discard => ~ lex_lt (f_mhp last, f_height last) (f_mhp cur, f_height cur)
  end.
Proof. exact switch_only_to_not_worse. Qed.

(* "a contradicting header inside the 3-round window always is flagged": on any chain whose blocks each passed the two BFT
   rules of block verification (own maxHeightPrevoted, no contradiction with the chain) — state invariant [vgood], established
   by [init_vgood] and preserved by [valid_block_step] — a candidate next header that contradicts ANY windowed header of its
   generator is reported by IsHeaderContradictingChain, although only the newest such header is compared. *)
From LE Require Import BFT.Votes BFT.VotesProofs.
Theorem C07_window_complete : forall s b tip, vgood tip s -> h_height b = tip + 1 -> h_mhp b = v_mhp (s_votes s) ->
  (exists x, In x (window s) /\ i_gen x = h_gen b /\ contradicting (bh_of_info x) (bh_of_hdr b) = true) ->
  chain_contradicting (s_votes s) b = true.
Proof. exact contradicting_in_window_is_flagged. Qed.

(* ... and the restriction to NEXT headers (height = tip + 1, which block verification checks first) is necessary: REFUTED for
   headers at or below the tip — a second header of a generator at the height of its OLDER windowed header, legitimate with
   respect to its newest one, is not reported (witness: 4 unit validators, validator 1 forges heights 1 and 3). *)
From LE Require Import BFT.WindowRefuted.
Theorem C07_window_complete_below_tip_refuted : exists s b tip,
  vgood tip s /\ h_height b <= tip /\ h_mhp b = v_mhp (s_votes s) /\
  (exists x, In x (window s) /\ i_gen x = h_gen b /\ contradicting (bh_of_info x) (bh_of_hdr b) = true) /\
  chain_contradicting (s_votes s) b = false.
Proof. exact window_complete_needs_next_height. Qed.

Theorem C07_valid_chain_invariant : forall batch s x s1 tip, (0 < batch)%nat -> vgood tip s -> h_height (fst x) = tip + 1 ->
  bft_valid s (fst x) = true -> apply_block batch s x = Ok s1 -> vgood (tip + 1) s1.
Proof. exact valid_block_step. Qed.

Theorem C07_valid_chain_invariant_init : forall batch gh c s0, init_store batch gh c = Ok s0 -> vgood gh s0.
Proof. exact init_vgood. Qed.

(* Tie by translation: the order in which Executer.process tests the fork-choice predicates (regenerated from the source on
   every run, coq/Gen/ForkOrder.v) yields exactly the proved classification, and each branch performs the expected actions. *)
From LE Require Import Gen.ForkOrder BFT.ForkOrderProofs.
Theorem C07_process_dispatch_order : forall c last cur tl tc,
  dispatch (map fst process_branches) c last cur tl tc = classify c last cur tl tc.
Proof. exact process_dispatch_is_classify. Qed.
Theorem C07_process_branch_actions : process_branches = expected_branches.
Proof. exact process_branches_expected. Qed.
