(* C14 — property theorems only.  Statements are full; proofs are [exact lemma]. *)
From Coq Require Import List Arith NArith Bool.
From LE Require Import Pool.Assoc Pool.TxList Pool.TxListProofs Pool.TxPool Pool.TxPoolProofs.
From LE Require Import Conc.RWMutex Conc.Skeleton Conc.Progress Conc.Atomic Gen.Skeletons Conc.Instances.
Import ListNotations.
Local Open Scope N_scope.

(* The index-agreement invariant holds after EVERY sequence of atomic pool operations (Add, Remove, reorg goroutine
   creation, each action of each reorg goroutine: any interleaving of reorg with Add/Remove is such a sequence), for
   every verifier answer, Publish result and eviction tie-break, with limits from 1 upwards.  PoolInv = ids unique;
   fee queue = allTransactions; one list per sender; every list consistent (keys = nonce heap, tx stored at its own
   nonce under its own sender, size <= per-sender limit, processables gap-free and stored); every pooled tx sits in its
   sender's list at its nonce and every listed tx is pooled; size <= MaxTransactions; processables were verified. *)
Theorem C14_inv : forall c ops, cfg_ok c -> PoolInv c (run c ops).
Proof. exact run_inv. Qed.

Theorem C14_size_bounded : forall c ops, cfg_ok c -> (length (all (run c ops)) <= max_txs c)%nat.
Proof. exact size_bounded. Qed.

(* per sender: at most the configured number of transactions (the nonce heap lists exactly the stored nonces, once each) *)
Theorem C14_per_sender_bounded : forall c ops a L, cfg_ok c -> afind a (accts (run c ops)) = Some L ->
  (length (nonces L) <= max_per c)%nat /\ (forall n, In n (nonces L) <-> afind n (txs L) <> None) /\ NoDup (nonces L).
Proof. exact per_sender_bounded. Qed.

Theorem C14_one_tx_per_sender_nonce : forall c ops t1 t2, cfg_ok c ->
  In t1 (all (run c ops)) -> In t2 (all (run c ops)) -> tsender t1 = tsender t2 -> tnonce t1 = tnonce t2 -> t1 = t2.
Proof. exact one_tx_per_sender_nonce. Qed.

(* each sender's processables: a gap-free ascending run of nonces, each holding a pooled transaction of that sender
   whose id was answered "not invalid" by the verifier in a reorg step *)
Theorem C14_processables_gap_free_verified : forall c ops a L, cfg_ok c -> afind a (accts (run c ops)) = Some L ->
  gap_free (procs L) /\
  forall n, In n (procs L) -> exists t, afind n (txs L) = Some t /\ In t (all (run c ops)) /\
                                       tsender t = a /\ tnonce t = n /\ In (tid t) (verified (run c ops)).
Proof. exact processables_gap_free_verified. Qed.

(* when Add reports that the sender list dropped transaction [rid]: it was pooled, belongs to the same sender, and
   either sat at the same nonce - then the newcomer pays at least its fee plus the configured difference (no uint64
   wrap) - or was the sender's highest nonce above the newcomer's (per-sender limit); afterwards no index knows [rid]
   (by C14_inv: no list and not the fee queue either) and the newcomer is pooled *)
Theorem C14_replacement_needs_fee_and_evicts_everywhere : forall c t v pub ch p rid, cfg_ok c -> PoolInv c p ->
  o_replaced (snd (pool_add c t v pub ch p)) = Some rid ->
  (exists old, In old (all p) /\ tid old = rid /\ tsender old = tsender t /\
               (tnonce old = tnonce t -> tfee old + min_diff c <= tfee t) /\
               (tnonce old <> tnonce t -> tnonce t < tnonce old)) /\
  (forall u, In u (all (fst (pool_add c t v pub ch p))) -> tid u <> rid) /\
  In t (all (fst (pool_add c t v pub ch p))).
Proof. exact replacement_needs_fee_and_evicts_everywhere. Qed.

(* the same rule read off the STATES, independent of what the operation reports: if [old] is pooled, the newcomer [t] has
   the same sender and nonce (another id) and [t] is pooled after the Add, then t pays at least old's fee plus the
   configured difference and [old] is gone - whether the sender list replaced it or the full-pool eviction dropped it
   first (fee priority is fee/size: without the pre-eviction fee test a smaller, CHEAPER newcomer could get in that way) *)
Theorem C14_replacement_state_based : forall c t v pub ch p old, cfg_ok c -> PoolInv c p ->
  In old (all p) -> tsender old = tsender t -> tnonce old = tnonce t -> tid old <> tid t ->
  In t (all (fst (pool_add c t v pub ch p))) ->
  tfee old + min_diff c <= tfee t /\ ~ In old (all (fst (pool_add c t v pub ch p))).
Proof. exact replacement_state_based. Qed.

(* a full pool makes room: eviction always finds a victim, so Add never grows the pool beyond the limit nor blocks *)
Theorem C14_eviction_always_succeeds : forall c ch p, PoolInv c p -> all p <> [] ->
  (length (all (fst (evict ch p))) + 1 = length (all p))%nat.
Proof. exact evict_length. Qed.

(* blocking: skeletons regenerated from txpool.go / txlist.go / event.go in this run *)
Theorem C14_pool_ops_never_block :
  (* any number of concurrent API callers (Get, GetAll, GetProcessable, Add, Remove, Subscribe) *)
  (forall progs, Forall (fun p => In p pool_api) progs ->
     forall c, reachable (init progs) c -> finished c \/ exists c', step c c') /\
  (* ... also together with the reorg ticker, its goroutines, the announcement handler and the emitter: nobody waits
     for a lock forever; only reorg's wg.Wait / Start's select may be parked, owning no lock *)
  (forall progs, Forall (fun p => In p pool_all) progs ->
     forall c, reachable (init progs) c -> finished c \/ (exists c', step c c') \/ env_parked c) /\
  (forall progs, Forall (fun p => In p pool_all) progs ->
     forall c t l m k, reachable (init progs) c -> In t c -> stack t = Acq l m :: k -> exists c', step c c').
Proof. exact (conj pool_api_progress (conj pool_all_progress pool_lock_waiters_live)). Qed.

(* SCOPE OF C14_inv: it is proved for the state machine in which Add, Remove and every list operation is ONE atomic step.
   That is the implementation's state machine only while each of these methods is a single critical section of its
   object's lock, checks and mutation together.  An Add split into "check under the read lock / verifier call with no
   lock / insert under the write lock using the earlier decision" is a DIFFERENT machine (two steps with a stale flag):
   two overlapping Adds then both skip the eviction and the pool holds MaxTransactions+1 - C14_inv says nothing about it.
   The tie is this obligation on the skeletons regenerated from the source: every method of a lock-owning type of the
   listed files (the pool, the sender list, the block cache, the certificate pool, the emitter, the staged store) enters
   its own lock at most once on every path (Conc/Atomic.v). *)
Theorem C14_operations_are_single_critical_sections :
  forallb (fun x => single_section (snd (fst x)) (snd x)) atomic_ops = true.
Proof. exact atomic_ops_single_section. Qed.

(* single_section alone does not tie the model to the locking (zero sections and the wrong mode pass it).  The tie is the
   PINNED locking table of translate/skeletons against the extracted skeletons: every method of the pool, the sender list
   (and the block cache, certificate pool, emitter, subscription, staged store) either takes its own lock exactly once on
   every path in the pinned mode - W for Add, Remove/remove and the list operations, R for Get, GetAll, GetProcessable and
   reorg's spawn section -, or is pinned as a helper that never takes it (runs under the caller's lock), or is a listed
   wrapper; a method missing from the table aborts the translation.  (checker decision on translator output) *)
Theorem C14_methods_lock_as_pinned : forallb (fun x => snd x) locking_table = true.
Proof. exact locking_table_ok. Qed.
(* pkg/engine builds the pool configuration field by field from the equally named configuration fields *)
Theorem C14_engine_wires_pool_config_field_by_field :
  andb (Nat.leb 5 (List.length pool_config_wiring)) (forallb (fun p => String.eqb (fst p) (snd p)) pool_config_wiring) = true.
Proof. exact pool_config_wiring_ok. Qed.

(* the pre-fix shape of Add (Lock, then RLock of the same mutex in evictUnprocessable) is a reachable deadlock *)
Theorem C14_add_self_deadlock_refuted : exists c, reachable (init [add_unsafe]) c /\ stuck c.
Proof. exact rlock_under_lock_reachable_stuck. Qed.

(* non-vacuity: a run that fills the pool, replaces, evicts and promotes *)
Example C14_example_run :
  let c := mkCfg 2 2 0 10 in
  let t1 := mkTx 1 7 0 100 5 in let t2 := mkTx 2 7 1 100 6 in let t3 := mkTx 3 7 0 120 7 in let t4 := mkTx 4 8 0 300 9 in
  let p := run c [OAdd t1 AOk true []; OAdd t2 AOk true []; OAdd t3 AOk true []; OReorgSpawn;
                  OReorgStep 7 []; OReorgStep 7 []; OReorgStep 7 []; OAdd t4 APending true []] in
  map tid (all p) = [3; 4] /\ verified p = [3; 2] /\
  match afind 7 (accts p) with Some L => procs L = [0] | None => False end.
Proof. vm_compute. repeat split. Qed.

(* the processable run never starts above a pooled lower nonce: every pooled nonce of the sender below a processable
   nonce is processable itself, i.e. (with gap-freeness) the processables are exactly the sender's lowest pooled nonces.
   Holds for every interleaving: a new lower nonce demotes (Add), and Promote refuses a run that does not start at the
   sender's lowest pooled nonce (first processable removed between GetPromotable and Promote). *)
Theorem C14_processables_are_lowest : forall c ops a L, cfg_ok c -> afind a (accts (run c ops)) = Some L ->
  forall n p, In n (nonces L) -> In p (procs L) -> n < p -> In n (procs L).
Proof. exact processables_are_lowest. Qed.

(* the two schedules that used to break it *)
Example C14_lower_nonce_arriving_later_demotes :
  let c := mkCfg 3 3 0 1 in
  let t3 := mkTx 1 7 3 100 5 in let t0 := mkTx 2 7 0 100 6 in let t1 := mkTx 3 7 1 100 7 in
  let p := run c [OAdd t3 AOk true []; OReorgSpawn; OReorgStep 7 []; OReorgStep 7 []; OReorgStep 7 [];
                  OAdd t0 AOk true []; OAdd t1 AOk true []; OReorgSpawn; OReorgStep 7 []; OReorgStep 7 []; OReorgStep 7 []] in
  match afind 7 (accts p) with
  | Some L => procs L = [0; 1] /\ sortN (nonces L) = [0; 1; 3]
  | None => False
  end.
Proof. vm_compute. repeat split. Qed.
Example C14_first_processable_removed_during_reorg :
  let c := mkCfg 3 3 0 1 in
  let t0 := mkTx 1 7 0 100 5 in let t1 := mkTx 2 7 1 100 6 in let t2 := mkTx 3 7 2 100 7 in
  let p := run c [OAdd t0 AOk true []; OAdd t1 AOk true []; OReorgSpawn; OReorgStep 7 []; OReorgStep 7 []; OReorgStep 7 [];
                  OAdd t2 AOk true []; OReorgSpawn; OReorgStep 7 []; OReorgStep 7 [];
                  ORemove 1;                  (* nonce 0 leaves between GetProcessables and Promote *)
                  OReorgStep 7 []] in
  match afind 7 (accts p) with
  | Some L => procs L = [] /\ sortN (nonces L) = [1; 2] /\ map tnonce (get_promotable L) = [1; 2]
  | None => False
  end.
Proof. vm_compute. repeat split. Qed.
