(* C01 — property theorems only.
   Full-strength target (kept visible; FALSE of the code as the two _refuted theorems show):
     forall universes of valid chains, all weight vectors, thresholds as accepted by SetBFTParameters and all validator-set
     changes: if < 1/3 of the weight is Byzantine and all other validators sign only non-contradicting headers, the finalized
     prefixes of any two views are comparable.
   What is proved:
   * C01_static_safety_decl / _one_third / _same_height_same_block: the property at full strength for every STATIC validator
     set whose thresholds satisfy prevoteThr + precommitThr > W + f (in particular the default floor(2W/3)+1 with 3f < W),
     derived from the faithful executable model of liskbft (BFT/Votes.v) with NO remaining premise: all fork trees (any
     prefix-closed universe of valid chains), all Byzantine strategies of the validators in [byz], all weight vectors, chains
     shorter and longer than the vote window;
   * C01_examine_safe: the executable safety oracle used by the correspondence never reports a conflict under these hypotheses;
   * C01_safety_partial: the protocol-level theorem for arbitrary block trees under quorum intersection (covers dynamic
     validator sets under the explicit per-view QI premise);
   * the two refutations of the unrestricted statement (thresholds as low as SetBFTParameters accepts; fork-dependent
     validator-set changes): known findings. *)
From Coq Require Import List NArith Bool Arith.
From LE Require Import BFT.Contradiction BFT.Votes BFT.Universe BFT.Refuted BFT.SafetyAbstract BFT.VotesGhost BFT.SafetyInst BFT.SafetyOracle.
Import ListNotations.

(* PARTIAL: extra premises = quorum intersection QI (the bound LIP-0058 needs: prevoteThr + precommitThr > W + f for the
   parameters in force on both chains), the maxHeightPrevoted witness property, precommit-needs-prevote, and the tree laws of
   the block/ancestor structure. Conclusion: any two blocks with a precommit quorum in any two views are on one chain. *)
Theorem C01_safety_partial :
  forall (block validator : Type) (height mhg mhp : block -> nat) (gen : block -> validator)
         (anc : block -> block -> Prop) (honest : validator -> Prop),
    (forall a b : block, {a = b} + {a <> b}) ->
    (forall a, anc a a) -> (forall a b c, anc a b -> anc b c -> anc a c) ->
    (forall a b c, anc a c -> anc b c -> anc a b \/ anc b a) ->
    (forall a b, anc a b -> height a <= height b) ->
    (forall a b, anc a b -> height a = height b -> a = b) ->
    (forall b1 b2, gen b1 = gen b2 -> honest (gen b1) -> b1 <> b2 ->
       before block height mhg mhp b1 b2 \/ before block height mhg mhp b2 b1) ->
    forall pv_quorum pc_quorum : block -> block -> Prop,
    (forall T1 A T D, pc_quorum T1 A -> pv_quorum T D -> height A <= height D -> anc D T ->
       exists v, honest v /\ precommits block validator height mhg mhp gen anc A v /\
                 prevotes block validator height mhg gen anc T D v) ->
    forall genesis_height : nat,
    (forall X, genesis_height < mhp X ->
       exists D T', height D = mhp X /\ anc D T' /\ anc T' X /\ height T' < height X /\ pv_quorum T' D) ->
    (forall T A, pc_quorum T A -> exists T', pv_quorum T' A /\ anc A T') ->
    forall T1 A T2 A', pc_quorum T1 A -> pc_quorum T2 A' ->
      genesis_height < height A -> genesis_height < height A' -> anc A A' \/ anc A' A.
Proof. exact finalized_blocks_on_one_chain. Qed.

Local Open Scope N_scope.

(* REFUTED (faithful model; replayed on the real module by findings/C01-low-threshold.json): 4 unit validators,
   precommitThreshold = floor(W/3)+1 = 2 as SetBFTParameters accepts, one Byzantine validator (weight 1/4 < 1/3), static
   validator set: two valid chains finalize heights 5 and 7 with DIFFERENT blocks at height 5, while validators 1,2,3 sign
   only pairwise non-contradicting headers. *)
Theorem C01_refuted_low_precommit_threshold :
  exists (c : pchange) (K1 K2 : list block),
    let v := examine 4 0 c K1 K2 in
    vd_valid v = true /\ vd_static v = true /\ vd_hyp v = true /\ vd_safe v = false /\
    (total_weight (c_vals c) / 3 + 1 <= c_pc c <= total_weight (c_vals c))%N.
Proof. exists low_c, low_K1, low_K2. vm_compute. repeat split; try reflexivity; discriminate. Qed.

(* REFUTED (replayed by findings/C01-validator-change.json): default thresholds (3 of 4), a validator-set change announced
   on one fork only: old validators finalize height 6 on chain 1, the new set finalizes height 7 on chain 2; only the
   generator of the announcing block (weight 1/4) signs on both sides. *)
Theorem C01_refuted_validator_change :
  exists (c : pchange) (K1 K2 : list block),
    let v := examine 4 0 c K1 K2 in
    vd_valid v = true /\ vd_static v = false /\ vd_hyp v = true /\ vd_safe v = false /\
    (c_pc c = total_weight (c_vals c) * 2 / 3 + 1)%N.
Proof. exists chg_c, chg_K1, chg_K2. vm_compute. repeat split; reflexivity. Qed.

(* ------------------------------------------------------------------ static validator sets: full strength, on the model *)
(* Every notion is spelled out on the functions of BFT/Votes.v: a chain is valid ([valid_chain_decl]) iff no block carries a
   parameter change, heights are consecutive from gh+1, every header satisfies the two BFT rules of block verification
   ([bft_valid]) in the store obtained by [run_blocks] on the blocks before it, and [run_blocks] succeeds; the view of a chain is
   the result of [run_blocks]; the block of height h of chain K is the history prefix [firstn (h - gh) K]; [honest U v]: any two
   distinct blocks of the universe generated by v are non-contradicting. *)
Theorem C01_static_safety_decl : forall (batch : nat) (gh : N) (c : pchange) (s0 : store) (U : chain -> Prop) (byz : list addr),
  (0 < batch)%nat -> init_store batch gh c = Ok s0 ->
  universe_decl batch gh s0 U ->
  (forall v, In v (map fst (c_vals c)) -> ~ In v byz -> honest U v) ->
  total_weight (sort_desc (c_vals c)) + wsum (sort_desc (c_vals c)) byz < c_pc c + (total_weight (c_vals c) * 2 / 3 + 1) ->
  forall K1 K2 s1 s2 h1 h2, U K1 -> U K2 ->
    run_blocks batch s0 K1 = Ok s1 -> run_blocks batch s0 K2 = Ok s2 ->
    gh < h1 <= v_mhpc (s_votes s1) -> gh < h2 <= v_mhpc (s_votes s2) ->
    prefix (firstn (N.to_nat (h1 - gh)) K1) (firstn (N.to_nat (h2 - gh)) K2) \/
    prefix (firstn (N.to_nat (h2 - gh)) K2) (firstn (N.to_nat (h1 - gh)) K1).
Proof. exact SafetyInst.C01_static_safety_decl. Qed.

(* "< 1/3 of the weight misbehaves", default (or larger) precommit threshold *)
Theorem C01_static_safety_one_third : forall (batch : nat) (gh : N) (c : pchange) (s0 : store) (U : chain -> Prop) (byz : list addr),
  (0 < batch)%nat -> init_store batch gh c = Ok s0 ->
  universe batch gh s0 U ->
  (forall v, In v (map fst (c_vals c)) -> ~ In v byz -> honest U v) ->
  3 * wsum (vals c) byz < total_weight (c_vals c) ->
  total_weight (c_vals c) * 2 / 3 + 1 <= c_pc c ->
  forall K1 K2 s1 s2 h1 h2, U K1 -> U K2 ->
    view batch gh s0 K1 = Some s1 -> view batch gh s0 K2 = Some s2 ->
    gh < h1 <= v_mhpc (s_votes s1) -> gh < h2 <= v_mhpc (s_votes s2) ->
    prefix (blk gh K1 h1) (blk gh K2 h2) \/ prefix (blk gh K2 h2) (blk gh K1 h1).
Proof. exact SafetyInst.C01_static_safety_one_third. Qed.

(* no two views finalize different blocks at the same height *)
Theorem C01_static_same_height_same_block : forall (batch : nat) (gh : N) (c : pchange) (s0 : store) (U : chain -> Prop) (byz : list addr),
  (0 < batch)%nat -> init_store batch gh c = Ok s0 ->
  universe batch gh s0 U ->
  (forall v, In v (map fst (c_vals c)) -> ~ In v byz -> honest U v) ->
  total_weight (vals c) + wsum (vals c) byz < p_pc (p0 c) + p_pv (p0 c) ->
  forall K1 K2 s1 s2 h, U K1 -> U K2 ->
    view batch gh s0 K1 = Some s1 -> view batch gh s0 K2 = Some s2 ->
    gh < h -> h <= v_mhpc (s_votes s1) -> h <= v_mhpc (s_votes s2) ->
    blk gh K1 h = blk gh K2 h.
Proof. exact SafetyInst.C01_static_same_height_same_block. Qed.

(* [view]/[valid_chain] used above are equivalent to the spelled-out notions *)
Theorem C01_valid_chain_spec : forall batch, (0 < batch)%nat -> forall gh s0 K,
  valid_chain batch gh s0 K <-> valid_chain_decl batch gh s0 K.
Proof. exact valid_chain_spec. Qed.

(* the executable safety oracle of the correspondence (BFT/Universe.v [examine], evaluated on the model AND applied to the
   implementation's own views) never reports a conflict on a static two-chain universe satisfying the hypotheses *)
Theorem C01_examine_safe : forall batch, (0 < batch)%nat -> forall gh c K1 K2,
  NoDup (map fst (c_vals c)) ->
  let v := examine batch gh c K1 K2 in
  vd_valid v = true -> vd_static v = true -> vd_hyp v = true ->
  total_weight (c_vals c) * 2 / 3 + 1 <= c_pc c ->
  vd_safe v = true.
Proof. exact examine_safe. Qed.

(* ------------------------------------------------------------------ dynamic validator sets (blocks may carry parameter changes) *)
From LE Require Import BFT.VotesGhostDyn BFT.SafetyDyn BFT.SafetyDynExamples.

(* PARTIAL — the ONLY extra premise is quorum intersection stated on the model ([QI_model_decl]): for any two chains of the
   universe that have DIFFERENT blocks at height a, any duplicate-free validator list reaching the precommit threshold of the
   parameters in force at height a in the first view and any duplicate-free list reaching the prevote threshold in force at
   height d >= a in the second view share an honest validator. Without it the statement is false
   (C01_refuted_validator_change; [C01_refuted_universe_violates_QI] shows that witness indeed violates the premise).
   Chains are valid per [validD_decl]: consecutive heights, both BFT rules in the prefix view, run_blocks succeeds; blocks MAY
   carry parameter changes (validators join/leave, weights and thresholds change, per chain). *)
Theorem C01_dynamic_safety_partial : forall (batch : nat) (gh : N) (c : pchange) (s0 : store) (U : chain -> Prop),
  (0 < batch)%nat -> init_store batch gh c = Ok s0 ->
  universeD_decl batch gh s0 U ->
  QI_model_decl batch gh s0 U ->
  forall K1 K2 s1 s2 h1 h2, U K1 -> U K2 ->
    run_blocks batch s0 K1 = Ok s1 -> run_blocks batch s0 K2 = Ok s2 ->
    gh < h1 <= v_mhpc (s_votes s1) -> gh < h2 <= v_mhpc (s_votes s2) ->
    prefix (firstn (N.to_nat (h1 - gh)) K1) (firstn (N.to_nat (h2 - gh)) K2) \/
    prefix (firstn (N.to_nat (h2 - gh)) K2) (firstn (N.to_nat (h1 - gh)) K1).
Proof. exact SafetyDyn.C01_dynamic_safety_partial. Qed.

(* Corollary: all parameter changes lie below the fork — every windowed height at or above a height where two chains differ is
   governed by one validator list / thresholds in every view — and prevoteThr + precommitThr > W + f for those parameters:
   then QI holds, hence safety. PARTIAL only in that [fork_params] restricts the schedules. *)
Theorem C01_dynamic_safety_fork_params_partial :
  forall (batch : nat) (gh : N) (c : pchange) (s0 : store) (U : chain -> Prop)
         (vstar : list (addr * N)) (pcstar pvstar : N) (byz : list addr),
  (0 < batch)%nat -> init_store batch gh c = Ok s0 ->
  universeD_decl batch gh s0 U ->
  fork_params batch gh s0 U vstar pcstar pvstar ->
  (forall v, In v (map fst vstar) -> ~ In v byz -> honest U v) ->
  total_weight vstar + wsum vstar byz < pcstar + pvstar ->
  forall K1 K2 s1 s2 h1 h2, U K1 -> U K2 ->
    run_blocks batch s0 K1 = Ok s1 -> run_blocks batch s0 K2 = Ok s2 ->
    gh < h1 <= v_mhpc (s_votes s1) -> gh < h2 <= v_mhpc (s_votes s2) ->
    prefix (firstn (N.to_nat (h1 - gh)) K1) (firstn (N.to_nat (h2 - gh)) K2) \/
    prefix (firstn (N.to_nat (h2 - gh)) K2) (firstn (N.to_nat (h1 - gh)) K1).
Proof. exact SafetyDyn.C01_dynamic_safety_fork_params_partial. Qed.

(* the refutation witness of the validator-change finding violates the QI premise; a universe with a change in the common
   prefix satisfies it (non-vacuity) *)
Theorem C01_refuted_universe_violates_QI : ~ QI_model_decl 4 0 s0d U_chg.
Proof. exact refuted_universe_violates_QI. Qed.
Theorem C01_changed_prefix_universe_satisfies_QI : QI_model_decl 4 0 s0d Ud.
Proof. exact changed_prefix_universe_satisfies_QI. Qed.

(* ------------------------------------------------------------------ node level: C04 composed with C01 (BFT/EndToEnd.v) *)
(* Two nodes, each evolving by ANY sequence of the node operations of Chain/Finality.v (apply a block, delete a block at any named
   height, restart, clear temp blocks — i.e. fork choice, tie breaks, syncs, failed syncs, restarts), where the post-state
   maxHeightPrecommited of every accepted Apply is the v_mhpc of the vote model's view of the chain the node then holds and every
   chain ever held belongs to a universe satisfying the premises of C01_static_safety_decl: at all times, for every height
   h <= min(finalized height of node 1, of node 2) both nodes serve a block at h and the two blocks are the same.
   [blk_of] maps a block ID to its BFT content; genesis height 0.  THIS identity-free form needs [blk_of] injective to conclude
   ID equality, and a Byzantine generator falsifies that premise (two blocks with equal BFT fields and different IDs): it is kept
   for reference only and SUPERSEDED by C01_nodes_agree_on_finalized_block_ids below, which has no such premise. *)
From LE Require Import BFT.EndToEnd.
Theorem C01_nodes_agree_on_finalized_blocks :
  forall (batch : nat) (c : pchange) (s0 : store) (U : chain -> Prop) (byz : list addr) (blk_of : N -> block)
         (g : N) (ops1 ops2 : list EndToEnd.F.op),
  (0 < batch)%nat -> init_store batch 0 c = Ok s0 ->
  universe_decl batch 0 s0 U ->
  (forall v, In v (map fst (c_vals c)) -> ~ In v byz -> honest U v) ->
  total_weight (sort_desc (c_vals c)) + wsum (sort_desc (c_vals c)) byz < c_pc c + (total_weight (c_vals c) * 2 / 3 + 1) ->
  (forall i j, blk_of i = blk_of j -> i = j) ->
  linked_run batch s0 U blk_of (EndToEnd.F.init g) ops1 -> linked_run batch s0 U blk_of (EndToEnd.F.init g) ops2 ->
  let n1 := EndToEnd.F.run (EndToEnd.F.init g) ops1 in let n2 := EndToEnd.F.run (EndToEnd.F.init g) ops2 in
  forall h, h <= EndToEnd.F.fin n1 -> h <= EndToEnd.F.fin n2 ->
    exists i, EndToEnd.F.block_at n1 h = Some i /\ EndToEnd.F.block_at n2 h = Some i.
Proof. exact EndToEnd.C01_nodes_agree_on_finalized_blocks. Qed.

(* dynamic validator sets: same conclusion under the model-level QI premise *)
Theorem C01_nodes_agree_on_finalized_blocks_dynamic_partial :
  forall (batch : nat) (c : pchange) (s0 : store) (U : chain -> Prop) (blk_of : N -> block)
         (g : N) (ops1 ops2 : list EndToEnd.F.op),
  (0 < batch)%nat -> init_store batch 0 c = Ok s0 ->
  universeD_decl batch 0 s0 U -> QI_model_decl batch 0 s0 U ->
  linked_run batch s0 U blk_of (EndToEnd.F.init g) ops1 -> linked_run batch s0 U blk_of (EndToEnd.F.init g) ops2 ->
  let n1 := EndToEnd.F.run (EndToEnd.F.init g) ops1 in let n2 := EndToEnd.F.run (EndToEnd.F.init g) ops2 in
  forall h, h <= EndToEnd.F.fin n1 -> h <= EndToEnd.F.fin n2 ->
    exists i1 i2, EndToEnd.F.block_at n1 h = Some i1 /\ EndToEnd.F.block_at n2 h = Some i2 /\ (h = 0 -> i1 = g /\ i2 = g) /\
                  blk_of i1 = blk_of i2 /\ ((forall i j, blk_of i = blk_of j -> i = j) -> i1 = i2).
Proof. exact EndToEnd.C01_nodes_agree_on_finalized_blocks_dynamic_partial. Qed.

(* ------------------------------------------------------------------ blocks WITH IDENTITY (BFT/SafetyIds.v, EndToEndIds.v) *)
(* In BFT/Votes.v a block is its BFT tuple (height, generator, maxHeightGenerated, maxHeightPrevoted, certificate height, optional
   parameter change): the theorems above conclude agreement of BFT-content histories, and a generator forging two blocks with
   EQUAL tuples and different IDs/payloads (the commonest double forge) is invisible to them.  Here a block carries an opaque id
   (tchain = list (id * block); votes/views/quorums are those of the untagged chain: liskbft never sees the id), a BLOCK is a
   non-empty tagged prefix, and [thonest TU v] demands that any two DISTINCT tagged blocks of v in the universe carry
   non-contradicting headers -- equal tuples at equal height are contradicting (C07), so the same-tuple double forger is
   Byzantine and its weight counts in [byz].  Conclusions are about histories INCLUDING ids.  Hash collision-freeness ("the id
   of a block determines the block and its history", [ids_determine_history]) is NOT a premise of the safety theorems; it is what
   makes [thonest] equivalent to its reading on ids ([thonest_ids], theorem C01_static_safety_by_ids). *)
From LE Require Import BFT.SafetyIds BFT.SafetyIdsExamples BFT.SafetyOracleIds.
From LE Require BFT.EndToEndIds.

Theorem C01_static_safety_ids : forall (batch : nat) (gh : N) (c : pchange) (s0 : store) (TU : tchain -> Prop) (byz : list addr),
  (0 < batch)%nat -> init_store batch gh c = Ok s0 ->
  tuniverse_decl batch gh s0 TU ->
  (forall v, In v (map fst (c_vals c)) -> ~ In v byz -> thonest TU v) ->
  total_weight (sort_desc (c_vals c)) + wsum (sort_desc (c_vals c)) byz < c_pc c + (total_weight (c_vals c) * 2 / 3 + 1) ->
  forall T1 T2 s1 s2 h1 h2, TU T1 -> TU T2 ->
    run_blocks batch s0 (untag T1) = Ok s1 -> run_blocks batch s0 (untag T2) = Ok s2 ->
    gh < h1 <= v_mhpc (s_votes s1) -> gh < h2 <= v_mhpc (s_votes s2) ->
    prefix (firstn (N.to_nat (h1 - gh)) T1) (firstn (N.to_nat (h2 - gh)) T2) \/
    prefix (firstn (N.to_nat (h2 - gh)) T2) (firstn (N.to_nat (h1 - gh)) T1).
Proof. exact SafetyIds.C01_static_safety_ids. Qed.

Theorem C01_static_safety_ids_one_third : forall (batch : nat) (gh : N) (c : pchange) (s0 : store) (TU : tchain -> Prop) (byz : list addr),
  (0 < batch)%nat -> init_store batch gh c = Ok s0 ->
  tuniverse_decl batch gh s0 TU ->
  (forall v, In v (map fst (c_vals c)) -> ~ In v byz -> thonest TU v) ->
  3 * wsum (sort_desc (c_vals c)) byz < total_weight (c_vals c) ->
  total_weight (c_vals c) * 2 / 3 + 1 <= c_pc c ->
  forall T1 T2 s1 s2 h1 h2, TU T1 -> TU T2 ->
    run_blocks batch s0 (untag T1) = Ok s1 -> run_blocks batch s0 (untag T2) = Ok s2 ->
    gh < h1 <= v_mhpc (s_votes s1) -> gh < h2 <= v_mhpc (s_votes s2) ->
    prefix (firstn (N.to_nat (h1 - gh)) T1) (firstn (N.to_nat (h2 - gh)) T2) \/
    prefix (firstn (N.to_nat (h2 - gh)) T2) (firstn (N.to_nat (h1 - gh)) T1).
Proof. exact SafetyIds.C01_static_safety_ids_one_third. Qed.

(* no two views finalize different blocks -- different ids included -- at the same height *)
Theorem C01_static_same_height_same_block_ids : forall (batch : nat) (gh : N) (c : pchange) (s0 : store) (TU : tchain -> Prop) (byz : list addr),
  (0 < batch)%nat -> init_store batch gh c = Ok s0 ->
  tuniverse_decl batch gh s0 TU ->
  (forall v, In v (map fst (c_vals c)) -> ~ In v byz -> thonest TU v) ->
  total_weight (sort_desc (c_vals c)) + wsum (sort_desc (c_vals c)) byz < c_pc c + (total_weight (c_vals c) * 2 / 3 + 1) ->
  forall T1 T2 s1 s2 h, TU T1 -> TU T2 ->
    run_blocks batch s0 (untag T1) = Ok s1 -> run_blocks batch s0 (untag T2) = Ok s2 ->
    gh < h -> h <= v_mhpc (s_votes s1) -> h <= v_mhpc (s_votes s2) ->
    firstn (N.to_nat (h - gh)) T1 = firstn (N.to_nat (h - gh)) T2 /\
    nth_error T1 (N.to_nat (h - gh - 1)) = nth_error T2 (N.to_nat (h - gh - 1)).
Proof. exact SafetyIds.C01_static_same_height_same_block_ids. Qed.

(* honesty read on ids ("blocks of v with different ids carry non-contradicting headers") under hash collision-freeness *)
Theorem C01_static_safety_by_ids : forall (batch : nat) (gh : N) (c : pchange) (s0 : store) (TU : tchain -> Prop) (byz : list addr),
  (0 < batch)%nat -> init_store batch gh c = Ok s0 ->
  tuniverse_decl batch gh s0 TU -> ids_determine_history TU ->
  (forall v, In v (map fst (c_vals c)) -> ~ In v byz -> thonest_ids TU v) ->
  total_weight (sort_desc (c_vals c)) + wsum (sort_desc (c_vals c)) byz < c_pc c + (total_weight (c_vals c) * 2 / 3 + 1) ->
  forall T1 T2 s1 s2 h1 h2, TU T1 -> TU T2 ->
    run_blocks batch s0 (untag T1) = Ok s1 -> run_blocks batch s0 (untag T2) = Ok s2 ->
    gh < h1 <= v_mhpc (s_votes s1) -> gh < h2 <= v_mhpc (s_votes s2) ->
    prefix (firstn (N.to_nat (h1 - gh)) T1) (firstn (N.to_nat (h2 - gh)) T2) \/
    prefix (firstn (N.to_nat (h2 - gh)) T2) (firstn (N.to_nat (h1 - gh)) T1).
Proof. exact SafetyIds.C01_static_safety_by_ids. Qed.

(* dynamic validator sets over blocks with identity; PARTIAL: premise TQI_model_decl (QI_model_decl with "the chains have
   different blocks at height a" read on tagged blocks) *)
Theorem C01_dynamic_safety_ids_partial : forall (batch : nat) (gh : N) (c : pchange) (s0 : store) (TU : tchain -> Prop),
  (0 < batch)%nat -> init_store batch gh c = Ok s0 ->
  tuniverseD_decl batch gh s0 TU ->
  TQI_model_decl batch gh s0 TU ->
  forall T1 T2 s1 s2 h1 h2, TU T1 -> TU T2 ->
    run_blocks batch s0 (untag T1) = Ok s1 -> run_blocks batch s0 (untag T2) = Ok s2 ->
    gh < h1 <= v_mhpc (s_votes s1) -> gh < h2 <= v_mhpc (s_votes s2) ->
    prefix (firstn (N.to_nat (h1 - gh)) T1) (firstn (N.to_nat (h2 - gh)) T2) \/
    prefix (firstn (N.to_nat (h2 - gh)) T2) (firstn (N.to_nat (h1 - gh)) T1).
Proof. exact SafetyIds.C01_dynamic_safety_ids_partial. Qed.

(* the executable oracle over blocks with identity (Universe.texamine, used by Corr/C01.v) never fires under the hypotheses *)
Theorem C01_texamine_safe : forall batch gh c (T1 T2 : tchain), (0 < batch)%nat -> NoDup (map fst (c_vals c)) ->
  let v := texamine batch gh c T1 T2 in
  vd_valid v = true -> vd_static v = true -> vd_hyp v = true ->
  total_weight (c_vals c) * 2 / 3 + 1 <= c_pc c -> vd_safe v = true.
Proof. intros batch gh c T1 T2 Hb Hn. exact (texamine_safe batch Hb gh c T1 T2 Hn). Qed.

(* node level, no premise relating ids to BFT content: the node chain [g; id1; ...] is abstracted to [(id1, blk_of id1); ...] *)
Theorem C01_nodes_agree_on_finalized_block_ids :
  forall (batch : nat) (c : pchange) (s0 : store) (TU : tchain -> Prop) (byz : list addr) (blk_of : N -> block)
         (g : N) (ops1 ops2 : list EndToEndIds.F.op),
  (0 < batch)%nat -> init_store batch 0 c = Ok s0 ->
  tuniverse_decl batch 0 s0 TU ->
  (forall v, In v (map fst (c_vals c)) -> ~ In v byz -> thonest TU v) ->
  total_weight (sort_desc (c_vals c)) + wsum (sort_desc (c_vals c)) byz < c_pc c + (total_weight (c_vals c) * 2 / 3 + 1) ->
  EndToEndIds.linked_run batch s0 TU blk_of (EndToEndIds.F.init g) ops1 ->
  EndToEndIds.linked_run batch s0 TU blk_of (EndToEndIds.F.init g) ops2 ->
  let n1 := EndToEndIds.F.run (EndToEndIds.F.init g) ops1 in let n2 := EndToEndIds.F.run (EndToEndIds.F.init g) ops2 in
  forall h, h <= EndToEndIds.F.fin n1 -> h <= EndToEndIds.F.fin n2 ->
    exists i, EndToEndIds.F.block_at n1 h = Some i /\ EndToEndIds.F.block_at n2 h = Some i.
Proof. exact EndToEndIds.C01_nodes_agree_on_finalized_block_ids. Qed.

Theorem C01_nodes_agree_on_finalized_block_ids_dynamic_partial :
  forall (batch : nat) (c : pchange) (s0 : store) (TU : tchain -> Prop) (blk_of : N -> block)
         (g : N) (ops1 ops2 : list EndToEndIds.F.op),
  (0 < batch)%nat -> init_store batch 0 c = Ok s0 ->
  tuniverseD_decl batch 0 s0 TU -> TQI_model_decl batch 0 s0 TU ->
  EndToEndIds.linked_run batch s0 TU blk_of (EndToEndIds.F.init g) ops1 ->
  EndToEndIds.linked_run batch s0 TU blk_of (EndToEndIds.F.init g) ops2 ->
  let n1 := EndToEndIds.F.run (EndToEndIds.F.init g) ops1 in let n2 := EndToEndIds.F.run (EndToEndIds.F.init g) ops2 in
  forall h, h <= EndToEndIds.F.fin n1 -> h <= EndToEndIds.F.fin n2 ->
    exists i, EndToEndIds.F.block_at n1 h = Some i /\ EndToEndIds.F.block_at n2 h = Some i.
Proof. exact EndToEndIds.C01_nodes_agree_on_finalized_block_ids_dynamic_partial. Qed.

(* non-vacuity / sharpness on SafetyInst.Example's chain A (4 unit validators, thresholds 3/3):
   (1) a same-tuple / different-id double forge by validator 4 (weight 1 < 4/3): all hypotheses hold, the identity-free model
       does not even see a fork (untag TB is a prefix of untag TA);
   (2) every block re-forged with equal tuples and other ids: the identity-free conclusion holds trivially, two DIFFERENT blocks
       are final at every height, every validator is Byzantine in the sense of [thonest] (weight 4 >= 1/3);
   (3) a fork without any Byzantine validator in which both views report finalized blocks (heights 5 and 3, fork point 8). *)
Example C01_ids_hypotheses_satisfiable :
  (0 < 4)%nat /\ init_store 4 0 Example.ex_c = Ok Example.ex_s0 /\ tuniverse_decl 4 0 Example.ex_s0 TU1 /\
  (forall v, In v (map fst (c_vals Example.ex_c)) -> ~ In v [4] -> thonest TU1 v) /\
  3 * wsum (sort_desc (c_vals Example.ex_c)) [4] < total_weight (c_vals Example.ex_c) /\
  total_weight (c_vals Example.ex_c) * 2 / 3 + 1 <= c_pc Example.ex_c /\
  TU1 TA /\ TU1 TB /\ run_blocks 4 Example.ex_s0 (untag TA) = Ok sA /\ v_mhpc (s_votes sA) = 5 /\
  firstn 3 TA = firstn 3 TB /\ map snd (firstn 4 TA) = map snd TB /\ nth_error TA 3 <> nth_error TB 3 /\
  ~ prefix TB TA /\ prefix (untag TB) (untag TA) /\ ~ thonest TU1 4.
Proof. exact SafetyIdsExamples.C01_ids_hypotheses_satisfiable. Qed.
Example C01_ids_gap_all_byzantine :
  untag TA = untag TA' /\ TU2 TA /\ TU2 TA' /\ tuniverse_decl 4 0 Example.ex_s0 TU2 /\
  run_blocks 4 Example.ex_s0 (untag TA) = Ok sA /\ run_blocks 4 Example.ex_s0 (untag TA') = Ok sA /\ v_mhpc (s_votes sA) = 5 /\
  firstn 5 (untag TA) = firstn 5 (untag TA') /\
  ~ prefix (firstn 5 TA) (firstn 5 TA') /\ ~ prefix (firstn 5 TA') (firstn 5 TA) /\ nth_error TA 4 <> nth_error TA' 4 /\
  (forall v, In v [1; 2; 3; 4] -> ~ thonest TU2 v).
Proof. exact SafetyIdsExamples.C01_ids_gap_all_byzantine. Qed.
Example C01_ids_both_views_finalize :
  tuniverse_decl 4 0 Example.ex_s0 TU3 /\ (forall v, In v (map fst (c_vals Example.ex_c)) -> ~ In v [] -> thonest TU3 v) /\
  TU3 TA /\ TU3 TC /\ run_blocks 4 Example.ex_s0 (untag TA) = Ok sA /\ run_blocks 4 Example.ex_s0 (untag TC) = Ok sC /\
  v_mhpc (s_votes sA) = 5 /\ v_mhpc (s_votes sC) = 3 /\ firstn 8 TA = firstn 8 TC /\ nth_error TA 8 <> nth_error TC 8 /\
  prefix (firstn 3 TC) (firstn 5 TA).
Proof. pose proof SafetyIdsExamples.C01_ids_both_views_finalize as H. tauto. Qed.

(* ------------------------------------------------------------------ final round: fork-params over blocks with identity, glue for class 22 *)
From LE Require Import BFT.CheckUniSound BFT.SafetyIdsDynExamples Corr.C01.
From LE Require BFT.EndToEndIds.

(* parameter changes below the fork are harmless also over blocks with identity.  PARTIAL: the premise [tfork_params] (every window
   height at or above a height where two chains of the universe differ -- in tuple OR id -- is governed by vstar/pcstar/pvstar) *)
Theorem C01_dynamic_safety_ids_fork_params_partial :
  forall (batch : nat) (gh : N) (c : pchange) (s0 : store) (TU : tchain -> Prop)
         (vstar : list (addr * N)) (pcstar pvstar : N) (byz : list addr),
  (0 < batch)%nat -> init_store batch gh c = Ok s0 ->
  tuniverseD_decl batch gh s0 TU ->
  tfork_params batch gh s0 TU vstar pcstar pvstar ->
  (forall v, In v (map fst vstar) -> ~ In v byz -> thonest TU v) ->
  total_weight vstar + wsum vstar byz < pcstar + pvstar ->
  forall T1 T2 s1 s2 h1 h2, TU T1 -> TU T2 ->
    run_blocks batch s0 (untag T1) = Ok s1 -> run_blocks batch s0 (untag T2) = Ok s2 ->
    gh < h1 <= v_mhpc (s_votes s1) -> gh < h2 <= v_mhpc (s_votes s2) ->
    prefix (firstn (N.to_nat (h1 - gh)) T1) (firstn (N.to_nat (h2 - gh)) T2) \/
    prefix (firstn (N.to_nat (h2 - gh)) T2) (firstn (N.to_nat (h1 - gh)) T1).
Proof. exact SafetyIds.C01_dynamic_safety_ids_fork_params_partial. Qed.

(* the oracle with the general bound prevoteThr + precommitThr > W + f *)
Theorem C01_texamine_safe_bound : forall batch gh c (T1 T2 : tchain), (0 < batch)%nat -> NoDup (map fst (c_vals c)) ->
  let v := texamine batch gh c T1 T2 in
  vd_valid v = true -> vd_static v = true ->
  total_weight (c_vals c) + tbyz_weight (c_vals c) [T1; T2] < c_pc c + (total_weight (c_vals c) * 2 / 3 + 1) ->
  vd_safe v = true.
Proof. intros batch gh c T1 T2 Hb Hn. exact (texamine_safe_bound batch Hb gh c T1 T2 Hn). Qed.

(* GLUE: the correspondence evaluator cannot return class 22 (violation) on a universe without parameter changes, whatever the
   observations: 20/21/22 are only reached when the implementation's observations equal the model's on both chains, the oracle is
   then Universe.texamine on the model, and C01_texamine_safe_bound (i.e. C01_static_safety_ids) applies.  For universes whose
   COMMON PREFIX carries changes, class 22 rests on C01_dynamic_safety_ids_fork_params_partial, whose premise [tfork_params] is not
   decided by the evaluator (no glue lemma there). *)
Theorem C01_check_uni_static_not_22 :
  forall batch gh c common a b initok obsA obsB idsC idsA idsB,
  (0 < batch)%nat -> NoDup (map fst (c_vals c)) ->
  static_chain (common ++ a) = true -> static_chain (common ++ b) = true ->
  check_uni (batch, gh, c, common, a, b, initok, obsA, obsB, idsC, idsA, idsB) <> 22.
Proof. exact check_uni_static_not_22. Qed.

(* further non-vacuity: by-ids premises; a tagged universe with a real parameter change satisfying the tagged QI premise; tagged
   node-level histories with a forged twin (blk_of 204 = blk_of 4) *)
Example C01_by_ids_hypotheses_satisfiable :
  ids_determine_history TU1 /\ (forall v, In v (map fst (c_vals Example.ex_c)) -> ~ In v [4] -> thonest_ids TU1 v) /\ ~ thonest_ids TU1 4.
Proof. exact SafetyIdsExamples.C01_by_ids_hypotheses_satisfiable. Qed.
Example C01_tagged_changed_prefix_universe_satisfies_TQI : TQI_model_decl 4 0 s0d TUd.
Proof. exact tagged_changed_prefix_universe_satisfies_TQI. Qed.
Example C01_nodes_ids_hypotheses_satisfiable :
  EndToEndIds.linked_run 4 Example.ex_s0 TU1 EndToEndIds.NodeIdsExample.blk_of (EndToEndIds.F.init 0) EndToEndIds.NodeIdsExample.ops1 /\
  EndToEndIds.linked_run 4 Example.ex_s0 TU1 EndToEndIds.NodeIdsExample.blk_of (EndToEndIds.F.init 0) EndToEndIds.NodeIdsExample.ops2 /\
  EndToEndIds.F.fin (EndToEndIds.F.run (EndToEndIds.F.init 0) EndToEndIds.NodeIdsExample.ops1) = 5 /\
  EndToEndIds.F.fin (EndToEndIds.F.run (EndToEndIds.F.init 0) EndToEndIds.NodeIdsExample.ops2) = 5 /\
  EndToEndIds.NodeIdsExample.blk_of 204 = EndToEndIds.NodeIdsExample.blk_of 4.
Proof. pose proof EndToEndIds.NodeIdsExample.C01_nodes_ids_hypotheses_satisfiable as H. tauto. Qed.
