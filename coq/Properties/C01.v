(* C01 — property theorems only.
   Full-strength target (kept visible; FALSE of the code as the two _refuted theorems show):
     forall universes of valid chains, all weight vectors, thresholds as accepted by SetBFTParameters and all validator-set
     changes: if < 1/3 of the weight is Byzantine and all other validators sign only non-contradicting headers, the finalized
     prefixes of any two views are comparable.
   What is proved: the protocol-level safety theorem under quorum intersection (C01_safety_partial), whose premises are the
   facts BFT/SafetyInst.v derives from the faithful vote model, and the two refutations of the unrestricted statement. *)
From Coq Require Import List NArith Bool Arith.
From LE Require Import BFT.Contradiction BFT.Votes BFT.Universe BFT.Refuted BFT.SafetyAbstract.
Import ListNotations.

(* PARTIAL: extra premises = quorum intersection QI (the bound LIP-0058 needs: prevoteThr + precommitThr > W + f for the
   parameters in force on both chains), the maxHeightPrevoted witness property, precommit-needs-prevote, and the tree laws of
   the block/ancestor structure. Conclusion: any two blocks with a precommit quorum in any two views are on one chain. *)
Theorem C01_safety_partial :
  forall (block validator : Type) (height mhg mhp : block -> nat) (gen : block -> validator)
         (anc : block -> block -> Prop) (honest : validator -> Prop),
    (forall a b : block, {a = b} + {a <> b}) ->
    (forall a, anc a a) -> (forall a b c, anc a b -> anc b c -> anc a c) ->
    (forall a b c, anc a c -> anc b c -> anc a b \/ anc b a) ->
    (forall a b, anc a b -> height a <= height b) ->
    (forall a b, anc a b -> height a = height b -> a = b) ->
    (forall b1 b2, gen b1 = gen b2 -> honest (gen b1) -> b1 <> b2 ->
       before block height mhg mhp b1 b2 \/ before block height mhg mhp b2 b1) ->
    forall pv_quorum pc_quorum : block -> block -> Prop,
    (forall T1 A T D, pc_quorum T1 A -> pv_quorum T D -> height A <= height D -> anc D T ->
       exists v, honest v /\ precommits block validator height mhg mhp gen anc A v /\
                 prevotes block validator height mhg gen anc T D v) ->
    forall genesis_height : nat,
    (forall X, genesis_height < mhp X ->
       exists D T', height D = mhp X /\ anc D T' /\ anc T' X /\ height T' < height X /\ pv_quorum T' D) ->
    (forall T A, pc_quorum T A -> exists T', pv_quorum T' A /\ anc A T') ->
    forall T1 A T2 A', pc_quorum T1 A -> pc_quorum T2 A' ->
      genesis_height < height A -> genesis_height < height A' -> anc A A' \/ anc A' A.
Proof. exact finalized_blocks_on_one_chain. Qed.

Local Open Scope N_scope.

(* REFUTED (faithful model; replayed on the real module by findings/C01-low-threshold.json): 4 unit validators,
   precommitThreshold = floor(W/3)+1 = 2 as SetBFTParameters accepts, one Byzantine validator (weight 1/4 < 1/3), static
   validator set: two valid chains finalize heights 5 and 7 with DIFFERENT blocks at height 5, while validators 1,2,3 sign
   only pairwise non-contradicting headers. *)
Theorem C01_refuted_low_precommit_threshold :
  exists (c : pchange) (K1 K2 : list block),
    let v := examine 4 0 c K1 K2 in
    vd_valid v = true /\ vd_static v = true /\ vd_hyp v = true /\ vd_safe v = false /\
    (total_weight (c_vals c) / 3 + 1 <= c_pc c <= total_weight (c_vals c))%N.
Proof. exists low_c, low_K1, low_K2. vm_compute. repeat split; try reflexivity; discriminate. Qed.

(* REFUTED (replayed by findings/C01-validator-change.json): default thresholds (3 of 4), a validator-set change announced
   on one fork only: old validators finalize height 6 on chain 1, the new set finalizes height 7 on chain 2; only the
   generator of the announcing block (weight 1/4) signs on both sides. *)
Theorem C01_refuted_validator_change :
  exists (c : pchange) (K1 K2 : list block),
    let v := examine 4 0 c K1 K2 in
    vd_valid v = true /\ vd_static v = false /\ vd_hyp v = true /\ vd_safe v = false /\
    (c_pc c = total_weight (c_vals c) * 2 / 3 + 1)%N.
Proof. exists chg_c, chg_K1, chg_K2. vm_compute. repeat split; reflexivity. Qed.
