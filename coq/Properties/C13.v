(* C13 — block commit and removal are crash-atomic.  Statements only.  Level: proof on the model (with atomicity and
   durability of one synced pebble batch as the stated assumption: [AWrite] is a single action) + fault enumeration on the
   implementation. *)
From Coq Require Import List NArith Bool Lia.
From LE Require Import Chain.Crash Chain.CrashProofs Chain.CrashFinite Chain.CrashFiniteProofs.
From LE Require Chain.DbAtomicExpected Gen.DbAtomic Chain.MutatorsExpected Gen.Mutators.
Import ListNotations.
Local Open Scope N_scope.

(* processValidated + Chain.AddBlock: nothing at all when the block is rejected; otherwise exactly one engine-DB write,
   and that batch carries the header, the height index, the consensus-state commit (tip mark + every staged write), the revert
   diff and the finalized height *)
Theorem C13_single_durable_write_add : forall i,
  (a_ok i = false -> add_actions i = []) /\
  (a_ok i = true ->
     writes (add_actions i) = [add_batch i] /\
     In (BSet (KHeader (a_id i)) (a_h i)) (add_batch i) /\ In (BSet (KIdx (a_h i)) (a_id i)) (add_batch i) /\
     In (BSet KTipMark (a_h i)) (add_batch i) /\ incl (map cs_op (a_cs i)) (add_batch i) /\
     In (BSet (KDiff (a_h i)) (a_diff i)) (add_batch i) /\ In (BSet KFin (a_fin i)) (add_batch i)).
Proof. exact single_durable_write_add. Qed.

(* deleteBlock + Chain.RemoveBlock *)
Theorem C13_single_durable_write_del : forall i,
  (d_ok i = false -> del_actions i = []) /\
  (d_ok i = true ->
     writes (del_actions i) = [del_batch i] /\
     In (BDel (KHeader (d_id i))) (del_batch i) /\ In (BDel (KIdx (d_h i))) (del_batch i) /\
     In (BSet KTipMark (d_h i - 1)) (del_batch i) /\ incl (map cs_op (d_revert i)) (del_batch i) /\
     In (BDel (KDiff (d_h i))) (del_batch i)).
Proof. exact single_durable_write_del. Qed.

Theorem C13_at_most_one_write : forall o, (length (writes (actions_of o)) <= 1)%nat.
Proof. exact at_most_one_write. Qed.

(* for every history (operations issued under their side conditions), cut after any number of actions of any operation, the
   database found at restart is Consistent (height index <-> data, contiguous index, BFT store height = tip, no diff without
   its block) and equals the state before or the state after the interrupted operation *)
Theorem C13_crash_consistent : forall ops d n k o, Consistent d -> history_ok d ops -> nth_error ops n = Some o ->
  let before := run_ops d (firstn n ops) in
  let recovered := durable_after before (firstn k (actions_of o)) in
  Consistent recovered /\ (recovered = before \/ recovered = durable_after before (actions_of o)).
Proof. exact crash_consistent. Qed.

(* what a restart relies on (Chain.PrepareCache itself is not modelled: it reads the tip from the height index; the harness
   compares the restarted node's tip with the recovered index and tip mark): the tip the height index names exists, the consensus
   store is at that tip, nothing is indexed above it *)
Theorem C13_restart_tip_matches : forall d, Consistent d ->
  exists t id, d KTipMark = Some t /\ d (KIdx t) = Some id /\ d (KHeader id) = Some t /\ forall k, d (KIdx (t + 1 + k)) = None.
Proof. exact restart_tip_matches. Qed.

(* The stronger consistency (round 6): besides [Consistent], the finalized height is stored and not above the tip, every height in
   (finalized, tip] still has its revert diff (those blocks can be reverted), and every indexed block that has a payload has it
   stored.  Side conditions now include what the code guarantees: finalized' between the stored value and the block's height, diffs
   pruned strictly below it, deleteBlock's guard (height > finalized), a_body = "the block has a payload". *)
Theorem C13_crash_consistent2 : forall hb ops d n k o, Consistent2 hb d -> history_ok2 hb d ops -> nth_error ops n = Some o ->
  let before := run_ops d (firstn n ops) in
  let recovered := durable_after before (firstn k (actions_of o)) in
  Consistent2 hb recovered /\ (recovered = before \/ recovered = durable_after before (actions_of o)).
Proof. exact crash_consistent2. Qed.

Theorem C13_consistent2_b_sound : forall hbl l, consistent2_b hbl l = true -> Consistent2 (has_body_in hbl) (lget l).
Proof. exact consistent2_b_sound. Qed.

(* restore from the temp table (processValidated with removeTemp after deleteBlock with saveTemp): at every crash point the
   block is on the chain or still in the temp table, never in neither *)
Theorem C13_restore_never_loses_block : forall d i k, present d (KTemp (a_h i)) ->
  RestoreSafe (durable_after d (firstn k (add_actions i))) (a_h i) (a_id i).
Proof. exact restore_never_loses_block. Qed.

(* the executable consistency check used on the implementation's databases is [Consistent] *)
Theorem C13_consistent_b_iff : forall l, NoDup (map fst l) -> (consistent_b l = true <-> Consistent (lget l)).
Proof. exact consistent_b_iff. Qed.

Theorem C13_consistent_b_sound : forall l, consistent_b l = true -> Consistent (lget l).
Proof. exact consistent_b_sound. Qed.

(* ---- code-level side of the assumptions, regenerated from the source on every run ---- *)
(* pkg/db: the Batch mutators only stage (no call that commits, applies, writes, syncs, resets or reaches the database), nothing
   else touches the pebble batch, and DB.Write applies it exactly once with pebble.Sync *)
Theorem C13_batch_shape_exact :
  Gen.DbAtomic.found_batch_fields = Chain.DbAtomicExpected.expected_batch_fields /\
  Gen.DbAtomic.found_batch_methods = Chain.DbAtomicExpected.expected_batch_methods /\
  Gen.DbAtomic.found_db_durable = Chain.DbAtomicExpected.expected_db_durable /\
  Gen.DbAtomic.found_inner_users = Chain.DbAtomicExpected.expected_inner_users.
Proof. vm_compute. repeat split. Qed.

Theorem C13_batch_mutators_stage_only :
  forallb Chain.DbAtomicExpected.stage_only Gen.DbAtomic.found_batch_methods = true /\
  Chain.DbAtomicExpected.write_once_sync Gen.DbAtomic.found_db_durable = true.
Proof. vm_compute. split; reflexivity. Qed.

(* pkg/blockchain, pkg/consensus (abstract interpretation with helpers inlined, shared with C04): every step creates one batch,
   stages only into it, commits it exactly once, and nothing writes the database directly, not even through a parameter bound
   to the database handle — single_durable_write assumes exactly this *)
Theorem C13_engine_writes_closed :
  Gen.Mutators.found_steps = Chain.MutatorsExpected.expected_steps /\
  Gen.Mutators.found_global = Chain.MutatorsExpected.expected_global.
Proof. vm_compute. split; reflexivity. Qed.

(* non-vacuity: a consistent genesis database and a history add, add, delete, rejected add *)
Definition ex_genesis : db := fun k =>
  match k with KHeader 100 => Some 0 | KIdx 0 => Some 100 | KTipMark => Some 0 | KFin => Some 0 | KDiff 0 => Some 7 | _ => None end.
Lemma ex_genesis_consistent : Consistent ex_genesis.
Proof.
  constructor.
  - intros h id. destruct h as [|p]; cbn; [intros H; inversion H; reflexivity|discriminate].
  - intros h Hp. exfalso. apply Hp. destruct h as [|p]; cbn; [reflexivity|]. destruct p; reflexivity.
  - exists 0. cbn. repeat split; discriminate.
  - intros h Hp. destruct h as [|p]; cbn in *; [discriminate|]. exfalso; now apply Hp.
Qed.
Definition ex_ops : list cop :=
  [CAdd (mkAdd true 101 1 [(5, Some 1)] 8 [] true (Some 3) 0 [] false);
   CAdd (mkAdd true 102 2 [(5, Some 2)] 9 [0] false None 1 [] false);
   CDel (mkDel true 102 2 [(5, Some 1)] false (Some 4));
   CAdd (mkAdd false 103 2 [] 0 [] false None 0 [] false)].
Example C13_example_history : history_ok ex_genesis ex_ops /\
  run_ops ex_genesis ex_ops (KIdx 1) = Some 101 /\ run_ops ex_genesis ex_ops (KIdx 2) = None /\
  run_ops ex_genesis ex_ops KTipMark = Some 1 /\ run_ops ex_genesis ex_ops (KTemp 2) = Some 4 /\
  run_ops ex_genesis ex_ops KFin = Some 1.
Proof.
  repeat split; try (vm_compute; reflexivity); cbn; intros; try discriminate.
  all: try (eexists; split; vm_compute; reflexivity).
  all: vm_compute; try reflexivity; try lia.
Qed.
