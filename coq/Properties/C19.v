(* C19 — property theorems only.  Statements are full; proofs are [exact lemma]. *)
From Coq Require Import List NArith ZArith Bool Permutation.
From LE Require Import Sync.PeerSelect Sync.PeerSelectProofs Sync.Handlers Sync.HandlersProofs Sync.Converge Sync.ConvergeProofs Sync.Download Sync.Compose.
Import ListNotations.
Local Open Scope N_scope.

(* ---------------------------------------------------------------- peer selection (repaired code) *)
(* any result of getBestNodeInfo, for every map iteration order and every random index: a peer of the input
   with the largest maxHeightPrevoted, among those the largest height, among those a most frequent block ID *)
Theorem C19_best_peer_spec : forall infos x, valid_result infos (Ok x) ->
  In x infos /\
  (forall p, In p infos -> mhp p <= mhp x) /\
  (forall p, In p infos -> mhp p = mhp x -> PeerSelect.height p <= PeerSelect.height x) /\
  (forall id, count_id id (top_group infos x) <= count_id (bid x) (top_group infos x)).
Proof. exact best_peer_spec. Qed.

(* a non-empty peer list always yields a peer (rand.Intn is never called with 0) *)
Theorem C19_best_peer_total : forall infos, infos <> [] -> forall order, admissible order infos ->
  exists x, get_best order 0 infos = Ok x.
Proof. exact best_peer_total. Qed.

(* the boolean oracles used by the correspondence are the specification / contain the model *)
Theorem C19_best_spec_b_iff : forall infos x, best_spec_b infos x = true <-> best_spec infos x.
Proof. exact best_spec_b_iff. Qed.

Theorem C19_valid_result_in_b : forall infos x, valid_result infos (Ok x) -> valid_result_b infos x = true.
Proof. exact valid_result_in_b. Qed.

(* the code before the fix (max never updated): a minority block ID can be selected *)
Theorem C19_best_peer_spec_orig_refuted :
  exists infos x, valid_result_orig infos (Ok x) /\ ~ best_spec infos x.
Proof. exact best_peer_spec_orig_refuted. Qed.

(* ---------------------------------------------------------------- getHighestCommonBlock *)
Theorem C19_highest_common_is_max_of_intersection : forall c req found,
  Permutation found (collect c req) ->
  match hcb_from found with
  | HFound id => In id req /\ exists h, height_of_id c id = Some h /\
                 forall id' h', In id' req -> height_of_id c id' = Some h' -> h' <= h
  | HNoData => forall id, In id req -> height_of_id c id = None
  | HBan => False
  end.
Proof. exact highest_common_is_max_of_intersection. Qed.

Theorem C19_highest_common_order_independent : forall c req f1 f2, NoDup (ids c) ->
  Permutation f1 (collect c req) -> Permutation f2 (collect c req) -> hcb_from f1 = hcb_from f2.
Proof. exact hcb_order_independent. Qed.

Theorem C19_highest_common_malformed_rejected : forall c r,
  (r = None \/ r = Some [] \/ exists l, r = Some l /\ exists x, In x l /\ snd x = false) -> hcb c r = HBan.
Proof. exact hcb_malformed. Qed.

(* ---------------------------------------------------------------- getBlocksFromID (repaired code) *)
Theorem C19_blocks_from_id_consecutive_capped : forall c id i,
  wf_chain c -> index_of id (ids c) = Some i ->
  bfi c (Some (id, true)) = BBlocks (following c i).
Proof. exact blocks_from_id_consecutive_capped. Qed.

Theorem C19_following_shape : forall c i,
  (length (following c i) <= 103)%nat /\
  forall k x, nth_error (following c i) k = Some x ->
    fst x = g0 c + N.of_nat i + 1 + N.of_nat k /\ nth_error (ids c) (S i + k) = Some (snd x).
Proof. exact following_shape. Qed.

Theorem C19_blocks_from_id_unknown_or_malformed : forall c,
  (forall id, ~ In id (ids c) -> bfi c (Some (id, true)) = BErr) /\
  (forall r, (r = None \/ exists id, r = Some (id, false)) -> bfi c r = BBan).
Proof. intros c. split; [exact (bfi_unknown_id c)|exact (bfi_malformed c)]. Qed.

(* the handler before the fix: uint32 overflow of height+103 *)
Theorem C19_blocks_from_id_orig_refuted :
  exists c id i, wf_chain c /\ index_of id (ids c) = Some i /\ bfi_orig c (Some (id, true)) <> BBlocks (following c i).
Proof. exact blocks_from_id_orig_refuted. Qed.

(* ---------------------------------------------------------------- height helpers *)
(* IDs offered in the common-block search are never below the finalized height.  Full statement (all uint32
   inputs) is false because minimum + i*gap wraps (witness below); proved for the non-wrapping range. *)
Theorem C19_gap_heights_not_below_finalized_partial : forall start minimum gap num x,
  start < W32 -> minimum + num * gap < W32 ->
  In x (height_with_gap start minimum gap num) -> minimum <= x.
Proof. exact gap_heights_not_below_minimum. Qed.

Theorem C19_gap_heights_wrap_refuted :
  exists start minimum gap num x, start < W32 /\ minimum < W32 /\
    In x (height_with_gap start minimum gap num) /\ x < minimum.
Proof. exact gap_heights_wrap_witness. Qed.

Theorem C19_start_search_height_spec : forall h r, 0 < r -> h < W32 ->
  let s := start_search_height h r in s <= h /\ (s mod r = 0) /\ (0 < h -> s < h /\ h <= s + r).
Proof. exact start_search_height_spec. Qed.


(* ---------------------------------------------------------------- convergence (model of fast_sync.go / block_sync.go / download.go;
   tied to the code by running the real Syncer against a scripted peer over loopback libp2p, Corr.C19.check_sync) *)
(* "partial": stated for an honest peer (it answers the common block [cid] and delivers its blocks after it), the
   common block at or above the finalized height and, for fast sync, both tips within two rounds of it; peer
   selection and the common-block search rounds are covered by their own theorems, not composed in.
   ALSO ASSUMED: [forall c', finality c' <= finalized n] - no applied block raises the finalized height, i.e. finality does
   not move during the sync. The moving-finality case is covered by the correspondence runs with Full:true
   (Corr.C19.check_sync, dynamic finality) and by C19_failed_fast_sync_finality_moved_refuted *)
Theorem C19_honest_peer_converges_partial : forall valid finality rs cs ba n pre cid own blocks th r2,
  chain n = pre ++ cid :: own -> ~ In cid pre ->
  (finalized n <= length pre)%nat -> (forall c', (finality c' <= finalized n)%nat) ->
  (length own <= r2)%nat -> (length pre <= th)%nat -> (th - length pre <= r2)%nat ->
  N.of_nat th < 4294967296 ->
  all_valid valid (pre ++ [cid]) blocks ->
  fast_sync valid finality rs cs ba n (Some cid) blocks EndOk th r2 =
    ({| chain := pre ++ cid :: blocks; temp := []; finalized := finalized n; banned := banned n |}, Synced) /\
  block_sync valid finality n (Some cid) blocks EndOk =
    ({| chain := pre ++ cid :: blocks; temp := []; finalized := finalized n; banned := banned n |}, Synced).
Proof.
  intros. split; [eapply honest_peer_converges_fast; eassumption|eapply honest_peer_converges_block; eassumption].
Qed.

(* the stored finalized height is DYNAMIC in the model ([finality]: raised while blocks are applied, re-read by every
   deletion).  "partial": if blocks downloaded during fast sync prove invalid, wherever the invalid block sits and whatever
   temp blocks earlier syncs left behind, the original blocks are restored and the peer is banned — PROVIDED the valid blocks
   applied before the invalid one did not raise the finalized height (hypothesis forall c', finality c' <= finalized n).
   Without it the statement is false of the protocol itself: see C19_failed_fast_sync_finality_moved_refuted *)
Theorem C19_failed_fast_sync_restores_and_bans_partial : forall valid finality n pre cid own good bad rest th r2,
  chain n = pre ++ cid :: own -> ~ In cid pre ->
  (finalized n <= length pre)%nat -> (forall c', (finality c' <= finalized n)%nat) ->
  (length own <= r2)%nat -> (length pre <= th)%nat -> (th - length pre <= r2)%nat ->
  N.of_nat th < 4294967296 ->
  all_valid valid (pre ++ [cid]) good -> valid ((pre ++ [cid]) ++ good) bad = false ->
  all_valid valid (pre ++ [cid]) own ->
  let '(n', o) := fast_sync valid finality false true true n (Some cid) (good ++ bad :: rest) EndOk th r2 in
  chain n' = chain n /\ banned n' = true /\ o = Failed.
Proof. exact failed_fast_sync_restores_and_bans. Qed.

(* valid blocks that FINALIZE a height above the common block, then an invalid one: the finalized blocks cannot be deleted,
   the original blocks cannot come back (finalized blocks are irreversible, C04).  Before the repair the code returned the
   error WITHOUT banning and left the own blocks in the temp table; now it bans and drops them, keeping the finalized prefix *)
Theorem C19_failed_fast_sync_finality_moved_refuted :
  exists valid finality n cid own blocks th r2,
    chain n = [0] ++ own /\ cid = 0 /\ temp n = [] /\ all_valid valid [0] own /\
    (let '(n', o) := fast_sync valid finality false true false n (Some cid) blocks EndOk th r2 in
     chain n' <> chain n /\ banned n' = false /\ temp n' <> []) /\
    (let '(n', o) := fast_sync valid finality false true true n (Some cid) blocks EndOk th r2 in
     chain n' = [0; 11] /\ banned n' = true /\ temp n' = [] /\ finalized n' = 1%nat).
Proof. exact failed_fast_sync_finality_moved_refuted. Qed.

(* CURRENT code, no hypothesis on finality: whenever a delivered block that passed Validate is rejected by the processor
   during a fast sync, the peer is banned — whether or not the original blocks could be restored *)
Theorem C19_failed_fast_sync_always_bans : forall valid finality rs cs n cid hc blocks th r2,
  index_of cid (chain n) = Some hc -> (finalized n <= hc)%nat ->
  (r2 <? (length (chain n) - 1) - hc)%nat || far32 th hc r2 = false ->
  snd (apply_all valid (firstn (S hc) (chain n)) blocks) = false ->
  banned (fst (fast_sync valid finality rs cs true n (Some cid) blocks EndOk th r2)) = true.
Proof. exact failed_fast_sync_always_bans. Qed.

(* ORIGINAL code: only when the FIRST applied block is the invalid one and no temp block was left behind *)
Theorem C19_failed_fast_sync_orig_first_block_case : forall valid finality n pre cid own bad rest th r2,
  chain n = pre ++ cid :: own -> ~ In cid pre -> temp n = [] ->
  (finalized n <= length pre)%nat -> (forall c', (finality c' <= finalized n)%nat) ->
  (length own <= r2)%nat -> (length pre <= th)%nat -> (th - length pre <= r2)%nat ->
  N.of_nat th < 4294967296 ->
  valid (pre ++ [cid]) bad = false -> all_valid valid (pre ++ [cid]) own ->
  let '(n', o) := fast_sync valid finality true false false n (Some cid) (bad :: rest) EndOk th r2 in
  chain n' = chain n /\ banned n' = true /\ o = Failed.
Proof. exact failed_fast_sync_orig_first_block_case. Qed.

Theorem C19_failed_fast_sync_restores_orig_refuted :
  exists valid n cid own blocks th r2,
    chain n = [0] ++ own /\ cid = 0 /\ temp n = [] /\ all_valid valid [0] own /\
    let '(n', o) := fast_sync valid (fun _ => 0%nat) true false false n (Some cid) blocks EndOk th r2 in
    chain n' <> chain n /\ banned n' = false.
Proof. exact failed_fast_sync_restores_orig_refuted. Qed.

(* restore repaired but stale temp blocks (left by a failed block sync, which never restores) not cleared *)
Theorem C19_failed_fast_sync_stale_temp_refuted :
  exists valid n cid own blocks th r2,
    chain n = [0; 5] ++ own /\ cid = 5 /\ all_valid valid [0; 5] own /\
    let '(n', o) := fast_sync valid (fun _ => 0%nat) false false false n (Some cid) blocks EndOk th r2 in
    chain n' <> chain n /\ banned n' = false.
Proof. exact failed_fast_sync_stale_temp_refuted. Qed.

(* the two-round test is uint32 arithmetic: a peer naming a common block ABOVE the height of the block it offered makes
   `block height - common height` wrap and the fast sync is abandoned with nothing touched *)
Theorem C19_fast_sync_common_above_block_aborts : forall valid finality rs cs ba n cid hc blocks e th r2,
  index_of cid (chain n) = Some hc -> (finalized n <= hc)%nat -> (th < hc)%nat ->
  N.of_nat hc < 4294967296 -> N.of_nat r2 + N.of_nat (hc - th) < 4294967296 ->
  fast_sync valid finality rs cs ba n (Some cid) blocks e th r2 = (n, Aborted).
Proof. exact fast_sync_common_above_block_aborts. Qed.

(* a truncated stream or a statelessly invalid block leaves a fast-syncing node's chain untouched *)
Theorem C19_fast_sync_bad_stream_no_change : forall valid finality rs cs ba n common blocks e th r2, e <> EndOk ->
  chain (fst (fast_sync valid finality rs cs ba n common blocks e th r2)) = chain n /\
  snd (fast_sync valid finality rs cs ba n common blocks e th r2) <> Synced.
Proof. exact fast_sync_bad_stream_no_change. Qed.

(* whatever the peer answers or serves and however finality moves meanwhile: nothing at or below the finalized height the
   node had before the sync is changed, and its stored finalized height only grows (deletions stop at the finalized height
   in force at that moment: delete_till reads the node's current value) *)
Theorem C19_sync_never_deletes_finalized : forall valid finality rs cs ba n common blocks e th r2,
  (finalized n < length (chain n))%nat ->
  keeps n (fst (fast_sync valid finality rs cs ba n common blocks e th r2)) /\ keeps n (fst (block_sync valid finality n common blocks e)).
Proof. intros. split; [apply fast_sync_keeps_finalized; assumption|apply block_sync_keeps_finalized; assumption]. Qed.

(* ---------------------------------------------------------------- which mechanism (Syncer.Sync) *)
(* a block from a current validator within two rounds of the own tip is handled by fast sync whether the offered chain
   is longer or SHORTER than ours; the choice is symmetric in the two heights *)
Theorem C19_close_block_uses_fast_sync : forall own_h block_h n g,
  own_h <= block_h + 2 * n -> block_h <= own_h + 2 * n -> choose_sync own_h block_h n true g = MFast.
Proof. exact close_block_uses_fast_sync. Qed.

Theorem C19_choose_sync_symmetric : forall a b n v g, choose_sync a b n v g = choose_sync b a n v g.
Proof. exact choose_sync_symmetric. Qed.

(* with the wrapping uint32 difference block - own a shorter better chain is not synced at all *)
Theorem C19_choose_sync_wrap_refuted :
  exists own_h block_h n g, block_h < own_h /\ own_h <= block_h + 2 * n /\
    choose_sync own_h block_h n true g = MFast /\ choose_sync_wrap own_h block_h n true g = MNone.
Proof. exact choose_sync_wrap_refuted. Qed.

(* ---------------------------------------------------------------- downloader (download.go, repaired) *)
(* for EVERY sequence of peer answers (empty lists, repeated or foreign segments, errors) the download loop ends within
   (target height - start height) + 1 requests and delivers at most (target height - start height) blocks *)
Theorem C19_download_bounded : forall resp fuel k last endh endid acc,
  (endh - last < fuel)%nat ->
  let '(acc', e) := download resp k fuel last endh endid acc in
  e <> DlOutOfFuel /\ (length acc' <= length acc + (endh - last))%nat.
Proof. exact download_bounded. Qed.

(* the original loop: never ends against empty answers, grows without bound against a repeated segment *)
Theorem C19_download_orig_refuted :
  (forall fuel k last endid acc, snd (download_orig (fun _ => Some []) k fuel last endid acc) = DlOutOfFuel) /\
  (forall fuel k last acc, length (fst (download_orig (fun _ => Some [(1%nat, 7)]) k fuel last 9 acc)) = (length acc + fuel)%nat).
Proof. split; [exact download_orig_unbounded|exact download_orig_grows]. Qed.

(* ---------------------------------------------------------------- composition: handler + downloader + state machines *)
(* the downloader against the honest getBlocksFromID handler delivers exactly the responder's blocks after the start block
   up to its tip, across as many 103-block requests as needed *)
Theorem C19_honest_download_delivers_suffix : forall c i l tipid fuel,
  skipn (S i) (ids c) = l ++ [tipid] -> ~ In tipid l -> (length l < fuel)%nat ->
  download (honest_resp c i) 0 fuel (N.to_nat (g0 c) + i) (N.to_nat (g0 c) + i + length l + 1) tipid [] =
  (numb (S (N.to_nat (g0 c) + i)) (skipn (S i) (ids c)), DlOk).
Proof. exact honest_download_delivers_suffix. Qed.

(* honest peer with chain pre ++ cid :: suffix (any length), all its blocks valid: block sync, and fast sync within two
   rounds, end exactly on the peer's chain; the delivered blocks are no longer a hypothesis but the downloader's result
   against the handler.
   PARTIAL (the name is pinned, it carries no _partial suffix): assumes [forall c', finality c' <= finalized n] - finality
   does not move during the sync; the moving-finality case is covered by the correspondence runs with Full:true and by
   C19_failed_fast_sync_finality_moved_refuted *)
Theorem C19_honest_sync_ends_on_peer_chain : forall valid finality rs cs ba n c pre cid own l tipid fuel th r2,
  g0 c = 0 -> ids c = pre ++ cid :: l ++ [tipid] -> ~ In tipid l ->
  Converge.chain n = pre ++ cid :: own -> ~ In cid pre -> (finalized n <= length pre)%nat ->
  (forall c', (finality c' <= finalized n)%nat) ->
  all_valid valid (pre ++ [cid]) (l ++ [tipid]) -> (length l < fuel)%nat ->
  let '(delivered, e) := download (honest_resp c (length pre)) 0 fuel (length pre) (length pre + length l + 1) tipid [] in
  block_sync valid finality n (Some cid) (map snd delivered) (ending_of e) =
    ({| Converge.chain := ids c; temp := []; finalized := finalized n; banned := banned n |}, Synced) /\
  ((length own <= r2)%nat -> (length pre <= th)%nat -> (th - length pre <= r2)%nat -> N.of_nat th < 4294967296 ->
   fast_sync valid finality rs cs ba n (Some cid) (map snd delivered) (ending_of e) th r2 =
    ({| Converge.chain := ids c; temp := []; finalized := finalized n; banned := banned n |}, Synced)).
Proof. exact honest_sync_ends_on_peer_chain. Qed.

(* the common block returned by block sync's three-trial search (uint32 arithmetic) lies on the own chain at a probed
   height, not below the finalized height, whatever offered ID the peer picks *)
Theorem C19_common_search_not_below_finalized : forall c answer fin n h id,
  wf_chain c -> 0 < n -> (forall offered x, answer offered = Some x -> In x offered) -> fin + 10 * n < W32 ->
  common_search c answer fin n = SFound h id -> fin <= h /\ height_of_id c id = Some h.
Proof. exact common_search_not_below_finalized. Qed.

(* block sync never restores *)
Theorem C19_block_sync_failure_shape : forall valid finality n pre cid own good bad rest e,
  Converge.chain n = pre ++ cid :: own -> ~ In cid pre -> (finalized n <= length pre)%nat ->
  (forall c', (finality c' <= finalized n)%nat) ->
  all_valid valid (pre ++ [cid]) good -> valid ((pre ++ [cid]) ++ good) bad = false ->
  block_sync valid finality n (Some cid) (good ++ bad :: rest) e =
  ({| Converge.chain := pre ++ cid :: good; temp := save_from (S (length pre)) own (temp n); finalized := finalized n; banned := banned n |}, Failed).
Proof. exact block_sync_failure_shape. Qed.

(* non-vacuity *)
Example C19_ex_best : best_spec_b w_infos (Build_ni 10 5 1 1) = true /\ valid_result_b w_infos (Build_ni 10 5 1 1) = true.
Proof. split; vm_compute; reflexivity. Qed.
Example C19_ex_bfi : bfi (Build_chain 5 [50; 51; 52; 53]) (Some (51, true)) = BBlocks [(7, 52); (8, 53)].
Proof. vm_compute. reflexivity. Qed.

(* the responder used in the composition IS the handler model: on a well-formed chain *)
Theorem C19_honest_resp_is_bfi : forall (c : Handlers.chain) i k x,
  wf_chain c -> Handlers.index_of x (ids c) = Some (i + 103 * k)%nat ->
  match bfi c (Some (x, true)) with
  | BBlocks l => honest_resp c i k = Some (map to_nat_blk l)
  | _ => False
  end.
Proof. exact honest_resp_is_bfi. Qed.
