(* C16 — property theorems only.  Statements are full; proofs are [exact lemma]. *)
From Coq Require Import List NArith Bool.
From Coq Require Import Permutation Lia.
From LE Require Import SMT.Spec SMT.Tree SMT.TreeProofs.
From LE Require Import Exec.EventLog Exec.TxExec Exec.TxExecProofs Exec.StateRoot Exec.StateRootProofs Exec.CacheProofs Exec.Recovery Exec.RootProofs Exec.Instance.
Import ListNotations.
Local Open Scope N_scope.

(* a command = ANY list of set/delete/get through any views, events, snapshots/restores on the context or on views;
   if it returns an error (and ExecuteTransaction's own restore succeeds, i.e. the result is Fail, not Invalid) the
   staged store is exactly what it was when the command started *)
Theorem C16_failed_command_is_noop_on_state : forall s st acts st' o,
  command_phase s st (acts, true) = (st', Some false, o) -> x_cache st' = x_cache st.
Proof. exact failed_command_is_noop_on_state. Qed.

Theorem C16_successful_command_keeps_effects : forall s st acts st' o,
  command_phase s st (acts, false) = (st', Some true, o) ->
  exists st2 ls2, run s {| x_cache := x_cache st; x_root := snd (snap (x_root st) (x_cache st)); x_log := create_snapshot (x_log st) |} [] acts
                  = (st2, ls2, o) /\ x_cache st' = x_cache st2 /\ x_log st' = x_log st2.
Proof. exact successful_command_keeps_effects. Qed.

(* a transaction that turns out INVALID (a Before/AfterCommandExecute hook fails, the command does not exist, the command's
   own snapshot is gone) leaves the staged store exactly as it was when ExecuteTransaction was entered (fix f89ea6f): block
   generation skips such a transaction and keeps using the context.  [tx_no_root_restore]: module code restores only
   snapshots of views (context-level snapshot ids are relative to the context's history). *)
Theorem C16_invalid_transaction_is_noop_on_state : forall s st t st' o, tx_no_root_restore t ->
  execute_tx s st t = (st', XInvalid, o) -> x_cache st' = x_cache st.
Proof. exact invalid_transaction_is_noop_on_state. Qed.

(* events after a failed command = events before ++ the command's unrevertible events (re-indexed) *)
Theorem C16_events_on_failure : forall s st acts st' o,
  command_phase s st (acts, true) = (st', Some false, o) ->
  exists new, lg_events (x_log st') = lg_events (x_log st) ++ keep_norevert new (length (lg_events (x_log st))) /\
              lg_topic (x_log st') = lg_topic (x_log st) /\ lg_height (x_log st') = lg_height (x_log st).
Proof. exact events_on_failure. Qed.

(* ... ++ [standard event carrying the result], with the next index *)
Theorem C16_standard_event_is_last : forall l t success l',
  add l (std_req t success) = Some l' ->
  exists e, lg_events l' = lg_events l ++ [{| le_event := e; le_norevert := false |}] /\
            ev_index e = N.of_nat (length (lg_events l)) /\ ev_name e = std_name /\ ev_data e = std_data success.
Proof. exact standard_event_is_last. Qed.

(* events are indexed consecutively: across a whole ExecuteTransaction (hooks, command, restore, standard event)
   every event's index equals its position *)
Theorem C16_events_indexed_consecutively : forall s st t st' r o,
  execute_tx s st t = (st', r, o) ->
  (forall i x, nth_error (lg_events (x_log st)) i = Some x -> ev_index (le_event x) = N.of_nat i) ->
  (forall i x, nth_error (lg_events (x_log st')) i = Some x -> ev_index (le_event x) = N.of_nat i).
Proof. exact execute_tx_indexed. Qed.

(* block level: the engine concatenates the events of BeforeTransactionsExecute, of every transaction (each numbered from
   0 by its own logger) and of AfterTransactionsExecute and renumbers them (Events.UpdateIndex): same events, same order,
   nothing but the index changed, and the i-th event of the block carries index i *)
Theorem C16_block_events_renumbered : forall before txs after i e,
  nth_error (before ++ concat txs ++ after) i = Some e ->
  nth_error (block_events before txs after) i = Some (reindex e i).
Proof. exact block_events_renumbered. Qed.

Theorem C16_block_events_indexed_consecutively : forall before txs after i e,
  nth_error (block_events before txs after) i = Some e -> ev_index e = N.of_nat i.
Proof. exact block_events_indexed. Qed.

(* Commit writes exactly the staged view: every key reads after the commit as it read through the staged store
   (a key deleted in the block is absent) *)
Theorem C16_commit_writes_staged_view : forall c s ws d,
  NoDup (map fst c) -> coherent s c -> commit_cache c = (ws, d) ->
  forall k, lookup (apply_writes s ws) k = view s c k.
Proof. exact commit_writes_staged_view. Qed.

(* ... and the tree receives one update per written key: hash of the value for a set key, a deletion (empty value,
   leaf removed, LIP-0039) for a deleted key, under the tree key prefix(6) ++ hash(rest) *)
Theorem C16_tree_updates_delete_leaf : forall hash (K : Type) (enc : bytes -> K) ws ups, tree_updates hash enc ws = Some ups ->
  Forall2 (fun w u => match w with
                      | WSet k v => exists tk, tree_key hash k = Some tk /\ fst u = enc tk /\ snd u = Some (hash v)
                      | WDel k => exists tk, tree_key hash k = Some tk /\ fst u = enc tk /\ snd u = None
                      end) ws ups.
Proof. exact tree_updates_spec. Qed.

(* non-vacuity: a failing command that wrote, deleted, logged both kinds of events and took a snapshot *)
Example C16_failed_command_example :
  let s : store := [([0;0;0;0;1;0;0;5], [7])] in
  let st := {| x_cache := []; x_root := no_snaps; x_log := set_default_topic (new_logger 3) 9 |} in
  let acts := [ASet [0;0;0;0;1;0;0;6] [1]; ADel [0;0;0;0;1;0;0;5]; AEvent false (Build_ev_req 1 1 [] [] true);
               AEvent true (Build_ev_req 1 2 [] [] true); ASnap 1; ASet [0;0;0;0;1;0;0;7] [2]; ARestore 1 0] in
  match command_phase s st (acts, true) with
  | (st', Some false, _) => x_cache st' = [] /\ length (lg_events (x_log st')) = 1%nat
  | _ => False
  end.
Proof. vm_compute. split; reflexivity. Qed.

(* whatever the transactions of a block do (any scripts over module-store keys, any snapshots/restores, any mix of
   failing and succeeding commands, hooks, unknown commands), the cache handed to Commit has distinct keys and every
   entry remembers the persisted value of its key — the precondition of the commit theorems below *)
Theorem C16_block_cache_good : forall (KP : bytes -> Prop) s height txs c v c' v',
  Forall (tx_wf KP) txs -> cache_good KP s c -> snaps_good KP s v -> exec_txs s height c v txs = (c', v') -> cache_good KP s c'.
Proof. exact block_cache_good. Qed.

(* ---- state root.  The sparse Merkle tree is abstract: tree states TR, Trie.Update = tree_update, root = tree_root.
   The only fact assumed about it is H_C10, which is C10_root_is_function_of_map (Properties/C10.v) verbatim with the
   trie of coq/SMT/Tree.v replaced by the variables; see C16_composed_with_C10 below, where it is discharged by C10. *)
Section C16Root.
  Variable hash : bytes -> bytes.                 (* SHA-256 *)
  Variable enc : bytes -> Spec.key.               (* bytes.ToBools *)
  Variable TR R : Type.
  Variable root_eqb : R -> R -> bool.
  Variable tree_update : TR -> list (@op bytes) -> TR.
  Variable tree_root : TR -> R.
  Variable tree_empty : TR.
  Variable U : bytes -> Prop.                     (* key universe of the run: the state keys module code touches *)
  Variable empty_root : R.
  (* the hash yields 32 proper bytes and has no collision AMONG THE KEYS OF THE RUN (a premise about the run: no
     injective function into 32 bytes exists); the bit expansion has 8 bits per byte and is injective on proper byte
     strings of equal length.  These hypotheses are satisfiable: C16_hypotheses_consistent below instantiates them. *)
  Hypothesis hash_len : forall x, length (hash x) = 32%nat.
  Hypothesis hash_wfb : forall x, wfb (hash x).
  Hypothesis hash_inj_U : forall k k', U k -> U k' -> hash (skipn 7 k) = hash (skipn 7 k') -> skipn 7 k = skipn 7 k'.
  Hypothesis enc_len : forall a, length (enc a) = (8 * length a)%nat.
  Hypothesis enc_inj : forall a b, wfb a -> wfb b -> length a = length b -> enc a = enc b -> a = b.
  Hypothesis root_eqb_spec : forall a b, root_eqb a b = true <-> a = b.
  Hypothesis empty_root_spec : empty_root = tree_root tree_empty.
  Hypothesis H_C10 : forall h1 h2 : list (list (@op bytes)),
    keys_ok tkbits h1 -> keys_ok tkbits h2 ->
    (forall k, mget k (fold_left map_batch h1 []) = mget k (fold_left map_batch h2 [])) ->
    tree_root (fold_left tree_update h1 tree_empty) = tree_root (fold_left tree_update h2 tree_empty).

  Notation n := tkbits.
  Notation ukey := (ukey U).
  Notation Inv := (Inv hash enc TR R tree_update tree_empty U).
  Notation Good := (Good hash enc TR R tree_update tree_root tree_empty U empty_root).
  Notation img := (img hash enc).
  Notation commit := (commit hash enc root_eqb tree_update tree_root).
  Notation revert := (revert hash enc root_eqb tree_update tree_root).
  Notation init := (init hash enc root_eqb tree_update tree_root empty_root).
  Notation reach := (reach hash enc TR R root_eqb tree_update tree_root tree_empty U empty_root).

  (* the state root committed for a block is the sparse Merkle root of the resulting state, deleted keys absent:
     the new state is the staged view; the returned root is the root of EVERY history of batches whose map is the tree
     image {tree_key k |-> hash v | k |-> v in the state} — a key absent from the state contributes nothing *)
  Theorem C16_commit_root_is_smt_of_state : forall a hist c height prev expected a' r,
    Inv a hist -> cache_good ukey (a_state a) c -> root_eqb prev (tree_root (a_tree a)) = true ->
    commit a c height prev expected false = COk a' r ->
    exists ops, Inv a' (hist ++ [ops]) /\ r = tree_root (a_tree a') /\
      (forall k, lookup (a_state a') k = view (a_state a) c k) /\
      a_tree_state a' = Some (height, r) /\
      a_diffs a' = put_diff (a_diffs a) height (snd (commit_cache c)) /\
      (forall h2, keys_ok n h2 -> img (a_state a') (fold_left map_batch h2 []) ->
                  r = tree_root (fold_left tree_update h2 tree_empty)).
  Proof. exact (commit_root_is_smt_of_state hash enc TR R root_eqb tree_update tree_root tree_empty U hash_len hash_wfb hash_inj_U enc_len enc_inj H_C10). Qed.

  Theorem C16_commit_never_panics : forall a hist c height prev expected dry,
    Inv a hist -> cache_good ukey (a_state a) c -> root_eqb prev (tree_root (a_tree a)) = true ->
    match commit a c height prev expected dry with COk _ _ | CMismatch _ => True | _ => False end.
  Proof. exact (commit_never_panics hash enc TR R root_eqb tree_update tree_root tree_empty U hash_len hash_wfb hash_inj_U enc_len enc_inj). Qed.

  (* reverting the block just committed restores every key's binding and the previous root (and the tree-state record) *)
  Theorem C16_revert_restores_state_and_root : forall a H sts c a' r expected,
    Good a H sts -> cache_good ukey (a_state a) c -> H + 1 < 2 ^ 32 ->
    commit a c (H + 1) (tree_root (a_tree a)) None false = COk a' r ->
    exists a'', (forall k, lookup (a_state a'') k = lookup (a_state a) k) /\
                tree_root (a_tree a'') = tree_root (a_tree a) /\
                a_tree_state a'' = Some (H, tree_root (a_tree a)) /\
                revert a' (H + 1) r expected =
                if match expected with Some x => negb (root_eqb (tree_root (a_tree a)) x) | None => false end
                then RMismatch (tree_root (a_tree a)) else ROk a'' (tree_root (a_tree a)).
  Proof. exact (revert_restores_state_and_root hash enc TR R root_eqb tree_update tree_root tree_empty U hash_len hash_wfb hash_inj_U enc_len enc_inj root_eqb_spec H_C10 empty_root). Qed.

  (* restart recovery: with the engine at last <= H, Init rolls the application back to the state it had at [last]
     (Good ... last (the chain from that level on)), never fails on the way, and answers IOk exactly when the engine's
     root is the root of that state *)
  Theorem C16_init_recovers_to_engine_tip : forall a H sts last last_root, Good a H sts -> last <= H ->
    (N.to_nat (H - last) < length sts)%nat ->
    exists a', Good a' last (skipn (N.to_nat (H - last)) sts) /\ a_diffs a' = a_diffs a /\
               init a last last_root = if root_eqb (tree_root (a_tree a')) last_root then IOk a' else IConflict a'.
  Proof. exact (init_recovers_to_engine_tip hash enc TR R root_eqb tree_update tree_root tree_empty U hash_len hash_wfb hash_inj_U enc_len enc_inj root_eqb_spec H_C10 empty_root empty_root_spec). Qed.

  Theorem C16_init_succeeds_on_matching_root : forall a H sts last b hb, Good a H sts -> last <= H ->
    (N.to_nat (H - last) < length sts)%nat -> Inv b hb ->
    (forall k, lookup (a_state b) k = lookup (nth (N.to_nat (H - last)) sts []) k) ->
    exists a', init a last (tree_root (a_tree b)) = IOk a' /\ Good a' last (skipn (N.to_nat (H - last)) sts).
  Proof. exact (init_succeeds_on_matching_root hash enc TR R root_eqb tree_update tree_root tree_empty U hash_len hash_wfb hash_inj_U enc_len enc_inj root_eqb_spec H_C10 empty_root empty_root_spec). Qed.

  Theorem C16_init_behind : forall a H sts last last_root, Good a H sts -> H < last -> init a last last_root = IBehind.
  Proof. exact (init_behind hash enc TR R root_eqb tree_update tree_root tree_empty U empty_root empty_root_spec). Qed.

  (* Finalize(fh) with fh <= application height: the database stays good; the chain of undoable levels is cut at
     max(F, fh-1) — exactly the levels whose diffs survive (a wrong prune bound would break the last Revert/Init step) *)
  Theorem C16_finalize_keeps_good : forall a H sts fh F, Good a H sts -> length sts = S (N.to_nat (H - F)) -> F <= H -> fh <= H ->
    Good (finalize a fh) H (firstn (S (N.to_nat (H - N.max F (fh - 1)))) sts) /\
    length (firstn (S (N.to_nat (H - N.max F (fh - 1)))) sts) = S (N.to_nat (H - N.max F (fh - 1))).
  Proof. intros a H sts fh F G L HF Hfh. eapply finalize_good; eauto. Qed.

  (* for ALL sequences of blocks (any transactions), reverts and restarts from the empty database: the database is Good
     — consistent with a history of tree batches (so its root is the SMT root of its state), tree-state record at the
     application height, and every earlier state of the chain still reachable by Revert / Init *)
  Theorem C16_every_reachable_db_is_good : forall a H F, reach a H F ->
    exists sts, Good a H sts /\ length sts = S (N.to_nat (H - F)) /\ F <= H.
  Proof. exact (reach_good hash enc TR R root_eqb tree_update tree_root tree_empty U hash_len hash_wfb hash_inj_U enc_len enc_inj root_eqb_spec H_C10 empty_root empty_root_spec). Qed.
End C16Root.

(* composition with C10: for the trie of coq/SMT/Tree.v (any abstract hash functions) the hypothesis H_C10 IS
   TreeProofs.root_is_function_of_map (= C10_root_is_function_of_map), so no assumption about the TREE remains; what
   remains assumed is stated in the premises: hash of 32 proper bytes without collisions among the keys of the run,
   the bit expansion's two properties, equality test on roots. *)
Theorem C16_composed_with_C10 :
  forall (hash : bytes -> bytes) (enc : bytes -> Spec.key) (U : bytes -> Prop) (Hsh : Type) (hempty : Hsh)
         (hleaf : Spec.key -> bytes -> Hsh) (hbranch : Hsh -> Hsh -> Hsh) (heqb : Hsh -> Hsh -> bool),
    (forall x, length (hash x) = 32%nat) -> (forall x, wfb (hash x)) ->
    (forall k k', U k -> U k' -> hash (skipn 7 k) = hash (skipn 7 k') -> skipn 7 k = skipn 7 k') ->
    (forall a, length (enc a) = (8 * length a)%nat) ->
    (forall a b, wfb a -> wfb b -> length a = length b -> enc a = enc b -> a = b) ->
    (forall a b, heqb a b = true <-> a = b) ->
    forall a H F,
      reach hash enc (@T bytes) Hsh heqb (batch_update tkbits) (Tree.hash hempty hleaf hbranch) E U hempty a H F ->
      exists sts, Good hash enc (@T bytes) Hsh (batch_update tkbits) (Tree.hash hempty hleaf hbranch) E U hempty a H sts /\
                  length sts = S (N.to_nat (H - F)) /\ F <= H.
Proof.
  intros hash enc U Hsh hempty hleaf hbranch heqb H1 H2 H3 H4 H5 Hq a H F Hr.
  exact (reach_good hash enc (@T bytes) Hsh heqb (batch_update tkbits) (Tree.hash hempty hleaf hbranch) E U H1 H2 H3 H4 H5 Hq
           (@root_is_function_of_map bytes Hsh hempty hleaf hbranch tkbits) hempty eq_refl a H F Hr).
Qed.

(* CONSISTENCY of the hypotheses, checked by Coq: a concrete instance — enc8 (the 8-bit big-endian expansion, both
   properties proved in Exec/Instance.v), a toy hash (32 bytes always, identity on proper 32-byte strings), the key
   universe of proper 39-byte state keys (on which the toy hash has no collisions), a free hash algebra for the trie
   with its decidable equality — for which every premise above is PROVED, so the theorems are not vacuous. *)
Inductive fh := FE | FL (k : Spec.key) (v : bytes) | FB (l r : fh).
Definition fh_eq_dec : forall a b : fh, {a = b} + {a <> b}.
Proof. decide equality; try apply (list_eq_dec N.eq_dec); apply (list_eq_dec Bool.bool_dec). Defined.
Definition fh_eqb (a b : fh) : bool := if fh_eq_dec a b then true else false.

Theorem C16_hypotheses_consistent : forall a H F,
  reach hash_toy enc8 (@T bytes) fh fh_eqb (batch_update tkbits) (Tree.hash FE FL FB) E U_toy FE a H F ->
  exists sts, Good hash_toy enc8 (@T bytes) fh (batch_update tkbits) (Tree.hash FE FL FB) E U_toy FE a H sts /\
              length sts = S (N.to_nat (H - F)) /\ F <= H.
Proof.
  apply (C16_composed_with_C10 hash_toy enc8 U_toy fh FE FL FB fh_eqb
           hash_toy_len hash_toy_wfb hash_toy_inj_U enc8_len enc8_inj).
  intros a b. unfold fh_eqb. destruct (fh_eq_dec a b); split; intros; auto; try discriminate; congruence.
Qed.

(* a concrete run inside that instance: one block with one transaction that sets a 39-byte key; the premises of
   [reach] hold for it (so the universally quantified theorems have inhabited premises) *)
Example C16_reach_nonvacuous :
  let k := [0; 0; 0; 0; 1; 0; 0] ++ repeat 7 32 in
  let t := {| tx_id := 1; tx_module := 1; tx_module_ok := true; tx_before := ([], false);
              tx_command := Some ([ASet k [5]; AGet k], false); tx_after := ([], false) |} in
  exists a r, reach hash_toy enc8 (@T bytes) fh fh_eqb (batch_update tkbits) (Tree.hash FE FL FB) E U_toy FE a 1 0 /\
              lookup (a_state a) k = Some [5] /\ a_tree_state a = Some (1, r) /\ r <> FE.
Proof.
  intros k t.
  set (f := fresh (@T bytes) fh E).
  destruct (exec_txs (a_state f) 1 [] no_snaps [t]) as [c v] eqn:Ex.
  destruct (commit hash_toy enc8 fh_eqb (batch_update tkbits) (Tree.hash FE FL FB) f c 1 (Tree.hash FE FL FB (a_tree f)) None false) as [a r| | |] eqn:Ec;
    try (vm_compute in Ex; inversion Ex; subst; vm_compute in Ec; discriminate).
  exists a, r. split.
  - apply (rc_block hash_toy enc8 (@T bytes) fh fh_eqb (batch_update tkbits) (Tree.hash FE FL FB) E U_toy FE f 0 0 c None a r).
    + apply rc_fresh.
    + apply (block_cache_good (ukey U_toy) (a_state f) 1 [t] [] no_snaps c v); auto.
      * repeat constructor; simpl; auto; try (exists ([0; 0; 0; 1; 0; 0] ++ repeat 7 32); split; [reflexivity | simpl; lia]);
          try (unfold U_toy; split; [repeat constructor; lia | reflexivity]); repeat constructor; lia.
      * apply empty_cache_good.
      * apply no_snaps_good.
    + reflexivity.
    + exact Ec.
  - vm_compute in Ex. inversion Ex; subst. vm_compute in Ec. inversion Ec; subst. vm_compute. repeat split; auto. discriminate.
Qed.
