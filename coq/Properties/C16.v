(* C16 — property theorems only.  Statements are full; proofs are [exact lemma]. *)
From Coq Require Import List NArith Bool.
From LE Require Import Exec.EventLog Exec.TxExec Exec.TxExecProofs Exec.StateRoot Exec.StateRootProofs.
Import ListNotations.
Local Open Scope N_scope.

(* a command = ANY list of set/delete/get through any views, events, snapshots/restores on the context or on views;
   if it returns an error (and ExecuteTransaction's own restore succeeds, i.e. the result is Fail, not Invalid) the
   staged store is exactly what it was when the command started *)
Theorem C16_failed_command_is_noop_on_state : forall s st acts st' o,
  command_phase s st (acts, true) = (st', Some false, o) -> x_cache st' = x_cache st.
Proof. exact failed_command_is_noop_on_state. Qed.

Theorem C16_successful_command_keeps_effects : forall s st acts st' o,
  command_phase s st (acts, false) = (st', Some true, o) ->
  exists st2 ls2, run s {| x_cache := x_cache st; x_root := snd (snap (x_root st) (x_cache st)); x_log := create_snapshot (x_log st) |} [] acts
                  = (st2, ls2, o) /\ x_cache st' = x_cache st2 /\ x_log st' = x_log st2.
Proof. exact successful_command_keeps_effects. Qed.

(* events after a failed command = events before ++ the command's unrevertible events (re-indexed) *)
Theorem C16_events_on_failure : forall s st acts st' o,
  command_phase s st (acts, true) = (st', Some false, o) ->
  exists new, lg_events (x_log st') = lg_events (x_log st) ++ keep_norevert new (length (lg_events (x_log st))) /\
              lg_topic (x_log st') = lg_topic (x_log st) /\ lg_height (x_log st') = lg_height (x_log st).
Proof. exact events_on_failure. Qed.

(* ... ++ [standard event carrying the result], with the next index *)
Theorem C16_standard_event_is_last : forall l t success l',
  add l (std_req t success) = Some l' ->
  exists e, lg_events l' = lg_events l ++ [{| le_event := e; le_norevert := false |}] /\
            ev_index e = N.of_nat (length (lg_events l)) /\ ev_name e = std_name /\ ev_data e = std_data success.
Proof. exact standard_event_is_last. Qed.

(* events are indexed consecutively: across a whole ExecuteTransaction (hooks, command, restore, standard event)
   every event's index equals its position *)
Theorem C16_events_indexed_consecutively : forall s st t st' r o,
  execute_tx s st t = (st', r, o) ->
  (forall i x, nth_error (lg_events (x_log st)) i = Some x -> ev_index (le_event x) = N.of_nat i) ->
  (forall i x, nth_error (lg_events (x_log st')) i = Some x -> ev_index (le_event x) = N.of_nat i).
Proof. exact execute_tx_indexed. Qed.

(* Commit writes exactly the staged view: every key reads after the commit as it read through the staged store
   (a key deleted in the block is absent) *)
Theorem C16_commit_writes_staged_view : forall c s ws d,
  NoDup (map fst c) -> coherent s c -> commit_cache c = (ws, d) ->
  forall k, lookup (apply_writes s ws) k = view s c k.
Proof. exact commit_writes_staged_view. Qed.

(* ... and the tree receives one update per written key: hash of the value for a set key, a deletion (empty value,
   leaf removed, LIP-0039) for a deleted key, under the tree key prefix(6) ++ hash(rest) *)
Theorem C16_tree_updates_delete_leaf : forall hash (K : Type) (enc : bytes -> K) ws ups, tree_updates hash enc ws = Some ups ->
  Forall2 (fun w u => match w with
                      | WSet k v => exists tk, tree_key hash k = Some tk /\ fst u = enc tk /\ snd u = Some (hash v)
                      | WDel k => exists tk, tree_key hash k = Some tk /\ fst u = enc tk /\ snd u = None
                      end) ws ups.
Proof. exact tree_updates_spec. Qed.

(* non-vacuity: a failing command that wrote, deleted, logged both kinds of events and took a snapshot *)
Example C16_failed_command_example :
  let s : store := [([0;0;0;0;1;0;0;5], [7])] in
  let st := {| x_cache := []; x_root := no_snaps; x_log := set_default_topic (new_logger 3) 9 |} in
  let acts := [ASet [0;0;0;0;1;0;0;6] [1]; ADel [0;0;0;0;1;0;0;5]; AEvent false (Build_ev_req 1 1 [] [] true);
               AEvent true (Build_ev_req 1 2 [] [] true); ASnap 1; ASet [0;0;0;0;1;0;0;7] [2]; ARestore 1 0] in
  match command_phase s st (acts, true) with
  | (st', Some false, _) => x_cache st' = [] /\ length (lg_events (x_log st')) = 1%nat
  | _ => False
  end.
Proof. vm_compute. split; reflexivity. Qed.
