(* SetBFTParameters (api.go) as a specification: next-height activation, nothing changes for processed heights, the vote
   record keeps heights and window, continuing validators carry their vote bookkeeping over, new validators start at the
   activation height. *)
From Coq Require Import List NArith Bool Lia.
From LE Require Import BFT.Contradiction BFT.Votes BFT.VotesProofs.
Import ListNotations.
Local Open Scope N_scope.

Lemma in_insert_act_desc : forall x l y, In y (insert_act_desc x l) <-> y = x \/ In y l.
Proof.
  intros x l y. induction l as [|z l IH]; cbn [insert_act_desc].
  - cbn. intuition (subst; auto).
  - destruct (a_addr z <? a_addr x); cbn [In]; [intuition (subst; auto)|]. rewrite IH. intuition (subst; auto).
Qed.

Definition entry_for (v : votes) (nexth : N) (x : addr * N) : active :=
  match find_active (v_act v) (fst x) with
  | Some a => a
  | None => {| a_addr := fst x; a_min := nexth; a_lhp := nexth - 1 |}
  end.

Lemma in_act_fold : forall v nexth vals y,
  In y (fold_right (fun x acc => insert_act_desc (entry_for v nexth x) acc) [] vals) <->
  exists x, In x vals /\ y = entry_for v nexth x.
Proof.
  intros v nexth vals y. induction vals as [|x vals IH]; cbn [fold_right].
  - cbn. split; [tauto|intros (x & [] & _)].
  - rewrite in_insert_act_desc, IH. split.
    + intros [H|(x' & Hx' & H)]; [exists x; split; [left; reflexivity|exact H] | exists x'; split; [right; exact Hx'|exact H]].
    + intros (x' & [Hx'|Hx'] & H); [left; subst; reflexivity | right; exists x'; split; assumption].
Qed.

Lemma in_sort_desc : forall l x, In x (sort_desc l) <-> In x l.
Proof.
  intros l x. unfold sort_desc. induction l as [|y l IH]; cbn [fold_right]; [tauto|].
  assert (G : forall z m, In x (insert_desc z m) <-> x = z \/ In x m).
  { intros z m. induction m as [|w m IHm]; cbn [insert_desc]; [cbn; intuition (subst; auto)|].
    destruct (fst w <? fst z); cbn [In]; [intuition (subst; auto)|]. rewrite IHm. intuition (subst; auto). }
  rewrite G, IH. cbn. intuition (subst; auto).
Qed.

Theorem set_params_spec : forall batch s pcT certT vals s' tip,
  Inv tip s -> set_params batch s pcT certT vals = Ok s' ->
  (* accepted only within the bounds: at most [batch] validators, positive weights, thresholds in [W/3+1, W] *)
  (length vals <= batch)%nat /\ (forall x, In x vals -> 0 < snd x) /\
  total_weight vals / 3 + 1 <= pcT <= total_weight vals /\ total_weight vals / 3 + 1 <= certT <= total_weight vals /\
  (* either nothing changes (the requested parameters are the ones in force) ... *)
  (s' = s \/
   (* ... or the new parameters are in force from the NEXT height on and only from there *)
   (let p := {| p_pv := total_weight vals * 2 / 3 + 1; p_pc := pcT; p_cert := certT; p_vals := sort_desc vals |} in
    (forall h, tip + 1 <= h -> get_params (s_params s') h = Ok p) /\
    (forall h, h <= tip -> get_params (s_params s') h = get_params (s_params s) h) /\
    (* the vote record keeps heights and window *)
    window s' = window s /\ v_mhp (s_votes s') = v_mhp (s_votes s) /\ v_mhpc (s_votes s') = v_mhpc (s_votes s) /\
    v_mhc (s_votes s') = v_mhc (s_votes s) /\
    (* per-validator bookkeeping: exactly one entry per new validator; a continuing validator keeps its entry, a new one may
       vote from the activation height on and has precommitted nothing yet *)
    (forall a, In a (v_act (s_votes s')) <->
       exists x, In x vals /\
         a = match find_active (v_act (s_votes s)) (fst x) with
             | Some old => old
             | None => {| a_addr := fst x; a_min := tip + 1; a_lhp := tip |}
             end))).
Proof.
  intros batch s pcT certT vals s' tip HI H. unfold set_params in H.
  destruct (Nat.ltb batch (length vals)) eqn:E1; [discriminate|]. apply PeanoNat.Nat.ltb_ge in E1.
  destruct (existsb (fun x => snd x =? 0) vals) eqn:E2; [discriminate|].
  destruct ((pcT <? total_weight vals / 3 + 1) || (total_weight vals <? pcT)) eqn:E3; [discriminate|].
  destruct ((certT <? total_weight vals / 3 + 1) || (total_weight vals <? certT)) eqn:E4; [discriminate|].
  split; [exact E1|]. split.
  { intros x Hx. destruct (snd x =? 0) eqn:E; [|lia].
    exfalso. assert (existsb (fun x => snd x =? 0) vals = true) by (apply existsb_exists; exists x; split; assumption). congruence. }
  split; [lia|]. split; [lia|].
  match type of H with (if ?c then _ else _) = _ => destruct c end.
  - left. inversion H; reflexivity.
  - right. inversion H; subst s'; clear H. destruct HI as [Hs Hk Hh Hc Hq Hqc]. rewrite Hc. cbn [s_params s_votes v_mhp v_mhpc v_mhc v_act].
    split; [|split; [|repeat split]].
    + intros h Hle. unfold get_params. rewrite insert_lookup_at; [reflexivity|exact Hle|exact Hs|].
      intros k' p' Hin. exact (Hk k' p' Hin).
    + intros h Hle. apply get_params_insert; [lia|exact Hs].
    + intros Hin. apply in_act_fold in Hin. destruct Hin as (x & Hx & Ha). apply (proj1 (in_sort_desc _ _)) in Hx.
      exists x. split; [exact Hx|]. rewrite Ha. unfold entry_for. destruct (find_active _ _); [reflexivity|].
      replace (tip + 1 - 1) with tip by lia. reflexivity.
    + intros (x & Hx & Ha). apply in_act_fold. exists x. split; [apply (proj2 (in_sort_desc _ _)); exact Hx|].
      rewrite Ha. unfold entry_for. destruct (find_active _ _); [reflexivity|].
      replace (tip + 1 - 1) with tip by lia. reflexivity.
Qed.

Lemma certified_height_rule : forall batch s b s1, before_txs batch s b = Ok s1 ->
  v_mhc (s_votes s1) = match h_cert b with Some h => h | None => v_mhc (s_votes s) end.
Proof.
  intros batch s b s1 H. unfold before_txs in H.
  destruct (check_params_range _ _) as [u|e]; cbn [bind] in H; [|discriminate].
  destruct (update_votes _ _ _) as [[inf ac]|e]; cbn [bind] in H; [|discriminate].
  destruct (first_with _ p_pv _ _) as [x1|e]; cbn [bind] in H; [|discriminate].
  destruct (first_with _ p_pc _ _) as [x2|e]; cbn [bind] in H; [|discriminate].
  inversion H; reflexivity.
Qed.

(* ---- when SetBFTParameters is a no-op: exactly when the requested parameters are the ones in force ---- *)
Definition in_force_equal (s : store) (tip pcT certT : N) (vals : list (addr * N)) : bool :=
  match lookup_le (s_params s) tip None with
  | Some cp => vals_equal (p_vals cp) (sort_desc vals) && (p_pc cp =? pcT) && (p_cert cp =? certT)
  | None => false
  end.

Lemma vals_equal_spec : forall a b, vals_equal a b = true <-> a = b.
Proof.
  unfold vals_equal. induction a as [|[x1 w1] a IH]; destruct b as [|[x2 w2] b]; cbn; split; intros H; try reflexivity; try discriminate.
  - apply andb_prop in H as [Hl Hf]. apply andb_prop in Hf as [Hh Ht]. apply andb_prop in Hh as [H1 H2].
    apply N.eqb_eq in H1, H2. subst. f_equal. apply IH. cbn in Hl. rewrite Hl, Ht. reflexivity.
  - inversion H; subst. rewrite !N.eqb_refl. cbn. specialize (proj2 (IH b) eq_refl). intros G. apply andb_prop in G as [G1 G2].
    rewrite G1, G2. reflexivity.
Qed.

Theorem set_params_noop_iff : forall batch s pcT certT vals s' tip,
  Inv tip s -> set_params batch s pcT certT vals = Ok s' ->
  (in_force_equal s tip pcT certT vals = true /\ s' = s) \/
  (in_force_equal s tip pcT certT vals = false /\
   get_params (s_params s') (tip + 1) =
     Ok {| p_pv := total_weight vals * 2 / 3 + 1; p_pc := pcT; p_cert := certT; p_vals := sort_desc vals |}).
Proof.
  intros batch s pcT certT vals s' tip HI H.
  pose proof (set_params_spec batch s pcT certT vals s' tip HI H) as (_ & _ & _ & _ & Hcases).
  unfold set_params in H.
  destruct (Nat.ltb batch (length vals)); [discriminate|].
  destruct (existsb _ vals); [discriminate|].
  destruct (_ || _); [discriminate|]. destruct (_ || _); [discriminate|].
  unfold in_force_equal. rewrite <- (inv_cur tip s HI).
  destruct (lookup_le (s_params s) (current_height (s_votes s)) None) as [cp|] eqn:El.
  - destruct (vals_equal (p_vals cp) (sort_desc vals) && (p_pc cp =? pcT) && (p_cert cp =? certT)) eqn:Es.
    + left. split; [reflexivity|]. inversion H; reflexivity.
    + right. split; [reflexivity|]. inversion H; subst s'; clear H. cbn [s_params].
      unfold get_params. rewrite (inv_cur tip s HI). rewrite insert_lookup_at; [reflexivity|lia|exact (inv_sorted tip s HI)|].
      intros k' p' Hin. exact (inv_keys tip s HI k' p' Hin).
  - right. split; [reflexivity|]. inversion H; subst s'; clear H. cbn [s_params].
    unfold get_params. rewrite (inv_cur tip s HI). rewrite insert_lookup_at; [reflexivity|lia|exact (inv_sorted tip s HI)|].
    intros k' p' Hin. exact (inv_keys tip s HI k' p' Hin).
Qed.

(* chain level: maxHeightCertified after a chain is the height named by its newest non-empty aggregate commit *)
Definition newest_cert (K : list block) (init : N) : N :=
  fold_left (fun acc x => match h_cert (fst x) with Some h => h | None => acc end) K init.

Lemma set_params_keeps_mhc : forall batch s pcT certT vals s', set_params batch s pcT certT vals = Ok s' ->
  v_mhc (s_votes s') = v_mhc (s_votes s).
Proof.
  intros batch s pcT certT vals s' H. unfold set_params in H.
  destruct (Nat.ltb batch (length vals)); [discriminate|].
  destruct (existsb _ vals); [discriminate|].
  destruct (_ || _); [discriminate|]. destruct (_ || _); [discriminate|].
  match type of H with (if ?c then _ else _) = _ => destruct c end; inversion H; reflexivity.
Qed.

Theorem certified_height_of_chain : forall batch K s s', run_blocks batch s K = Ok s' ->
  v_mhc (s_votes s') = newest_cert K (v_mhc (s_votes s)).
Proof.
  intros batch K. induction K as [|[b chg] K IH]; intros s s' H; cbn [run_blocks bind] in H.
  - inversion H; reflexivity.
  - destruct (apply_block batch s (b, chg)) as [s1|e] eqn:Ea; cbn [bind] in H; [|discriminate].
    rewrite (IH s1 s' H). unfold newest_cert. cbn [fold_left fst]. f_equal.
    unfold apply_block in Ea. destruct (before_txs batch s b) as [s0|e] eqn:Eb; cbn [bind] in Ea; [|discriminate].
    pose proof (certified_height_rule batch s b s0 Eb) as Hc.
    destruct chg as [c|].
    + rewrite (set_params_keeps_mhc _ _ _ _ _ _ Ea). exact Hc.
    + inversion Ea; subst. exact Hc.
Qed.

(* ---- ImpliesMaximalPrevotes (LIP-0058): the header implies the maximal number of prevotes iff it casts prevotes at all
   (maxHeightGenerated < height) and the block of THIS chain at height maxHeightGenerated — if it is still in the window — was
   generated by the same validator (the generator has been on this chain since its previous block). ---- *)
Theorem implies_max_prevotes_spec : forall v b tip, hts (v_infos v) tip -> v_infos v <> [] -> h_height b = tip ->
  exists r, implies_max_prevotes v b = Ok r /\
    (r = true <-> h_mhg b < h_height b /\ forall e, In e (v_infos v) -> i_height e = h_mhg b -> i_gen e = h_gen b).
Proof.
  intros v b tip Hh Hne Hb. unfold implies_max_prevotes.
  destruct (v_infos v) as [|nw tl] eqn:E; [contradiction|].
  assert (Hnw : i_height nw = tip) by (specialize (Hh 0%nat nw eq_refl); lia).
  rewrite Hb, Hnw, N.eqb_refl. cbn [negb].
  destruct (tip <=? h_mhg b) eqn:E2.
  - exists false. split; [reflexivity|]. split; [discriminate|]. intros [H _]. lia.
  - destruct (nth_error (nw :: tl) (N.to_nat (tip - h_mhg b))) as [bi|] eqn:En.
    + exists (i_gen bi =? h_gen b). split; [reflexivity|].
      pose proof (Hh _ _ En) as Hbi. assert (Hbh : i_height bi = h_mhg b) by lia.
      split.
      * intros Hg. apply N.eqb_eq in Hg. split; [lia|]. intros e He Heh.
        apply In_nth_error in He. destruct He as [j Hj]. pose proof (Hh _ _ Hj) as Hej.
        assert (j = N.to_nat (tip - h_mhg b)) by lia. subst j. rewrite En in Hj. inversion Hj; subst. exact Hg.
      * intros [_ Hall]. apply N.eqb_eq. apply Hall; [eapply nth_error_In; exact En|exact Hbh].
    + exists true. split; [reflexivity|]. split; [|reflexivity]. intros _. split; [lia|].
      intros e He Heh. apply In_nth_error in He. destruct He as [j Hj]. pose proof (Hh _ _ Hj) as Hej.
      assert (j = N.to_nat (tip - h_mhg b)) by lia. subst j. rewrite En in Hj. discriminate.
Qed.

(* ---- NextHeightBFTParameters: the smallest stored parameter height above h (None if there is none) ---- *)
Theorem next_params_height_spec : forall ps h, keys_sorted ps ->
  match next_params_height ps h with
  | Some k => (exists p, In (k, p) ps) /\ h < k /\ forall k' p', In (k', p') ps -> h < k' -> k <= k'
  | None => forall k' p', In (k', p') ps -> k' <= h
  end.
Proof.
  induction ps as [|[k p] ps IH]; intros h Hs; cbn [next_params_height].
  - intros k' p' [].
  - destruct Hs as [Hk Hs]. destruct (h + 1 <=? k) eqn:E.
    + split; [exists p; left; reflexivity|]. split; [lia|].
      intros k' p' [Heq|Hin] Hlt; [inversion Heq; lia|]. specialize (Hk k' p' Hin). lia.
    + specialize (IH h Hs). destruct (next_params_height ps h) as [k2|].
      * destruct IH as ((p2 & Hin2) & Hlt & Hmin). split; [exists p2; right; exact Hin2|]. split; [exact Hlt|].
        intros k' p' [Heq|Hin] Hl; [inversion Heq; subst; lia|]. exact (Hmin k' p' Hin Hl).
      * intros k' p' [Heq|Hin]; [inversion Heq; subst; lia|]. exact (IH k' p' Hin).
Qed.
