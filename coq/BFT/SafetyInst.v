(* C01 for a static validator set: the hypotheses of the abstract safety theorem (BFT/Safety.v) are discharged from
   the faithful vote-counting model (BFT/Votes.v) through the ghost decomposition of BFT/VotesGhost.v.
   block := non-empty valid history (list of (header, None)); anc := prefix; view := store after running the history;
   universe := any prefix-closed set of valid histories; honest v := all headers of v anywhere in the universe are
   pairwise non-contradicting.  Nothing about fork choice is assumed. *)
From Coq Require Import List NArith Bool Lia ZArith Arith.
From Coq Require Import ZifyBool ZifyN ZifyNat.
From LE Require Import BFT.Contradiction BFT.ContradictionProofs BFT.Votes BFT.VotesProofs BFT.Safety BFT.VotesGhost.
Import ListNotations.
Local Open Scope N_scope.

Lemma block_eq_dec : forall a b : chain, {a = b} + {a <> b}.
Proof.
  assert (HN : forall x y : N, {x = y} + {x <> y}) by apply N.eq_dec.
  assert (HoN : forall x y : option N, {x = y} + {x <> y}) by (decide equality).
  assert (Hh : forall x y : hdr, {x = y} + {x <> y}) by (decide equality).
  assert (Hp : forall x y : addr * N, {x = y} + {x <> y}) by (decide equality).
  assert (Hl : forall x y : list (addr * N), {x = y} + {x <> y}) by (apply list_eq_dec; exact Hp).
  assert (Hc : forall x y : pchange, {x = y} + {x <> y}) by (decide equality).
  assert (Hoc : forall x y : option pchange, {x = y} + {x <> y}) by (decide equality).
  assert (Hb : forall x y : block, {x = y} + {x <> y}) by (unfold block; decide equality).
  apply list_eq_dec. exact Hb.
Defined.

Lemma prefix_of_le : forall {A} (a b c : list A), prefix a c -> prefix b c -> (length a <= length b)%nat -> prefix a b.
Proof.
  intros A a b c Ha Hb Hl. destruct (prefix_tree a b c Ha Hb) as [H|H]; [exact H|].
  pose proof (prefix_length _ _ H). assert (b = a) by (apply prefix_same_length; [exact H|lia]). subst. apply prefix_refl.
Qed.
Lemma removelast_prefix : forall {A} (l : list A), prefix (removelast l) l.
Proof.
  intros A l. destruct l as [|a l]; [apply prefix_refl|].
  destruct (exists_last (l := a :: l)) as (l0 & y & ->); [discriminate|]. rewrite removelast_last. exists [y]. reflexivity.
Qed.

(* validators = addresses of the configured list *)
Lemma find_weight_some_in : forall l v w, find_weight l v = Some w -> In v (map fst l).
Proof.
  induction l as [|[x u] l IH]; intros v w H; cbn [find_weight] in H; [discriminate|]. cbn [map fst].
  destruct (x =? v) eqn:E; [left; lia|right; eapply IH; exact H].
Qed.
Lemma in_insert_desc : forall x l y, In y (insert_desc x l) <-> y = x \/ In y l.
Proof.
  induction l as [|z l IH]; intros y; cbn [insert_desc].
  - cbn. intuition.
  - destruct (fst z <? fst x); cbn [In]; [intuition|]. rewrite IH. intuition.
Qed.
Lemma in_sort_desc : forall l y, In y (sort_desc l) <-> In y l.
Proof.
  induction l as [|x l IH]; intros y; [reflexivity|]. unfold sort_desc in *. cbn [fold_right]. rewrite in_insert_desc, IH. cbn. intuition.
Qed.
Lemma validator_of_sorted : forall l v w, find_weight (sort_desc l) v = Some w -> In v (map fst l).
Proof.
  intros l v w H. apply find_weight_some_in in H. apply in_map_iff in H. destruct H as (y & <- & Hy).
  apply (proj1 (in_sort_desc _ _)) in Hy. apply in_map. exact Hy.
Qed.
Definition isval (vl : list (addr * N)) (v : addr) : bool := match find_weight vl v with Some _ => true | None => false end.
Lemma wsum_filter_isval : forall vl L, wsum vl (filter (isval vl) L) = wsum vl L.
Proof.
  induction L as [|a L IH]; [reflexivity|]. cbn [filter]. unfold isval at 1. destruct (find_weight vl a) eqn:E.
  - rewrite !wsum_cons, IH. reflexivity.
  - rewrite wsum_cons, IH. unfold weight. rewrite E. lia.
Qed.

Section Inst.
  Variable batch : nat.
  Hypothesis Hbatch : (0 < batch)%nat.
  Variable gh : N.
  Variable c : pchange.
  Variable s0 : store.
  Hypothesis Hinit : init_store batch gh c = Ok s0.

  Notation view := (view batch gh s0).
  Notation tipof := (tipof gh).
  Notation blk := (blk gh).
  Notation P0 := (p0 c).
  Notation VALS := (vals c).

  (* a universe: any prefix-closed set of non-empty valid chains *)
  Variable U : chain -> Prop.
  Hypothesis U_valid : forall K, U K -> K <> [] /\ valid_chain batch gh s0 K.
  Hypothesis U_prefix : forall K K', U K -> prefix K' K -> K' <> [] -> U K'.

  (* all blocks of v anywhere in the universe carry pairwise non-contradicting headers *)
  Definition honest (v : addr) : Prop :=
    forall K1 K2, U K1 -> U K2 -> K1 <> K2 -> genC K1 = v -> genC K2 = v ->
                  contradicting (bh_of_hdr (lastH K1)) (bh_of_hdr (lastH K2)) = false.

  (* the Byzantine validators and the weight bound *)
  Variable byz : list addr.
  Hypothesis Hbyz : forall v, In v (map fst (c_vals c)) -> ~ In v byz -> honest v.
  Hypothesis Hbound : total_weight VALS + wsum VALS byz < p_pc P0 + p_pv P0.

  (* in the view of T the window entry at the height of D reaches the threshold in force at that height *)
  Definition quorum (sel : params -> N) (get : info -> N) (T D : chain) : Prop :=
    prefix D T /\ exists s e, view T = Some s /\ In e (window s) /\ i_height e = hgt D /\ meets (s_params s) sel get e.
  Definition pv_quorum := quorum p_pv i_pv.
  Definition pc_quorum := quorum p_pc i_pc.

  Lemma U_view : forall K, U K -> exists s, view K = Some s.
  Proof. intros K HK. destruct (U_valid K HK) as [_ Hv]. unfold valid_chain in Hv. destruct (view K) as [s|]; [eauto|congruence]. Qed.
  Lemma U_hgt : forall K, U K -> hgt K = tipof K.
  Proof. intros K HK. destruct (U_view K HK) as [s Hs]. eapply valid_hgt; eauto. apply U_valid; exact HK. Qed.
  Lemma blk_id : forall A K, prefix A K -> blk K (tipof A) = A.
  Proof.
    intros A K H. unfold VotesGhost.blk, VotesGhost.tipof. replace (N.to_nat (gh + N.of_nat (length A) - gh)) with (length A) by lia.
    symmetry. apply prefix_firstn. exact H.
  Qed.
  Lemma meets_qrm : forall sel get T h s e, view T = Some s -> In e (window s) -> i_height e = h ->
    (meets (s_params s) sel get e <-> sel P0 <= get e).
  Proof.
    intros sel get T h s e Hv He Hh. pose proof (cinv_view batch Hbatch gh c s0 Hinit T s Hv) as HC.
    rewrite (ci_params _ _ _ _ _ _ HC). rewrite (meets_ps0 batch Hbatch gh c).
    pose proof (window_heights batch Hbatch gh c s0 Hinit T s e Hv He). tauto.
  Qed.
  Lemma quorum_qrm : forall sel get T D, quorum sel get T D -> qrm batch gh c s0 sel get T (hgt D).
  Proof.
    intros sel get T D (_ & s & e & Hv & He & Hh & Hm). exists s, e. repeat split; auto.
    apply (meets_qrm sel get T (hgt D) s e Hv He Hh). exact Hm.
  Qed.
  Lemma qrm_quorum : forall sel get T D, prefix D T -> qrm batch gh c s0 sel get T (hgt D) -> quorum sel get T D.
  Proof.
    intros sel get T D HD (s & e & Hv & He & Hh & Hm). split; [exact HD|]. exists s, e. repeat split; auto.
    apply (meets_qrm sel get T (hgt D) s e Hv He Hh). exact Hm.
  Qed.

  (* ---- tree laws *)
  Lemma anc_height : forall a b, U a -> U b -> prefix a b -> hgt a <= hgt b.
  Proof. intros a b Ha Hb H. rewrite (U_hgt a Ha), (U_hgt b Hb). pose proof (prefix_length _ _ H). unfold VotesGhost.tipof. lia. Qed.
  Lemma anc_same_height : forall a b, U a -> U b -> prefix a b -> hgt a = hgt b -> a = b.
  Proof.
    intros a b Ha Hb H E. rewrite (U_hgt a Ha), (U_hgt b Hb) in E. apply prefix_same_length; [exact H|]. unfold VotesGhost.tipof in E. lia.
  Qed.

  (* ---- non-contradiction of an honest validator's headers *)
  Lemma honest_noncontra : forall b1 b2, U b1 -> U b2 -> genC b1 = genC b2 -> honest (genC b1) -> b1 <> b2 ->
    before chain hgt mhgC mhpC b1 b2 \/ before chain hgt mhgC mhpC b2 b1.
  Proof.
    intros b1 b2 H1 H2 Hg Hh Hne. pose proof (Hh b1 b2 H1 H2 Hne eq_refl (eq_sym Hg)) as Hc.
    assert (Hl : legit_successor (bh_of_hdr (lastH b1)) (bh_of_hdr (lastH b2)) \/
                 legit_successor (bh_of_hdr (lastH b2)) (bh_of_hdr (lastH b1))).
    { destruct (legit_successor_b (bh_of_hdr (lastH b1)) (bh_of_hdr (lastH b2))) eqn:L1;
        [left; apply legit_successor_b_spec; exact L1|].
      destruct (legit_successor_b (bh_of_hdr (lastH b2)) (bh_of_hdr (lastH b1))) eqn:L2;
        [right; apply legit_successor_b_spec; exact L2|].
      exfalso. assert (contradicting (bh_of_hdr (lastH b1)) (bh_of_hdr (lastH b2)) = true); [|congruence].
      apply contradicting_iff. split; [exact Hg|]. split; intros H; apply legit_successor_b_spec in H; congruence. }
    unfold before, hgt, mhgC, mhpC. unfold legit_successor, bh_of_hdr in Hl; cbn in Hl. destruct Hl as [Hl|Hl]; [left|right]; lia.
  Qed.

  (* ---- P1: a prevote quorum yields duplicate-free validators, each with a prevoting block on the chain *)
  Lemma pv_quorum_voters : forall T D, U T -> U D -> pv_quorum T D ->
    exists L, NoDup L /\ p_pv P0 <= wsum VALS L /\
              forall v, In v L -> prevotes chain addr U hgt mhgC genC (@prefix block) T D v.
  Proof.
    intros T D HT HD (HDT & s & e & Hv & He & Hh & Hm).
    pose proof (cinv_view batch Hbatch gh c s0 Hinit T s Hv) as HC.
    destruct (ci_pv _ _ _ _ _ _ HC e He) as [Hsum Hnd]. rewrite Hh in Hsum, Hnd.
    apply (meets_qrm p_pv i_pv T (hgt D) s e Hv He Hh) in Hm.
    exists (map genb (pvl T (hgt D))). split; [exact Hnd|]. split; [lia|].
    intros v Hin. apply in_map_iff in Hin. destruct Hin as (y & Hgy & Hy). unfold pvl in Hy. apply filter_In in Hy.
    destruct Hy as [HyT Hpv]. apply In_nth_error in HyT. destruct HyT as [j Hj].
    destruct (ci_hdrs _ _ _ _ _ _ HC j y Hj) as [_ Hhy].
    assert (Hjlt : (j < length T)%nat) by (apply nth_error_Some; intros E; assert (E2 : Some y = None) by (etransitivity; [symmetry; exact Hj|exact E]); discriminate E2).
    set (X := blk T (h_height (fst y))).
    assert (Hidx : nth_error T (N.to_nat (h_height (fst y) - gh - 1)) = Some y).
    { rewrite Hhy. replace (N.to_nat (gh + N.of_nat j + 1 - gh - 1)) with j by lia. exact Hj. }
    assert (HlastX : lastH X = fst y) by (apply (blk_last batch Hbatch gh T _ y); [lia|exact Hidx]).
    assert (HXne : X <> []) by (apply (blk_nonempty batch Hbatch gh T _ y); [lia|exact Hidx]).
    assert (HXT : prefix X T) by apply blk_prefix.
    exists X. split; [apply (U_prefix T X HT HXT HXne)|].
    split; [unfold genC; rewrite HlastX; exact Hgy|].
    unfold pvh in Hpv. split.
    - rewrite <- (blk_id D T HDT). rewrite <- (U_hgt D HD). apply (blk_le batch Hbatch). clear - Hpv. lia.
    - split; [exact HXT|]. unfold mhgC, hgt at 3. rewrite HlastX. clear - Hpv. lia.
  Qed.

  (* ---- P2: a precommit quorum yields duplicate-free validators, each with a precommitting run on the chain *)
  Lemma pc_evidence : forall T A P, U T -> U A -> prefix A T -> prefix P T -> pc_ev batch gh c s0 (hgt A) P ->
    precommits chain addr U hgt mhgC mhpC genC (@prefix block) A (genC P) /\
    (exists T', U T' /\ pv_quorum T' A /\ prefix A T').
  Proof.
    intros T A P HT HA HAT HPT (Pne & Hmhp & Hq & rest & Hlk & Hrest).
    destruct (qrm_heights batch Hbatch gh c s0 Hinit _ _ _ _ Hq) as [[Hlo Hhi] Hrne].
    assert (HRP : prefix (removelast P) P) by apply removelast_prefix.
    assert (Hhi' : hgt A <= tipof P) by (pose proof (prefix_length _ _ HRP); unfold VotesGhost.tipof in *; lia).
    assert (HAeq : blk P (hgt A) = A).
    { rewrite (blk_of_prefix batch Hbatch gh P T (hgt A) HPT Hhi'). rewrite (U_hgt A HA). apply blk_id. exact HAT. }
    rewrite HAeq in Hlk. split.
    - exists P, rest. split; [exact Hlk|]. split; [exact Hmhp|]. constructor; [apply (U_prefix T P HT HPT Pne)|].
      rewrite Forall_forall in Hrest |- *. intros Q HQ. destruct (Hrest Q HQ) as [HQP HQne].
      apply (U_prefix T Q HT (prefix_trans _ _ _ HQP HPT) HQne).
    - exists (removelast P). assert (HRT : prefix (removelast P) T) by (eapply prefix_trans; eauto).
      assert (HAR : prefix A (removelast P)).
      { apply (prefix_of_le A (removelast P) T HAT HRT). rewrite (U_hgt A HA) in Hhi. unfold VotesGhost.tipof in Hhi. lia. }
      split; [apply (U_prefix T _ HT HRT Hrne)|]. split; [|exact HAR].
      apply qrm_quorum; assumption.
  Qed.

  Lemma pc_quorum_voters : forall T A, U T -> U A -> pc_quorum T A ->
    exists L, NoDup L /\ p_pc P0 <= wsum VALS L /\
              forall v, In v L -> precommits chain addr U hgt mhgC mhpC genC (@prefix block) A v /\
                                  (exists T', U T' /\ pv_quorum T' A /\ prefix A T').
  Proof.
    intros T A HT HA (HAT & s & e & Hv & He & Hh & Hm).
    pose proof (cinv_view batch Hbatch gh c s0 Hinit T s Hv) as HC.
    destruct (ci_pc _ _ _ _ _ _ HC e He) as (L & Hsum & Hnd & Hev). rewrite Hh in Hev.
    apply (meets_qrm p_pc i_pc T (hgt A) s e Hv He Hh) in Hm.
    exists (map genC L). split; [exact Hnd|]. split; [lia|].
    intros v Hin. apply in_map_iff in Hin. destruct Hin as (P & <- & HP). destruct (Hev P HP) as (HPT & Hpe & _).
    apply (pc_evidence T A P HT HA HAT HPT Hpe).
  Qed.

  (* ---- quorum intersection *)
  Lemma QI : forall T1 A T D, U T1 -> U A -> U T -> U D -> pc_quorum T1 A -> pv_quorum T D -> hgt A <= hgt D -> prefix D T ->
    exists v, honest v /\ precommits chain addr U hgt mhgC mhpC genC (@prefix block) A v /\
              prevotes chain addr U hgt mhgC genC (@prefix block) T D v.
  Proof.
    intros T1 A T D HT1 HA HT HD Hpc Hpv _ _.
    destruct (pc_quorum_voters T1 A HT1 HA Hpc) as (L1 & N1 & S1 & E1).
    destruct (pv_quorum_voters T D HT HD Hpv) as (L2 & N2 & S2 & E2).
    destruct (quorum_intersection VALS (filter (isval VALS) L1) (filter (isval VALS) L2) byz (p_pc P0) (p_pv P0)
                (NoDup_filter _ N1) (NoDup_filter _ N2)) as (v & H1 & H2 & Hnb);
      [rewrite wsum_filter_isval; exact S1|rewrite wsum_filter_isval; exact S2|exact Hbound|].
    apply filter_In in H1. apply filter_In in H2. destruct H1 as [H1 Hval], H2 as [H2 _].
    exists v. split; [|split; [apply (E1 v H1)|apply (E2 v H2)]].
    apply Hbyz; [|exact Hnb]. unfold isval in Hval. destruct (find_weight VALS v) as [w|] eqn:Ew; [|discriminate].
    apply (validator_of_sorted (c_vals c) v w). exact Ew.
  Qed.

  (* ---- P3: maxHeightPrevoted of a header is witnessed by an earlier quorum on its chain *)
  Lemma mhp_witness : forall X, U X -> gh < mhpC X ->
    exists D T', U D /\ U T' /\ hgt D = mhpC X /\ prefix D T' /\ prefix T' X /\ hgt T' < hgt X /\ pv_quorum T' D.
  Proof.
    intros X HX Hgt. destruct (U_view X HX) as [s Hs]. destruct (U_valid X HX) as [Xne _].
    destruct (valid_last_mhp batch Hbatch gh s0 X s Hs Xne) as (s' & Hs' & Hm).
    destruct (quorum_witness batch Hbatch gh c s0 Hinit _ _ Hs') as [Hw _]. rewrite <- Hm in Hw.
    destruct (Hw Hgt) as (T' & HT' & Hq).
    destruct (qrm_heights batch Hbatch gh c s0 Hinit _ _ _ _ Hq) as [Hr T'ne].
    assert (HT'X : prefix T' X) by (eapply prefix_trans; [exact HT'|apply removelast_prefix]).
    assert (UT' : U T') by (apply (U_prefix X T' HX HT'X T'ne)).
    destruct (U_view T' UT') as [st Hst].
    destruct (blk_hgt batch Hbatch gh c s0 Hinit T' st (mhpC X) Hst Hr) as [HhD Dne].
    assert (HDT' : prefix (blk T' (mhpC X)) T') by apply blk_prefix.
    assert (UD : U (blk T' (mhpC X))) by (apply (U_prefix T' _ UT' HDT' Dne)).
    exists (blk T' (mhpC X)), T'. repeat split; auto.
    - rewrite (U_hgt T' UT'), (U_hgt X HX). pose proof (prefix_length _ _ HT') as Hl.
      destruct (exists_last Xne) as (X0 & y & ->). rewrite removelast_last in Hl. unfold VotesGhost.tipof. rewrite app_length. cbn. lia.
    - apply qrm_quorum; [exact HDT'|]. rewrite HhD. exact Hq.
  Qed.

  Lemma pc_needs_pv : forall T A, U T -> U A -> pc_quorum T A -> exists T', U T' /\ pv_quorum T' A /\ prefix A T'.
  Proof.
    intros T A HT HA Hpc. destruct (pc_quorum_voters T A HT HA Hpc) as (L & _ & S & E).
    destruct (init_shape batch Hbatch gh c s0 Hinit) as (_ & _ & _ & _ & _ & _ & Hpc1).
    destruct L as [|v L]; [unfold wsum in S; cbn [fold_right] in S; lia|]. exact (proj2 (E v (or_introl eq_refl))).
  Qed.

  (* ---- the abstract theorem, instantiated *)
  Theorem quorums_on_one_chain : forall T1 A T2 A', U T1 -> U A -> U T2 -> U A' -> pc_quorum T1 A -> pc_quorum T2 A' ->
    gh < hgt A -> gh < hgt A' -> prefix A A' \/ prefix A' A.
  Proof.
    exact (finalized_blocks_on_one_chain chain addr U hgt mhgC mhpC genC (@prefix block) honest block_eq_dec
             (@prefix_refl block) (@prefix_trans block) (@prefix_tree block) anc_height anc_same_height honest_noncontra
             pv_quorum pc_quorum QI gh mhp_witness pc_needs_pv).
  Qed.

  (* maxHeightPrecommited of a view above genesis: the block of that height has a precommit quorum in a prefix view *)
  Lemma finalized_has_quorum : forall K s, U K -> view K = Some s -> gh < v_mhpc (s_votes s) ->
    exists T', U T' /\ prefix T' K /\ U (blk K (v_mhpc (s_votes s))) /\ pc_quorum T' (blk K (v_mhpc (s_votes s))) /\
               hgt (blk K (v_mhpc (s_votes s))) = v_mhpc (s_votes s) /\ v_mhpc (s_votes s) <= tipof K.
  Proof.
    intros K s HK Hs Hgt. destruct (quorum_witness batch Hbatch gh c s0 Hinit K s Hs) as [_ Hw].
    destruct (Hw Hgt) as (T' & HT' & Hq).
    destruct (qrm_heights batch Hbatch gh c s0 Hinit _ _ _ _ Hq) as [Hr T'ne].
    assert (UT' : U T') by (apply (U_prefix K T' HK HT' T'ne)).
    destruct (U_view T' UT') as [st Hst].
    destruct (blk_hgt batch Hbatch gh c s0 Hinit T' st _ Hst Hr) as [HhD Dne].
    assert (Eb : blk T' (v_mhpc (s_votes s)) = blk K (v_mhpc (s_votes s))) by (apply (blk_of_prefix batch Hbatch gh); [exact HT'|lia]).
    rewrite Eb in HhD, Dne.
    assert (HDT' : prefix (blk K (v_mhpc (s_votes s))) T') by (rewrite <- Eb; apply blk_prefix).
    exists T'. split; [exact UT'|]. split; [exact HT'|]. split; [apply (U_prefix T' _ UT' HDT' Dne)|]. split.
    - apply qrm_quorum; [exact HDT'|]. rewrite HhD. exact Hq.
    - split; [exact HhD|]. pose proof (prefix_length _ _ HT'). unfold VotesGhost.tipof in *. lia.
  Qed.

  Theorem static_safety : forall K1 K2 s1 s2 h1 h2, U K1 -> U K2 -> view K1 = Some s1 -> view K2 = Some s2 ->
    gh < h1 <= v_mhpc (s_votes s1) -> gh < h2 <= v_mhpc (s_votes s2) ->
    prefix (blk K1 h1) (blk K2 h2) \/ prefix (blk K2 h2) (blk K1 h1).
  Proof.
    intros K1 K2 s1 s2 h1 h2 U1 U2 V1 V2 R1 R2.
    destruct (finalized_has_quorum K1 s1 U1 V1 ltac:(lia)) as (T1 & UT1 & _ & UA1 & Q1 & E1 & _).
    destruct (finalized_has_quorum K2 s2 U2 V2 ltac:(lia)) as (T2 & UT2 & _ & UA2 & Q2 & E2 & _).
    set (A1 := blk K1 (v_mhpc (s_votes s1))) in *. set (A2 := blk K2 (v_mhpc (s_votes s2))) in *.
    assert (B1 : prefix (blk K1 h1) A1) by (apply (blk_le batch Hbatch); lia).
    assert (B2 : prefix (blk K2 h2) A2) by (apply (blk_le batch Hbatch); lia).
    destruct (quorums_on_one_chain T1 A1 T2 A2 UT1 UA1 UT2 UA2 Q1 Q2 ltac:(lia) ltac:(lia)) as [H|H].
    - apply (prefix_tree _ _ A2); [eapply prefix_trans; eauto|exact B2].
    - apply (prefix_tree _ _ A1); [exact B1|eapply prefix_trans; eauto].
  Qed.
End Inst.

(* ================================================================== statements for Properties/C01.v *)

(* a universe: any prefix-closed set of non-empty valid chains over the static validator set of [init_store batch gh c] *)
Definition universe (batch : nat) (gh : N) (s0 : store) (U : chain -> Prop) : Prop :=
  (forall K, U K -> K <> [] /\ valid_chain batch gh s0 K) /\
  (forall K K', U K -> prefix K' K -> K' <> [] -> U K').

(* C01 for a static validator set.  [vals c] / [p0 c] are the validator list and thresholds installed by
   [init_store]; [byz] lists the validators that may sign contradicting headers; every other validator's headers are
   pairwise non-contradicting anywhere in the universe.  If prevoteThreshold + precommitThreshold > W + f, then the
   blocks reported finalized by any two chain views (heights above genesis and <= maxHeightPrecommited of the view) lie
   on one chain: the two history prefixes are comparable. *)
Theorem C01_static_safety : forall (batch : nat) (gh : N) (c : pchange) (s0 : store) (U : chain -> Prop) (byz : list addr),
  (0 < batch)%nat -> init_store batch gh c = Ok s0 ->
  universe batch gh s0 U ->
  (forall v, In v (map fst (c_vals c)) -> ~ In v byz -> honest U v) ->
  total_weight (vals c) + wsum (vals c) byz < p_pc (p0 c) + p_pv (p0 c) ->
  forall K1 K2 s1 s2 h1 h2, U K1 -> U K2 ->
    view batch gh s0 K1 = Some s1 -> view batch gh s0 K2 = Some s2 ->
    gh < h1 <= v_mhpc (s_votes s1) -> gh < h2 <= v_mhpc (s_votes s2) ->
    prefix (blk gh K1 h1) (blk gh K2 h2) \/ prefix (blk gh K2 h2) (blk gh K1 h1).
Proof.
  intros batch gh c s0 U byz Hb Hi [HU1 HU2] Hh Hw. exact (static_safety batch Hb gh c s0 Hi U HU1 HU2 byz Hh Hw).
Qed.

(* no two views finalize different blocks at the same height *)
Theorem C01_static_same_height_same_block : forall (batch : nat) (gh : N) (c : pchange) (s0 : store) (U : chain -> Prop) (byz : list addr),
  (0 < batch)%nat -> init_store batch gh c = Ok s0 ->
  universe batch gh s0 U ->
  (forall v, In v (map fst (c_vals c)) -> ~ In v byz -> honest U v) ->
  total_weight (vals c) + wsum (vals c) byz < p_pc (p0 c) + p_pv (p0 c) ->
  forall K1 K2 s1 s2 h, U K1 -> U K2 ->
    view batch gh s0 K1 = Some s1 -> view batch gh s0 K2 = Some s2 ->
    gh < h -> h <= v_mhpc (s_votes s1) -> h <= v_mhpc (s_votes s2) ->
    blk gh K1 h = blk gh K2 h.
Proof.
  intros batch gh c s0 U byz Hb Hi HU Hh Hw K1 K2 s1 s2 h U1 U2 V1 V2 G R1 R2.
  destruct (mhpc_le_tip batch Hb gh c s0 Hi K1 s1 V1) as [T1 _]. destruct (mhpc_le_tip batch Hb gh c s0 Hi K2 s2 V2) as [T2 _].
  assert (L1 : length (blk gh K1 h) = N.to_nat (h - gh)) by (apply (blk_length batch Hb); lia).
  assert (L2 : length (blk gh K2 h) = N.to_nat (h - gh)) by (apply (blk_length batch Hb); lia).
  destruct (C01_static_safety batch gh c s0 U byz Hb Hi HU Hh Hw K1 K2 s1 s2 h h U1 U2 V1 V2 ltac:(lia) ltac:(lia)) as [H|H].
  - apply prefix_same_length; [exact H|congruence].
  - symmetry. apply prefix_same_length; [exact H|congruence].
Qed.

(* the < 1/3 form: with W the total weight, Byzantine weight f with 3 f < W and the default precommit threshold
   floor(2W/3)+1 (or any larger one), the bound holds *)
Theorem C01_static_safety_one_third : forall (batch : nat) (gh : N) (c : pchange) (s0 : store) (U : chain -> Prop) (byz : list addr),
  (0 < batch)%nat -> init_store batch gh c = Ok s0 ->
  universe batch gh s0 U ->
  (forall v, In v (map fst (c_vals c)) -> ~ In v byz -> honest U v) ->
  3 * wsum (vals c) byz < total_weight (c_vals c) ->
  total_weight (c_vals c) * 2 / 3 + 1 <= c_pc c ->
  forall K1 K2 s1 s2 h1 h2, U K1 -> U K2 ->
    view batch gh s0 K1 = Some s1 -> view batch gh s0 K2 = Some s2 ->
    gh < h1 <= v_mhpc (s_votes s1) -> gh < h2 <= v_mhpc (s_votes s2) ->
    prefix (blk gh K1 h1) (blk gh K2 h2) \/ prefix (blk gh K2 h2) (blk gh K1 h1).
Proof.
  intros batch gh c s0 U byz Hb Hi HU Hh Hf Hpc. apply (C01_static_safety batch gh c s0 U byz Hb Hi HU Hh).
  unfold vals, p0 in *. cbn [p_vals p_pc p_pv] in *. rewrite total_weight_sort. lia.
Qed.

(* The same theorem with every notion spelled out on the functions of BFT/Votes.v only (no [view]/[valid_chain]):
   a chain is valid iff no block carries a parameter change, heights are consecutive from gh+1, every header satisfies
   [bft_valid] in the store obtained by [run_blocks] on the blocks before it, and [run_blocks] succeeds on the chain;
   the view of a chain is the result of [run_blocks]; the block of height h of chain K is [firstn (h - gh) K];
   [lastH K] is the header of the last block of K and [genC K] its generator. *)
Definition universe_decl (batch : nat) (gh : N) (s0 : store) (U : chain -> Prop) : Prop :=
  (forall K, U K -> K <> [] /\ valid_chain_decl batch gh s0 K) /\
  (forall K K', U K -> prefix K' K -> K' <> [] -> U K').

Theorem C01_static_safety_decl : forall (batch : nat) (gh : N) (c : pchange) (s0 : store) (U : chain -> Prop) (byz : list addr),
  (0 < batch)%nat -> init_store batch gh c = Ok s0 ->
  universe_decl batch gh s0 U ->
  (forall v, In v (map fst (c_vals c)) -> ~ In v byz -> honest U v) ->
  total_weight (sort_desc (c_vals c)) + wsum (sort_desc (c_vals c)) byz < c_pc c + (total_weight (c_vals c) * 2 / 3 + 1) ->
  forall K1 K2 s1 s2 h1 h2, U K1 -> U K2 ->
    run_blocks batch s0 K1 = Ok s1 -> run_blocks batch s0 K2 = Ok s2 ->
    gh < h1 <= v_mhpc (s_votes s1) -> gh < h2 <= v_mhpc (s_votes s2) ->
    prefix (firstn (N.to_nat (h1 - gh)) K1) (firstn (N.to_nat (h2 - gh)) K2) \/
    prefix (firstn (N.to_nat (h2 - gh)) K2) (firstn (N.to_nat (h1 - gh)) K1).
Proof.
  intros batch gh c s0 U byz Hb Hi [HU1 HU2] Hh Hw K1 K2 s1 s2 h1 h2 U1 U2 R1 R2 G1 G2.
  assert (HU : universe batch gh s0 U).
  { split; [|exact HU2]. intros K HK. destruct (HU1 K HK) as [Hne Hv]. split; [exact Hne|]. apply (valid_chain_spec batch Hb). exact Hv. }
  assert (Hview : forall K s, U K -> run_blocks batch s0 K = Ok s -> view batch gh s0 K = Some s).
  { intros K s HK Hr. destruct HU as [HUv _]. destruct (HUv K HK) as [_ Hv]. unfold valid_chain in Hv.
    destruct (view batch gh s0 K) as [s'|] eqn:E; [|congruence].
    pose proof (view_run_blocks batch Hb gh s0 K s' E) as Hr'. rewrite Hr in Hr'. injection Hr' as ->. reflexivity. }
  exact (C01_static_safety batch gh c s0 U byz Hb Hi HU Hh Hw K1 K2 s1 s2 h1 h2 U1 U2 (Hview K1 s1 U1 R1) (Hview K2 s2 U2 R2) G1 G2).
Qed.

Print Assumptions C01_static_safety.
Print Assumptions C01_static_safety_decl.
Print Assumptions C01_static_same_height_same_block.
Print Assumptions C01_static_safety_one_third.

(* ================================================================== non-vacuity: a concrete universe with a fork *)
(* 4 validators of weight 1 (thresholds 3/3), genesis height 0, batch 4.  Chain A: ten round-robin blocks, its view
   finalizes height 5.  Chain B forks after block 3 with a block 4' by validator 1, whose header contradicts its own
   block 5 on chain A: validator 1 is Byzantine (weight 1 < 4/3), all others are honest in the universe of all prefixes
   of A and B.  All hypotheses of C01_static_safety(_one_third) hold. *)
Module Example.
  Definition ex_c : pchange := {| c_pc := 3; c_cert := 3; c_vals := [(1,1);(2,1);(3,1);(4,1)] |}.
  Definition ex_s0 : store := match init_store 4 0 ex_c with Ok s => s | Error _ => genesis_store 0 end.
  Definition mkhdr h g m p := {| h_height := h; h_gen := g; h_mhg := m; h_mhp := p; h_cert := None |}.
  Definition Ka : chain :=
    [(mkhdr 1 1 0 0, None); (mkhdr 2 2 0 0, None); (mkhdr 3 3 0 0, None); (mkhdr 4 4 0 1, None); (mkhdr 5 1 1 2, None);
     (mkhdr 6 2 2 3, None); (mkhdr 7 3 3 4, None); (mkhdr 8 4 4 5, None); (mkhdr 9 1 5 6, None); (mkhdr 10 2 6 7, None)].
  Definition Kb : chain := firstn 3 Ka ++ [(mkhdr 4 1 1 1, None)].
  Definition ex_U (K : chain) : Prop := (prefix K Ka \/ prefix K Kb) /\ K <> [].
  Definition members : list chain := map (fun i => firstn i Ka) (seq 1 10) ++ map (fun i => firstn i Kb) (seq 1 4).

  Lemma ex_init : init_store 4 0 ex_c = Ok ex_s0.
  Proof. vm_compute. reflexivity. Qed.
  Lemma ex_view_a : exists s, view 4 0 ex_s0 Ka = Some s /\ v_mhpc (s_votes s) = 5.
  Proof. eexists. split; vm_compute; reflexivity. Qed.
  Lemma ex_view_b : exists s, view 4 0 ex_s0 Kb = Some s.
  Proof. eexists. vm_compute. reflexivity. Qed.

  Lemma ex_members : forall K, ex_U K -> In K members.
  Proof.
    intros K [[H|H] Hne]; pose proof (prefix_length _ _ H) as Hl; rewrite (prefix_firstn _ _ H); unfold members; apply in_or_app.
    - left. apply in_map_iff. exists (length K). split; [reflexivity|]. apply in_seq. change (length Ka) with 10%nat in Hl.
      destruct K; [congruence|cbn [length] in *; lia].
    - right. apply in_map_iff. exists (length K). split; [reflexivity|]. apply in_seq. change (length Kb) with 4%nat in Hl.
      destruct K; [congruence|cbn [length] in *; lia].
  Qed.

  Definition pair_ok (K1 K2 : chain) : bool :=
    (if block_eq_dec K1 K2 then true else false) || negb (genC K1 =? genC K2) || (genC K1 =? 1) ||
    negb (contradicting (bh_of_hdr (lastH K1)) (bh_of_hdr (lastH K2))).
  Lemma ex_pairs : forallb (fun K1 => forallb (pair_ok K1) members) members = true.
  Proof. vm_compute. reflexivity. Qed.

  Lemma ex_universe : universe 4 0 ex_s0 ex_U.
  Proof.
    split.
    - intros K [HK Hne]. split; [exact Hne|]. unfold valid_chain.
      destruct ex_view_a as (sa & Ha & _). destruct ex_view_b as (sb & Hb).
      destruct HK as [H|H];
        [destruct (view_prefix 4 ltac:(lia) 0 ex_s0 Ka K sa Ha H) as (s' & ->)|destruct (view_prefix 4 ltac:(lia) 0 ex_s0 Kb K sb Hb H) as (s' & ->)];
        discriminate.
    - intros K K' [HK _] HP Hne. split; [|exact Hne]. destruct HK as [H|H]; [left|right]; eapply prefix_trans; eauto.
  Qed.

  Lemma ex_honest : forall v, ~ In v [1] -> honest ex_U v.
  Proof.
    intros v Hv K1 K2 H1 H2 Hne G1 G2. pose proof ex_pairs as Hp. rewrite forallb_forall in Hp.
    specialize (Hp K1 (ex_members K1 H1)). rewrite forallb_forall in Hp. specialize (Hp K2 (ex_members K2 H2)).
    unfold pair_ok in Hp. destruct (block_eq_dec K1 K2) as [E|_]; [contradiction|]. cbn [orb] in Hp.
    rewrite G1, G2, N.eqb_refl in Hp. cbn [negb orb] in Hp.
    destruct (v =? 1) eqn:E1; [apply N.eqb_eq in E1; exfalso; apply Hv; left; symmetry; exact E1|]. cbn [orb] in Hp.
    apply negb_true_iff in Hp. exact Hp.
  Qed.

  (* the fork is real and validator 1 really is Byzantine in this universe *)
  Example ex_fork : ex_U Ka /\ ex_U Kb /\ ~ prefix Ka Kb /\ ~ prefix Kb Ka /\ ~ honest ex_U 1.
  Proof.
    assert (Ua : ex_U Ka) by (split; [left; apply prefix_refl|discriminate]).
    assert (Ub : ex_U Kb) by (split; [right; apply prefix_refl|discriminate]).
    split; [exact Ua|]. split; [exact Ub|]. split; [|split].
    - intros H. apply prefix_length in H. vm_compute in H. lia.
    - intros H. apply prefix_firstn in H. vm_compute in H. discriminate.
    - intros H. assert (U5 : ex_U (firstn 5 Ka)) by (split; [left; apply firstn_prefix|discriminate]).
      specialize (H (firstn 5 Ka) Kb U5 Ub ltac:(discriminate) eq_refl eq_refl). vm_compute in H. discriminate.
  Qed.

  (* the premises of the individual implications (P1-P4) are satisfiable on chain A *)
  Definition sa : store := match view 4 0 ex_s0 Ka with Some s => s | None => ex_s0 end.
  Lemma sa_view : view 4 0 ex_s0 Ka = Some sa.
  Proof. vm_compute. reflexivity. Qed.
  Example ex_pv_quorum : pv_quorum 4 0 ex_s0 Ka (firstn 8 Ka).     (* premise of pv_quorum_voters (P1) *)
  Proof.
    split; [apply firstn_prefix|]. exists sa, (nth 2 (window sa) (new_info (mkhdr 0 0 0 0))).
    split; [exact sa_view|]. split; [vm_compute; tauto|]. split; [vm_compute; reflexivity|].
    eexists. split; [vm_compute; reflexivity|vm_compute; discriminate].
  Qed.
  Example ex_pc_quorum : pc_quorum 4 0 ex_s0 Ka (firstn 5 Ka).     (* premise of pc_quorum_voters (P2), pc_needs_pv (P4) *)
  Proof.
    split; [apply firstn_prefix|]. exists sa, (nth 5 (window sa) (new_info (mkhdr 0 0 0 0))).
    split; [exact sa_view|]. split; [vm_compute; tauto|]. split; [vm_compute; reflexivity|].
    eexists. split; [vm_compute; reflexivity|vm_compute; discriminate].
  Qed.
  Example ex_mhp_above_genesis : 0 < mhpC Ka.                       (* premise of mhp_witness (P3) *)
  Proof. vm_compute. reflexivity. Qed.
  Example ex_quorum_intersection :                                  (* premises of quorum_intersection (P5) *)
    NoDup [1;2;3] /\ NoDup [2;3;4] /\ 3 <= wsum (vals ex_c) [1;2;3] /\ 3 <= wsum (vals ex_c) [2;3;4] /\
    total_weight (vals ex_c) + wsum (vals ex_c) [1] < 3 + 3.
  Proof.
    split; [repeat constructor; cbn; lia|]. split; [repeat constructor; cbn; lia|].
    split; [vm_compute; discriminate|]. split; [vm_compute; discriminate|vm_compute; reflexivity].
  Qed.

  Example C01_static_hypotheses_satisfiable :
    exists batch gh c s0 U byz K s,
      (0 < batch)%nat /\ init_store batch gh c = Ok s0 /\ universe batch gh s0 U /\
      (forall v, In v (map fst (c_vals c)) -> ~ In v byz -> honest U v) /\
      3 * wsum (vals c) byz < total_weight (c_vals c) /\ total_weight (c_vals c) * 2 / 3 + 1 <= c_pc c /\
      total_weight (vals c) + wsum (vals c) byz < p_pc (p0 c) + p_pv (p0 c) /\
      U K /\ view batch gh s0 K = Some s /\ gh < v_mhpc (s_votes s).
  Proof.
    destruct ex_view_a as (sa & Ha & Hf).
    exists 4%nat, 0, ex_c, ex_s0, ex_U, [1], Ka, sa.
    split; [lia|]. split; [exact ex_init|]. split; [exact ex_universe|]. split; [intros v _; exact (ex_honest v)|].
    split; [vm_compute; reflexivity|]. split; [vm_compute; discriminate|]. split; [vm_compute; reflexivity|].
    split; [split; [left; apply prefix_refl|discriminate]|]. split; [exact Ha|]. rewrite Hf. lia.
  Qed.
End Example.
Print Assumptions Example.C01_static_hypotheses_satisfiable.
