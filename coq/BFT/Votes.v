(* Faithful executable model of pkg/consensus/liskbft: validator.go (BFTVotes), api.go, module.go, util.go.
   Store = params map (ascending association list height -> params) + one BFTVotes record.
   Heights are N without uint32 wrap-around: every theorem/correspondence assumes heights < 2^32 - 1
   (the Go code computes h+1 on uint32); addresses are N codes ordered like the big-endian byte strings. *)
From Coq Require Import List NArith Bool.
Import ListNotations.
Local Open Scope N_scope.
From LE Require Import BFT.Contradiction.

Definition addr := N.

(* the BFT-relevant part of a block header; [h_cert]: Some h = non-empty aggregate commit of height h *)
Record hdr := { h_height : N; h_gen : addr; h_mhg : N; h_mhp : N; h_cert : option N }.

(* BFTBlockHeader *)
Record info := { i_height : N; i_gen : addr; i_mhg : N; i_mhp : N; i_pv : N; i_pc : N }.
(* ActiveValidator *)
Record active := { a_addr : addr; a_min : N; a_lhp : N }.
(* BFTParams (validatorsHash omitted: it is a function of validators and certificate threshold) *)
Record params := { p_pv : N; p_pc : N; p_cert : N; p_vals : list (addr * N) }.
Record votes := { v_mhp : N; v_mhpc : N; v_mhc : N; v_infos : list info (* newest first *); v_act : list active }.
Record store := { s_params : list (N * params) (* ascending by height *); s_votes : votes }.

Inductive res (A : Type) := Ok (a : A) | Error (code : N).
Arguments Ok {A}. Arguments Error {A}.
Definition bind {A B} (r : res A) (f : A -> res B) : res B := match r with Ok a => f a | Error m => Error m end.
Notation "'do' x <- r ; k" := (bind r (fun x => k)) (at level 200, x name, r at level 100, k at level 200).

Definition bh_of_info (i : info) : bh := {| height := i_height i; gen := i_gen i; mhg := i_mhg i; mhp := i_mhp i |}.
Definition bh_of_hdr (b : hdr) : bh := {| height := h_height b; gen := h_gen b; mhg := h_mhg b; mhp := h_mhp b |}.

(* ---- util.go: getBFTParams = value at the largest key <= h ---- *)
Fixpoint lookup_le (ps : list (N * params)) (h : N) (best : option params) : option params :=
  match ps with
  | [] => best
  | (k, p) :: tl => if k <=? h then lookup_le tl h (Some p) else best
  end.
Definition get_params (ps : list (N * params)) (h : N) : res params :=
  match lookup_le ps h None with Some p => Ok p | None => Error 1 end.

Fixpoint insert_param (ps : list (N * params)) (k : N) (p : params) : list (N * params) :=
  match ps with
  | [] => [(k, p)]
  | (k', p') :: tl => if k <? k' then (k, p) :: ps else if k =? k' then (k, p) :: tl else (k', p') :: insert_param tl k p
  end.

(* deleteBFTParams: among keys <= h keep only the largest *)
Definition prune_params (ps : list (N * params)) (h : N) : list (N * params) :=
  let le := filter (fun kp => fst kp <=? h) ps in
  let gt := filter (fun kp => negb (fst kp <=? h)) ps in
  match rev le with
  | [] => ps
  | lastle :: _ => lastle :: gt
  end.

(* NextHeightBFTParameters: smallest key >= h+1 *)
Fixpoint next_params_height (ps : list (N * params)) (h : N) : option N :=
  match ps with
  | [] => None
  | (k, _) :: tl => if h + 1 <=? k then Some k else next_params_height tl h
  end.

(* ---- validator.go ---- *)
Fixpoint find_active (l : list active) (a : addr) : option active :=
  match l with [] => None | x :: tl => if a_addr x =? a then Some x else find_active tl a end.
Fixpoint find_weight (l : list (addr * N)) (a : addr) : option N :=
  match l with [] => None | (x, w) :: tl => if x =? a then Some w else find_weight tl a end.

Definition new_info (b : hdr) : info :=
  {| i_height := h_height b; i_gen := h_gen b; i_mhg := h_mhg b; i_mhp := h_mhp b; i_pv := 0; i_pc := 0 |}.

Definition insert_info (infos : list info) (b : hdr) (maxlen : nat) : list info := firstn maxlen (new_info b :: infos).

(* getHeightNotPrevoted; callers guarantee mhg < height for the newest entry *)
Fixpoint hnp_loop (fuel : nat) (infos : list info) (g : addr) (cur prev : N) : N :=
  match fuel with
  | O => prev
  | S f =>
    if (cur - prev) <? N.of_nat (length infos) then
      match nth_error infos (N.to_nat (cur - prev)) with
      | None => prev
      | Some bi => if negb (i_gen bi =? g) || (prev <=? i_mhg bi) then prev else hnp_loop f infos g cur (i_mhg bi)
      end
    else match rev infos with
         | oldest :: _ => i_height oldest - 1
         | [] => prev
         end
  end.
Definition height_not_prevoted (infos : list info) : N :=
  match infos with
  | [] => 0
  | nw :: _ => hnp_loop (S (length infos)) infos (i_gen nw) (i_height nw) (i_mhg nw)
  end.

Definition Nmax3 (a b c : N) := N.max a (N.max b c).

Definition add_pc (bi : info) (w : N) : info :=
  {| i_height := i_height bi; i_gen := i_gen bi; i_mhg := i_mhg bi; i_mhp := i_mhp bi; i_pv := i_pv bi; i_pc := i_pc bi + w |}.
Definition add_pv (bi : info) (w : N) : info :=
  {| i_height := i_height bi; i_gen := i_gen bi; i_mhg := i_mhg bi; i_mhp := i_mhp bi; i_pv := i_pv bi + w; i_pc := i_pc bi |}.

(* precommit loop: walks the window newest first while height >= minh; returns the new window and the
   height of the first (= largest) precommitted entry *)
Fixpoint precommit_loop (ps : list (N * params)) (g : addr) (minh : N) (infos : list info) (first : option N)
  : res (list info * option N) :=
  match infos with
  | [] => Ok ([], first)
  | bi :: tl =>
    if i_height bi <? minh then Ok (infos, first) else
    do p <- get_params ps (i_height bi);
    if p_pv p <=? i_pv bi then
      match find_weight (p_vals p) g with
      | None => Error 2
      | Some w =>
        let first' := match first with None => Some (i_height bi) | s => s end in
        do r <- precommit_loop ps g minh tl first';
        Ok (add_pc bi w :: fst r, snd r)
      end
    else do r <- precommit_loop ps g minh tl first; Ok (bi :: fst r, snd r)
  end.

Fixpoint prevote_loop (ps : list (N * params)) (g : addr) (minh : N) (infos : list info) : res (list info) :=
  match infos with
  | [] => Ok []
  | bi :: tl =>
    if i_height bi <? minh then Ok infos else
    do p <- get_params ps (i_height bi);
    match find_weight (p_vals p) g with
    | None => Error 3
    | Some w => do r <- prevote_loop ps g minh tl; Ok (add_pv bi w :: r)
    end
  end.

(* only the first matching entry is updated, like the Go loop with break *)
Fixpoint set_lhp (l : list active) (g : addr) (h : N) : list active :=
  match l with
  | [] => []
  | x :: tl => if a_addr x =? g then {| a_addr := a_addr x; a_min := a_min x; a_lhp := h |} :: tl else x :: set_lhp tl g h
  end.

Definition update_votes (ps : list (N * params)) (infos : list info) (act : list active) : res (list info * list active) :=
  match infos with
  | [] => Ok (infos, act)
  | nw :: _ =>
    if i_height nw <=? i_mhg nw then Ok (infos, act) else
    match find_active act (i_gen nw) with
    | None => Ok (infos, act)
    | Some vi =>
      let hnp := height_not_prevoted infos in
      let minpc := Nmax3 (a_min vi) (hnp + 1) (a_lhp vi + 1) in
      do r <- precommit_loop ps (i_gen nw) minpc infos None;
      let act' := match snd r with Some h => set_lhp act (i_gen nw) h | None => act end in
      let minpv := N.max (i_mhg nw + 1) (a_min vi) in
      do infos'' <- prevote_loop ps (i_gen nw) minpv (fst r);
      Ok (infos'', act')
    end
  end.

(* updateMaxHeightPrevoted / updateMaxHeightPrecommitted: newest entry reaching its height's threshold *)
Fixpoint first_with (ps : list (N * params)) (sel : params -> N) (get : info -> N) (infos : list info) : res (option N) :=
  match infos with
  | [] => Ok None
  | bi :: tl => do p <- get_params ps (i_height bi);
                if sel p <=? get bi then Ok (Some (i_height bi)) else first_with ps sel get tl
  end.

(* paramsCache.cache(oldest, newest): parameters must exist for every height of the window *)
Fixpoint check_params_range (ps : list (N * params)) (infos : list info) : res unit :=
  match infos with [] => Ok tt | bi :: tl => do _u <- get_params ps (i_height bi); check_params_range ps tl end.

Definition oldest_height (infos : list info) : N := match rev infos with x :: _ => i_height x | [] => 0 end.

(* module.go BeforeTransactionsExecute *)
Definition before_txs (batch : nat) (s : store) (b : hdr) : res store :=
  let v := s_votes s in
  let infos := insert_info (v_infos v) b (3 * batch) in
  do _u <- check_params_range (s_params s) infos;
  do r <- update_votes (s_params s) infos (v_act v);
  let '(infos', act') := r in
  do pv <- first_with (s_params s) p_pv i_pv infos';
  do pc <- first_with (s_params s) p_pc i_pc infos';
  let mhp' := match pv with Some h => h | None => v_mhp v end in
  let mhpc' := match pc with Some h => h | None => v_mhpc v end in
  let mhc' := match h_cert b with Some h => h | None => v_mhc v end in
  let minreq := N.min (oldest_height infos') (mhc' + 1) in
  Ok {| s_params := prune_params (s_params s) minreq;
        s_votes := {| v_mhp := mhp'; v_mhpc := mhpc'; v_mhc := mhc'; v_infos := infos'; v_act := act' |} |}.

(* ---- api.go ---- *)
(* BFTVotes.contradicting: the newest window entry of the same generator decides *)
Definition chain_contradicting (v : votes) (b : hdr) : bool :=
  match find (fun bi => i_gen bi =? h_gen b) (v_infos v) with
  | None => false
  | Some bi => contradicting (bh_of_info bi) (bh_of_hdr b)
  end.

(* sort.Slice with bytes.Compare > 0: descending by address (addresses distinct in practice) *)
Fixpoint insert_desc (x : addr * N) (l : list (addr * N)) : list (addr * N) :=
  match l with [] => [x] | y :: tl => if fst y <? fst x then x :: l else y :: insert_desc x tl end.
Definition sort_desc (l : list (addr * N)) := fold_right insert_desc [] l.
Fixpoint insert_act_desc (x : active) (l : list active) : list active :=
  match l with [] => [x] | y :: tl => if a_addr y <? a_addr x then x :: l else y :: insert_act_desc x tl end.

Definition vals_equal (a b : list (addr * N)) : bool :=
  Nat.eqb (length a) (length b) && forallb (fun xy => (fst (fst xy) =? fst (snd xy)) && (snd (fst xy) =? snd (snd xy))) (combine a b).

Definition total_weight (vals : list (addr * N)) : N := fold_right (fun x acc => snd x + acc) 0 vals.

Definition current_height (v : votes) : N := match v_infos v with bi :: _ => i_height bi | [] => v_mhp v end.

(* SetBFTParameters *)
Definition set_params (batch : nat) (s : store) (pcT certT : N) (vals0 : list (addr * N)) : res store :=
  if Nat.ltb batch (length vals0) then Error 10 else
  if existsb (fun x => snd x =? 0) vals0 then Error 11 else
  let W := total_weight vals0 in
  if (pcT <? W / 3 + 1) || (W <? pcT) then Error 12 else
  if (certT <? W / 3 + 1) || (W <? certT) then Error 13 else
  let vals := sort_desc vals0 in
  let v := s_votes s in
  let cur := current_height v in
  let same := match lookup_le (s_params s) cur None with
              | Some cp => vals_equal (p_vals cp) vals && (p_pc cp =? pcT) && (p_cert cp =? certT)
              | None => false end in
  if same then Ok s else
  let nexth := cur + 1 in
  let p := {| p_pv := W * 2 / 3 + 1; p_pc := pcT; p_cert := certT; p_vals := vals |} in
  let act := fold_right (fun x acc =>
                 insert_act_desc (match find_active (v_act v) (fst x) with
                                  | Some a => a
                                  | None => {| a_addr := fst x; a_min := nexth; a_lhp := nexth - 1 |} end) acc) [] vals in
  Ok {| s_params := insert_param (s_params s) nexth p;
        s_votes := {| v_mhp := v_mhp v; v_mhpc := v_mhpc v; v_mhc := v_mhc v; v_infos := v_infos v; v_act := act |} |}.

(* InitGenesisState *)
Definition genesis_store (gh : N) : store :=
  {| s_params := []; s_votes := {| v_mhp := gh; v_mhpc := gh; v_mhc := gh; v_infos := []; v_act := [] |} |}.

(* ImpliesMaximalPrevotes (called after BeforeTransactionsExecute of the same header) *)
Definition implies_max_prevotes (v : votes) (b : hdr) : res bool :=
  match v_infos v with
  | [] => Error 20
  | nw :: _ =>
    if negb (h_height b =? i_height nw) then Error 21 else
    if h_height b <=? h_mhg b then Ok false else
    let offset := i_height nw - h_mhg b in
    match nth_error (v_infos v) (N.to_nat offset) with
    | None => Ok true
    | Some bi => Ok (i_gen bi =? h_gen b)
    end
  end.

(* HeaderHasPriority (version 2 headers) *)
Definition header_has_priority (b : hdr) (height mhp : N) : bool :=
  (mhp <? h_mhp b) || ((mhp =? h_mhp b) && (height <? h_height b)).

(* ---- histories ----
   One step = what processValidated does with the BFT module for one block: the header check of verifyBlock
   (maxHeightPrevoted equal to the node's own, no contradiction with the chain), BeforeTransactionsExecute, then the
   application's optional SetBFTParameters for the next height. *)
Record pchange := { c_pc : N; c_cert : N; c_vals : list (addr * N) }.
Definition block := (hdr * option pchange)%type.

Definition apply_block (batch : nat) (s : store) (x : block) : res store :=
  let '(b, chg) := x in
  do s1 <- before_txs batch s b;
  match chg with None => Ok s1 | Some c => set_params batch s1 (c_pc c) (c_cert c) (c_vals c) end.

(* the two BFT rules of verifyBlock *)
Definition bft_valid (s : store) (b : hdr) : bool :=
  (h_mhp b =? v_mhp (s_votes s)) && negb (chain_contradicting (s_votes s) b).

Definition init_store (batch : nat) (gh : N) (c : pchange) : res store :=
  set_params batch (genesis_store gh) (c_pc c) (c_cert c) (c_vals c).

Fixpoint run_blocks (batch : nat) (s : store) (l : list block) : res store :=
  match l with
  | [] => Ok s
  | x :: tl => do s' <- apply_block batch s x; run_blocks batch s' tl
  end.
