(* C01 for DYNAMIC validator sets (blocks may carry parameter changes), under an explicit quorum-intersection premise
   stated on the model.  The abstract core is re-proved with a WEAKER quorum-intersection hypothesis than BFT/Safety.v:
   intersection is only required for a precommit quorum of A and a prevote quorum of D when D is NOT on A's chain
   (so both lie above the fork point of the two views) -- this is what makes parameter changes inside the common prefix
   of a universe harmless.  The hypotheses are then discharged from the faithful model through BFT/VotesGhostDyn.v. *)
From Coq Require Import List NArith Bool Lia ZArith Arith.
From Coq Require Import ZifyBool ZifyN ZifyNat.
From LE Require Import BFT.Contradiction BFT.ContradictionProofs BFT.Votes BFT.VotesProofs BFT.Safety BFT.VotesGhost
                       BFT.SafetyInst BFT.VotesGhostDyn.
Import ListNotations.
Local Open Scope N_scope.

(* ================================================================== abstract core, weak quorum intersection *)
Section AbstractSafetyWeakQI.
  Variable block validator : Type.
  Variable inU : block -> Prop.
  Variable height mhg mhp : block -> N.
  Variable gen : block -> validator.
  Variable anc : block -> block -> Prop.
  Variable honest : validator -> Prop.
  Hypothesis block_eq_dec : forall a b : block, {a = b} + {a <> b}.
  Hypothesis anc_dec : forall a b : block, {anc a b} + {~ anc a b}.
  Hypothesis anc_refl : forall a, anc a a.
  Hypothesis anc_trans : forall a b c, anc a b -> anc b c -> anc a c.
  Hypothesis anc_tree : forall a b c, anc a c -> anc b c -> anc a b \/ anc b a.
  Hypothesis anc_height : forall a b, inU a -> inU b -> anc a b -> height a <= height b.
  Hypothesis anc_same_height : forall a b, inU a -> inU b -> anc a b -> height a = height b -> a = b.
  Hypothesis honest_noncontra :
    forall b1 b2, inU b1 -> inU b2 -> gen b1 = gen b2 -> honest (gen b1) -> b1 <> b2 ->
                  before block height mhg mhp b1 b2 \/ before block height mhg mhp b2 b1.
  Variable pv_quorum pc_quorum : block -> block -> Prop.
  (* only for D off A's chain *)
  Hypothesis QIw : forall T1 A T D,
      inU T1 -> inU A -> inU T -> inU D ->
      pc_quorum T1 A -> pv_quorum T D -> height A <= height D -> anc D T -> ~ anc A D ->
      exists v, honest v /\ precommits block validator inU height mhg mhp gen anc A v /\
                prevotes block validator inU height mhg gen anc T D v.
  Variable genesis_height : N.
  Hypothesis mhp_witness : forall X, inU X -> genesis_height < mhp X ->
      exists D T', inU D /\ inU T' /\ height D = mhp X /\ anc D T' /\ anc T' X /\ height T' < height X /\ pv_quorum T' D.

  Lemma linked_order_w : forall v A run X',
      linked block validator height mhg gen anc v A run -> Forall inU run -> inU X' ->
      gen X' = v -> honest v ->
      (forall P, In P run -> P <> X') ->
      forall P0, hd_error run = Some P0 ->
      (height A <= height X') -> mhg X' < height X' ->
      before block height mhg mhp P0 X'.
  Proof.
    clear QIw mhp_witness.
    intros v A run X' Hl HU HUX Hg Hh.
    induction run as [|P rest IH]; intros Hne P0 Hhd Ha Hvote; [discriminate|].
    simpl in Hhd. inversion Hhd; subst P0. clear Hhd.
    inversion HU as [|? ? HUP HUrest]; subst.
    destruct rest as [|Q rest'].
    - simpl in Hl. destruct Hl as (HgP & HancP & HmP).
      assert (Hnc : before block height mhg mhp P X' \/ before block height mhg mhp X' P).
      { apply honest_noncontra; [exact HUP|exact HUX|congruence | rewrite HgP; exact Hh | apply Hne; left; reflexivity]. }
      destruct Hnc as [Hb|Hb]; [exact Hb|].
      destruct Hb as [Hb _]. lia.
    - simpl in Hl. destruct Hl as (HgP & HancP & HmP & HQ & Hrest).
      assert (Hnc : before block height mhg mhp P X' \/ before block height mhg mhp X' P).
      { apply honest_noncontra; [exact HUP|exact HUX|congruence | rewrite HgP; exact Hh | apply Hne; left; reflexivity]. }
      destruct Hnc as [Hb|Hb]; [exact Hb|].
      assert (HQX : before block height mhg mhp Q X').
      { apply IH; auto.
        intros P' Hin. apply Hne. right; exact Hin. }
      destruct Hb as [Hb _]. destruct HQX as [HQX _]. unfold before in *. lia.
  Qed.

  Theorem no_conflicting_quorum_w :
    forall T1 A, inU T1 -> inU A -> pc_quorum T1 A -> genesis_height < height A ->
    forall (n : nat) T D, inU T -> inU D -> (N.to_nat (height T) <= n)%nat ->
                  pv_quorum T D -> anc D T -> height A <= height D -> anc A D.
  Proof.
    intros T1 A HUT1 HUA Hpc Hgen n.
    induction n as [n IHn] using lt_wf_ind.
    intros T D HUT HUD HT Hpv HDT Hle.
    destruct (anc_dec A D) as [Hyes|Hno]; [exact Hyes|].
    destruct (QIw T1 A T D HUT1 HUA HUT HUD Hpc Hpv Hle HDT Hno)
      as (v & Hh & (P0 & rest & Hlink & HmhpP0 & HUrun) & (X' & HUX & HgX & HDX & HXT & Hrange)).
    destruct (In_dec block_eq_dec X' (P0 :: rest)) as [Hin|Hnin].
    - destruct (linked_all_anc block validator height mhg gen anc _ _ _ _ Hlink Hin) as [HAX _].
      destruct (anc_tree A D X' HAX HDX) as [H|H]; [exact H|].
      pose proof (anc_height _ _ HUD HUA H). assert (D = A) by (apply anc_same_height; auto; lia). subst; apply anc_refl.
    - assert (Hb : before block height mhg mhp P0 X').
      { eapply linked_order_w with (run := P0 :: rest); eauto.
        - intros P HP Heq. subst. contradiction.
        - lia.
        - lia. }
      destruct Hb as [_ Hmhp].
      assert (Hbig : genesis_height < mhp X') by lia.
      destruct (mhp_witness X' HUX Hbig) as (D2 & T2 & HUD2 & HUT2 & HhD2 & HD2T2 & HT2X & HltT2 & Hpv2).
      assert (HAD2 : anc A D2).
      { apply (IHn (N.to_nat (height T2))) with (T := T2); auto.
        - pose proof (anc_height _ _ HUX HUT HXT). lia.
        - lia. }
      assert (HAX : anc A X') by (eapply anc_trans; [exact HAD2|eapply anc_trans; eauto]).
      destruct (anc_tree A D X' HAX HDX) as [H|H]; [exact H|].
      pose proof (anc_height _ _ HUD HUA H). assert (D = A) by (apply anc_same_height; auto; lia). subst; apply anc_refl.
  Qed.

  Hypothesis pc_needs_pv : forall T A, inU T -> inU A -> pc_quorum T A -> exists T', inU T' /\ pv_quorum T' A /\ anc A T'.

  Theorem finalized_blocks_on_one_chain_w :
    forall T1 A T2 A', inU T1 -> inU A -> inU T2 -> inU A' -> pc_quorum T1 A -> pc_quorum T2 A' ->
      genesis_height < height A -> genesis_height < height A' -> anc A A' \/ anc A' A.
  Proof.
    intros T1 A T2 A' U1 UA U2 UA' H1 H2 G1 G2.
    destruct (N.le_ge_cases (height A) (height A')) as [Hle|Hge].
    - left. destruct (pc_needs_pv _ _ U2 UA' H2) as (T' & UT' & Hpv & Hanc).
      eapply (no_conflicting_quorum_w T1 A U1 UA H1 G1 (N.to_nat (height T')) T' A'); auto.
    - right. destruct (pc_needs_pv _ _ U1 UA H1) as (T' & UT' & Hpv & Hanc).
      eapply (no_conflicting_quorum_w T2 A' U2 UA' H2 G2 (N.to_nat (height T')) T' A); auto.
  Qed.
End AbstractSafetyWeakQI.

Lemma prefix_dec : forall a b : chain, {prefix a b} + {~ prefix a b}.
Proof.
  intros a b. destruct (block_eq_dec a (firstn (length a) b)) as [E|E].
  - left. rewrite E. apply firstn_prefix.
  - right. intros H. apply E. apply prefix_firstn. exact H.
Defined.

(* ================================================================== instantiation on the dynamic model *)
Section InstD.
  Variable batch : nat.
  Hypothesis Hbatch : (0 < batch)%nat.
  Variable gh : N.
  Variable c : pchange.
  Variable s0 : store.
  Hypothesis Hinit : init_store batch gh c = Ok s0.

  Notation viewD := (viewD batch gh s0).
  Notation tipof := (VotesGhost.tipof gh).
  Notation blk := (VotesGhost.blk gh).

  Variable U : chain -> Prop.
  Hypothesis U_valid : forall K, U K -> K <> [] /\ validD batch gh s0 K.
  Hypothesis U_prefix : forall K K', U K -> prefix K' K -> K' <> [] -> U K'.

  (* QUORUM INTERSECTION, on the model: for two chains of the universe with views s1, s2, a window height a of s1 and a
     window height d >= a of s2 such that K1 and K2 have DIFFERENT blocks at height a (a, hence d, lies above the fork
     point of K1 and K2): any duplicate-free validator list reaching the precommit threshold of the parameters in force
     at height a in view s1 (weights of those parameters) and any duplicate-free list reaching the prevote threshold of
     the parameters in force at height d in view s2 share a validator that is honest in the universe *)
  Definition QI_model : Prop :=
    forall K1 K2 s1 s2 a d pa pd L1 L2,
      U K1 -> U K2 -> viewD K1 = Some s1 -> viewD K2 = Some s2 ->
      (exists e, In e (window s1) /\ i_height e = a) -> (exists e, In e (window s2) /\ i_height e = d) ->
      a <= d -> blk K1 a <> blk K2 a ->
      get_params (s_params s1) a = Ok pa -> get_params (s_params s2) d = Ok pd ->
      NoDup L1 -> NoDup L2 -> p_pc pa <= wsum (p_vals pa) L1 -> p_pv pd <= wsum (p_vals pd) L2 ->
      exists v, In v L1 /\ In v L2 /\ honest U v.
  Hypothesis HQI : QI_model.

  Definition quorumD (sel : params -> N) (get : info -> N) (T D : chain) : Prop :=
    prefix D T /\ qrmD batch gh s0 sel get T (hgt D).
  Definition pv_quorumD := quorumD p_pv i_pv.
  Definition pc_quorumD := quorumD p_pc i_pc.

  Lemma UD_view : forall K, U K -> exists s, viewD K = Some s.
  Proof. intros K HK. destruct (U_valid K HK) as [_ Hv]. unfold validD in Hv. destruct (viewD K) as [s|]; [eauto|congruence]. Qed.
  Lemma UD_hgt : forall K, U K -> hgt K = tipof K.
  Proof. intros K HK. destruct (UD_view K HK) as [s Hs]. eapply valid_hgtD; eauto. apply U_valid; exact HK. Qed.
  Lemma blk_idD : forall A K, prefix A K -> blk K (tipof A) = A.
  Proof.
    intros A K H. unfold VotesGhost.blk, VotesGhost.tipof. replace (N.to_nat (gh + N.of_nat (length A) - gh)) with (length A) by lia.
    symmetry. apply prefix_firstn. exact H.
  Qed.

  Lemma anc_heightD : forall a b, U a -> U b -> prefix a b -> hgt a <= hgt b.
  Proof. intros a b Ha Hb H. rewrite (UD_hgt a Ha), (UD_hgt b Hb). pose proof (prefix_length _ _ H). unfold VotesGhost.tipof. lia. Qed.
  Lemma anc_same_heightD : forall a b, U a -> U b -> prefix a b -> hgt a = hgt b -> a = b.
  Proof.
    intros a b Ha Hb H E. rewrite (UD_hgt a Ha), (UD_hgt b Hb) in E. apply prefix_same_length; [exact H|]. unfold VotesGhost.tipof in E. lia.
  Qed.

  Lemma honest_noncontraD : forall b1 b2, U b1 -> U b2 -> genC b1 = genC b2 -> honest U (genC b1) -> b1 <> b2 ->
    before chain hgt mhgC mhpC b1 b2 \/ before chain hgt mhgC mhpC b2 b1.
  Proof.
    intros b1 b2 H1 H2 Hg Hh Hne. pose proof (Hh b1 b2 H1 H2 Hne eq_refl (eq_sym Hg)) as Hc.
    assert (Hl : legit_successor (bh_of_hdr (lastH b1)) (bh_of_hdr (lastH b2)) \/
                 legit_successor (bh_of_hdr (lastH b2)) (bh_of_hdr (lastH b1))).
    { destruct (legit_successor_b (bh_of_hdr (lastH b1)) (bh_of_hdr (lastH b2))) eqn:L1;
        [left; apply legit_successor_b_spec; exact L1|].
      destruct (legit_successor_b (bh_of_hdr (lastH b2)) (bh_of_hdr (lastH b1))) eqn:L2;
        [right; apply legit_successor_b_spec; exact L2|].
      exfalso. assert (contradicting (bh_of_hdr (lastH b1)) (bh_of_hdr (lastH b2)) = true); [|congruence].
      apply contradicting_iff. split; [exact Hg|]. split; intros H; apply legit_successor_b_spec in H; congruence. }
    unfold before, hgt, mhgC, mhpC. unfold legit_successor, bh_of_hdr in Hl; cbn in Hl. destruct Hl as [Hl|Hl]; [left|right]; lia.
  Qed.

  (* ---- P1 *)
  Lemma pv_quorum_votersD : forall T D, U T -> U D -> pv_quorumD T D ->
    exists s e p L, viewD T = Some s /\ In e (window s) /\ i_height e = hgt D /\ get_params (s_params s) (hgt D) = Ok p /\
      NoDup L /\ p_pv p <= wsum (p_vals p) L /\
      forall v, In v L -> prevotes chain addr U hgt mhgC genC (@prefix block) T D v.
  Proof.
    intros T D HT HD (HDT & s & e & Hv & He & Hh & (p & Hp & Hm)).
    pose proof (dinv_view batch Hbatch gh c s0 Hinit T s Hv) as HC.
    destruct (di_pv _ _ _ _ _ HC e p He Hp) as (L & Hsum & Hnd & Hev). rewrite Hh in *.
    exists s, e, p, (map genC L). do 5 (split; [assumption|]). split; [lia|].
    intros v Hin. apply in_map_iff in Hin. destruct Hin as (X & HgX & HX). destruct (Hev X HX) as (X1 & X2 & X3).
    assert (UX : U X) by (apply (U_prefix T X HT X1 X2)).
    exists X. split; [exact UX|]. split; [exact HgX|]. split.
    - apply (prefix_of_le D X T HDT X1). rewrite (UD_hgt D HD) in X3. unfold VotesGhost.tipof in X3. lia.
    - split; [exact X1|]. rewrite (UD_hgt X UX). exact X3.
  Qed.

  (* ---- P2 *)
  Lemma pc_evidenceD : forall T A P, U T -> U A -> prefix A T -> prefix P T -> pc_evD batch gh s0 (hgt A) P ->
    precommits chain addr U hgt mhgC mhpC genC (@prefix block) A (genC P) /\
    (exists T', U T' /\ pv_quorumD T' A /\ prefix A T').
  Proof.
    intros T A P HT HA HAT HPT (Pne & Hmhp & Hq & rest & Hlk & Hrest).
    destruct (qrmD_heights batch Hbatch gh c s0 Hinit _ _ _ _ Hq) as [[Hlo Hhi] Hrne].
    assert (HRP : prefix (removelast P) P) by apply removelast_prefix.
    assert (Hhi' : hgt A <= tipof P) by (pose proof (prefix_length _ _ HRP); unfold VotesGhost.tipof in *; lia).
    assert (HAeq : blk P (hgt A) = A).
    { rewrite (blk_of_prefix batch Hbatch gh P T (hgt A) HPT Hhi'). rewrite (UD_hgt A HA). apply blk_idD. exact HAT. }
    rewrite HAeq in Hlk. split.
    - exists P, rest. split; [exact Hlk|]. split; [exact Hmhp|]. constructor; [apply (U_prefix T P HT HPT Pne)|].
      rewrite Forall_forall in Hrest |- *. intros Q HQ. destruct (Hrest Q HQ) as [HQP HQne].
      apply (U_prefix T Q HT (prefix_trans _ _ _ HQP HPT) HQne).
    - exists (removelast P). assert (HRT : prefix (removelast P) T) by (eapply prefix_trans; eauto).
      assert (HAR : prefix A (removelast P)).
      { apply (prefix_of_le A (removelast P) T HAT HRT). rewrite (UD_hgt A HA) in Hhi. unfold VotesGhost.tipof in Hhi. lia. }
      split; [apply (U_prefix T _ HT HRT Hrne)|]. split; [|exact HAR]. split; assumption.
  Qed.

  Lemma pc_quorum_votersD : forall T A, U T -> U A -> pc_quorumD T A ->
    exists s e p L, viewD T = Some s /\ In e (window s) /\ i_height e = hgt A /\ get_params (s_params s) (hgt A) = Ok p /\
      NoDup L /\ p_pc p <= wsum (p_vals p) L /\ 1 <= p_pc p /\
      forall v, In v L -> precommits chain addr U hgt mhgC mhpC genC (@prefix block) A v /\
                          (exists T', U T' /\ pv_quorumD T' A /\ prefix A T').
  Proof.
    intros T A HT HA (HAT & s & e & Hv & He & Hh & (p & Hp & Hm)).
    pose proof (dinv_view batch Hbatch gh c s0 Hinit T s Hv) as HC.
    destruct (di_pc _ _ _ _ _ HC e p He Hp) as (L & Hsum & Hnd & Hev). rewrite Hh in *.
    destruct (get_params_in _ _ _ Hp) as (k & Hk). destruct (di_thr _ _ _ _ _ HC k p Hk) as [_ Hthr].
    exists s, e, p, (map genC L). do 5 (split; [assumption|]). split; [lia|]. split; [exact Hthr|].
    intros v Hin. apply in_map_iff in Hin. destruct Hin as (P & <- & HP). destruct (Hev P HP) as (HPT & Hpe & _).
    apply (pc_evidenceD T A P HT HA HAT HPT Hpe).
  Qed.

  (* ---- quorum intersection, only needed off A's chain *)
  Lemma QIwD : forall T1 A T D, U T1 -> U A -> U T -> U D -> pc_quorumD T1 A -> pv_quorumD T D -> hgt A <= hgt D ->
    prefix D T -> ~ prefix A D ->
    exists v, honest U v /\ precommits chain addr U hgt mhgC mhpC genC (@prefix block) A v /\
              prevotes chain addr U hgt mhgC genC (@prefix block) T D v.
  Proof.
    intros T1 A T D HT1 HA HT HD Hpc Hpv Hle HDT Hno.
    pose proof (proj1 Hpc) as HAT1.
    destruct (pc_quorum_votersD T1 A HT1 HA Hpc) as (s1 & e1 & pa & L1 & V1 & I1 & H1 & P1 & N1 & S1 & _ & E1).
    destruct (pv_quorum_votersD T D HT HD Hpv) as (s2 & e2 & pd & L2 & V2 & I2 & H2 & P2 & N2 & S2 & E2).
    assert (Hoff : blk T1 (hgt A) <> blk T (hgt A)).
    { rewrite (UD_hgt A HA) at 1. rewrite (blk_idD A T1 HAT1). intros HATp. apply Hno.
      rewrite HATp. rewrite <- (blk_idD D T HDT). rewrite <- (UD_hgt D HD). apply (blk_le batch Hbatch). exact Hle. }
    destruct (HQI T1 T s1 s2 (hgt A) (hgt D) pa pd L1 L2 HT1 HT V1 V2 (ex_intro _ e1 (conj I1 H1)) (ex_intro _ e2 (conj I2 H2))
                Hle Hoff P1 P2 N1 N2 S1 S2) as (v & M1 & M2 & Hh).
    exists v. split; [exact Hh|]. split; [apply (E1 v M1)|apply (E2 v M2)].
  Qed.

  (* ---- P3 *)
  Lemma mhp_witnessD : forall X, U X -> gh < mhpC X ->
    exists D T', U D /\ U T' /\ hgt D = mhpC X /\ prefix D T' /\ prefix T' X /\ hgt T' < hgt X /\ pv_quorumD T' D.
  Proof.
    intros X HX Hgt. destruct (UD_view X HX) as [s Hs]. destruct (U_valid X HX) as [Xne _].
    destruct (valid_last_mhpD batch Hbatch gh s0 X s Hs Xne) as (s' & Hs' & Hm).
    destruct (quorum_witnessD batch Hbatch gh c s0 Hinit _ _ Hs') as [Hw _]. rewrite <- Hm in Hw.
    destruct (Hw Hgt) as (T' & HT' & Hq).
    destruct (qrmD_heights batch Hbatch gh c s0 Hinit _ _ _ _ Hq) as [Hr T'ne].
    assert (HT'X : prefix T' X) by (eapply prefix_trans; [exact HT'|apply removelast_prefix]).
    assert (UT' : U T') by (apply (U_prefix X T' HX HT'X T'ne)).
    destruct (UD_view T' UT') as [st Hst].
    destruct (blk_hgtD batch Hbatch gh c s0 Hinit T' st (mhpC X) Hst Hr) as [HhD Dne].
    assert (HDT' : prefix (blk T' (mhpC X)) T') by apply blk_prefix.
    assert (UD : U (blk T' (mhpC X))) by (apply (U_prefix T' _ UT' HDT' Dne)).
    exists (blk T' (mhpC X)), T'. repeat split; auto.
    - rewrite (UD_hgt T' UT'), (UD_hgt X HX). pose proof (prefix_length _ _ HT') as Hl.
      destruct (exists_last Xne) as (X0 & y & ->). rewrite removelast_last in Hl. unfold VotesGhost.tipof. rewrite app_length. cbn. lia.
    - rewrite HhD. exact Hq.
  Qed.

  Lemma pc_needs_pvD : forall T A, U T -> U A -> pc_quorumD T A -> exists T', U T' /\ pv_quorumD T' A /\ prefix A T'.
  Proof.
    intros T A HT HA Hpc. destruct (pc_quorum_votersD T A HT HA Hpc) as (s & e & p & L & _ & _ & _ & _ & _ & S & Hthr & E).
    destruct L as [|v L]; [unfold wsum in S; cbn [fold_right] in S; lia|]. exact (proj2 (E v (or_introl eq_refl))).
  Qed.

  Theorem quorums_on_one_chainD : forall T1 A T2 A', U T1 -> U A -> U T2 -> U A' -> pc_quorumD T1 A -> pc_quorumD T2 A' ->
    gh < hgt A -> gh < hgt A' -> prefix A A' \/ prefix A' A.
  Proof.
    exact (finalized_blocks_on_one_chain_w chain addr U hgt mhgC mhpC genC (@prefix block) (honest U) block_eq_dec prefix_dec
             (@prefix_refl block) (@prefix_trans block) (@prefix_tree block) anc_heightD anc_same_heightD honest_noncontraD
             pv_quorumD pc_quorumD QIwD gh mhp_witnessD pc_needs_pvD).
  Qed.

  Lemma finalized_has_quorumD : forall K s, U K -> viewD K = Some s -> gh < v_mhpc (s_votes s) ->
    exists T', U T' /\ prefix T' K /\ U (blk K (v_mhpc (s_votes s))) /\ pc_quorumD T' (blk K (v_mhpc (s_votes s))) /\
               hgt (blk K (v_mhpc (s_votes s))) = v_mhpc (s_votes s).
  Proof.
    intros K s HK Hs Hgt. destruct (quorum_witnessD batch Hbatch gh c s0 Hinit K s Hs) as [_ Hw].
    destruct (Hw Hgt) as (T' & HT' & Hq).
    destruct (qrmD_heights batch Hbatch gh c s0 Hinit _ _ _ _ Hq) as [Hr T'ne].
    assert (UT' : U T') by (apply (U_prefix K T' HK HT' T'ne)).
    destruct (UD_view T' UT') as [st Hst].
    destruct (blk_hgtD batch Hbatch gh c s0 Hinit T' st _ Hst Hr) as [HhD Dne].
    assert (Eb : blk T' (v_mhpc (s_votes s)) = blk K (v_mhpc (s_votes s))) by (apply (blk_of_prefix batch Hbatch gh); [exact HT'|lia]).
    rewrite Eb in HhD, Dne.
    assert (HDT' : prefix (blk K (v_mhpc (s_votes s))) T') by (rewrite <- Eb; apply blk_prefix).
    exists T'. split; [exact UT'|]. split; [exact HT'|]. split; [apply (U_prefix T' _ UT' HDT' Dne)|]. split; [|exact HhD].
    split; [exact HDT'|]. rewrite HhD. exact Hq.
  Qed.

  Theorem dynamic_safety : forall K1 K2 s1 s2 h1 h2, U K1 -> U K2 -> viewD K1 = Some s1 -> viewD K2 = Some s2 ->
    gh < h1 <= v_mhpc (s_votes s1) -> gh < h2 <= v_mhpc (s_votes s2) ->
    prefix (blk K1 h1) (blk K2 h2) \/ prefix (blk K2 h2) (blk K1 h1).
  Proof.
    intros K1 K2 s1 s2 h1 h2 U1 U2 V1 V2 R1 R2.
    destruct (finalized_has_quorumD K1 s1 U1 V1 ltac:(lia)) as (T1 & UT1 & _ & UA1 & Q1 & E1).
    destruct (finalized_has_quorumD K2 s2 U2 V2 ltac:(lia)) as (T2 & UT2 & _ & UA2 & Q2 & E2).
    set (A1 := blk K1 (v_mhpc (s_votes s1))) in *. set (A2 := blk K2 (v_mhpc (s_votes s2))) in *.
    assert (B1 : prefix (blk K1 h1) A1) by (apply (blk_le batch Hbatch); lia).
    assert (B2 : prefix (blk K2 h2) A2) by (apply (blk_le batch Hbatch); lia).
    destruct (quorums_on_one_chainD T1 A1 T2 A2 UT1 UA1 UT2 UA2 Q1 Q2 ltac:(lia) ltac:(lia)) as [H|H].
    - apply (prefix_tree _ _ A2); [eapply prefix_trans; eauto|exact B2].
    - apply (prefix_tree _ _ A1); [exact B1|eapply prefix_trans; eauto].
  Qed.
End InstD.

(* ================================================================== statements for Properties/C01.v *)

(* a universe of chains that may carry parameter changes: any prefix-closed set of non-empty chains that are valid in
   the sense of VotesGhostDyn.validD_decl (consecutive heights from gh+1, bft_valid in the view of the blocks before,
   run_blocks succeeds) *)
Definition universeD_decl (batch : nat) (gh : N) (s0 : store) (U : chain -> Prop) : Prop :=
  (forall K, U K -> K <> [] /\ validD_decl batch gh s0 K) /\
  (forall K K', U K -> prefix K' K -> K' <> [] -> U K').

(* the quorum-intersection premise, on the functions of BFT/Votes.v only *)
Definition QI_model_decl (batch : nat) (gh : N) (s0 : store) (U : chain -> Prop) : Prop :=
  forall K1 K2 s1 s2 a d pa pd L1 L2,
    U K1 -> U K2 -> run_blocks batch s0 K1 = Ok s1 -> run_blocks batch s0 K2 = Ok s2 ->
    (exists e, In e (v_infos (s_votes s1)) /\ i_height e = a) -> (exists e, In e (v_infos (s_votes s2)) /\ i_height e = d) ->
    a <= d -> firstn (N.to_nat (a - gh)) K1 <> firstn (N.to_nat (a - gh)) K2 ->
    get_params (s_params s1) a = Ok pa -> get_params (s_params s2) d = Ok pd ->
    NoDup L1 -> NoDup L2 -> p_pc pa <= wsum (p_vals pa) L1 -> p_pv pd <= wsum (p_vals pd) L2 ->
    exists v, In v L1 /\ In v L2 /\ honest U v.

Lemma universeD_to_view : forall batch gh c s0 U, (0 < batch)%nat -> init_store batch gh c = Ok s0 ->
  universeD_decl batch gh s0 U ->
  (forall K, U K -> K <> [] /\ validD batch gh s0 K) /\
  (forall K s, U K -> run_blocks batch s0 K = Ok s -> viewD batch gh s0 K = Some s).
Proof.
  intros batch gh c s0 U Hb Hi [HU1 HU2].
  assert (HV : forall K, U K -> K <> [] /\ validD batch gh s0 K).
  { intros K HK. destruct (HU1 K HK) as [Hne Hv]. split; [exact Hne|]. apply (validD_spec batch Hb gh s0). exact Hv. }
  split; [exact HV|]. intros K s HK Hr. destruct (HV K HK) as [_ Hv]. unfold validD in Hv.
  destruct (viewD batch gh s0 K) as [s'|] eqn:E; [|congruence].
  pose proof (viewD_run_blocks batch Hb gh s0 K s' E) as Hr'. rewrite Hr in Hr'. injection Hr' as ->. reflexivity.
Qed.

(* PARTIAL: the extra premise is QI_model_decl (quorum intersection above the fork point, with the parameters in force
   at the two heights in the two views).  Without it the statement is false: Refuted.refuted_validator_change. *)
Theorem C01_dynamic_safety_partial : forall (batch : nat) (gh : N) (c : pchange) (s0 : store) (U : chain -> Prop),
  (0 < batch)%nat -> init_store batch gh c = Ok s0 ->
  universeD_decl batch gh s0 U ->
  QI_model_decl batch gh s0 U ->
  forall K1 K2 s1 s2 h1 h2, U K1 -> U K2 ->
    run_blocks batch s0 K1 = Ok s1 -> run_blocks batch s0 K2 = Ok s2 ->
    gh < h1 <= v_mhpc (s_votes s1) -> gh < h2 <= v_mhpc (s_votes s2) ->
    prefix (firstn (N.to_nat (h1 - gh)) K1) (firstn (N.to_nat (h2 - gh)) K2) \/
    prefix (firstn (N.to_nat (h2 - gh)) K2) (firstn (N.to_nat (h1 - gh)) K1).
Proof.
  intros batch gh c s0 U Hb Hi HU HQ K1 K2 s1 s2 h1 h2 U1 U2 R1 R2 G1 G2.
  destruct (universeD_to_view batch gh c s0 U Hb Hi HU) as [HV Hview]. destruct HU as [_ HU2].
  assert (HQI : QI_model batch gh s0 U).
  { intros A1 A2 t1 t2 a d pa pd L1 L2 UA1 UA2 V1 V2 W1 W2 Hle Hoff P1 P2 N1 N2 S1 S2.
    apply (HQ A1 A2 t1 t2 a d pa pd L1 L2 UA1 UA2 (viewD_run_blocks batch Hb gh s0 A1 t1 V1) (viewD_run_blocks batch Hb gh s0 A2 t2 V2)
             W1 W2 Hle Hoff P1 P2 N1 N2 S1 S2). }
  exact (dynamic_safety batch Hb gh c s0 Hi U HV HU2 HQI K1 K2 s1 s2 h1 h2 U1 U2 (Hview K1 s1 U1 R1) (Hview K2 s2 U2 R2) G1 G2).
Qed.

(* Corollary: parameter changes are harmless as long as, in every view, all window heights ABOVE THE FORK POINT with any
   other chain of the universe are governed by one common validator list and thresholds (in particular: all parameter
   changes lie in the common prefix of the universe and have taken effect below every fork point), and these satisfy
   the static bound prevoteThr + precommitThr > W + f.  PARTIAL only in that sense: the premise [fork_params]. *)
(* chains K1 and K2 both reach height f and have different blocks there *)
Definition differ_at (gh : N) (K1 K2 : chain) (f : N) : Prop :=
  f <= gh + N.of_nat (length K1) /\ f <= gh + N.of_nat (length K2) /\
  firstn (N.to_nat (f - gh)) K1 <> firstn (N.to_nat (f - gh)) K2.

Definition fork_params (batch : nat) (gh : N) (s0 : store) (U : chain -> Prop) (vstar : list (addr * N)) (pcstar pvstar : N) : Prop :=
  forall K1 K2 s1 a pa f, U K1 -> U K2 -> run_blocks batch s0 K1 = Ok s1 ->
    (exists e, In e (v_infos (s_votes s1)) /\ i_height e = a) ->
    f <= a -> differ_at gh K1 K2 f ->
    get_params (s_params s1) a = Ok pa ->
    p_vals pa = vstar /\ p_pc pa = pcstar /\ p_pv pa = pvstar.

Lemma fork_params_QI :
  forall (batch : nat) (gh : N) (c : pchange) (s0 : store) (U : chain -> Prop)
         (vstar : list (addr * N)) (pcstar pvstar : N) (byz : list addr),
  (0 < batch)%nat -> init_store batch gh c = Ok s0 ->
  universeD_decl batch gh s0 U ->
  fork_params batch gh s0 U vstar pcstar pvstar ->
  (forall v, In v (map fst vstar) -> ~ In v byz -> honest U v) ->
  total_weight vstar + wsum vstar byz < pcstar + pvstar ->
  QI_model_decl batch gh s0 U.
Proof.
  intros batch gh c s0 U vstar pcstar pvstar byz Hb Hi HU HF Hh Hbound.
  destruct (universeD_to_view batch gh c s0 U Hb Hi HU) as [HV Hview].
  intros K1 K2 s1 s2 a d pa pd L1 L2 U1 U2 R1 R2 W1 W2 Hle Hoff P1 P2 N1 N2 S1 S2.
  pose proof (Hview K1 s1 U1 R1) as V1. pose proof (Hview K2 s2 U2 R2) as V2.
  destruct W1 as (e1 & I1 & E1). destruct W2 as (e2 & I2 & E2).
  pose proof (window_heightsD batch Hb gh c s0 Hi K1 s1 e1 V1 I1) as Hr1.
  pose proof (window_heightsD batch Hb gh c s0 Hi K2 s2 e2 V2 I2) as Hr2. rewrite E1 in Hr1. rewrite E2 in Hr2.
  unfold VotesGhost.tipof in Hr1, Hr2.
  assert (D1 : differ_at gh K1 K2 a) by (split; [lia|split; [lia|exact Hoff]]).
  assert (D2 : differ_at gh K2 K1 a) by (split; [lia|split; [lia|intros E; apply Hoff; symmetry; exact E]]).
  destruct (HF K1 K2 s1 a pa a U1 U2 R1 (ex_intro _ e1 (conj I1 E1)) ltac:(lia) D1 P1) as (A1 & A2 & A3).
  destruct (HF K2 K1 s2 d pd a U2 U1 R2 (ex_intro _ e2 (conj I2 E2)) Hle D2 P2) as (B1 & B2 & B3).
  rewrite A1, A2 in S1. rewrite B1, B3 in S2.
  destruct (quorum_intersection vstar (filter (isval vstar) L1) (filter (isval vstar) L2) byz pcstar pvstar
              (NoDup_filter _ N1) (NoDup_filter _ N2)) as (v & H1 & H2 & Hnb);
    [rewrite wsum_filter_isval; exact S1|rewrite wsum_filter_isval; exact S2|exact Hbound|].
  apply filter_In in H1. apply filter_In in H2. destruct H1 as [H1 Hval], H2 as [H2 _].
  exists v. split; [exact H1|]. split; [exact H2|]. apply Hh; [|exact Hnb].
  unfold isval in Hval. destruct (find_weight vstar v) as [w|] eqn:Ew; [|discriminate].
  apply (find_weight_some_in vstar v w Ew).
Qed.

Theorem C01_dynamic_safety_fork_params_partial :
  forall (batch : nat) (gh : N) (c : pchange) (s0 : store) (U : chain -> Prop)
         (vstar : list (addr * N)) (pcstar pvstar : N) (byz : list addr),
  (0 < batch)%nat -> init_store batch gh c = Ok s0 ->
  universeD_decl batch gh s0 U ->
  fork_params batch gh s0 U vstar pcstar pvstar ->
  (forall v, In v (map fst vstar) -> ~ In v byz -> honest U v) ->
  total_weight vstar + wsum vstar byz < pcstar + pvstar ->
  forall K1 K2 s1 s2 h1 h2, U K1 -> U K2 ->
    run_blocks batch s0 K1 = Ok s1 -> run_blocks batch s0 K2 = Ok s2 ->
    gh < h1 <= v_mhpc (s_votes s1) -> gh < h2 <= v_mhpc (s_votes s2) ->
    prefix (firstn (N.to_nat (h1 - gh)) K1) (firstn (N.to_nat (h2 - gh)) K2) \/
    prefix (firstn (N.to_nat (h2 - gh)) K2) (firstn (N.to_nat (h1 - gh)) K1).
Proof.
  intros batch gh c s0 U vstar pcstar pvstar byz Hb Hi HU HF Hh Hbound.
  apply (C01_dynamic_safety_partial batch gh c s0 U Hb Hi HU).
  exact (fork_params_QI batch gh c s0 U vstar pcstar pvstar byz Hb Hi HU HF Hh Hbound).
Qed.

Print Assumptions C01_dynamic_safety_partial.
Print Assumptions C01_dynamic_safety_fork_params_partial.
