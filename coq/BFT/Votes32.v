(* uint32 / uint64-faithful variant of the liskbft vote model BFT/Votes.v: every Go arithmetic operation on a uint32
   height or a uint64 weight wraps exactly as the code does (pkg/consensus/liskbft/{validator,api,module,util}.go).
   Only the functions that perform arithmetic are re-defined; comparisons, lookups, sorting, pruning are those of Votes.v.
     heights (uint32): heightNotPrevoted+1, largestHeightPrecommit+1, maxHeightGenerated+1, oldest.height-1,
       currentHeight-heightPreviousBlock (index; the loop guard compares the SIGNED int difference), maxHeightCertified+1,
       nextHeight = currentHeight+1, nextHeight-1, height+1 (NextHeightBFTParameters), offset arithmetic of
       ImpliesMaximalPrevotes, the paramsCache.cache loop  for height := from; height <= to; height++
     weights (uint64): prevoteWeight/precommitWeight += bftWeight, the aggregate weight loop of SetBFTParameters with its
       overflow rejection, prevoteThreshold = aggregate/3*2 + aggregate%3*2/3 + 1.
   Outcomes that are not values: an index-out-of-range panic is [Error 30]; the non-terminating cache loop (to = 2^32-1,
   height++ wraps to 0 <= to) is [Error 99].  Definitions only; agreement with Votes.v is proved in Votes32Proofs.v. *)
From Coq Require Import List NArith Bool.
Import ListNotations.
Local Open Scope N_scope.
From LE Require Import BFT.Contradiction BFT.Votes.

Definition M32 : N := 4294967296.
Definition M64 : N := 18446744073709551616.
Definition u32 (x : N) : N := x mod M32.
Definition u64 (x : N) : N := x mod M64.
(* a - b on uint32 operands *)
Definition sub32 (a b : N) : N := u32 (a + M32 - b).

(* NextHeightBFTParameters: Range(FromUint32(height + 1), MaxUint32, 1, false) *)
Fixpoint first_key_from (ps : list (N * params)) (start : N) : option N :=
  match ps with
  | [] => None
  | (k, _) :: tl => if start <=? k then Some k else first_key_from tl start
  end.
Definition next_params_height32 (ps : list (N * params)) (h : N) : option N := first_key_from ps (u32 (h + 1)).

(* getHeightNotPrevoted: guard on the signed difference, index on the wrapped uint32 difference; None = panic *)
Fixpoint hnp_loop32 (fuel : nat) (infos : list info) (g : addr) (cur prev : N) : option N :=
  match fuel with
  | O => Some prev
  | S f =>
    if (if prev <=? cur then cur - prev <? N.of_nat (length infos) else true) then
      match nth_error infos (N.to_nat (sub32 cur prev)) with
      | None => None
      | Some bi => if negb (i_gen bi =? g) || (prev <=? i_mhg bi) then Some prev else hnp_loop32 f infos g cur (i_mhg bi)
      end
    else match rev infos with
         | oldest :: _ => Some (sub32 (i_height oldest) 1)
         | [] => None
         end
  end.
Definition height_not_prevoted32 (infos : list info) : option N :=
  match infos with
  | [] => None
  | nw :: _ => hnp_loop32 (S (length infos)) infos (i_gen nw) (i_height nw) (i_mhg nw)
  end.

Definition add_pc32 (bi : info) (w : N) : info :=
  {| i_height := i_height bi; i_gen := i_gen bi; i_mhg := i_mhg bi; i_mhp := i_mhp bi; i_pv := i_pv bi; i_pc := u64 (i_pc bi + w) |}.
Definition add_pv32 (bi : info) (w : N) : info :=
  {| i_height := i_height bi; i_gen := i_gen bi; i_mhg := i_mhg bi; i_mhp := i_mhp bi; i_pv := u64 (i_pv bi + w); i_pc := i_pc bi |}.

Fixpoint precommit_loop32 (ps : list (N * params)) (g : addr) (minh : N) (infos : list info) (first : option N)
  : res (list info * option N) :=
  match infos with
  | [] => Ok ([], first)
  | bi :: tl =>
    if i_height bi <? minh then Ok (infos, first) else
    do p <- get_params ps (i_height bi);
    if p_pv p <=? i_pv bi then
      match find_weight (p_vals p) g with
      | None => Error 2
      | Some w =>
        let first' := match first with None => Some (i_height bi) | s => s end in
        do r <- precommit_loop32 ps g minh tl first';
        Ok (add_pc32 bi w :: fst r, snd r)
      end
    else do r <- precommit_loop32 ps g minh tl first; Ok (bi :: fst r, snd r)
  end.

Fixpoint prevote_loop32 (ps : list (N * params)) (g : addr) (minh : N) (infos : list info) : res (list info) :=
  match infos with
  | [] => Ok []
  | bi :: tl =>
    if i_height bi <? minh then Ok infos else
    do p <- get_params ps (i_height bi);
    match find_weight (p_vals p) g with
    | None => Error 3
    | Some w => do r <- prevote_loop32 ps g minh tl; Ok (add_pv32 bi w :: r)
    end
  end.

Definition update_votes32 (ps : list (N * params)) (infos : list info) (act : list active) : res (list info * list active) :=
  match infos with
  | [] => Ok (infos, act)
  | nw :: _ =>
    if i_height nw <=? i_mhg nw then Ok (infos, act) else
    match find_active act (i_gen nw) with
    | None => Ok (infos, act)
    | Some vi =>
      match height_not_prevoted32 infos with
      | None => Error 30
      | Some hnp =>
        let minpc := Nmax3 (a_min vi) (u32 (hnp + 1)) (u32 (a_lhp vi + 1)) in
        do r <- precommit_loop32 ps (i_gen nw) minpc infos None;
        let act' := match snd r with Some h => set_lhp act (i_gen nw) h | None => act end in
        let minpv := N.max (u32 (i_mhg nw + 1)) (a_min vi) in
        do infos'' <- prevote_loop32 ps (i_gen nw) minpv (fst r);
        Ok (infos'', act')
      end
    end
  end.

(* paramsCache.cache(from, to) *)
Fixpoint check_heights (ps : list (N * params)) (from : N) (count : nat) : res unit :=
  match count with
  | O => Ok tt
  | S c => do _u <- get_params ps from; check_heights ps (from + 1) c
  end.
Definition cache32 (ps : list (N * params)) (from to : N) : res unit :=
  do _u <- (if 0 <? from then do _p <- get_params ps from; Ok tt else Ok tt);
  if to =? M32 - 1 then Error 99
  else check_heights ps from (N.to_nat (to + 1 - from)).

Definition newest_height (infos : list info) : N := match infos with x :: _ => i_height x | [] => 0 end.

Definition before_txs32 (batch : nat) (s : store) (b : hdr) : res store :=
  let v := s_votes s in
  let infos := insert_info (v_infos v) b (3 * batch) in
  do _u <- cache32 (s_params s) (oldest_height infos) (newest_height infos);
  do r <- update_votes32 (s_params s) infos (v_act v);
  let '(infos', act') := r in
  do pv <- first_with (s_params s) p_pv i_pv infos';
  do pc <- first_with (s_params s) p_pc i_pc infos';
  let mhp' := match pv with Some h => h | None => v_mhp v end in
  let mhpc' := match pc with Some h => h | None => v_mhpc v end in
  let mhc' := match h_cert b with Some h => h | None => v_mhc v end in
  let minreq := N.min (oldest_height infos') (u32 (mhc' + 1)) in
  Ok {| s_params := prune_params (s_params s) minreq;
        s_votes := {| v_mhp := mhp'; v_mhpc := mhpc'; v_mhc := mhc'; v_infos := infos'; v_act := act' |} |}.

(* SetBFTParameters: the aggregate loop checks weight > 0 and uint64 overflow validator by validator *)
Fixpoint agg32 (vals0 : list (addr * N)) (acc : N) : res N :=
  match vals0 with
  | [] => Ok acc
  | x :: tl => if snd x =? 0 then Error 11 else if u64 (acc + snd x) <? acc then Error 14 else agg32 tl (u64 (acc + snd x))
  end.

Definition set_params32 (batch : nat) (s : store) (pcT certT : N) (vals0 : list (addr * N)) : res store :=
  if Nat.ltb batch (length vals0) then Error 10 else
  do W <- agg32 vals0 0;
  if (pcT <? W / 3 + 1) || (W <? pcT) then Error 12 else
  if (certT <? W / 3 + 1) || (W <? certT) then Error 13 else
  let vals := sort_desc vals0 in
  let v := s_votes s in
  let cur := current_height v in
  let same := match lookup_le (s_params s) cur None with
              | Some cp => vals_equal (p_vals cp) vals && (p_pc cp =? pcT) && (p_cert cp =? certT)
              | None => false end in
  if same then Ok s else
  let nexth := u32 (cur + 1) in
  let p := {| p_pv := u64 (W / 3 * 2 + W mod 3 * 2 / 3 + 1); p_pc := pcT; p_cert := certT; p_vals := vals |} in
  let act := fold_right (fun x acc =>
                 insert_act_desc (match find_active (v_act v) (fst x) with
                                  | Some a => a
                                  | None => {| a_addr := fst x; a_min := nexth; a_lhp := sub32 nexth 1 |} end) acc) [] vals in
  Ok {| s_params := insert_param (s_params s) nexth p;
        s_votes := {| v_mhp := v_mhp v; v_mhpc := v_mhpc v; v_mhc := v_mhc v; v_infos := v_infos v; v_act := act |} |}.

(* ImpliesMaximalPrevotes *)
Definition implies_max_prevotes32 (v : votes) (b : hdr) : res bool :=
  match v_infos v with
  | [] => Error 20
  | nw :: _ =>
    if negb (h_height b =? i_height nw) then Error 21 else
    if h_height b <=? h_mhg b then Ok false else
    if i_height nw <? h_mhg b then Error 22 else
    let offset := sub32 (i_height nw) (h_mhg b) in
    match nth_error (v_infos v) (N.to_nat offset) with
    | None => Ok true
    | Some bi => Ok (i_gen bi =? h_gen b)
    end
  end.

Definition apply_block32 (batch : nat) (s : store) (x : block) : res store :=
  let '(b, chg) := x in
  do s1 <- before_txs32 batch s b;
  match chg with None => Ok s1 | Some c => set_params32 batch s1 (c_pc c) (c_cert c) (c_vals c) end.

Definition init_store32 (batch : nat) (gh : N) (c : pchange) : res store :=
  set_params32 batch (genesis_store gh) (c_pc c) (c_cert c) (c_vals c).

Fixpoint run_blocks32 (batch : nat) (s : store) (l : list block) : res store :=
  match l with
  | [] => Ok s
  | x :: tl => do s' <- apply_block32 batch s x; run_blocks32 batch s' tl
  end.
