(* Non-vacuity and sharpness of the theorems over blocks with identity (BFT/SafetyIds.v), on SafetyInst.Example's chain A
   (4 unit validators, thresholds 3/3, ten round-robin blocks, view finalizes height 5):
   (1) same-tuple / different-id double forge by ONE validator: chain B = blocks 1-3 of A followed by a second block of
       validator 4 at height 4 with EXACTLY the BFT fields of A's block 4 and another ID.  In the identity-free model
       B is a prefix of A (no fork at all, validator 4 "honest"); here it is a fork and validator 4 is Byzantine
       (weight 1 < 4/3), everybody else honest: all hypotheses of C01_static_safety_ids(_one_third) hold.
   (2) every block of A re-forged with the same BFT fields and other IDs (chain A'): untag A = untag A', both views finalize
       height 5, the finalized histories WITH ids are incomparable -- two different blocks are final at every height --
       while the identity-free conclusion holds trivially.  Every validator is Byzantine in the sense of [thonest]
       (Byzantine weight 4 >= 1/3): the hypotheses of the ids theorems fail, as they must. *)
From Coq Require Import List NArith Bool Lia ZArith Arith.
From Coq Require Import ZifyBool ZifyN ZifyNat.
From LE Require Import BFT.Contradiction BFT.ContradictionProofs BFT.Votes BFT.VotesProofs BFT.VotesGhost BFT.SafetyInst BFT.VotesGhostDyn BFT.SafetyDyn BFT.SafetyIds.
Import ListNotations.
Local Open Scope N_scope.
Import Example.

Definition tagN (base : N) (K : chain) : tchain := combine (map (fun i => base + N.of_nat i) (seq 1 (length K))) K.
Definition TA : tchain := tagN 0 Ka.                       (* ids 1..10 *)
Definition TB : tchain := firstn 3 TA ++ [(204, nth 3 Ka (mkhdr 0 0 0 0, None))].   (* same tuple as block 4 of A, id 204 *)
Definition TA' : tchain := tagN 100 Ka.                    (* ids 101..110, same tuples *)

Definition two_t (A B : tchain) (T : tchain) : Prop := (prefix T A \/ prefix T B) /\ T <> [].
Definition TU1 := two_t TA TB.
Definition TU2 := two_t TA TA'.

Lemma two_t_universe : forall A B, (forall T, prefix T A \/ prefix T B -> prefix (untag T) Ka) -> tuniverse_decl 4 0 ex_s0 (two_t A B).
Proof.
  intros A B Hu. split.
  - intros T [HT Hne]. split; [exact Hne|]. apply (valid_chain_spec 4 ltac:(lia) 0 ex_s0).
    destruct ex_universe as [H1 _]. apply (H1 (untag T)). split; [left; apply Hu; exact HT|].
    intros E. apply Hne. apply untag_nil. exact E.
  - intros T T' [HT _] HP Hne. split; [|exact Hne]. destruct HT as [H|H]; [left|right]; eapply prefix_trans; eauto.
Qed.

Lemma untag_TA : untag TA = Ka. Proof. vm_compute. reflexivity. Qed.
Lemma untag_TA' : untag TA' = Ka. Proof. vm_compute. reflexivity. Qed.
Lemma untag_TB : untag TB = firstn 4 Ka. Proof. vm_compute. reflexivity. Qed.

Lemma TU1_universe : tuniverse_decl 4 0 ex_s0 TU1.
Proof.
  apply two_t_universe. intros T [H|H]; apply untag_prefix in H.
  - rewrite untag_TA in H. exact H.
  - rewrite untag_TB in H. eapply prefix_trans; [exact H|apply firstn_prefix].
Qed.
Lemma TU2_universe : tuniverse_decl 4 0 ex_s0 TU2.
Proof.
  apply two_t_universe. intros T [H|H]; apply untag_prefix in H; [rewrite untag_TA in H|rewrite untag_TA' in H]; exact H.
Qed.

Definition members1 : list tchain := map (fun i => firstn i TA) (seq 1 10) ++ map (fun i => firstn i TB) (seq 1 4).
Lemma TU1_members : forall T, TU1 T -> In T members1.
Proof.
  intros T [[H|H] Hne]; pose proof (prefix_length _ _ H) as Hl; rewrite (prefix_firstn _ _ H); unfold members1; apply in_or_app.
  - left. apply in_map_iff. exists (length T). split; [reflexivity|]. apply in_seq. change (length TA) with 10%nat in Hl.
    destruct T; [congruence|cbn [length] in *; lia].
  - right. apply in_map_iff. exists (length T). split; [reflexivity|]. apply in_seq. change (length TB) with 4%nat in Hl.
    destruct T; [congruence|cbn [length] in *; lia].
Qed.
Definition tpair_ok (byzv : N) (T1 T2 : tchain) : bool :=
  (if tchain_eq_dec T1 T2 then true else false) || negb (genC (untag T1) =? genC (untag T2)) || (genC (untag T1) =? byzv) ||
  negb (contradicting (bh_of_hdr (lastH (untag T1))) (bh_of_hdr (lastH (untag T2)))).
Lemma TU1_pairs : forallb (fun T1 => forallb (tpair_ok 4 T1) members1) members1 = true.
Proof. vm_compute. reflexivity. Qed.
Lemma TU1_honest : forall v, In v (map fst (c_vals ex_c)) -> ~ In v [4] -> thonest TU1 v.
Proof.
  intros v _ Hv T1 T2 H1 H2 Hne G1 G2. pose proof TU1_pairs as Hp. rewrite forallb_forall in Hp.
  specialize (Hp T1 (TU1_members T1 H1)). rewrite forallb_forall in Hp. specialize (Hp T2 (TU1_members T2 H2)).
  unfold tpair_ok in Hp. destruct (tchain_eq_dec T1 T2) as [E|_]; [contradiction|]. cbn [orb] in Hp.
  rewrite G1, G2, N.eqb_refl in Hp. cbn [negb orb] in Hp.
  destruct (v =? 4) eqn:E1; [apply N.eqb_eq in E1; exfalso; apply Hv; left; symmetry; exact E1|]. cbn [orb] in Hp.
  apply negb_true_iff in Hp. exact Hp.
Qed.

Definition sA : store := match run_blocks 4 ex_s0 Ka with Ok s => s | Error _ => ex_s0 end.
Lemma sA_run : run_blocks 4 ex_s0 Ka = Ok sA. Proof. vm_compute. reflexivity. Qed.

(* (1) the hypotheses of C01_static_safety_ids_one_third hold on a universe with a same-tuple / different-id double forge *)
Example C01_ids_hypotheses_satisfiable :
  (0 < 4)%nat /\ init_store 4 0 ex_c = Ok ex_s0 /\ tuniverse_decl 4 0 ex_s0 TU1 /\
  (forall v, In v (map fst (c_vals ex_c)) -> ~ In v [4] -> thonest TU1 v) /\
  3 * wsum (sort_desc (c_vals ex_c)) [4] < total_weight (c_vals ex_c) /\ total_weight (c_vals ex_c) * 2 / 3 + 1 <= c_pc ex_c /\
  TU1 TA /\ TU1 TB /\ run_blocks 4 ex_s0 (untag TA) = Ok sA /\ v_mhpc (s_votes sA) = 5 /\
  (* the double forge: same BFT tuple, same parent, different id; it is a fork of blocks with identity, not of tuples *)
  firstn 3 TA = firstn 3 TB /\ map snd (firstn 4 TA) = map snd TB /\ nth_error TA 3 <> nth_error TB 3 /\
  ~ prefix TB TA /\ prefix (untag TB) (untag TA) /\ ~ thonest TU1 4.
Proof.
  assert (Ua : TU1 TA) by (split; [left; apply prefix_refl|vm_compute; discriminate]).
  assert (Ub : TU1 TB) by (split; [right; apply prefix_refl|vm_compute; discriminate]).
  split; [lia|]. split; [exact ex_init|]. split; [exact TU1_universe|]. split; [exact TU1_honest|].
  split; [vm_compute; reflexivity|]. split; [vm_compute; discriminate|]. split; [exact Ua|]. split; [exact Ub|].
  split; [rewrite untag_TA; exact sA_run|]. split; [vm_compute; reflexivity|]. split; [vm_compute; reflexivity|].
  split; [vm_compute; reflexivity|]. split; [vm_compute; discriminate|]. split.
  - intros H. apply prefix_firstn in H. vm_compute in H. discriminate.
  - split; [rewrite untag_TA, untag_TB; apply firstn_prefix|].
    intros H. assert (U4 : TU1 (firstn 4 TA)) by (split; [left; apply firstn_prefix|vm_compute; discriminate]).
    specialize (H (firstn 4 TA) TB U4 Ub). assert (Hne : firstn 4 TA <> TB) by (vm_compute; discriminate).
    specialize (H Hne). vm_compute in H. specialize (H eq_refl eq_refl). discriminate.
Qed.

(* (2) the gap closed by the ids theorems: identical tuples, different ids everywhere *)
Example C01_ids_gap_all_byzantine :
  untag TA = untag TA' /\ TU2 TA /\ TU2 TA' /\ tuniverse_decl 4 0 ex_s0 TU2 /\
  run_blocks 4 ex_s0 (untag TA) = Ok sA /\ run_blocks 4 ex_s0 (untag TA') = Ok sA /\ v_mhpc (s_votes sA) = 5 /\
  (* identity-free conclusion: trivially true *) firstn 5 (untag TA) = firstn 5 (untag TA') /\
  (* with ids: two different blocks are final at height 5 (and at every height below) *)
  ~ prefix (firstn 5 TA) (firstn 5 TA') /\ ~ prefix (firstn 5 TA') (firstn 5 TA) /\ nth_error TA 4 <> nth_error TA' 4 /\
  (* every validator forged two blocks with equal tuples: Byzantine weight 4 of 4 *)
  (forall v, In v [1; 2; 3; 4] -> ~ thonest TU2 v).
Proof.
  assert (Ua : TU2 TA) by (split; [left; apply prefix_refl|vm_compute; discriminate]).
  assert (Ub : TU2 TA') by (split; [right; apply prefix_refl|vm_compute; discriminate]).
  split; [rewrite untag_TA, untag_TA'; reflexivity|]. split; [exact Ua|]. split; [exact Ub|]. split; [exact TU2_universe|].
  split; [rewrite untag_TA; exact sA_run|]. split; [rewrite untag_TA'; exact sA_run|]. split; [vm_compute; reflexivity|].
  split; [rewrite untag_TA, untag_TA'; reflexivity|].
  split; [intros H; apply prefix_firstn in H; vm_compute in H; discriminate|].
  split; [intros H; apply prefix_firstn in H; vm_compute in H; discriminate|]. split; [vm_compute; discriminate|].
  intros v Hv H.
  assert (Hk : forall k, (1 <= k <= 10)%nat -> TU2 (firstn k TA) /\ TU2 (firstn k TA') /\ firstn k TA <> firstn k TA').
  { intros k Hk. split; [split; [left; apply firstn_prefix|]|split; [split; [right; apply firstn_prefix|]|]];
      do 11 (destruct k as [|k]; [try lia; vm_compute; discriminate|]); lia. }
  assert (Hc : forall k, (1 <= k <= 10)%nat -> genC (untag (firstn k TA)) = v -> False).
  { intros k Hr Hg. destruct (Hk k Hr) as (U1 & U2 & Hne). specialize (H _ _ U1 U2 Hne Hg).
    assert (Eu : untag (firstn k TA') = untag (firstn k TA)) by (rewrite !untag_firstn, untag_TA, untag_TA'; reflexivity).
    rewrite Eu in H. specialize (H Hg).
    assert (Hd : contradicting (bh_of_hdr (lastH (untag (firstn k TA)))) (bh_of_hdr (lastH (untag (firstn k TA)))) = true).
    { apply double_forging_flagged; reflexivity. }
    congruence. }
  cbn in Hv. destruct Hv as [<-|[<-|[<-|[<-|[]]]]].
  - apply (Hc 1%nat); [lia|vm_compute; reflexivity].
  - apply (Hc 2%nat); [lia|vm_compute; reflexivity].
  - apply (Hc 3%nat); [lia|vm_compute; reflexivity].
  - apply (Hc 4%nat); [lia|vm_compute; reflexivity].
Qed.
(* (3) a fork with NO Byzantine validator in which BOTH views report finalized blocks: chain C = blocks 1-8 of A, then
   blocks 9'-12' by validators 3 and 4 (who do not generate 9, 10 on A).  A finalizes height 5, C finalizes height 3, the fork
   point is 8.  (Under the theorem's hypotheses two views can never both finalize BEYOND their fork point: that is
   C01_static_same_height_same_block_ids.) *)
Definition TC : tchain :=
  firstn 8 TA ++ [(309, (mkhdr 9 3 7 6, None)); (310, (mkhdr 10 4 8 6, None)); (311, (mkhdr 11 3 9 6, None)); (312, (mkhdr 12 4 10 6, None))].
Definition TU3 := two_t TA TC.
Definition members3 : list tchain := map (fun i => firstn i TA) (seq 1 10) ++ map (fun i => firstn i TC) (seq 1 12).
Definition sC : store := match run_blocks 4 ex_s0 (untag TC) with Ok s => s | Error _ => ex_s0 end.
Lemma TU3_members : forall T, TU3 T -> In T members3.
Proof.
  intros T [[H|H] Hne]; pose proof (prefix_length _ _ H) as Hl; rewrite (prefix_firstn _ _ H); unfold members3; apply in_or_app.
  - left. apply in_map_iff. exists (length T). split; [reflexivity|]. apply in_seq. change (length TA) with 10%nat in Hl.
    destruct T; [congruence|cbn [length] in *; lia].
  - right. apply in_map_iff. exists (length T). split; [reflexivity|]. apply in_seq. change (length TC) with 12%nat in Hl.
    destruct T; [congruence|cbn [length] in *; lia].
Qed.
Lemma TU3_pairs : forallb (fun T1 => forallb (tpair_ok 0 T1) members3) members3 = true.
Proof. vm_compute. reflexivity. Qed.
Lemma TU3_honest : forall v, In v (map fst (c_vals ex_c)) -> ~ In v [] -> thonest TU3 v.
Proof.
  intros v Hin _ T1 T2 H1 H2 Hne G1 G2. pose proof TU3_pairs as Hp. rewrite forallb_forall in Hp.
  specialize (Hp T1 (TU3_members T1 H1)). rewrite forallb_forall in Hp. specialize (Hp T2 (TU3_members T2 H2)).
  unfold tpair_ok in Hp. destruct (tchain_eq_dec T1 T2) as [E|_]; [contradiction|]. cbn [orb] in Hp.
  rewrite G1, G2, N.eqb_refl in Hp. cbn [negb orb] in Hp.
  destruct (v =? 0) eqn:E1; [apply N.eqb_eq in E1; subst v; cbn in Hin; lia|]. cbn [orb] in Hp.
  apply negb_true_iff in Hp. exact Hp.
Qed.
Lemma TU3_universe : tuniverse_decl 4 0 ex_s0 TU3.
Proof.
  split.
  - intros T [HT Hne]. split; [exact Hne|]. apply (valid_chain_spec 4 ltac:(lia) 0 ex_s0). unfold valid_chain.
    assert (Hv : exists s, view 4 0 ex_s0 (untag TA) = Some s) by (eexists; vm_compute; reflexivity).
    assert (Hw : exists s, view 4 0 ex_s0 (untag TC) = Some s) by (eexists; vm_compute; reflexivity).
    destruct Hv as (sa & Ha). destruct Hw as (sc & Hc).
    destruct HT as [H|H]; apply untag_prefix in H;
      [destruct (view_prefix 4 ltac:(lia) 0 ex_s0 _ _ sa Ha H) as (s' & ->)|destruct (view_prefix 4 ltac:(lia) 0 ex_s0 _ _ sc Hc H) as (s' & ->)];
      discriminate.
  - intros T T' [HT _] HP Hne. split; [|exact Hne]. destruct HT as [H|H]; [left|right]; eapply prefix_trans; eauto.
Qed.

Example C01_ids_both_views_finalize :
  (0 < 4)%nat /\ init_store 4 0 ex_c = Ok ex_s0 /\ tuniverse_decl 4 0 ex_s0 TU3 /\
  (forall v, In v (map fst (c_vals ex_c)) -> ~ In v [] -> thonest TU3 v) /\
  3 * wsum (sort_desc (c_vals ex_c)) [] < total_weight (c_vals ex_c) /\ total_weight (c_vals ex_c) * 2 / 3 + 1 <= c_pc ex_c /\
  TU3 TA /\ TU3 TC /\ run_blocks 4 ex_s0 (untag TA) = Ok sA /\ run_blocks 4 ex_s0 (untag TC) = Ok sC /\
  v_mhpc (s_votes sA) = 5 /\ v_mhpc (s_votes sC) = 3 /\
  firstn 8 TA = firstn 8 TC /\ nth_error TA 8 <> nth_error TC 8 /\
  (* what the theorem gives here *) prefix (firstn 3 TC) (firstn 5 TA).
Proof.
  assert (Ua : TU3 TA) by (split; [left; apply prefix_refl|vm_compute; discriminate]).
  assert (Uc : TU3 TC) by (split; [right; apply prefix_refl|vm_compute; discriminate]).
  assert (Ra : run_blocks 4 ex_s0 (untag TA) = Ok sA) by (rewrite untag_TA; exact sA_run).
  assert (Rc : run_blocks 4 ex_s0 (untag TC) = Ok sC) by (vm_compute; reflexivity).
  assert (Fa : v_mhpc (s_votes sA) = 5) by (vm_compute; reflexivity).
  assert (Fc : v_mhpc (s_votes sC) = 3) by (vm_compute; reflexivity).
  split; [lia|]. split; [exact ex_init|]. split; [exact TU3_universe|]. split; [exact TU3_honest|].
  split; [vm_compute; reflexivity|]. split; [vm_compute; discriminate|]. split; [exact Ua|]. split; [exact Uc|].
  split; [exact Ra|]. split; [exact Rc|]. split; [exact Fa|]. split; [exact Fc|]. split; [vm_compute; reflexivity|].
  split; [vm_compute; discriminate|].
  destruct (C01_static_safety_ids_one_third 4 0 ex_c ex_s0 TU3 [] ltac:(lia) ex_init TU3_universe TU3_honest
              ltac:(vm_compute; reflexivity) ltac:(vm_compute; discriminate) TC TA sC sA 3 5 Uc Ua Rc Ra ltac:(rewrite Fc; lia) ltac:(rewrite Fa; lia)) as [H|H].
  - exact H.
  - apply prefix_length in H. vm_compute in H. lia.
Qed.

(* (1') the same universe satisfies the premises of C01_static_safety_by_ids: ids determine histories, and every validator but 4
   is honest in the reading on ids *)
Lemma TU1_ids : forallb (fun T1 => forallb (fun T2 => negb (tid T1 =? tid T2) || (if tchain_eq_dec T1 T2 then true else false)) members1) members1 = true.
Proof. vm_compute. reflexivity. Qed.
Example C01_by_ids_hypotheses_satisfiable :
  ids_determine_history TU1 /\ (forall v, In v (map fst (c_vals ex_c)) -> ~ In v [4] -> thonest_ids TU1 v) /\ ~ thonest_ids TU1 4.
Proof.
  split; [|split].
  - intros T1 T2 H1 H2 E. pose proof TU1_ids as Hp. rewrite forallb_forall in Hp.
    specialize (Hp T1 (TU1_members T1 H1)). rewrite forallb_forall in Hp. specialize (Hp T2 (TU1_members T2 H2)).
    rewrite E, N.eqb_refl in Hp. cbn [negb orb] in Hp. destruct (tchain_eq_dec T1 T2) as [Eq|_]; [exact Eq|discriminate].
  - intros v Hv Hn. apply thonest_ids_of_thonest. apply TU1_honest; assumption.
  - intros H. assert (U4 : TU1 (firstn 4 TA)) by (split; [left; apply firstn_prefix|vm_compute; discriminate]).
    assert (Ub : TU1 TB) by (split; [right; apply prefix_refl|vm_compute; discriminate]).
    specialize (H (firstn 4 TA) TB U4 Ub). assert (Hne : tid (firstn 4 TA) <> tid TB) by (vm_compute; discriminate).
    specialize (H Hne). vm_compute in H. specialize (H eq_refl eq_refl). discriminate.
Qed.

Print Assumptions C01_ids_hypotheses_satisfiable.
Print Assumptions C01_by_ids_hypotheses_satisfiable.
Print Assumptions C01_ids_both_views_finalize.
Print Assumptions C01_ids_gap_all_byzantine.
