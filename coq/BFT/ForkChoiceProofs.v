From Coq Require Import List NArith Bool Lia ZArith.
From Coq Require Import ZifyBool ZifyN.
From LE Require Import BFT.ForkChoice.
Local Open Scope N_scope.

Lemma classify_matches_lip14 : forall c last cur tl tc, classify c last cur tl tc = lip14_case c last cur tl tc.
Proof.
  intros c last cur tl tc. unfold classify, lip14_case, is_valid_block, is_identical, is_double_forging,
    is_tie_break, is_duplicate, is_different_chain, is_different_chain_raw.
  destruct (f_id last =? f_id cur); [reflexivity|].
  destruct ((u32 (f_height last + 1) =? f_height cur) && (f_id last =? f_prev cur)); [reflexivity|].
  destruct ((f_height last =? f_height cur) && (f_mhp last =? f_mhp cur) && (f_prev last =? f_prev cur)) eqn:D;
    cbn [andb].
  - destruct (f_gen last =? f_gen cur); cbn [negb andb]; [reflexivity|].
    destruct (slot_number c (f_ts last) <? slot_number c (f_ts cur)); cbn [andb];
    destruct (recv_last_in_slot c last tl); cbn [negb andb];
    destruct (recv_cur_in_slot c cur tc); cbn [andb]; try reflexivity;
    destruct (f_mhp last <? f_mhp cur); cbn [orb]; try reflexivity;
    rewrite andb_comm; reflexivity.
  - destruct (f_mhp last <? f_mhp cur); cbn [orb]; try reflexivity. rewrite andb_comm; reflexivity.
Qed.

(* IsDifferentChain is the strict lexicographic order on (maxHeightPrevoted, height). *)
Definition lex_lt (a b : N * N) : Prop := fst a < fst b \/ (fst a = fst b /\ snd a < snd b).

Lemma different_chain_is_lex : forall lm cm lh ch,
  is_different_chain_raw lm cm lh ch = true <-> lex_lt (lm, lh) (cm, ch).
Proof. intros. unfold is_different_chain_raw, lex_lt; cbn. lia. Qed.

Lemma different_chain_irrefl : forall m h, is_different_chain_raw m m h h = false.
Proof. intros. unfold is_different_chain_raw. lia. Qed.
Lemma different_chain_asym : forall lm cm lh ch,
  is_different_chain_raw lm cm lh ch = true -> is_different_chain_raw cm lm ch lh = false.
Proof. intros *. unfold is_different_chain_raw. lia. Qed.
Lemma different_chain_trans : forall m1 h1 m2 h2 m3 h3,
  is_different_chain_raw m1 m2 h1 h2 = true -> is_different_chain_raw m2 m3 h2 h3 = true ->
  is_different_chain_raw m1 m3 h1 h3 = true.
Proof. intros *. unfold is_different_chain_raw. lia. Qed.

(* a block is moved to (sync or tie break) only if it is not worse in the LIP-0014 order *)
Lemma switch_only_to_not_worse : forall c last cur tl tc,
  match classify c last cur tl tc with
  | DifferentChain => lex_lt (f_mhp last, f_height last) (f_mhp cur, f_height cur)
  | TieBreak | DoubleForging => f_mhp last = f_mhp cur /\ f_height last = f_height cur /\ f_prev last = f_prev cur
  | ValidBlock => f_height cur = u32 (f_height last + 1) /\ f_prev cur = f_id last
  | Identical => f_id cur = f_id last
  | Discard => ~ lex_lt (f_mhp last, f_height last) (f_mhp cur, f_height cur)
  end.
Proof.
  intros. unfold classify, is_valid_block, is_identical, is_double_forging, is_tie_break, is_duplicate,
    is_different_chain, is_different_chain_raw, lex_lt; cbn [fst snd].
  destruct (f_id last =? f_id cur) eqn:E1; [lia|].
  destruct ((u32 (f_height last + 1) =? f_height cur) && (f_id last =? f_prev cur)) eqn:E2; [lia|].
  destruct ((f_height last =? f_height cur) && (f_mhp last =? f_mhp cur) && (f_prev last =? f_prev cur)) eqn:E3; cbn [andb].
  - destruct (f_gen last =? f_gen cur); [lia|].
    match goal with |- context [if ?x then TieBreak else _] => destruct x end; [lia|].
    match goal with |- context [if ?x then DifferentChain else _] => destruct x eqn:E5 end; lia.
  - match goal with |- context [if ?x then DifferentChain else _] => destruct x eqn:E5 end; lia.
Qed.
