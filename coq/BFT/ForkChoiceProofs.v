From Coq Require Import List NArith Bool Lia ZArith.
From Coq Require Import ZifyBool ZifyN.
From LE Require Import BFT.ForkChoice.
Import ListNotations.
Local Open Scope N_scope.

(* IsDifferentChain is the strict lexicographic order on (maxHeightPrevoted, height). *)
Definition lex_lt (a b : N * N) : Prop := fst a < fst b \/ (fst a = fst b /\ snd a < snd b).

Lemma different_chain_is_lex : forall lm cm lh ch,
  is_different_chain_raw lm cm lh ch = true <-> lex_lt (lm, lh) (cm, ch).
Proof. intros. unfold is_different_chain_raw, lex_lt; cbn. lia. Qed.

Lemma different_chain_irrefl : forall m h, is_different_chain_raw m m h h = false.
Proof. intros. unfold is_different_chain_raw. lia. Qed.
Lemma different_chain_asym : forall lm cm lh ch,
  is_different_chain_raw lm cm lh ch = true -> is_different_chain_raw cm lm ch lh = false.
Proof. intros *. unfold is_different_chain_raw. lia. Qed.
Lemma different_chain_trans : forall m1 h1 m2 h2 m3 h3,
  is_different_chain_raw m1 m2 h1 h2 = true -> is_different_chain_raw m2 m3 h2 h3 = true ->
  is_different_chain_raw m1 m3 h1 h3 = true.
Proof. intros *. unfold is_different_chain_raw. lia. Qed.

(* a block is moved to (sync or tie break) only if it is not worse in the LIP-0014 order *)
Lemma switch_only_to_not_worse : forall c last cur tl tc,
  match classify c last cur tl tc with
  | DifferentChain => lex_lt (f_mhp last, f_height last) (f_mhp cur, f_height cur)
  | TieBreak | DoubleForging => f_mhp last = f_mhp cur /\ f_height last = f_height cur /\ f_prev last = f_prev cur
  | ValidBlock => f_height cur = u32 (f_height last + 1) /\ f_prev cur = f_id last
  | Identical => f_id cur = f_id last
  | Discard => ~ lex_lt (f_mhp last, f_height last) (f_mhp cur, f_height cur)
  end.
Proof.
  intros. unfold classify, is_valid_block, is_identical, is_double_forging, is_tie_break, is_duplicate,
    is_different_chain, is_different_chain_raw, lex_lt; cbn [fst snd].
  destruct (f_id last =? f_id cur) eqn:E1; [lia|].
  destruct ((u32 (f_height last + 1) =? f_height cur) && (f_id last =? f_prev cur)) eqn:E2; [lia|].
  destruct ((f_height last =? f_height cur) && (f_mhp last =? f_mhp cur) && (f_prev last =? f_prev cur)) eqn:E3; cbn [andb].
  - destruct (f_gen last =? f_gen cur); [lia|].
    match goal with |- context [if ?x then TieBreak else _] => destruct x end; [lia|].
    match goal with |- context [if ?x then DifferentChain else _] => destruct x eqn:E5 end; lia.
  - match goal with |- context [if ?x then DifferentChain else _] => destruct x eqn:E5 end; lia.
Qed.

(* ---- order-free LIP-0014 specification ---- *)
Lemma spec_cases_singleton : forall c last cur tl tc, spec_cases c last cur tl tc = [classify c last cur tl tc].
Proof.
  intros c last cur tl tc. unfold spec_cases, spec_conditions, classify, is_valid_block, is_identical, is_double_forging,
    is_tie_break, is_duplicate, is_different_chain, is_different_chain_raw, recv_last_in_slot, recv_cur_in_slot.
  rewrite (N.eqb_sym (f_height cur) (u32 (f_height last + 1))), (N.eqb_sym (f_prev cur) (f_id last)).
  destruct (f_id last =? f_id cur) eqn:E1; cbn [negb andb filter map fst snd].
  { destruct ((u32 (f_height last + 1) =? f_height cur) && (f_id last =? f_prev cur)); reflexivity. }
  destruct ((u32 (f_height last + 1) =? f_height cur) && (f_id last =? f_prev cur)) eqn:E2; cbn [negb andb filter map fst snd];
    [reflexivity|].
  destruct ((f_height last =? f_height cur) && (f_mhp last =? f_mhp cur) && (f_prev last =? f_prev cur)) eqn:E3;
    cbn [negb andb filter map fst snd].
  - (* duplicate: heights and mhp equal, so "better" is false *)
    assert (B : (f_mhp last <? f_mhp cur) || ((f_mhp last =? f_mhp cur) && (f_height last <? f_height cur)) = false) by lia.
    assert (B' : (f_mhp last <? f_mhp cur) || ((f_height last <? f_height cur) && (f_mhp last =? f_mhp cur)) = false) by lia.
    rewrite B, B'.
    destruct (f_gen last =? f_gen cur); cbn [negb andb filter map fst snd]; [reflexivity|].
    destruct (slot_number c (f_ts last) <? slot_number c (f_ts cur)); cbn [negb andb filter map fst snd]; [|reflexivity].
    destruct (match tl with Some t => slot_number c (u32 t) =? slot_number c (f_ts last) | None => true end);
      cbn [negb andb filter map fst snd]; [reflexivity|].
    destruct (slot_number c (u32 tc) =? slot_number c (f_ts cur)); reflexivity.
  - assert (B : (f_mhp last <? f_mhp cur) || ((f_height last <? f_height cur) && (f_mhp last =? f_mhp cur))
                = (f_mhp last <? f_mhp cur) || ((f_mhp last =? f_mhp cur) && (f_height last <? f_height cur))) by lia.
    rewrite B.
    destruct ((f_mhp last <? f_mhp cur) || ((f_mhp last =? f_mhp cur) && (f_height last <? f_height cur)));
      reflexivity.
Qed.

(* the conditions are pairwise exclusive and exhaustive (immediate from the singleton, stated for the reader) *)
Lemma spec_case_unique : forall c last cur tl tc k,
  In k (spec_cases c last cur tl tc) <-> k = classify c last cur tl tc.
Proof. intros. rewrite spec_cases_singleton. cbn. split; [intros [H|[]]; auto | auto]. Qed.

(* slot numbers are plain floor division when the timestamp is not before genesis *)
Lemma slot_number_spec : forall c ts, genesis_ts c <= ts -> ts < 4294967296 ->
  slot_number c ts = (ts - genesis_ts c) / interval c.
Proof.
  intros c ts H1 H2. unfold slot_number, u32.
  replace (ts + 4294967296 - genesis_ts c) with ((ts - genesis_ts c) + 1 * 4294967296) by lia.
  rewrite N.mod_add by discriminate. rewrite N.mod_small by lia. reflexivity.
Qed.

(* HeaderHasPriority / Synced are the strict LIP-0014 order, i.e. exactly "the other chain is NOT a different (better) chain
   and not equal" read from the other side: has_priority hm hh height mhp = IsDifferentChain(mhp, hm, height, hh) *)
Lemma has_priority_is_lex : forall hm hh height mhp,
  has_priority hm hh height mhp = true <-> lex_lt (mhp, height) (hm, hh).
Proof. intros. unfold has_priority, lex_lt; cbn. lia. Qed.
Lemma has_priority_is_different_chain : forall hm hh height mhp,
  has_priority hm hh height mhp = is_different_chain_raw mhp hm height hh.
Proof. intros. unfold has_priority, is_different_chain_raw. lia. Qed.
Lemma has_priority_total : forall hm hh height mhp,
  has_priority hm hh height mhp = false -> has_priority mhp height hh hm = false -> hm = mhp /\ hh = height.
Proof. intros *. unfold has_priority. lia. Qed.
Lemma has_priority_v0_spec : forall hh height mhp,
  has_priority_v0 hh height mhp = true <-> height <= hh /\ mhp <= hh.
Proof. intros. unfold has_priority_v0. lia. Qed.
