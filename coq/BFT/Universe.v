(* Executable notions for C01 on the faithful vote model: valid chains, universes of two chains, finalized prefixes,
   honesty of a validator (all its blocks pairwise non-contradicting), Byzantine weight. Used by the refutation
   witnesses (BFT/Refuted.v) and by the correspondence evaluator (Corr/C01.v). *)
From Coq Require Import List NArith Bool.
From LE Require Import BFT.Contradiction BFT.Votes.
Import ListNotations.
Local Open Scope N_scope.

Definition optN_eqb (a b : option N) : bool :=
  match a, b with None, None => true | Some x, Some y => x =? y | _, _ => false end.
Definition hdr_eqb (a b : hdr) : bool :=
  (h_height a =? h_height b) && (h_gen a =? h_gen b) && (h_mhg a =? h_mhg b) && (h_mhp a =? h_mhp b) && optN_eqb (h_cert a) (h_cert b).
Fixpoint vals_eqb (a b : list (addr * N)) : bool :=
  match a, b with
  | [], [] => true
  | (x, w) :: a', (y, v) :: b' => (x =? y) && (w =? v) && vals_eqb a' b'
  | _, _ => false
  end.
Definition chg_eqb (a b : option pchange) : bool :=
  match a, b with
  | None, None => true
  | Some x, Some y => (c_pc x =? c_pc y) && (c_cert x =? c_cert y) && vals_eqb (c_vals x) (c_vals y)
  | _, _ => false
  end.
Definition block_eqb (a b : block) : bool := hdr_eqb (fst a) (fst b) && chg_eqb (snd a) (snd b).

(* [is_prefix a b]: chain a is a prefix of chain b (a block = the history ending in it) *)
Fixpoint is_prefix (a b : list block) : bool :=
  match a, b with
  | [], _ => true
  | x :: a', y :: b' => block_eqb x y && is_prefix a' b'
  | _ :: _, [] => false
  end.

(* valid chain from store s at height tip: consecutive heights, both BFT rules of verifyBlock, no module error *)
Fixpoint run_valid (batch : nat) (s : store) (tip : N) (l : list block) : option store :=
  match l with
  | [] => Some s
  | x :: tl =>
    if (h_height (fst x) =? tip + 1) && bft_valid s (fst x)
    then match apply_block batch s x with Ok s' => run_valid batch s' (tip + 1) tl | Error _ => None end
    else None
  end.

Definition finalized (s : store) : N := v_mhpc (s_votes s).
(* the finalized part of a chain whose view reports precommitted height f *)
Definition finalized_prefix (gh : N) (K : list block) (f : N) : list block := firstn (N.to_nat (f - gh)) K.

Definition comparable (a b : list block) : bool := is_prefix a b || is_prefix b a.

(* all blocks (as prefixes) of a two-chain universe signed by generator g, as (header, identity = prefix) *)
Fixpoint prefixes (K : list block) : list (list block) :=
  match K with [] => [] | x :: tl => [x] :: map (cons x) (prefixes tl) end.
Definition last_hdr (P : list block) : option hdr := match rev P with x :: _ => Some (fst x) | [] => None end.
Fixpoint chain_eqb (a b : list block) : bool :=
  match a, b with [], [] => true | x :: a', y :: b' => block_eqb x y && chain_eqb a' b' | _, _ => false end.

Definition blocks_of (g : addr) (Ks : list (list block)) : list (hdr * list block) :=
  flat_map (fun K => flat_map (fun P => match last_hdr P with
                                         | Some h => if h_gen h =? g then [(h, P)] else []
                                         | None => [] end) (prefixes K)) Ks.
(* honest: any two DISTINCT blocks of the validator are non-contradicting *)
Definition honest_b (g : addr) (Ks : list (list block)) : bool :=
  let bs := blocks_of g Ks in
  forallb (fun x => forallb (fun y => chain_eqb (snd x) (snd y) || negb (contradicting (bh_of_hdr (fst x)) (bh_of_hdr (fst y)))) bs) bs.

Definition byz_weight (vals : list (addr * N)) (Ks : list (list block)) : N :=
  fold_right (fun v acc => if honest_b (fst v) Ks then acc else snd v + acc) 0 vals.

Definition static_chain (K : list block) : bool := forallb (fun x => match snd x with None => true | Some _ => false end) K.

(* result of examining a universe of two valid chains *)
Record verdict := { vd_valid : bool; vd_fin1 : N; vd_fin2 : N; vd_safe : bool; vd_hyp : bool (* 3*byz < W *) ; vd_static : bool }.

Definition examine (batch : nat) (gh : N) (c : pchange) (K1 K2 : list block) : verdict :=
  match init_store batch gh c with
  | Error _ => {| vd_valid := false; vd_fin1 := 0; vd_fin2 := 0; vd_safe := true; vd_hyp := false; vd_static := true |}
  | Ok s0 =>
    match run_valid batch s0 gh K1, run_valid batch s0 gh K2 with
    | Some s1, Some s2 =>
      let f1 := finalized s1 in let f2 := finalized s2 in
      {| vd_valid := true; vd_fin1 := f1; vd_fin2 := f2;
         vd_safe := comparable (finalized_prefix gh K1 f1) (finalized_prefix gh K2 f2);
         vd_hyp := 3 * byz_weight (c_vals c) [K1; K2] <? total_weight (c_vals c);
         vd_static := static_chain K1 && static_chain K2 |}
    | _, _ => {| vd_valid := false; vd_fin1 := 0; vd_fin2 := 0; vd_safe := true; vd_hyp := false; vd_static := true |}
    end
  end.

(* ------------------------------------------------------------------ blocks WITH IDENTITY (C01 round 4)
   A tagged block is (id, block): the id is opaque to every vote function (liskbft never sees it); block identity is the
   tagged history.  Two blocks with equal BFT tuples and different ids are DIFFERENT blocks; a generator that signs both is a
   double forger: equal tuples at equal height are contradicting, so [thonest_b] counts it as Byzantine. *)
Definition tblock_eqb (a b : N * block) : bool := (fst a =? fst b) && block_eqb (snd a) (snd b).
Fixpoint tis_prefix (a b : list (N * block)) : bool :=
  match a, b with
  | [], _ => true
  | x :: a', y :: b' => tblock_eqb x y && tis_prefix a' b'
  | _ :: _, [] => false
  end.
Fixpoint tchain_eqb (a b : list (N * block)) : bool :=
  match a, b with [], [] => true | x :: a', y :: b' => tblock_eqb x y && tchain_eqb a' b' | _, _ => false end.
Definition tcomparable (a b : list (N * block)) : bool := tis_prefix a b || tis_prefix b a.
Fixpoint tprefixes (K : list (N * block)) : list (list (N * block)) :=
  match K with [] => [] | x :: tl => [x] :: map (cons x) (tprefixes tl) end.
Definition tlast_hdr (P : list (N * block)) : option hdr := match rev P with x :: _ => Some (fst (snd x)) | [] => None end.
Definition tblocks_of (g : addr) (Ks : list (list (N * block))) : list (hdr * list (N * block)) :=
  flat_map (fun K => flat_map (fun P => match tlast_hdr P with
                                         | Some h => if h_gen h =? g then [(h, P)] else []
                                         | None => [] end) (tprefixes K)) Ks.
Definition thonest_b (g : addr) (Ks : list (list (N * block))) : bool :=
  let bs := tblocks_of g Ks in
  forallb (fun x => forallb (fun y => tchain_eqb (snd x) (snd y) || negb (contradicting (bh_of_hdr (fst x)) (bh_of_hdr (fst y)))) bs) bs.
Definition tbyz_weight (vals : list (addr * N)) (Ks : list (list (N * block))) : N :=
  fold_right (fun v acc => if thonest_b (fst v) Ks then acc else snd v + acc) 0 vals.
Definition tfinalized_prefix (gh : N) (K : list (N * block)) (f : N) : list (N * block) := firstn (N.to_nat (f - gh)) K.

Definition texamine (batch : nat) (gh : N) (c : pchange) (T1 T2 : list (N * block)) : verdict :=
  let K1 := map snd T1 in let K2 := map snd T2 in
  match init_store batch gh c with
  | Error _ => {| vd_valid := false; vd_fin1 := 0; vd_fin2 := 0; vd_safe := true; vd_hyp := false; vd_static := true |}
  | Ok s0 =>
    match run_valid batch s0 gh K1, run_valid batch s0 gh K2 with
    | Some s1, Some s2 =>
      let f1 := finalized s1 in let f2 := finalized s2 in
      {| vd_valid := true; vd_fin1 := f1; vd_fin2 := f2;
         vd_safe := tcomparable (tfinalized_prefix gh T1 f1) (tfinalized_prefix gh T2 f2);
         vd_hyp := 3 * tbyz_weight (c_vals c) [T1; T2] <? total_weight (c_vals c);
         vd_static := static_chain K1 && static_chain K2 |}
    | _, _ => {| vd_valid := false; vd_fin1 := 0; vd_fin2 := 0; vd_safe := true; vd_hyp := false; vd_static := true |}
    end
  end.
