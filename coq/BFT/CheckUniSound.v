(* Glue between the classification of Corr/C01.check_uni and the proved theorems: class 22 (VIOLATION) cannot be returned for a
   universe without parameter changes -- whatever the observations are.  (20/21/22 are only reached when check_hist = 0 on both
   chains, i.e. when the implementation's observations equal the model's; the oracle is then Universe.texamine on the model, to
   which SafetyOracleIds.texamine_safe_bound, i.e. C01_static_safety_ids, applies verbatim.)  Validator addresses distinct. *)
From Coq Require Import List NArith Bool Lia ZArith Arith.
From Coq Require Import ZifyBool ZifyN ZifyNat.
From LE Require Import Base.Corr BFT.Contradiction BFT.Votes BFT.VotesGhost BFT.SafetyIds BFT.Universe BFT.SafetyOracleIds Corr.C02 Corr.C01.
Import ListNotations.
Local Open Scope N_scope.

Lemma map_snd_combine : forall {A B} (l1 : list A) (l2 : list B), length l1 = length l2 -> map snd (combine l1 l2) = l2.
Proof. induction l1 as [|x l1 IH]; intros [|y l2] H; try discriminate; [reflexivity|]. cbn. f_equal. apply IH. cbn in H. lia. Qed.
Lemma static_fold : forall K c, static_chain K = true ->
  fold_left (fun acc x => match snd x with Some c' => c' | None => acc end) K c = c.
Proof.
  induction K as [|[b ch] K IH]; intros c H; [reflexivity|]. cbn [static_chain forallb snd] in H. destruct ch; [discriminate|].
  cbn [fold_left snd]. apply IH. exact H.
Qed.
Lemma static_firstn : forall n K, static_chain K = true -> static_chain (firstn n K) = true.
Proof.
  induction n as [|n IH]; intros [|x K] H; try reflexivity. cbn [static_chain forallb firstn] in *. apply andb_prop in H. destruct H as [H1 H2].
  rewrite H1. apply IH. exact H2.
Qed.
Lemma in_force_static : forall gh c K h, static_chain K = true -> in_force gh c K h = c.
Proof. intros gh c K h H. unfold in_force. apply static_fold. apply static_firstn. exact H. Qed.

Lemma texamine_static : forall batch gh c T1 T2, vd_valid (texamine batch gh c T1 T2) = true ->
  vd_static (texamine batch gh c T1 T2) = static_chain (map snd T1) && static_chain (map snd T2).
Proof.
  intros batch gh c T1 T2. unfold texamine. destruct (init_store batch gh c); [|discriminate].
  destruct (run_valid batch _ gh (map snd T1)); [|discriminate]. destruct (run_valid batch _ gh (map snd T2)); [|discriminate]. reflexivity.
Qed.

Theorem check_uni_static_not_22 :
  forall batch gh c common a b initok obsA obsB idsC idsA idsB,
  (0 < batch)%nat -> NoDup (map fst (c_vals c)) ->
  static_chain (common ++ a) = true -> static_chain (common ++ b) = true ->
  check_uni (batch, gh, c, common, a, b, initok, obsA, obsB, idsC, idsA, idsB) <> 22.
Proof.
  intros batch gh c common a b initok obsA obsB idsC idsA idsB Hb Hnd Sa Sb. unfold check_uni.
  destruct (Nat.eqb (length idsC) (length common) && Nat.eqb (length idsA) (length a) && Nat.eqb (length idsB) (length b)) eqn:El;
    cbn [negb]; [|discriminate].
  apply andb_prop in El. destruct El as [El Lb]. apply andb_prop in El. destruct El as [Lc La].
  apply Nat.eqb_eq in Lc, La, Lb.
  destruct ((2 <=? check_hist _) || (2 <=? check_hist _)); [discriminate|].
  destruct ((1 <=? check_hist _) || (1 <=? check_hist _)); [discriminate|].
  destruct (negb initok); [discriminate|].
  set (T1 := combine (idsC ++ idsA) (common ++ a)). set (T2 := combine (idsC ++ idsB) (common ++ b)).
  destruct (vd_valid (texamine batch gh c T1 T2)) eqn:Ev; cbn [negb]; [|discriminate].
  destruct (vd_safe (texamine batch gh c T1 T2)) eqn:Es; [discriminate|].
  assert (Sc : static_chain common = true).
  { unfold static_chain in *. rewrite forallb_app in Sa. apply andb_prop in Sa. tauto. }
  rewrite (in_force_static gh c common _ Sc).
  destruct (3 * tbyz_weight (c_vals c) [T1; T2] <? total_weight (c_vals c)) eqn:E3; cbn [negb]; [|discriminate].
  destruct (changed_below gh c c (common ++ a) _ _ || changed_below gh c c (common ++ b) _ _); [discriminate|].
  destruct (total_weight (c_vals c) * 2 / 3 + 1 + c_pc c <=? total_weight (c_vals c) + tbyz_weight (c_vals c) [T1; T2]) eqn:Eb; [discriminate|].
  exfalso.
  assert (M1 : map snd T1 = common ++ a) by (apply map_snd_combine; rewrite !app_length; congruence).
  assert (M2 : map snd T2 = common ++ b) by (apply map_snd_combine; rewrite !app_length; congruence).
  assert (Est : vd_static (texamine batch gh c T1 T2) = true) by (rewrite (texamine_static _ _ _ _ _ Ev), M1, M2, Sa, Sb; reflexivity).
  assert (Hbd : total_weight (c_vals c) + tbyz_weight (c_vals c) [T1; T2] < c_pc c + (total_weight (c_vals c) * 2 / 3 + 1)) by (clear - Eb; lia).
  pose proof (texamine_safe_bound batch Hb gh c T1 T2 Hnd Ev Est Hbd) as Hs. congruence.
Qed.
Print Assumptions check_uni_static_not_22.
