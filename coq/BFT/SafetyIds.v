(* C01 over blocks WITH IDENTITY.  In BFT/Votes.v a block is its BFT tuple (height, generator, maxHeightGenerated,
   maxHeightPrevoted, certificate height) plus an optional parameter change; two REAL blocks that differ only in their ID
   (payload) are the same model block, so the theorems of SafetyInst.v / SafetyDyn.v conclude agreement of BFT-content
   histories only, and a generator forging two blocks with equal tuples is not counted as misbehaving there.
   Here a block carries an opaque ID: a tagged chain is a list of (id, block); votes, views and quorums are those of the
   untagged chain (liskbft never sees the ID); a BLOCK is a non-empty tagged prefix; a validator is honest iff any two
   DISTINCT tagged blocks it generated anywhere in the universe carry non-contradicting headers -- equal tuples at equal
   height are contradicting, so a same-tuple double forger is Byzantine.  The abstract core (weak quorum intersection,
   SafetyDyn.v) is instantiated a second time on tagged prefixes: every witness produced by the ghost decomposition is a
   prefix of the viewing chain, and prefixes of a tagged chain correspond 1-1 to prefixes of its untagging.
   Conclusions are comparability / equality of histories INCLUDING the ids. *)
From Coq Require Import List NArith Bool Lia ZArith Arith.
From Coq Require Import ZifyBool ZifyN ZifyNat.
From LE Require Import BFT.Contradiction BFT.ContradictionProofs BFT.Votes BFT.VotesProofs BFT.Safety BFT.VotesGhost
                       BFT.SafetyInst BFT.VotesGhostDyn BFT.SafetyDyn.
Import ListNotations.
Local Open Scope N_scope.

Definition tblock : Type := (N * block)%type.
Definition tchain : Type := list tblock.
Definition untag (T : tchain) : chain := map snd T.
(* ID of the block a tagged prefix ends in *)
Definition tid (T : tchain) : N := fst (last T (0, (dhdr, None))).

Lemma tchain_eq_dec : forall a b : tchain, {a = b} + {a <> b}.
Proof.
  assert (Hb : forall x y : block, {x = y} + {x <> y}).
  { intros x y. destruct (block_eq_dec [x] [y]) as [E|E]; [left; injection E as ->; reflexivity|right; intros ->; apply E; reflexivity]. }
  assert (Ht : forall x y : tblock, {x = y} + {x <> y}) by (unfold tblock; decide equality; apply N.eq_dec).
  apply list_eq_dec. exact Ht.
Defined.
Lemma tprefix_dec : forall a b : tchain, {prefix a b} + {~ prefix a b}.
Proof.
  intros a b. destruct (tchain_eq_dec a (firstn (length a) b)) as [E|E].
  - left. rewrite E. apply firstn_prefix.
  - right. intros H. apply E. apply prefix_firstn. exact H.
Defined.

Lemma untag_length : forall T, length (untag T) = length T.
Proof. intros T. apply map_length. Qed.
Lemma untag_firstn : forall n T, untag (firstn n T) = firstn n (untag T).
Proof. intros n T. unfold untag. symmetry. apply firstn_map. Qed.
Lemma untag_prefix : forall A T, prefix A T -> prefix (untag A) (untag T).
Proof. intros A T [t ->]. exists (untag t). unfold untag. apply map_app. Qed.
Lemma untag_nil : forall T, untag T = [] -> T = [].
Proof. intros [|x T] H; [reflexivity|discriminate]. Qed.
Lemma untag_removelast : forall T, untag (removelast T) = removelast (untag T).
Proof.
  intros T. destruct T as [|x T]; [reflexivity|]. destruct (exists_last (l := x :: T)) as (T0 & y & ->); [discriminate|].
  rewrite removelast_last. unfold untag. rewrite map_app. cbn [map]. rewrite removelast_last. reflexivity.
Qed.
(* the tagged prefix of T lying over an untagged prefix X of untag T *)
Definition lift (T : tchain) (X : chain) : tchain := firstn (length X) T.
Lemma untag_lift : forall T X, prefix X (untag T) -> untag (lift T X) = X.
Proof. intros T X H. unfold lift. rewrite untag_firstn. symmetry. apply prefix_firstn. exact H. Qed.
Lemma lift_prefix : forall T X, prefix (lift T X) T.
Proof. intros. apply firstn_prefix. Qed.
Lemma lift_le : forall T X Y, (length X <= length Y)%nat -> prefix (lift T X) (lift T Y).
Proof. intros. apply firstn_prefix_le. assumption. Qed.
Lemma lift_untag : forall T A, prefix A T -> lift T (untag A) = A.
Proof. intros T A H. unfold lift. rewrite untag_length. symmetry. apply prefix_firstn. exact H. Qed.
Lemma lift_nonempty : forall T X, prefix X (untag T) -> X <> [] -> lift T X <> [].
Proof. intros T X H Hne E. apply Hne. rewrite <- (untag_lift T X H), E; try reflexivity. Qed.

(* any two DISTINCT tagged blocks of v anywhere in the universe carry non-contradicting headers *)
Definition thonest (TU : tchain -> Prop) (v : addr) : Prop :=
  forall T1 T2, TU T1 -> TU T2 -> T1 <> T2 -> genC (untag T1) = v -> genC (untag T2) = v ->
                contradicting (bh_of_hdr (lastH (untag T1))) (bh_of_hdr (lastH (untag T2))) = false.

(* hash collision-freeness: the ID of a block determines the block and its whole history *)
Definition ids_determine_history (TU : tchain -> Prop) : Prop :=
  forall T1 T2, TU T1 -> TU T2 -> tid T1 = tid T2 -> T1 = T2.
(* honesty read on IDs: any two blocks of v with different IDs carry non-contradicting headers *)
Definition thonest_ids (TU : tchain -> Prop) (v : addr) : Prop :=
  forall T1 T2, TU T1 -> TU T2 -> tid T1 <> tid T2 -> genC (untag T1) = v -> genC (untag T2) = v ->
                contradicting (bh_of_hdr (lastH (untag T1))) (bh_of_hdr (lastH (untag T2))) = false.
Lemma thonest_of_ids : forall TU v, ids_determine_history TU -> thonest_ids TU v -> thonest TU v.
Proof.
  intros TU v Hdet Hh T1 T2 U1 U2 Hne G1 G2. apply Hh; try assumption. intros E. apply Hne. apply Hdet; assumption.
Qed.

Lemma thonest_ids_of_thonest : forall TU v, thonest TU v -> thonest_ids TU v.
Proof. intros TU v Hh T1 T2 U1 U2 Hne G1 G2. apply Hh; try assumption. intros E. apply Hne. rewrite E. reflexivity. Qed.

Lemma linked_lift : forall (T : tchain) v A run,
  prefix A (untag T) -> (forall Q, In Q run -> prefix Q (untag T)) ->
  linked chain addr hgt mhgC genC (@prefix block) v A run ->
  linked tchain addr (fun X => hgt (untag X)) (fun X => mhgC (untag X)) (fun X => genC (untag X)) (@prefix tblock) v
         (lift T A) (map (lift T) run).
Proof.
  intros T v A run HA. induction run as [|P run IH]; intros Hrun Hl; [contradiction|].
  assert (HP : prefix P (untag T)) by (apply Hrun; left; reflexivity).
  destruct run as [|Q rest].
  - cbn [map]. cbn [linked] in Hl |- *. destruct Hl as (L1 & L2 & L3). rewrite !untag_lift by assumption.
    split; [exact L1|]. split; [apply lift_le; apply prefix_length; exact L2|exact L3].
  - apply linked_cons2 in Hl. destruct Hl as (L1 & L2 & L3 & L4 & L5).
    assert (HQ : prefix Q (untag T)) by (apply Hrun; right; left; reflexivity).
    change (map (lift T) (P :: Q :: rest)) with (lift T P :: map (lift T) (Q :: rest)).
    cbn [map] in IH |- *. apply linked_cons2. rewrite !untag_lift by assumption.
    split; [exact L1|]. split; [apply lift_le; apply prefix_length; exact L2|]. split; [exact L3|]. split; [exact L4|].
    apply IH; [intros Q0 H0; apply Hrun; right; exact H0|exact L5].
Qed.

(* ================================================================== instantiation on tagged chains *)
Section TaggedInst.
  Variable batch : nat.
  Hypothesis Hbatch : (0 < batch)%nat.
  Variable gh : N.
  Variable c : pchange.
  Variable s0 : store.
  Hypothesis Hinit : init_store batch gh c = Ok s0.

  Notation viewD := (viewD batch gh s0).
  Notation tipof := (VotesGhost.tipof gh).
  Notation blk := (VotesGhost.blk gh).

  Variable TU : tchain -> Prop.
  Hypothesis TU_valid : forall T, TU T -> T <> [] /\ validD batch gh s0 (untag T).
  Hypothesis TU_prefix : forall T T', TU T -> prefix T' T -> T' <> [] -> TU T'.

  Definition tblk (T : tchain) (h : N) : tchain := firstn (N.to_nat (h - gh)) T.

  (* quorum intersection on the model, for tagged universes: required whenever the two chains have different blocks
     (tuple OR id) at height a *)
  Definition TQI_model : Prop :=
    forall T1 T2 s1 s2 a d pa pd L1 L2,
      TU T1 -> TU T2 -> viewD (untag T1) = Some s1 -> viewD (untag T2) = Some s2 ->
      (exists e, In e (window s1) /\ i_height e = a) -> (exists e, In e (window s2) /\ i_height e = d) ->
      a <= d -> tblk T1 a <> tblk T2 a ->
      get_params (s_params s1) a = Ok pa -> get_params (s_params s2) d = Ok pd ->
      NoDup L1 -> NoDup L2 -> p_pc pa <= wsum (p_vals pa) L1 -> p_pv pd <= wsum (p_vals pd) L2 ->
      exists v, In v L1 /\ In v L2 /\ thonest TU v.
  Hypothesis HQI : TQI_model.

  Definition th (X : tchain) : N := hgt (untag X).
  Definition tmhg (X : tchain) : N := mhgC (untag X).
  Definition tmhp (X : tchain) : N := mhpC (untag X).
  Definition tgen (X : tchain) : addr := genC (untag X).

  Definition tquorum (sel : params -> N) (get : info -> N) (T D : tchain) : Prop :=
    prefix D T /\ qrmD batch gh s0 sel get (untag T) (th D).
  Definition tpv_quorum := tquorum p_pv i_pv.
  Definition tpc_quorum := tquorum p_pc i_pc.

  Lemma TU_view : forall T, TU T -> exists s, viewD (untag T) = Some s.
  Proof. intros T HT. destruct (TU_valid T HT) as [_ Hv]. unfold validD in Hv. destruct (viewD (untag T)) as [s|]; [eauto|congruence]. Qed.
  Lemma TU_h : forall T, TU T -> th T = gh + N.of_nat (length T).
  Proof.
    intros T HT. destruct (TU_view T HT) as [s Hs]. destruct (TU_valid T HT) as [Hne _]. unfold th.
    rewrite (valid_hgtD batch Hbatch gh c s0 Hinit _ s Hs); [unfold VotesGhost.tipof; rewrite untag_length; reflexivity|].
    intros E. apply Hne. apply untag_nil. exact E.
  Qed.
  Lemma tblk_id : forall A T, TU A -> prefix A T -> tblk T (th A) = A.
  Proof.
    intros A T HA H. unfold tblk. rewrite (TU_h A HA). replace (N.to_nat (gh + N.of_nat (length A) - gh)) with (length A) by lia.
    symmetry. apply prefix_firstn. exact H.
  Qed.

  Lemma tanc_height : forall a b, TU a -> TU b -> prefix a b -> th a <= th b.
  Proof. intros a b Ha Hb H. rewrite (TU_h a Ha), (TU_h b Hb). pose proof (prefix_length _ _ H). lia. Qed.
  Lemma tanc_same_height : forall a b, TU a -> TU b -> prefix a b -> th a = th b -> a = b.
  Proof. intros a b Ha Hb H E. rewrite (TU_h a Ha), (TU_h b Hb) in E. apply prefix_same_length; [exact H|lia]. Qed.

  Lemma thonest_noncontra : forall b1 b2, TU b1 -> TU b2 -> tgen b1 = tgen b2 -> thonest TU (tgen b1) -> b1 <> b2 ->
    before tchain th tmhg tmhp b1 b2 \/ before tchain th tmhg tmhp b2 b1.
  Proof.
    intros b1 b2 H1 H2 Hg Hh Hne. pose proof (Hh b1 b2 H1 H2 Hne eq_refl (eq_sym Hg)) as Hc.
    assert (Hl : legit_successor (bh_of_hdr (lastH (untag b1))) (bh_of_hdr (lastH (untag b2))) \/
                 legit_successor (bh_of_hdr (lastH (untag b2))) (bh_of_hdr (lastH (untag b1)))).
    { destruct (legit_successor_b (bh_of_hdr (lastH (untag b1))) (bh_of_hdr (lastH (untag b2)))) eqn:L1;
        [left; apply legit_successor_b_spec; exact L1|].
      destruct (legit_successor_b (bh_of_hdr (lastH (untag b2))) (bh_of_hdr (lastH (untag b1)))) eqn:L2;
        [right; apply legit_successor_b_spec; exact L2|].
      exfalso. assert (contradicting (bh_of_hdr (lastH (untag b1))) (bh_of_hdr (lastH (untag b2))) = true); [|congruence].
      apply contradicting_iff. split; [exact Hg|]. split; intros H; apply legit_successor_b_spec in H; congruence. }
    unfold before, th, tmhg, tmhp, hgt, mhgC, mhpC. unfold legit_successor, bh_of_hdr in Hl; cbn in Hl. destruct Hl as [Hl|Hl]; [left|right]; lia.
  Qed.

  (* an untagged non-empty prefix of untag T lifts to a block of the universe *)
  Lemma lift_TU : forall T X, TU T -> prefix X (untag T) -> X <> [] -> TU (lift T X).
  Proof. intros T X HT HX Hne. apply (TU_prefix T); [exact HT|apply lift_prefix|apply lift_nonempty; assumption]. Qed.

  (* ---- P1 *)
  Lemma tpv_quorum_voters : forall T D, TU T -> TU D -> tpv_quorum T D ->
    exists s e p L, viewD (untag T) = Some s /\ In e (window s) /\ i_height e = th D /\ get_params (s_params s) (th D) = Ok p /\
      NoDup L /\ p_pv p <= wsum (p_vals p) L /\
      forall v, In v L -> prevotes tchain addr TU th tmhg tgen (@prefix tblock) T D v.
  Proof.
    intros T D HT HD (HDT & s & e & Hv & He & Hh & (p & Hp & Hm)).
    pose proof (dinv_view batch Hbatch gh c s0 Hinit _ s Hv) as HC.
    destruct (di_pv _ _ _ _ _ HC e p He Hp) as (L & Hsum & Hnd & Hev). rewrite Hh in *.
    exists s, e, p, (map genC L). do 5 (split; [assumption|]). split; [lia|].
    intros v Hin. apply in_map_iff in Hin. destruct Hin as (X & HgX & HX). destruct (Hev X HX) as (X1 & X2 & X3).
    assert (UX : TU (lift T X)) by (apply lift_TU; assumption).
    exists (lift T X). split; [exact UX|]. unfold tgen, tmhg. rewrite (untag_lift T X X1). split; [exact HgX|]. split.
    - apply (prefix_of_le D (lift T X) T HDT (lift_prefix T X)). unfold lift. rewrite firstn_length.
      pose proof (prefix_length _ _ X1) as Hl. rewrite untag_length in Hl. rewrite (TU_h D HD) in X3. unfold VotesGhost.tipof in X3. lia.
    - split; [apply lift_prefix|]. rewrite (TU_h _ UX). unfold lift. rewrite firstn_length.
      pose proof (prefix_length _ _ X1) as Hl. rewrite untag_length in Hl. unfold VotesGhost.tipof in X3. lia.
  Qed.

  (* ---- P2 *)
  Lemma tpc_evidence : forall T A P, TU T -> TU A -> prefix A T -> prefix P (untag T) -> pc_evD batch gh s0 (th A) P ->
    precommits tchain addr TU th tmhg tmhp tgen (@prefix tblock) A (genC P) /\
    (exists T', TU T' /\ tpv_quorum T' A /\ prefix A T').
  Proof.
    intros T A P HT HA HAT HPT (Pne & Hmhp & Hq & rest & Hlk & Hrest).
    destruct (qrmD_heights batch Hbatch gh c s0 Hinit _ _ _ _ Hq) as [[Hlo Hhi] Hrne].
    assert (HRP : prefix (removelast P) P) by apply removelast_prefix.
    pose proof (prefix_length _ _ HRP) as HlRP. pose proof (prefix_length _ _ HPT) as HlP. rewrite untag_length in HlP.
    pose proof (TU_h A HA) as HhA. unfold VotesGhost.tipof in Hhi.
    assert (HuA : prefix (untag A) (untag T)) by (apply untag_prefix; exact HAT).
    assert (HAeq : blk P (th A) = untag A).
    { rewrite (blk_of_prefix batch Hbatch gh P (untag T) (th A) HPT) by (unfold VotesGhost.tipof; lia).
      unfold VotesGhost.blk. rewrite HhA. replace (N.to_nat (gh + N.of_nat (length A) - gh)) with (length (untag A)) by (rewrite untag_length; lia).
      symmetry. apply prefix_firstn. exact HuA. }
    rewrite HAeq in Hlk.
    assert (Hrun : forall Q, In Q (P :: rest) -> prefix Q (untag T)).
    { intros Q [<-|HQ]; [exact HPT|]. rewrite Forall_forall in Hrest. destruct (Hrest Q HQ) as [HQP _]. eapply prefix_trans; eauto. }
    pose proof (linked_lift T (genC P) (untag A) (P :: rest) HuA Hrun Hlk) as Hlk'.
    rewrite (lift_untag T A HAT) in Hlk'. cbn [map] in Hlk'.
    split.
    - exists (lift T P), (map (lift T) rest). split; [exact Hlk'|]. split; [unfold tmhp; rewrite (untag_lift T P HPT); exact Hmhp|].
      constructor; [apply lift_TU; assumption|]. rewrite Forall_forall in Hrest |- *. intros Q' HQ'. apply in_map_iff in HQ'.
      destruct HQ' as (Q & <- & HQ). destruct (Hrest Q HQ) as [HQP HQne]. apply lift_TU; [exact HT|apply Hrun; right; exact HQ|exact HQne].
    - assert (HRT : prefix (removelast P) (untag T)) by (eapply prefix_trans; eauto).
      exists (lift T (removelast P)). split; [apply lift_TU; assumption|]. split.
      + split.
        * apply (prefix_of_le A (lift T (removelast P)) T HAT (lift_prefix _ _)). unfold lift. rewrite firstn_length. lia.
        * rewrite (untag_lift T _ HRT). exact Hq.
      + apply (prefix_of_le A (lift T (removelast P)) T HAT (lift_prefix _ _)). unfold lift. rewrite firstn_length. lia.
  Qed.

  Lemma tpc_quorum_voters : forall T A, TU T -> TU A -> tpc_quorum T A ->
    exists s e p L, viewD (untag T) = Some s /\ In e (window s) /\ i_height e = th A /\ get_params (s_params s) (th A) = Ok p /\
      NoDup L /\ p_pc p <= wsum (p_vals p) L /\ 1 <= p_pc p /\
      forall v, In v L -> precommits tchain addr TU th tmhg tmhp tgen (@prefix tblock) A v /\
                          (exists T', TU T' /\ tpv_quorum T' A /\ prefix A T').
  Proof.
    intros T A HT HA (HAT & s & e & Hv & He & Hh & (p & Hp & Hm)).
    pose proof (dinv_view batch Hbatch gh c s0 Hinit _ s Hv) as HC.
    destruct (di_pc _ _ _ _ _ HC e p He Hp) as (L & Hsum & Hnd & Hev). rewrite Hh in *.
    destruct (get_params_in _ _ _ Hp) as (k & Hk). destruct (di_thr _ _ _ _ _ HC k p Hk) as [_ Hthr].
    exists s, e, p, (map genC L). do 5 (split; [assumption|]). split; [lia|]. split; [exact Hthr|].
    intros v Hin. apply in_map_iff in Hin. destruct Hin as (P & <- & HP). destruct (Hev P HP) as (HPT & Hpe & _).
    apply (tpc_evidence T A P HT HA HAT HPT Hpe).
  Qed.

  Lemma tQIw : forall T1 A T D, TU T1 -> TU A -> TU T -> TU D -> tpc_quorum T1 A -> tpv_quorum T D -> th A <= th D ->
    prefix D T -> ~ prefix A D ->
    exists v, thonest TU v /\ precommits tchain addr TU th tmhg tmhp tgen (@prefix tblock) A v /\
              prevotes tchain addr TU th tmhg tgen (@prefix tblock) T D v.
  Proof.
    intros T1 A T D HT1 HA HT HD Hpc Hpv Hle HDT Hno.
    pose proof (proj1 Hpc) as HAT1.
    destruct (tpc_quorum_voters T1 A HT1 HA Hpc) as (s1 & e1 & pa & L1 & V1 & I1 & H1 & P1 & N1 & S1 & _ & E1).
    destruct (tpv_quorum_voters T D HT HD Hpv) as (s2 & e2 & pd & L2 & V2 & I2 & H2 & P2 & N2 & S2 & E2).
    assert (Hoff : tblk T1 (th A) <> tblk T (th A)).
    { rewrite (tblk_id A T1 HA HAT1). intros HATp. apply Hno. rewrite HATp. rewrite <- (tblk_id D T HD HDT).
      unfold tblk. apply firstn_prefix_le. lia. }
    destruct (HQI T1 T s1 s2 (th A) (th D) pa pd L1 L2 HT1 HT V1 V2 (ex_intro _ e1 (conj I1 H1)) (ex_intro _ e2 (conj I2 H2))
                Hle Hoff P1 P2 N1 N2 S1 S2) as (v & M1 & M2 & Hh).
    exists v. split; [exact Hh|]. split; [apply (E1 v M1)|apply (E2 v M2)].
  Qed.

  (* ---- P3 *)
  Lemma tmhp_witness : forall X, TU X -> gh < tmhp X ->
    exists D T', TU D /\ TU T' /\ th D = tmhp X /\ prefix D T' /\ prefix T' X /\ th T' < th X /\ tpv_quorum T' D.
  Proof.
    intros X HX Hgt. destruct (TU_view X HX) as [s Hs]. destruct (TU_valid X HX) as [Xne _].
    assert (Xune : untag X <> []) by (intros E; apply Xne; apply untag_nil; exact E).
    destruct (valid_last_mhpD batch Hbatch gh s0 _ s Hs Xune) as (s' & Hs' & Hm). unfold tmhp in *.
    destruct (quorum_witnessD batch Hbatch gh c s0 Hinit _ _ Hs') as [Hw _]. rewrite <- Hm in Hw.
    destruct (Hw Hgt) as (Tu & HTu & Hq).
    destruct (qrmD_heights batch Hbatch gh c s0 Hinit _ _ _ _ Hq) as [Hr Tune].
    assert (HTuX : prefix Tu (untag X)) by (eapply prefix_trans; [exact HTu|apply removelast_prefix]).
    set (T' := lift X Tu). assert (UT' : TU T') by (apply lift_TU; assumption).
    assert (EuT' : untag T' = Tu) by (apply untag_lift; exact HTuX).
    destruct (TU_view T' UT') as [st Hst]. rewrite EuT' in Hst.
    destruct (blk_hgtD batch Hbatch gh c s0 Hinit Tu st (mhpC (untag X)) Hst Hr) as [HhD Dne].
    set (Du := blk Tu (mhpC (untag X))) in *.
    assert (HDuT : prefix Du (untag T')) by (rewrite EuT'; apply blk_prefix).
    set (D := lift T' Du). assert (UD : TU D) by (apply lift_TU; assumption).
    assert (EuD : untag D = Du) by (apply untag_lift; exact HDuT).
    exists D, T'. split; [exact UD|]. split; [exact UT'|]. split; [unfold th; rewrite EuD; exact HhD|].
    split; [apply lift_prefix|]. split; [apply lift_prefix|]. split.
    - rewrite (TU_h T' UT'), (TU_h X HX). unfold T', lift. rewrite firstn_length.
      pose proof (prefix_length _ _ HTu) as Hl. rewrite <- untag_removelast, untag_length in Hl.
      destruct (exists_last Xne) as (X0 & y & ->). rewrite removelast_last in Hl. rewrite app_length. cbn [length]. lia.
    - split; [apply lift_prefix|]. unfold th. rewrite EuD, EuT', HhD. exact Hq.
  Qed.

  Lemma tpc_needs_pv : forall T A, TU T -> TU A -> tpc_quorum T A -> exists T', TU T' /\ tpv_quorum T' A /\ prefix A T'.
  Proof.
    intros T A HT HA Hpc. destruct (tpc_quorum_voters T A HT HA Hpc) as (s & e & p & L & _ & _ & _ & _ & _ & S & Hthr & E).
    destruct L as [|v L]; [unfold wsum in S; cbn [fold_right] in S; lia|]. exact (proj2 (E v (or_introl eq_refl))).
  Qed.

  Theorem tquorums_on_one_chain : forall T1 A T2 A', TU T1 -> TU A -> TU T2 -> TU A' -> tpc_quorum T1 A -> tpc_quorum T2 A' ->
    gh < th A -> gh < th A' -> prefix A A' \/ prefix A' A.
  Proof.
    exact (finalized_blocks_on_one_chain_w tchain addr TU th tmhg tmhp tgen (@prefix tblock) (thonest TU) tchain_eq_dec tprefix_dec
             (@prefix_refl tblock) (@prefix_trans tblock) (@prefix_tree tblock) tanc_height tanc_same_height thonest_noncontra
             tpv_quorum tpc_quorum tQIw gh tmhp_witness tpc_needs_pv).
  Qed.

  Lemma tfinalized_has_quorum : forall K s, TU K -> viewD (untag K) = Some s -> gh < v_mhpc (s_votes s) ->
    exists T', TU T' /\ prefix T' K /\ TU (tblk K (v_mhpc (s_votes s))) /\ tpc_quorum T' (tblk K (v_mhpc (s_votes s))) /\
               th (tblk K (v_mhpc (s_votes s))) = v_mhpc (s_votes s).
  Proof.
    intros K s HK Hs Hgt. destruct (quorum_witnessD batch Hbatch gh c s0 Hinit _ s Hs) as [_ Hw].
    destruct (Hw Hgt) as (Tu & HTu & Hq).
    destruct (qrmD_heights batch Hbatch gh c s0 Hinit _ _ _ _ Hq) as [Hr Tune].
    set (T' := lift K Tu). assert (UT' : TU T') by (apply lift_TU; assumption).
    assert (EuT' : untag T' = Tu) by (apply untag_lift; exact HTu).
    pose proof (prefix_length _ _ HTu) as HlTu. rewrite untag_length in HlTu. unfold VotesGhost.tipof in Hr.
    set (m := v_mhpc (s_votes s)) in *.
    assert (Eb : tblk K m = tblk T' m).
    { unfold tblk, T', lift. rewrite firstn_firstn. f_equal. lia. }
    assert (HDT' : prefix (tblk K m) T') by (rewrite Eb; apply firstn_prefix).
    assert (Dne : tblk K m <> []).
    { unfold tblk. intros E. apply (f_equal (@length tblock)) in E. rewrite firstn_length in E. cbn [length] in E. lia. }
    assert (UD : TU (tblk K m)) by (apply (TU_prefix T' _ UT' HDT' Dne)).
    assert (HhD : th (tblk K m) = m).
    { rewrite (TU_h _ UD). unfold tblk. rewrite firstn_length. lia. }
    exists T'. split; [exact UT'|]. split; [apply lift_prefix|]. split; [exact UD|]. split; [|exact HhD].
    split; [exact HDT'|]. rewrite HhD, EuT'. exact Hq.
  Qed.

  Theorem tagged_safety : forall K1 K2 s1 s2 h1 h2, TU K1 -> TU K2 -> viewD (untag K1) = Some s1 -> viewD (untag K2) = Some s2 ->
    gh < h1 <= v_mhpc (s_votes s1) -> gh < h2 <= v_mhpc (s_votes s2) ->
    prefix (tblk K1 h1) (tblk K2 h2) \/ prefix (tblk K2 h2) (tblk K1 h1).
  Proof.
    intros K1 K2 s1 s2 h1 h2 U1 U2 V1 V2 R1 R2.
    destruct (tfinalized_has_quorum K1 s1 U1 V1 ltac:(lia)) as (T1 & UT1 & _ & UA1 & Q1 & E1).
    destruct (tfinalized_has_quorum K2 s2 U2 V2 ltac:(lia)) as (T2 & UT2 & _ & UA2 & Q2 & E2).
    set (A1 := tblk K1 (v_mhpc (s_votes s1))) in *. set (A2 := tblk K2 (v_mhpc (s_votes s2))) in *.
    assert (B1 : prefix (tblk K1 h1) A1) by (unfold A1, tblk; apply firstn_prefix_le; lia).
    assert (B2 : prefix (tblk K2 h2) A2) by (unfold A2, tblk; apply firstn_prefix_le; lia).
    destruct (tquorums_on_one_chain T1 A1 T2 A2 UT1 UA1 UT2 UA2 Q1 Q2 ltac:(lia) ltac:(lia)) as [H|H].
    - apply (prefix_tree _ _ A2); [eapply prefix_trans; eauto|exact B2].
    - apply (prefix_tree _ _ A1); [exact B1|eapply prefix_trans; eauto].
  Qed.
End TaggedInst.

(* ================================================================== statements for Properties/C01.v *)

(* a universe of blocks with identity: prefix-closed set of non-empty tagged chains whose untagging is valid *)
Definition tuniverseD_decl (batch : nat) (gh : N) (s0 : store) (TU : tchain -> Prop) : Prop :=
  (forall T, TU T -> T <> [] /\ validD_decl batch gh s0 (untag T)) /\
  (forall T T', TU T -> prefix T' T -> T' <> [] -> TU T').
Definition tuniverse_decl (batch : nat) (gh : N) (s0 : store) (TU : tchain -> Prop) : Prop :=
  (forall T, TU T -> T <> [] /\ valid_chain_decl batch gh s0 (untag T)) /\
  (forall T T', TU T -> prefix T' T -> T' <> [] -> TU T').

Definition TQI_model_decl (batch : nat) (gh : N) (s0 : store) (TU : tchain -> Prop) : Prop :=
  forall T1 T2 s1 s2 a d pa pd L1 L2,
    TU T1 -> TU T2 -> run_blocks batch s0 (untag T1) = Ok s1 -> run_blocks batch s0 (untag T2) = Ok s2 ->
    (exists e, In e (v_infos (s_votes s1)) /\ i_height e = a) -> (exists e, In e (v_infos (s_votes s2)) /\ i_height e = d) ->
    a <= d -> firstn (N.to_nat (a - gh)) T1 <> firstn (N.to_nat (a - gh)) T2 ->
    get_params (s_params s1) a = Ok pa -> get_params (s_params s2) d = Ok pd ->
    NoDup L1 -> NoDup L2 -> p_pc pa <= wsum (p_vals pa) L1 -> p_pv pd <= wsum (p_vals pd) L2 ->
    exists v, In v L1 /\ In v L2 /\ thonest TU v.

Lemma tuniverseD_to_view : forall batch gh c s0 TU, (0 < batch)%nat -> init_store batch gh c = Ok s0 ->
  tuniverseD_decl batch gh s0 TU ->
  (forall T, TU T -> T <> [] /\ validD batch gh s0 (untag T)) /\
  (forall T s, TU T -> run_blocks batch s0 (untag T) = Ok s -> viewD batch gh s0 (untag T) = Some s).
Proof.
  intros batch gh c s0 TU Hb Hi [HU1 HU2].
  assert (HV : forall T, TU T -> T <> [] /\ validD batch gh s0 (untag T)).
  { intros T HT. destruct (HU1 T HT) as [Hne Hv]. split; [exact Hne|]. apply (validD_spec batch Hb gh s0). exact Hv. }
  split; [exact HV|]. intros T s HT Hr. destruct (HV T HT) as [_ Hv]. unfold validD in Hv.
  destruct (viewD batch gh s0 (untag T)) as [s'|] eqn:E; [|congruence].
  pose proof (viewD_run_blocks batch Hb gh s0 _ s' E) as Hr'. rewrite Hr in Hr'. injection Hr' as ->. reflexivity.
Qed.

(* dynamic validator sets, blocks with identity; PARTIAL: the premise TQI_model_decl *)
Theorem C01_dynamic_safety_ids_partial : forall (batch : nat) (gh : N) (c : pchange) (s0 : store) (TU : tchain -> Prop),
  (0 < batch)%nat -> init_store batch gh c = Ok s0 ->
  tuniverseD_decl batch gh s0 TU ->
  TQI_model_decl batch gh s0 TU ->
  forall T1 T2 s1 s2 h1 h2, TU T1 -> TU T2 ->
    run_blocks batch s0 (untag T1) = Ok s1 -> run_blocks batch s0 (untag T2) = Ok s2 ->
    gh < h1 <= v_mhpc (s_votes s1) -> gh < h2 <= v_mhpc (s_votes s2) ->
    prefix (firstn (N.to_nat (h1 - gh)) T1) (firstn (N.to_nat (h2 - gh)) T2) \/
    prefix (firstn (N.to_nat (h2 - gh)) T2) (firstn (N.to_nat (h1 - gh)) T1).
Proof.
  intros batch gh c s0 TU Hb Hi HU HQ T1 T2 s1 s2 h1 h2 U1 U2 R1 R2 G1 G2.
  destruct (tuniverseD_to_view batch gh c s0 TU Hb Hi HU) as [HV Hview]. destruct HU as [_ HU2].
  assert (HQI : TQI_model batch gh s0 TU).
  { intros A1 A2 t1 t2 a d pa pd L1 L2 UA1 UA2 V1 V2 W1 W2 Hle Hoff P1 P2 N1 N2 S1 S2.
    apply (HQ A1 A2 t1 t2 a d pa pd L1 L2 UA1 UA2 (viewD_run_blocks batch Hb gh s0 _ t1 V1) (viewD_run_blocks batch Hb gh s0 _ t2 V2)
             W1 W2 Hle Hoff P1 P2 N1 N2 S1 S2). }
  exact (tagged_safety batch Hb gh c s0 Hi TU HV HU2 HQI T1 T2 s1 s2 h1 h2 U1 U2 (Hview T1 s1 U1 R1) (Hview T2 s2 U2 R2) G1 G2).
Qed.

Lemma valid_chain_decl_D : forall batch gh s0 K, valid_chain_decl batch gh s0 K -> validD_decl batch gh s0 K.
Proof. intros batch gh s0 K [H1 H2]. split; [|exact H2]. intros j x Hx. destruct (H1 j x Hx) as (_ & A & B). split; assumption. Qed.

(* in a static universe every view has the initial parameters in force everywhere *)
Lemma static_params : forall batch gh c s0 K s a pa, (0 < batch)%nat -> init_store batch gh c = Ok s0 ->
  valid_chain_decl batch gh s0 K -> run_blocks batch s0 K = Ok s -> get_params (s_params s) a = Ok pa -> pa = p0 c.
Proof.
  intros batch gh c s0 K s a pa Hb Hi Hv Hr Hp. apply (valid_chain_spec batch Hb gh s0) in Hv. unfold valid_chain in Hv.
  destruct (view batch gh s0 K) as [s'|] eqn:E; [|congruence].
  pose proof (view_run_blocks batch Hb gh s0 K s' E) as Hr'. rewrite Hr in Hr'. injection Hr' as ->.
  pose proof (cinv_view batch Hb gh c s0 Hi K s' E) as HC. rewrite (ci_params _ _ _ _ _ _ HC) in Hp.
  apply (get_ps0_ok batch Hb gh c) in Hp. tauto.
Qed.

Lemma static_TQI : forall batch gh c s0 TU byz, (0 < batch)%nat -> init_store batch gh c = Ok s0 ->
  tuniverse_decl batch gh s0 TU ->
  (forall v, In v (map fst (c_vals c)) -> ~ In v byz -> thonest TU v) ->
  total_weight (sort_desc (c_vals c)) + wsum (sort_desc (c_vals c)) byz < c_pc c + (total_weight (c_vals c) * 2 / 3 + 1) ->
  TQI_model_decl batch gh s0 TU.
Proof.
  intros batch gh c s0 TU byz Hb Hi [HU1 _] Hh Hbound T1 T2 s1 s2 a d pa pd L1 L2 U1 U2 R1 R2 _ _ _ _ P1 P2 N1 N2 S1 S2.
  pose proof (static_params batch gh c s0 _ s1 a pa Hb Hi (proj2 (HU1 T1 U1)) R1 P1) as ->.
  pose proof (static_params batch gh c s0 _ s2 d pd Hb Hi (proj2 (HU1 T2 U2)) R2 P2) as ->.
  change (p_vals (p0 c)) with (sort_desc (c_vals c)) in S1, S2. change (p_pc (p0 c)) with (c_pc c) in S1.
  change (p_pv (p0 c)) with (total_weight (c_vals c) * 2 / 3 + 1) in S2.
  destruct (quorum_intersection (sort_desc (c_vals c)) (filter (isval (sort_desc (c_vals c))) L1) (filter (isval (sort_desc (c_vals c))) L2)
              byz (c_pc c) (total_weight (c_vals c) * 2 / 3 + 1) (NoDup_filter _ N1) (NoDup_filter _ N2)) as (v & H1 & H2 & Hnb);
    [rewrite wsum_filter_isval; exact S1|rewrite wsum_filter_isval; exact S2|exact Hbound|].
  apply filter_In in H1. apply filter_In in H2. destruct H1 as [H1 Hval], H2 as [H2 _].
  exists v. split; [exact H1|]. split; [exact H2|]. apply Hh; [|exact Hnb].
  unfold isval in Hval. destruct (find_weight (sort_desc (c_vals c)) v) as [w|] eqn:Ew; [|discriminate].
  apply (validator_of_sorted (c_vals c) v w Ew).
Qed.

Lemma tuniverse_decl_D : forall batch gh s0 TU, tuniverse_decl batch gh s0 TU -> tuniverseD_decl batch gh s0 TU.
Proof. intros batch gh s0 TU [H1 H2]. split; [|exact H2]. intros T HT. destruct (H1 T HT) as [A B]. split; [exact A|apply valid_chain_decl_D; exact B]. Qed.

(* C01 for a static validator set over blocks with identity: every non-byz validator's DISTINCT blocks (distinct as
   identified histories) carry non-contradicting headers; prevoteThr + precommitThr > W + f.  The finalized histories of any
   two views, INCLUDING THE IDS, are comparable. *)
Theorem C01_static_safety_ids : forall (batch : nat) (gh : N) (c : pchange) (s0 : store) (TU : tchain -> Prop) (byz : list addr),
  (0 < batch)%nat -> init_store batch gh c = Ok s0 ->
  tuniverse_decl batch gh s0 TU ->
  (forall v, In v (map fst (c_vals c)) -> ~ In v byz -> thonest TU v) ->
  total_weight (sort_desc (c_vals c)) + wsum (sort_desc (c_vals c)) byz < c_pc c + (total_weight (c_vals c) * 2 / 3 + 1) ->
  forall T1 T2 s1 s2 h1 h2, TU T1 -> TU T2 ->
    run_blocks batch s0 (untag T1) = Ok s1 -> run_blocks batch s0 (untag T2) = Ok s2 ->
    gh < h1 <= v_mhpc (s_votes s1) -> gh < h2 <= v_mhpc (s_votes s2) ->
    prefix (firstn (N.to_nat (h1 - gh)) T1) (firstn (N.to_nat (h2 - gh)) T2) \/
    prefix (firstn (N.to_nat (h2 - gh)) T2) (firstn (N.to_nat (h1 - gh)) T1).
Proof.
  intros batch gh c s0 TU byz Hb Hi HU Hh Hw.
  apply (C01_dynamic_safety_ids_partial batch gh c s0 TU Hb Hi (tuniverse_decl_D _ _ _ _ HU)).
  exact (static_TQI batch gh c s0 TU byz Hb Hi HU Hh Hw).
Qed.

Theorem C01_static_safety_ids_one_third : forall (batch : nat) (gh : N) (c : pchange) (s0 : store) (TU : tchain -> Prop) (byz : list addr),
  (0 < batch)%nat -> init_store batch gh c = Ok s0 ->
  tuniverse_decl batch gh s0 TU ->
  (forall v, In v (map fst (c_vals c)) -> ~ In v byz -> thonest TU v) ->
  3 * wsum (sort_desc (c_vals c)) byz < total_weight (c_vals c) ->
  total_weight (c_vals c) * 2 / 3 + 1 <= c_pc c ->
  forall T1 T2 s1 s2 h1 h2, TU T1 -> TU T2 ->
    run_blocks batch s0 (untag T1) = Ok s1 -> run_blocks batch s0 (untag T2) = Ok s2 ->
    gh < h1 <= v_mhpc (s_votes s1) -> gh < h2 <= v_mhpc (s_votes s2) ->
    prefix (firstn (N.to_nat (h1 - gh)) T1) (firstn (N.to_nat (h2 - gh)) T2) \/
    prefix (firstn (N.to_nat (h2 - gh)) T2) (firstn (N.to_nat (h1 - gh)) T1).
Proof.
  intros batch gh c s0 TU byz Hb Hi HU Hh Hf Hpc. apply (C01_static_safety_ids batch gh c s0 TU byz Hb Hi HU Hh).
  rewrite total_weight_sort. lia.
Qed.

Lemma run_blocks_mhpc_le : forall batch gh c s0 K s, (0 < batch)%nat -> init_store batch gh c = Ok s0 ->
  validD_decl batch gh s0 K -> run_blocks batch s0 K = Ok s -> v_mhpc (s_votes s) <= gh + N.of_nat (length K).
Proof.
  intros batch gh c s0 K s Hb Hi Hv Hr. apply (validD_spec batch Hb gh s0) in Hv. unfold validD in Hv.
  destruct (viewD batch gh s0 K) as [s'|] eqn:E; [|congruence].
  pose proof (viewD_run_blocks batch Hb gh s0 K s' E) as Hr'. rewrite Hr in Hr'. injection Hr' as ->.
  destruct (mhpc_le_tipD batch Hb gh c s0 Hi K s' E) as [H _]. exact H.
Qed.

(* no two views finalize different blocks -- different ids included -- at the same height *)
Theorem C01_static_same_height_same_block_ids : forall (batch : nat) (gh : N) (c : pchange) (s0 : store) (TU : tchain -> Prop) (byz : list addr),
  (0 < batch)%nat -> init_store batch gh c = Ok s0 ->
  tuniverse_decl batch gh s0 TU ->
  (forall v, In v (map fst (c_vals c)) -> ~ In v byz -> thonest TU v) ->
  total_weight (sort_desc (c_vals c)) + wsum (sort_desc (c_vals c)) byz < c_pc c + (total_weight (c_vals c) * 2 / 3 + 1) ->
  forall T1 T2 s1 s2 h, TU T1 -> TU T2 ->
    run_blocks batch s0 (untag T1) = Ok s1 -> run_blocks batch s0 (untag T2) = Ok s2 ->
    gh < h -> h <= v_mhpc (s_votes s1) -> h <= v_mhpc (s_votes s2) ->
    firstn (N.to_nat (h - gh)) T1 = firstn (N.to_nat (h - gh)) T2 /\
    nth_error T1 (N.to_nat (h - gh - 1)) = nth_error T2 (N.to_nat (h - gh - 1)).
Proof.
  intros batch gh c s0 TU byz Hb Hi HU Hh Hw T1 T2 s1 s2 h U1 U2 R1 R2 G B1 B2.
  pose proof (tuniverse_decl_D _ _ _ _ HU) as [HD _].
  pose proof (run_blocks_mhpc_le batch gh c s0 _ s1 Hb Hi (proj2 (HD T1 U1)) R1) as L1. rewrite untag_length in L1.
  pose proof (run_blocks_mhpc_le batch gh c s0 _ s2 Hb Hi (proj2 (HD T2 U2)) R2) as L2. rewrite untag_length in L2.
  assert (E : firstn (N.to_nat (h - gh)) T1 = firstn (N.to_nat (h - gh)) T2).
  { destruct (C01_static_safety_ids batch gh c s0 TU byz Hb Hi HU Hh Hw T1 T2 s1 s2 h h U1 U2 R1 R2 ltac:(lia) ltac:(lia)) as [H|H].
    - apply prefix_same_length; [exact H|]. rewrite !firstn_length. lia.
    - symmetry. apply prefix_same_length; [exact H|]. rewrite !firstn_length. lia. }
  split; [exact E|].
  assert (N1 : forall T : tchain, nth_error (firstn (N.to_nat (h - gh)) T) (N.to_nat (h - gh - 1)) = nth_error T (N.to_nat (h - gh - 1))).
  { intros T. replace (N.to_nat (h - gh)) with (S (N.to_nat (h - gh - 1))) by lia. generalize (N.to_nat (h - gh - 1)). intros k. revert T.
    induction k as [|k IH]; intros [|x T]; try reflexivity. cbn [firstn nth_error]. apply (IH T). }
  rewrite <- (N1 T1), <- (N1 T2), E. reflexivity.
Qed.

(* honesty read on IDs, under hash collision-freeness (the ID of a block determines its history) *)
Theorem C01_static_safety_by_ids : forall (batch : nat) (gh : N) (c : pchange) (s0 : store) (TU : tchain -> Prop) (byz : list addr),
  (0 < batch)%nat -> init_store batch gh c = Ok s0 ->
  tuniverse_decl batch gh s0 TU -> ids_determine_history TU ->
  (forall v, In v (map fst (c_vals c)) -> ~ In v byz -> thonest_ids TU v) ->
  total_weight (sort_desc (c_vals c)) + wsum (sort_desc (c_vals c)) byz < c_pc c + (total_weight (c_vals c) * 2 / 3 + 1) ->
  forall T1 T2 s1 s2 h1 h2, TU T1 -> TU T2 ->
    run_blocks batch s0 (untag T1) = Ok s1 -> run_blocks batch s0 (untag T2) = Ok s2 ->
    gh < h1 <= v_mhpc (s_votes s1) -> gh < h2 <= v_mhpc (s_votes s2) ->
    prefix (firstn (N.to_nat (h1 - gh)) T1) (firstn (N.to_nat (h2 - gh)) T2) \/
    prefix (firstn (N.to_nat (h2 - gh)) T2) (firstn (N.to_nat (h1 - gh)) T1).
Proof.
  intros batch gh c s0 TU byz Hb Hi HU Hdet Hh Hw. apply (C01_static_safety_ids batch gh c s0 TU byz Hb Hi HU); [|exact Hw].
  intros v Hv Hn. apply thonest_of_ids; [exact Hdet|apply Hh; assumption].
Qed.

Print Assumptions C01_dynamic_safety_ids_partial.
Print Assumptions C01_static_safety_ids.
Print Assumptions C01_static_same_height_same_block_ids.
Print Assumptions C01_static_safety_by_ids.

(* ------------------------------------------------------------------ parameter changes below the fork, blocks with identity *)
(* tagged chains K1 and K2 both reach height f and have different blocks (tuple OR id) there *)
Definition tdiffer_at (gh : N) (T1 T2 : tchain) (f : N) : Prop :=
  f <= gh + N.of_nat (length T1) /\ f <= gh + N.of_nat (length T2) /\
  firstn (N.to_nat (f - gh)) T1 <> firstn (N.to_nat (f - gh)) T2.

Definition tfork_params (batch : nat) (gh : N) (s0 : store) (TU : tchain -> Prop) (vstar : list (addr * N)) (pcstar pvstar : N) : Prop :=
  forall T1 T2 s1 a pa f, TU T1 -> TU T2 -> run_blocks batch s0 (untag T1) = Ok s1 ->
    (exists e, In e (v_infos (s_votes s1)) /\ i_height e = a) ->
    f <= a -> tdiffer_at gh T1 T2 f ->
    get_params (s_params s1) a = Ok pa ->
    p_vals pa = vstar /\ p_pc pa = pcstar /\ p_pv pa = pvstar.

Lemma tfork_params_QI :
  forall (batch : nat) (gh : N) (c : pchange) (s0 : store) (TU : tchain -> Prop)
         (vstar : list (addr * N)) (pcstar pvstar : N) (byz : list addr),
  (0 < batch)%nat -> init_store batch gh c = Ok s0 ->
  tuniverseD_decl batch gh s0 TU ->
  tfork_params batch gh s0 TU vstar pcstar pvstar ->
  (forall v, In v (map fst vstar) -> ~ In v byz -> thonest TU v) ->
  total_weight vstar + wsum vstar byz < pcstar + pvstar ->
  TQI_model_decl batch gh s0 TU.
Proof.
  intros batch gh c s0 TU vstar pcstar pvstar byz Hb Hi HU HF Hh Hbound.
  destruct (tuniverseD_to_view batch gh c s0 TU Hb Hi HU) as [HV Hview].
  intros K1 K2 s1 s2 a d pa pd L1 L2 U1 U2 R1 R2 W1 W2 Hle Hoff P1 P2 N1 N2 S1 S2.
  pose proof (Hview K1 s1 U1 R1) as V1. pose proof (Hview K2 s2 U2 R2) as V2.
  destruct W1 as (e1 & I1 & E1). destruct W2 as (e2 & I2 & E2).
  pose proof (window_heightsD batch Hb gh c s0 Hi _ s1 e1 V1 I1) as Hr1.
  pose proof (window_heightsD batch Hb gh c s0 Hi _ s2 e2 V2 I2) as Hr2. rewrite E1 in Hr1. rewrite E2 in Hr2.
  unfold VotesGhost.tipof in Hr1, Hr2. rewrite untag_length in Hr1, Hr2.
  assert (D1 : tdiffer_at gh K1 K2 a) by (split; [lia|split; [lia|exact Hoff]]).
  assert (D2 : tdiffer_at gh K2 K1 a) by (split; [lia|split; [lia|intros E; apply Hoff; symmetry; exact E]]).
  destruct (HF K1 K2 s1 a pa a U1 U2 R1 (ex_intro _ e1 (conj I1 E1)) ltac:(lia) D1 P1) as (A1 & A2 & A3).
  destruct (HF K2 K1 s2 d pd a U2 U1 R2 (ex_intro _ e2 (conj I2 E2)) Hle D2 P2) as (B1 & B2 & B3).
  rewrite A1, A2 in S1. rewrite B1, B3 in S2.
  destruct (quorum_intersection vstar (filter (isval vstar) L1) (filter (isval vstar) L2) byz pcstar pvstar
              (NoDup_filter _ N1) (NoDup_filter _ N2)) as (v & H1 & H2 & Hnb);
    [rewrite wsum_filter_isval; exact S1|rewrite wsum_filter_isval; exact S2|exact Hbound|].
  apply filter_In in H1. apply filter_In in H2. destruct H1 as [H1 Hval], H2 as [H2 _].
  exists v. split; [exact H1|]. split; [exact H2|]. apply Hh; [|exact Hnb].
  unfold isval in Hval. destruct (find_weight vstar v) as [w|] eqn:Ew; [|discriminate].
  apply (find_weight_some_in vstar v w Ew).
Qed.

(* parameter changes are harmless, also over blocks with identity, as long as every window height at or above a height where
   two chains of the universe differ (tuple or id) is governed by one validator list / thresholds satisfying the static bound *)
Theorem C01_dynamic_safety_ids_fork_params_partial :
  forall (batch : nat) (gh : N) (c : pchange) (s0 : store) (TU : tchain -> Prop)
         (vstar : list (addr * N)) (pcstar pvstar : N) (byz : list addr),
  (0 < batch)%nat -> init_store batch gh c = Ok s0 ->
  tuniverseD_decl batch gh s0 TU ->
  tfork_params batch gh s0 TU vstar pcstar pvstar ->
  (forall v, In v (map fst vstar) -> ~ In v byz -> thonest TU v) ->
  total_weight vstar + wsum vstar byz < pcstar + pvstar ->
  forall T1 T2 s1 s2 h1 h2, TU T1 -> TU T2 ->
    run_blocks batch s0 (untag T1) = Ok s1 -> run_blocks batch s0 (untag T2) = Ok s2 ->
    gh < h1 <= v_mhpc (s_votes s1) -> gh < h2 <= v_mhpc (s_votes s2) ->
    prefix (firstn (N.to_nat (h1 - gh)) T1) (firstn (N.to_nat (h2 - gh)) T2) \/
    prefix (firstn (N.to_nat (h2 - gh)) T2) (firstn (N.to_nat (h1 - gh)) T1).
Proof.
  intros batch gh c s0 TU vstar pcstar pvstar byz Hb Hi HU HF Hh Hbound.
  apply (C01_dynamic_safety_ids_partial batch gh c s0 TU Hb Hi HU).
  exact (tfork_params_QI batch gh c s0 TU vstar pcstar pvstar byz Hb Hi HU HF Hh Hbound).
Qed.
Print Assumptions C01_dynamic_safety_ids_fork_params_partial.
