(* Link between C01_static_safety_ids_one_third and the EXECUTABLE oracle over blocks with identity [Universe.texamine]
   (used by Corr/C01.v): on every universe of two valid static tagged chains whose hypothesis flag holds (3 * Byzantine
   weight < W, Byzantine = two DISTINCT identified blocks of the validator carry contradicting headers -- a same-tuple /
   different-id double forger included) and whose precommit threshold is at least floor(2W/3)+1, the verdict [vd_safe]
   (comparability of the finalized histories INCLUDING ids) is true.  Validator addresses pairwise distinct. *)
From Coq Require Import List NArith Bool Lia ZArith Arith.
From Coq Require Import ZifyBool ZifyN ZifyNat.
From LE Require Import BFT.Contradiction BFT.Votes BFT.VotesProofs BFT.Safety BFT.VotesGhost BFT.SafetyInst BFT.VotesGhostDyn BFT.SafetyDyn
                       BFT.SafetyIds BFT.Universe BFT.SafetyOracle.
Import ListNotations.
Local Open Scope N_scope.

Lemma tblock_eqb_eq : forall a b, tblock_eqb a b = true -> a = b.
Proof.
  intros [i x] [j y] H. unfold tblock_eqb in H. cbn [fst snd] in H. apply andb_prop in H. destruct H as [H1 H2].
  apply N.eqb_eq in H1. apply block_eqb_eq in H2. subst. reflexivity.
Qed.
Lemma tblock_eqb_refl : forall a, tblock_eqb a a = true.
Proof. intros a. unfold tblock_eqb. rewrite N.eqb_refl, block_eqb_refl. reflexivity. Qed.
Lemma tchain_eqb_eq : forall a b, tchain_eqb a b = true -> a = b.
Proof.
  induction a as [|x a IH]; intros [|y b] H; cbn in H; try discriminate; [reflexivity|].
  apply andb_prop in H. destruct H as [H1 H2]. apply tblock_eqb_eq in H1. apply IH in H2. subst. reflexivity.
Qed.
Lemma tis_prefix_complete : forall a b : tchain, prefix a b -> tis_prefix a b = true.
Proof. intros a b [t ->]. induction a as [|x a IH]; [reflexivity|]. cbn. rewrite tblock_eqb_refl, IH. reflexivity. Qed.
Lemma in_tprefixes : forall (K P : tchain), P <> [] -> prefix P K -> In P (tprefixes K).
Proof.
  induction K as [|x K IH]; intros P Hne [t Ht].
  - destruct P; [congruence|discriminate].
  - destruct P as [|y P]; [congruence|]. cbn [app] in Ht. injection Ht as <- Ht. cbn [tprefixes].
    destruct P as [|z P]; [left; reflexivity|]. right. apply in_map. apply IH; [discriminate|exists t; exact Ht].
Qed.
Lemma tlast_hdr_lastH : forall P : tchain, P <> [] -> tlast_hdr P = Some (lastH (untag P)).
Proof.
  intros P Hne. destruct (exists_last Hne) as (P0 & y & ->). unfold tlast_hdr. rewrite rev_app_distr. cbn.
  unfold untag. rewrite map_app. cbn [map]. rewrite lastH_snoc. reflexivity.
Qed.

Section OracleIds.
  Variable batch : nat.
  Hypothesis Hbatch : (0 < batch)%nat.
  Variable gh : N.
  Variable c : pchange.
  Variable T1 T2 : tchain.
  Hypothesis Hnodup : NoDup (map fst (c_vals c)).

  Definition TUo (P : tchain) : Prop := P <> [] /\ (prefix P T1 \/ prefix P T2).

  Lemma thonest_b_thonest : forall v, thonest_b v [T1; T2] = true -> thonest TUo v.
  Proof.
    intros v Hb P1 P2 [N1 H1] [N2 H2] Hne G1 G2. unfold thonest_b in Hb. rewrite forallb_forall in Hb.
    assert (Hin : forall P, P <> [] -> (prefix P T1 \/ prefix P T2) -> genC (untag P) = v -> In (lastH (untag P), P) (tblocks_of v [T1; T2])).
    { intros P Pne HP HG. unfold tblocks_of. apply in_flat_map.
      destruct HP as [HP|HP]; [exists T1|exists T2]; (split; [cbn; tauto|]); apply in_flat_map; exists P;
        (split; [apply in_tprefixes; assumption|]); rewrite (tlast_hdr_lastH P Pne); unfold genC in HG; rewrite HG, N.eqb_refl; left; reflexivity. }
    specialize (Hb _ (Hin P1 N1 H1 G1)). rewrite forallb_forall in Hb. specialize (Hb _ (Hin P2 N2 H2 G2)). cbn [fst snd] in Hb.
    destruct (tchain_eqb P1 P2) eqn:E; [apply tchain_eqb_eq in E; contradiction|]. cbn [orb] in Hb. apply negb_true_iff in Hb. exact Hb.
  Qed.

  Definition tbyz_list : list addr := map fst (filter (fun v => negb (thonest_b (fst v) [T1; T2])) (c_vals c)).
  Lemma tbyz_weight_wsum : wsum (sort_desc (c_vals c)) tbyz_list = tbyz_weight (c_vals c) [T1; T2].
  Proof.
    unfold tbyz_list, tbyz_weight.
    assert (G : forall l, (forall x, In x l -> In x (c_vals c)) ->
              wsum (sort_desc (c_vals c)) (map fst (filter (fun v => negb (thonest_b (fst v) [T1; T2])) l)) =
              fold_right (fun v acc => if thonest_b (fst v) [T1; T2] then acc else snd v + acc) 0 l).
    { induction l as [|[a w] l IH]; intros Hsub; [reflexivity|]. cbn [filter fold_right fst snd].
      specialize (IH (fun x Hx => Hsub x (or_intror Hx))).
      destruct (thonest_b a [T1; T2]); cbn [negb]; [exact IH|]. cbn [map fst]. rewrite wsum_cons, IH. f_equal.
      unfold weight. rewrite (find_weight_nodup (sort_desc (c_vals c)) a w (nodup_sort_desc _ Hnodup)); [reflexivity|].
      apply in_sort_desc. apply Hsub. left; reflexivity. }
    apply G. auto.
  Qed.
  Lemma in_tbyz_list : forall v, In v (map fst (c_vals c)) -> ~ In v tbyz_list -> thonest_b v [T1; T2] = true.
  Proof.
    intros v Hv Hn. destruct (thonest_b v [T1; T2]) eqn:E; [reflexivity|]. exfalso. apply Hn.
    apply in_map_iff in Hv. destruct Hv as ([a w] & <- & Hin). unfold tbyz_list. apply in_map_iff. exists (a, w).
    split; [reflexivity|]. apply filter_In. split; [exact Hin|]. cbn [fst] in *. rewrite E. reflexivity.
  Qed.

  (* general bound: prevoteThr + precommitThr > W + f with f the oracle's Byzantine weight *)
  Theorem texamine_safe_bound :
    let v := texamine batch gh c T1 T2 in
    vd_valid v = true -> vd_static v = true ->
    total_weight (c_vals c) + tbyz_weight (c_vals c) [T1; T2] < c_pc c + (total_weight (c_vals c) * 2 / 3 + 1) ->
    vd_safe v = true.
  Proof.
    cbv zeta. unfold texamine. fold (untag T1) (untag T2). destruct (init_store batch gh c) as [s0|e] eqn:Hinit; [|discriminate].
    destruct (run_valid batch s0 gh (untag T1)) as [s1|] eqn:R1; [|discriminate].
    destruct (run_valid batch s0 gh (untag T2)) as [s2|] eqn:R2; [|discriminate].
    cbn [vd_valid vd_static vd_hyp vd_safe]. intros _ Hst Hbound.
    apply andb_prop in Hst. destruct Hst as [St1 St2].
    rewrite (run_valid_vrun batch _ s0 gh St1) in R1. rewrite (run_valid_vrun batch _ s0 gh St2) in R2.
    change (view batch gh s0 (untag T1) = Some s1) in R1. change (view batch gh s0 (untag T2) = Some s2) in R2.
    unfold tcomparable, tfinalized_prefix, finalized.
    destruct (init_shape batch Hbatch gh c s0 Hinit) as (_ & _ & _ & Hg0 & _).
    destruct (N.le_gt_cases (v_mhpc (s_votes s1)) gh) as [L1|G1].
    { replace (N.to_nat (v_mhpc (s_votes s1) - gh)) with 0%nat by lia. reflexivity. }
    destruct (N.le_gt_cases (v_mhpc (s_votes s2)) gh) as [L2|G2].
    { replace (N.to_nat (v_mhpc (s_votes s2) - gh)) with 0%nat by lia. cbn [firstn tis_prefix]. apply orb_true_r. }
    assert (N1 : T1 <> []) by (intros E; rewrite E in R1; unfold view, untag in R1; cbn in R1; injection R1 as E1; rewrite <- E1 in G1; lia).
    assert (N2 : T2 <> []) by (intros E; rewrite E in R2; unfold view, untag in R2; cbn in R2; injection R2 as E2; rewrite <- E2 in G2; lia).
    assert (HU : tuniverse_decl batch gh s0 TUo).
    { split.
      - intros K [Hne HK]. split; [exact Hne|]. apply (valid_chain_spec batch Hbatch gh s0). unfold valid_chain.
        destruct HK as [H|H]; apply untag_prefix in H;
          [destruct (view_prefix batch Hbatch gh s0 _ _ s1 R1 H) as (s' & ->)|destruct (view_prefix batch Hbatch gh s0 _ _ s2 R2 H) as (s' & ->)];
          discriminate.
      - intros K K' [_ HK] HP Hne. split; [exact Hne|]. destruct HK as [H|H]; [left|right]; eapply prefix_trans; eauto. }
    assert (Hh : forall v, In v (map fst (c_vals c)) -> ~ In v tbyz_list -> thonest TUo v).
    { intros v Hv Hn. apply thonest_b_thonest. apply in_tbyz_list; assumption. }
    assert (Hf : total_weight (sort_desc (c_vals c)) + wsum (sort_desc (c_vals c)) tbyz_list < c_pc c + (total_weight (c_vals c) * 2 / 3 + 1))
      by (rewrite tbyz_weight_wsum, total_weight_sort; exact Hbound).
    destruct (C01_static_safety_ids batch gh c s0 TUo tbyz_list Hbatch Hinit HU Hh Hf T1 T2 s1 s2
                (v_mhpc (s_votes s1)) (v_mhpc (s_votes s2))
                (conj N1 (or_introl (prefix_refl T1))) (conj N2 (or_intror (prefix_refl T2)))
                (view_run_blocks batch Hbatch gh s0 _ s1 R1) (view_run_blocks batch Hbatch gh s0 _ s2 R2) ltac:(lia) ltac:(lia)) as [H|H].
    - apply orb_true_iff. left. exact (tis_prefix_complete _ _ H).
    - apply orb_true_iff. right. exact (tis_prefix_complete _ _ H).
  Qed.

  Theorem texamine_safe :
    let v := texamine batch gh c T1 T2 in
    vd_valid v = true -> vd_static v = true -> vd_hyp v = true ->
    total_weight (c_vals c) * 2 / 3 + 1 <= c_pc c ->
    vd_safe v = true.
  Proof.
    cbv zeta. intros Hv Hs Hh Hpc. apply texamine_safe_bound; [exact Hv|exact Hs|].
    assert (Hh' : 3 * tbyz_weight (c_vals c) [T1; T2] < total_weight (c_vals c)).
    { revert Hh Hv. unfold texamine. destruct (init_store batch gh c); [|discriminate].
      destruct (run_valid batch _ gh (map snd T1)); [|discriminate]. destruct (run_valid batch _ gh (map snd T2)); [|discriminate].
      cbn [vd_hyp]. intros H _. apply N.ltb_lt. exact H. }
    lia.
  Qed.
End OracleIds.
Print Assumptions texamine_safe.

(* non-vacuity: SafetyIdsExamples' universe with the same-tuple / different-id double forge *)
From LE Require Import BFT.SafetyIdsExamples.
Example texamine_safe_premises :
  let v := texamine 4 0 Example.ex_c TA TB in
  vd_valid v = true /\ vd_static v = true /\ vd_hyp v = true /\
  total_weight (c_vals Example.ex_c) * 2 / 3 + 1 <= c_pc Example.ex_c /\
  NoDup (map fst (c_vals Example.ex_c)) /\ vd_fin1 v = 5 /\ tbyz_weight (c_vals Example.ex_c) [TA; TB] = 1 /\
  (* the identity-free oracle does not see the forger *) byz_weight (c_vals Example.ex_c) [untag TA; untag TB] = 0.
Proof.
  cbv zeta. split; [vm_compute; reflexivity|]. split; [vm_compute; reflexivity|]. split; [vm_compute; reflexivity|].
  split; [vm_compute; discriminate|]. split; [repeat constructor; cbn; lia|]. split; [|split]; vm_compute; reflexivity.
Qed.
