(* Generator-keys store of pkg/consensus/liskbft (api.go SetGeneratorKeys/GetGeneratorKeys, util.go getGeneratorKeys /
   deleteGeneratorKeys, validator.go Generators.AtTimestamp) and convert.go. Kept separate from BFT/Votes.v: the only
   coupling is the height at which keys are set (tip+1) and the pruning bound computed by BeforeTransactionsExecute. *)
From Coq Require Import List NArith Bool.
Import ListNotations.
Local Open Scope N_scope.

Section KStore.
  Context {A : Type}.
  Definition kstore := list (N * A).   (* ascending by height *)

  Fixpoint klookup (ks : kstore) (h : N) (best : option A) : option A :=
    match ks with
    | [] => best
    | (k, a) :: tl => if k <=? h then klookup tl h (Some a) else best
    end.
  Fixpoint kinsert (ks : kstore) (k : N) (a : A) : kstore :=
    match ks with
    | [] => [(k, a)]
    | (k', a') :: tl => if k <? k' then (k, a) :: ks else if k =? k' then (k, a) :: tl else (k', a') :: kinsert tl k a
    end.
  (* deleteGeneratorKeys: among keys <= h keep only the largest *)
  Definition kprune (ks : kstore) (h : N) : kstore :=
    let le := filter (fun kp => fst kp <=? h) ks in
    let gt := filter (fun kp => negb (fst kp <=? h)) ks in
    match rev le with
    | [] => ks
    | lastle :: _ => lastle :: gt
    end.
End KStore.

Definition generators := list (N * N).   (* (address, generator key code) *)

(* Generators.AtTimestamp: slot mod len; the Go code indexes an empty list (panic) when there are no generators *)
Definition generator_at (gens : generators) (slot : N) : option (N * N) :=
  match gens with
  | [] => None
  | _ => nth_error gens (N.to_nat (slot mod N.of_nat (length gens)))
  end.

(* convert.go: labi validator = (address, generator key, bft weight, bls key code) *)
Definition labi_validator : Type := N * N * N * N.
Definition bft_validators_of (l : list labi_validator) : list (N * N * N) :=
  map (fun v => let '(a, _, w, b) := v in (a, w, b)) (filter (fun v => let '(_, _, w, _) := v in 0 <? w) l).
Definition generators_of (l : list labi_validator) : generators := map (fun v => let '(a, g, _, _) := v in (a, g)) l.
Fixpoint find_bft (vs : list (N * N * N)) (a : N) : option (N * N) :=
  match vs with [] => None | (x, w, b) :: tl => if x =? a then Some (w, b) else find_bft tl a end.
(* GetLabiValidators: one entry per generator; weight/BLS key of the first BFT validator with that address, else 0 / empty *)
Definition labi_of (vs : list (N * N * N)) (gens : generators) (empty_bls : N) : list labi_validator :=
  map (fun g => match find_bft vs (fst g) with
                | Some (w, b) => (fst g, snd g, w, b)
                | None => (fst g, snd g, 0, empty_bls)
                end) gens.
