(* C01: the full-strength statement ("all weight vectors, thresholds as accepted by SetBFTParameters, validator-set
   changes") is FALSE of the faithful model — and of the real module (findings/C01-*.json replay both on the Go code).
   Witnesses by evaluation. *)
From Coq Require Import List NArith Bool.
From LE Require Import BFT.Contradiction BFT.Votes BFT.Universe.
Import ListNotations.
Local Open Scope N_scope.

(* build a chain from (height, maxHeightGenerated, generator, optional change); every header carries the node's own
   maxHeightPrevoted, as block verification demands *)
Fixpoint fill (batch : nat) (s : store) (l : list (N * N * addr * option pchange)) : list block :=
  match l with
  | [] => []
  | (h, mg, g, chg) :: tl =>
    let b := ({| h_height := h; h_gen := g; h_mhg := mg; h_mhp := v_mhp (s_votes s); h_cert := None |}, chg) in
    match apply_block batch s b with
    | Ok s' => b :: fill batch s' tl
    | Error _ => []
    end
  end.
Definition chain_of (batch : nat) (gh : N) (c : pchange) (l : list (N * N * addr * option pchange)) : list block :=
  match init_store batch gh c with Ok s0 => fill batch s0 l | Error _ => [] end.
Definition plain (l : list (N * N * addr)) : list (N * N * addr * option pchange) := map (fun x => (x, None)) l.

Definition V4 : list (addr * N) := [(1, 1); (2, 1); (3, 1); (4, 1)].

(* 1. precommit threshold floor(W/3)+1 = 2 (accepted by SetBFTParameters), 4 unit validators, validator 4 Byzantine *)
Definition low_c : pchange := {| c_pc := 2; c_cert := 2; c_vals := V4 |}.
Definition low_common : list (N * N * addr) := [(1, 0, 2); (2, 0, 3); (3, 0, 4); (4, 0, 1)].
Definition low_K1 := chain_of 4 0 low_c (plain (low_common ++ [(5, 4, 1); (6, 1, 2); (7, 3, 4); (8, 5, 1); (9, 7, 4)])).
Definition low_K2 := chain_of 4 0 low_c (plain (low_common ++ [(5, 3, 4); (6, 2, 3); (7, 6, 2); (8, 6, 3); (9, 5, 4); (10, 8, 3); (11, 9, 4)])).

(* the witness: both chains valid, static validator set, Byzantine weight 1 of 4 (< 1/3), yet the finalized prefixes
   (heights 5 and 7) are not on one chain: different blocks at height 5 *)
Lemma refuted_low_precommit_threshold :
  let v := examine 4 0 low_c low_K1 low_K2 in
  vd_valid v = true /\ vd_static v = true /\ vd_hyp v = true /\ vd_fin1 v = 5 /\ vd_fin2 v = 7 /\ vd_safe v = false /\
  honest_b 1 [low_K1; low_K2] = true /\ honest_b 2 [low_K1; low_K2] = true /\ honest_b 3 [low_K1; low_K2] = true.
Proof. vm_compute. repeat split; reflexivity. Qed.

(* 2. fork-dependent validator-set change, default thresholds 3 of 4: block 5' on chain 2 announces the disjoint set
   {5,6,7,8}; the old validators finalize on chain 1, the new ones on chain 2. Validator 4 (generator of 5') is the only one
   signing on both sides of the fork. *)
Definition chg_c : pchange := {| c_pc := 3; c_cert := 3; c_vals := V4 |}.
Definition chg_common : list (N * N * addr) := [(1, 0, 1); (2, 0, 2); (3, 0, 3); (4, 0, 4)].
Definition chg_K1 := chain_of 4 0 chg_c (plain (chg_common ++ [(5, 1, 1); (6, 2, 2); (7, 3, 3); (8, 4, 4); (9, 5, 1); (10, 6, 2); (11, 7, 3)])).
Definition chg_K2 := chain_of 4 0 chg_c (plain chg_common ++
   [((5, 4, 4), Some {| c_pc := 3; c_cert := 3; c_vals := [(5, 1); (6, 1); (7, 1); (8, 1)] |})] ++
   plain [(6, 0, 5); (7, 0, 6); (8, 0, 7); (9, 0, 8); (10, 6, 5); (11, 7, 6); (12, 8, 7)]).

Lemma refuted_validator_change :
  let v := examine 4 0 chg_c chg_K1 chg_K2 in
  vd_valid v = true /\ vd_static v = false /\ vd_hyp v = true /\ vd_fin1 v = 6 /\ vd_fin2 v = 7 /\ vd_safe v = false /\
  forallb (fun g => honest_b g [chg_K1; chg_K2]) [1; 2; 3; 5; 6; 7; 8] = true.
Proof. vm_compute. repeat split; reflexivity. Qed.
