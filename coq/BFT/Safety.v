(* Abstract core of Lisk-BFT finality safety (property C01), ported from notes/c01_abstract_safety_probe.v.txt.
   Heights are N.  Everything is relativised to a universe predicate [inU] on blocks, so that the theory can be
   instantiated with "block = history (list of headers)" without dependent types: all hypotheses only talk about
   blocks of the universe, and every block produced by an existential hypothesis is again in the universe.
   The whole development is a Section: the final theorems carry every hypothesis explicitly. *)
From Coq Require Import List NArith Lia ZArith Arith.
From Coq Require Import ZifyBool ZifyN ZifyNat.
Import ListNotations.
Local Open Scope N_scope.

Section AbstractSafety.
  Variable block validator : Type.
  Variable inU : block -> Prop.
  Variable height mhg mhp : block -> N.
  Variable gen : block -> validator.
  Variable anc : block -> block -> Prop.   (* ancestor-or-equal *)
  Variable honest : validator -> Prop.
  Hypothesis block_eq_dec : forall a b : block, {a = b} + {a <> b}.

  Hypothesis anc_refl : forall a, anc a a.
  Hypothesis anc_trans : forall a b c, anc a b -> anc b c -> anc a c.
  Hypothesis anc_tree : forall a b c, anc a c -> anc b c -> anc a b \/ anc b a.
  Hypothesis anc_height : forall a b, inU a -> inU b -> anc a b -> height a <= height b.
  Hypothesis anc_same_height : forall a b, inU a -> inU b -> anc a b -> height a = height b -> a = b.

  Definition conflict a b := ~ anc a b /\ ~ anc b a.

  (* what non-contradiction of two distinct headers of one honest generator gives *)
  Definition before (E L : block) := height E <= mhg L /\ mhp E <= mhp L.
  Hypothesis honest_noncontra :
    forall b1 b2, inU b1 -> inU b2 -> gen b1 = gen b2 -> honest (gen b1) -> b1 <> b2 -> before b1 b2 \/ before b2 b1.

  Variable pv_quorum pc_quorum : block -> block -> Prop.   (* tip, target *)

  (* validator [v] has a block X on T's chain, at or above D, whose prevotes reach D *)
  Definition prevotes (T D : block) (v : validator) :=
    exists X, inU X /\ gen X = v /\ anc D X /\ anc X T /\ mhg X < height D <= height X.

  (* run of own blocks P0 (newest) .. Pk, linked through maxHeightGenerated, all on A's chain at or above A, the oldest
     one with maxHeightGenerated below A *)
  Fixpoint linked (v : validator) (A : block) (run : list block) : Prop :=
    match run with
    | [] => False
    | [P] => gen P = v /\ anc A P /\ mhg P < height A
    | P :: ((Q :: _) as rest) =>
        gen P = v /\ anc A P /\ mhg P < height P /\ height Q = mhg P /\ linked v A rest
    end.

  Definition precommits (A : block) (v : validator) :=
    exists P0 rest, linked v A (P0 :: rest) /\ height A <= mhp P0 /\ Forall inU (P0 :: rest).

  (* quorum intersection *)
  Hypothesis QI : forall T1 A T D,
      inU T1 -> inU A -> inU T -> inU D ->
      pc_quorum T1 A -> pv_quorum T D -> height A <= height D -> anc D T ->
      exists v, honest v /\ precommits A v /\ prevotes T D v.

  (* maxHeightPrevoted carried by a header is witnessed by an earlier quorum on its chain *)
  Variable genesis_height : N.
  Hypothesis mhp_witness : forall X, inU X -> genesis_height < mhp X ->
      exists D T', inU D /\ inU T' /\ height D = mhp X /\ anc D T' /\ anc T' X /\ height T' < height X /\ pv_quorum T' D.

  Lemma linked_order : forall v A run X',
      linked v A run -> Forall inU run -> inU X' ->
      gen X' = v -> honest v ->
      (forall P, In P run -> P <> X') ->
      forall P0, hd_error run = Some P0 ->
      (* X' is not before the oldest and not in between => X' is after P0 *)
      (height A <= height X') -> mhg X' < height X' ->
      before P0 X'.
  Proof.
    intros v A run X' Hl HU HUX Hg Hh.
    induction run as [|P rest IH]; intros Hne P0 Hhd Ha Hvote; [discriminate|].
    simpl in Hhd. inversion Hhd; subst P0. clear Hhd.
    inversion HU as [|? ? HUP HUrest]; subst.
    destruct rest as [|Q rest'].
    - simpl in Hl. destruct Hl as (HgP & HancP & HmP).
      assert (Hnc : before P X' \/ before X' P).
      { apply honest_noncontra; [exact HUP|exact HUX|congruence | rewrite HgP; exact Hh | apply Hne; left; reflexivity]. }
      destruct Hnc as [Hb|Hb]; [exact Hb|].
      destruct Hb as [Hb _]. lia.
    - simpl in Hl. destruct Hl as (HgP & HancP & HmP & HQ & Hrest).
      assert (Hnc : before P X' \/ before X' P).
      { apply honest_noncontra; [exact HUP|exact HUX|congruence | rewrite HgP; exact Hh | apply Hne; left; reflexivity]. }
      destruct Hnc as [Hb|Hb]; [exact Hb|].
      assert (HQX : before Q X').
      { apply IH; auto.
        intros P' Hin. apply Hne. right; exact Hin. }
      destruct Hb as [Hb _]. destruct HQX as [HQX _]. lia.
  Qed.

  Lemma linked_all_anc : forall v A run P, linked v A run -> In P run -> anc A P /\ gen P = v.
  Proof.
    intros v A run. induction run as [|P0 rest IH]; intros P Hl Hin; [contradiction|].
    destruct rest as [|Q rest'].
    - simpl in Hl. destruct Hin as [<-|[]]. tauto.
    - simpl in Hl. destruct Hl as (Hg & Ha & _ & _ & Hr).
      destruct Hin as [<-|Hin]; [tauto|]. apply IH; auto.
  Qed.

  (* if A has a precommit quorum (in any view), every block D of height >= height A that has a prevote quorum in any
     view lies on A's chain *)
  Theorem no_conflicting_quorum :
    forall T1 A, inU T1 -> inU A -> pc_quorum T1 A -> genesis_height < height A ->
    forall (n : nat) T D, inU T -> inU D -> (N.to_nat (height T) <= n)%nat ->
                  pv_quorum T D -> anc D T -> height A <= height D ->
                  anc A D.
  Proof.
    intros T1 A HUT1 HUA Hpc Hgen n.
    induction n as [n IHn] using lt_wf_ind.
    intros T D HUT HUD HT Hpv HDT Hle.
    destruct (QI T1 A T D HUT1 HUA HUT HUD Hpc Hpv Hle HDT)
      as (v & Hh & (P0 & rest & Hlink & HmhpP0 & HUrun) & (X' & HUX & HgX & HDX & HXT & Hrange)).
    destruct (In_dec block_eq_dec X' (P0 :: rest)) as [Hin|Hnin].
    - destruct (linked_all_anc _ _ _ _ Hlink Hin) as [HAX _].
      destruct (anc_tree A D X' HAX HDX) as [H|H]; [exact H|].
      pose proof (anc_height _ _ HUD HUA H). assert (D = A) by (apply anc_same_height; auto; lia). subst; apply anc_refl.
    - assert (Hb : before P0 X').
      { eapply linked_order with (run := P0 :: rest); eauto.
        - intros P HP Heq. subst. contradiction.
        - lia.
        - lia. }
      destruct Hb as [_ Hmhp].
      assert (Hbig : genesis_height < mhp X') by lia.
      destruct (mhp_witness X' HUX Hbig) as (D2 & T2 & HUD2 & HUT2 & HhD2 & HD2T2 & HT2X & HltT2 & Hpv2).
      assert (HAD2 : anc A D2).
      { apply (IHn (N.to_nat (height T2))) with (T := T2); auto.
        - pose proof (anc_height _ _ HUX HUT HXT). lia.
        - lia. }
      assert (HAX : anc A X') by (eapply anc_trans; [exact HAD2|eapply anc_trans; eauto]).
      destruct (anc_tree A D X' HAX HDX) as [H|H]; [exact H|].
      pose proof (anc_height _ _ HUD HUA H). assert (D = A) by (apply anc_same_height; auto; lia). subst; apply anc_refl.
  Qed.

  (* a precommit quorum can only exist for a block that had a prevote quorum on its chain *)
  Hypothesis pc_needs_pv : forall T A, inU T -> inU A -> pc_quorum T A -> exists T', inU T' /\ pv_quorum T' A /\ anc A T'.

  Theorem finalized_blocks_on_one_chain :
    forall T1 A T2 A', inU T1 -> inU A -> inU T2 -> inU A' -> pc_quorum T1 A -> pc_quorum T2 A' ->
      genesis_height < height A -> genesis_height < height A' ->
      anc A A' \/ anc A' A.
  Proof.
    intros T1 A T2 A' U1 UA U2 UA' H1 H2 G1 G2.
    destruct (N.le_ge_cases (height A) (height A')) as [Hle|Hge].
    - left. destruct (pc_needs_pv _ _ U2 UA' H2) as (T' & UT' & Hpv & Hanc).
      eapply (no_conflicting_quorum T1 A U1 UA H1 G1 (N.to_nat (height T')) T' A'); auto.
    - right. destruct (pc_needs_pv _ _ U1 UA H1) as (T' & UT' & Hpv & Hanc).
      eapply (no_conflicting_quorum T2 A' U2 UA' H2 G2 (N.to_nat (height T')) T' A); auto.
  Qed.
End AbstractSafety.
