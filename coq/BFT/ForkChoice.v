(* Model of pkg/consensus/forkchoice/fork_choice.go and of the dispatch order of
   Executer.process (pkg/consensus/execute.go).  IDs are opaque N; timestamps are uint32
   seconds; receive times enter as inputs (seconds, [None] = block came from sync). *)
From Coq Require Import List NArith Bool.
Import ListNotations.
Local Open Scope N_scope.

Record fh := { f_id : N; f_prev : N; f_height : N; f_mhp : N; f_gen : N; f_ts : N }.

(* validator.BlockSlot.GetSlotNumber: (ts - genesis) / interval computed on uint32 with wrap. *)
Definition u32 (x : N) : N := x mod 4294967296.
Record slotcfg := { genesis_ts : N; interval : N }.
Definition slot_number (c : slotcfg) (ts : N) : N :=
  u32 (ts + 4294967296 - genesis_ts c) / interval c.

Definition is_valid_block (last cur : fh) : bool :=
  (u32 (f_height last + 1) =? f_height cur) && (f_id last =? f_prev cur).
Definition is_identical (last cur : fh) : bool := f_id last =? f_id cur.
Definition is_duplicate (last cur : fh) : bool :=
  (f_height last =? f_height cur) && (f_mhp last =? f_mhp cur) && (f_prev last =? f_prev cur).
Definition is_double_forging (last cur : fh) : bool :=
  is_duplicate last cur && (f_gen last =? f_gen cur).
Definition recv_last_in_slot (c : slotcfg) (last : fh) (t_last : option N) : bool :=
  match t_last with None => true | Some t => slot_number c (u32 t) =? slot_number c (f_ts last) end.
Definition recv_cur_in_slot (c : slotcfg) (cur : fh) (t_cur : N) : bool :=
  slot_number c (u32 t_cur) =? slot_number c (f_ts cur).
Definition is_tie_break (c : slotcfg) (last cur : fh) (t_last : option N) (t_cur : N) : bool :=
  is_duplicate last cur && (slot_number c (f_ts last) <? slot_number c (f_ts cur))
  && negb (recv_last_in_slot c last t_last) && recv_cur_in_slot c cur t_cur.
Definition is_different_chain_raw (lmhp cmhp lh ch : N) : bool :=
  (lmhp <? cmhp) || ((lh <? ch) && (lmhp =? cmhp)).
Definition is_different_chain (last cur : fh) : bool :=
  is_different_chain_raw (f_mhp last) (f_mhp cur) (f_height last) (f_height cur).

Inductive fc_case := ValidBlock | Identical | DoubleForging | TieBreak | DifferentChain | Discard.

(* evaluation order of Executer.process *)
Definition classify (c : slotcfg) (last cur : fh) (t_last : option N) (t_cur : N) : fc_case :=
  if is_identical last cur then Identical else
  if is_valid_block last cur then ValidBlock else
  if is_double_forging last cur then DoubleForging else
  if is_tie_break c last cur t_last t_cur then TieBreak else
  if is_different_chain last cur then DifferentChain else Discard.

(* LIP-0014 as an ORDER-FREE specification: each case with its complete condition (including what must NOT hold), written on the
   header fields and slot numbers only; [spec_cases] is the list of all cases whose condition holds.  The theorem
   [spec_cases_singleton] (ForkChoiceProofs.v) shows that exactly one case applies and that it is the one the evaluation order
   of Executer.process selects, so the order of the tests is immaterial.
     identical        same block ID
     valid block      extends the tip: height = tip height + 1 (uint32) and previousBlockID = tip ID
     double forging   same height, maxHeightPrevoted and previous block, SAME generator
     tie break        same height, maxHeightPrevoted and previous block, DIFFERENT generator, the tip's slot is earlier than the
                      block's slot, the tip was not received within its own slot, the block was received within its own slot
     different chain  (maxHeightPrevoted, height) of the block is lexicographically larger than the tip's
     discard          none of the above *)
Definition spec_conditions (c : slotcfg) (last cur : fh) (t_last : option N) (t_cur : N) : list (fc_case * bool) :=
  let same := f_id last =? f_id cur in
  let extends := (f_height cur =? u32 (f_height last + 1)) && (f_prev cur =? f_id last) in
  let dup := (f_height last =? f_height cur) && (f_mhp last =? f_mhp cur) && (f_prev last =? f_prev cur) in
  let samegen := f_gen last =? f_gen cur in
  let tip_slot_earlier := slot_number c (f_ts last) <? slot_number c (f_ts cur) in
  let tip_in_slot := match t_last with None => true | Some t => slot_number c (u32 t) =? slot_number c (f_ts last) end in
  let cur_in_slot := slot_number c (u32 t_cur) =? slot_number c (f_ts cur) in
  let tie := dup && negb samegen && tip_slot_earlier && negb tip_in_slot && cur_in_slot in
  let better := (f_mhp last <? f_mhp cur) || ((f_mhp last =? f_mhp cur) && (f_height last <? f_height cur)) in
  let fresh := negb same && negb extends in
  [ (Identical, same);
    (ValidBlock, negb same && extends);
    (DoubleForging, fresh && dup && samegen);
    (TieBreak, fresh && tie);
    (DifferentChain, fresh && better);
    (Discard, fresh && negb (dup && samegen) && negb tie && negb better) ].
Definition spec_cases (c : slotcfg) (last cur : fh) (t_last : option N) (t_cur : N) : list fc_case :=
  map fst (filter snd (spec_conditions c last cur t_last t_cur)).

(* API.HeaderHasPriority (version-2 header with fields (hm, hh)) and Executer.Synced (hm = the node's maxHeightPrevoted,
   hh = tip height): the header/tip has priority over a chain with (height, mhp) iff (mhp, height) is lexicographically smaller *)
Definition has_priority (hm hh height mhp : N) : bool := (mhp <? hm) || ((mhp =? hm) && (height <? hh)).
(* version-0 (genesis) header of height hh *)
Definition has_priority_v0 (hh height mhp : N) : bool := (height <=? hh) && (mhp <=? hh).

(* dispatch in a given order of predicate tests (the order is regenerated from Executer.process, coq/Gen/ForkOrder.v) *)
Definition holds (c : slotcfg) (last cur : fh) (tl : option N) (tc : N) (k : fc_case) : bool :=
  match k with
  | Identical => is_identical last cur
  | ValidBlock => is_valid_block last cur
  | DoubleForging => is_double_forging last cur
  | TieBreak => is_tie_break c last cur tl tc
  | DifferentChain => is_different_chain last cur
  | Discard => true
  end.
Fixpoint dispatch (order : list fc_case) (c : slotcfg) (last cur : fh) (tl : option N) (tc : N) : fc_case :=
  match order with
  | [] => Discard
  | k :: rest => if holds c last cur tl tc k then k else dispatch rest c last cur tl tc
  end.
