(* The "always flagged" clause needs the candidate to be a NEXT header (height = tip + 1): IsHeaderContradictingChain compares
   only with the generator's newest windowed header, so a header at or below the tip that double-forges against an OLDER
   windowed header while being a legitimate predecessor of the newest one is not reported.  Block verification only ever
   asks about candidates of height tip + 1 (the height rule is checked first), which is the case C07_window_complete covers. *)
From Coq Require Import List NArith Bool Lia.
From LE Require Import BFT.Contradiction BFT.Votes BFT.VotesProofs.
Import ListNotations.
Local Open Scope N_scope.

Fixpoint chain_ok (batch : nat) (s : store) (tip : N) (K : list block) : bool :=
  match K with
  | [] => true
  | x :: tl => (h_height (fst x) =? tip + 1) && bft_valid s (fst x) &&
               match apply_block batch s x with Ok s1 => chain_ok batch s1 (tip + 1) tl | Error _ => false end
  end.

Lemma run_vgood : forall batch K s tip s', (0 < batch)%nat -> vgood tip s -> chain_ok batch s tip K = true ->
  run_blocks batch s K = Ok s' -> vgood (tip + N.of_nat (length K)) s'.
Proof.
  intros batch K. induction K as [|x tl IH]; intros s tip s' Hb Hg Hok Hrun.
  - cbn in *. inversion Hrun; subst. rewrite N.add_0_r. exact Hg.
  - cbn [run_blocks bind] in Hrun. cbn [chain_ok] in Hok.
    destruct (apply_block batch s x) as [s1|e] eqn:Ea; [|rewrite andb_false_r in Hok; discriminate].
    cbn [bind] in Hrun.
    apply andb_prop in Hok as [Hok1 Hok3]. apply andb_prop in Hok1 as [Hh Hv].
    apply N.eqb_eq in Hh.
    pose proof (valid_block_step batch s x s1 tip Hb Hg Hh Hv Ea) as Hg1.
    specialize (IH s1 (tip + 1) s' Hb Hg1 Hok3 Hrun).
    replace (tip + N.of_nat (length (x :: tl))) with (tip + 1 + N.of_nat (length tl)) by (cbn [length]; lia).
    exact IH.
Qed.

Definition wH (h g mg mp : N) : block := ({| h_height := h; h_gen := g; h_mhg := mg; h_mhp := mp; h_cert := None |}, None).
Definition w_c : pchange := {| c_pc := 3; c_cert := 3; c_vals := [(1,1);(2,1);(3,1);(4,1)] |}.
(* validator 1 forges heights 1 and 3 honestly (maxHeightGenerated 0, then 1); validator 2 forges height 2 *)
Definition w_K : list block := [wH 1 1 0 0; wH 2 2 0 0; wH 3 1 1 0].
(* a second header of validator 1 at height 1: double forging against its windowed header of height 1, but a legitimate
   predecessor of its newest header (height 3, maxHeightGenerated 1) *)
Definition w_b : hdr := {| h_height := 1; h_gen := 1; h_mhg := 0; h_mhp := 0; h_cert := None |}.

Lemma window_complete_needs_next_height : exists s b tip,
  vgood tip s /\ h_height b <= tip /\ h_mhp b = v_mhp (s_votes s) /\
  (exists x, In x (window s) /\ i_gen x = h_gen b /\ contradicting (bh_of_info x) (bh_of_hdr b) = true) /\
  chain_contradicting (s_votes s) b = false.
Proof.
  destruct (init_store 4 0 w_c) as [s0|e] eqn:E0; [|vm_compute in E0; discriminate].
  destruct (run_blocks 4 s0 w_K) as [s|e] eqn:E1.
  2:{ revert E1. revert E0. vm_compute. intros E0; inversion E0; subst. vm_compute. discriminate. }
  exists s, w_b, 3. split.
  - change 3 with (0 + N.of_nat (length w_K)). apply (run_vgood 4 w_K s0 0 s); [lia | exact (init_vgood 4 0 w_c s0 E0) | | exact E1].
    revert E0. vm_compute. intros E0; inversion E0; subst. vm_compute. reflexivity.
  - revert E1. revert E0. vm_compute. intros E0; inversion E0; subst. vm_compute. intros E1; inversion E1; subst.
    vm_compute. repeat split; try reflexivity; try discriminate.
    eexists. split; [right; right; left; reflexivity|]. split; reflexivity.
Qed.
