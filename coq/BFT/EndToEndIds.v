(* Node-level composition C04 o C01 over blocks WITH IDENTITY: the node chain [g; id1; ...; idk] is abstracted to the
   TAGGED chain [(id1, blk_of id1); ...; (idk, blk_of idk)]; the universe is a universe of tagged chains (SafetyIds.v).
   No injectivity of blk_of is assumed: two blocks with the same BFT content and different IDs are different blocks, and
   their generator is Byzantine in the sense of [thonest].  Conclusion: the two nodes serve the same block ID. *)
From Coq Require Import List NArith Bool Lia Arith.
From Coq Require Import ZifyBool ZifyN ZifyNat.
From LE Require Import BFT.Contradiction BFT.Votes BFT.VotesProofs BFT.VotesGhost BFT.SafetyInst BFT.VotesGhostDyn BFT.SafetyDyn BFT.SafetyIds.
From LE Require Chain.Finality Chain.FinalityProofs.
Import ListNotations.
Local Open Scope N_scope.
Module F := LE.Chain.Finality.
Module FP := LE.Chain.FinalityProofs.

Section NodesIds.
  Variable batch : nat.
  Variable s0 : store.
  Variable U : tchain -> Prop.
  Variable blk_of : N -> block.

  (* abstraction of a node chain: drop the genesis block, map IDs to their BFT content *)
  Definition tag_of (id : N) : tblock := (id, blk_of id).
  Definition absK (c : list N) : tchain := map tag_of (tl c).

  (* what the vote-model theorems provide for U (genesis height 0) *)
  Definition safe_universe : Prop :=
    forall K1 K2 s1 s2 h1 h2, U K1 -> U K2 ->
      run_blocks batch s0 (untag K1) = Ok s1 -> run_blocks batch s0 (untag K2) = Ok s2 ->
      0 < h1 <= v_mhpc (s_votes s1) -> 0 < h2 <= v_mhpc (s_votes s2) ->
      prefix (firstn (N.to_nat (h1 - 0)) K1) (firstn (N.to_nat (h2 - 0)) K2) \/
      prefix (firstn (N.to_nat (h2 - 0)) K2) (firstn (N.to_nat (h1 - 0)) K1).
  Definition bounded_universe : Prop :=
    forall K sv, U K -> run_blocks batch s0 (untag K) = Ok sv -> v_mhpc (s_votes sv) <= N.of_nat (length K).
  Hypothesis Hsafe : safe_universe.
  Hypothesis Hbound : bounded_universe.

  (* the link: an accepted Apply carries the vote model's maxHeightPrecommited of the chain the node holds afterwards *)
  Definition ok_op (s : F.st) (o : F.op) : Prop :=
    match o with
    | F.Apply id true p rt =>
      let K := absK (F.chain (F.step s o)) in
      U K /\ exists sv, run_blocks batch s0 (untag K) = Ok sv /\ p = v_mhpc (s_votes sv)
    | _ => True
    end.
  Fixpoint linked_run (s : F.st) (ops : list F.op) : Prop :=
    match ops with
    | [] => True
    | o :: rest => ok_op s o /\ linked_run (F.step s o) rest
    end.

  (* the finalized prefix of the node's chain is the finalized prefix of some chain of U whose view reported it *)
  Record NInv (g : N) (s : F.st) : Prop := {
    ni_inv : F.Inv s;
    ni_gen : hd_error (F.chain s) = Some g;
    ni_len : F.fin s < N.of_nat (length (F.chain s));
    ni_wit : F.fin s = 0 \/
             exists K sv, U K /\ run_blocks batch s0 (untag K) = Ok sv /\ F.fin s <= v_mhpc (s_votes sv) /\
                          firstn (N.to_nat (F.fin s)) K = firstn (N.to_nat (F.fin s)) (absK (F.chain s));
  }.

  Lemma ninv_init : forall g, NInv g (F.init g).
  Proof. intros g. constructor; [apply FP.inv_init|reflexivity|cbn; lia|left; reflexivity]. Qed.

  Lemma tl_firstn : forall {A} m (l : list A), tl (firstn (S m) l) = firstn m (tl l).
  Proof. intros A m [|a l]; [rewrite !firstn_nil; reflexivity|reflexivity]. Qed.
  Lemma absK_app : forall c id, c <> [] -> absK (c ++ [id]) = absK c ++ [tag_of id].
  Proof. intros [|a c] id H; [congruence|]. unfold absK. cbn [app tl]. rewrite map_app. reflexivity. Qed.
  Lemma absK_length : forall c, length (absK c) = (length c - 1)%nat.
  Proof. intros [|a c]; unfold absK; cbn [tl]; rewrite map_length; cbn; lia. Qed.
  Lemma firstn_firstn_le : forall {A} k m (l : list A), (k <= m)%nat -> firstn k (firstn m l) = firstn k l.
  Proof. intros A k m l H. rewrite firstn_firstn. f_equal. lia. Qed.

  Lemma ninv_step : forall g s o, NInv g s -> ok_op s o -> NInv g (F.step s o).
  Proof.
    intros g s o [[Hc Hp] Hg Hl Hw] Hok.
    assert (Hne : F.chain s <> []) by (intros E; rewrite E in Hc; cbn in Hc; lia).
    destruct o as [id ok p rt|h0 save env| |].
    - destruct ok; [|constructor; [split|..]; assumption].
      assert (Hch : F.chain (F.step s (F.Apply id true p rt)) = F.chain s ++ [id]).
      { cbn -[firstn N.of_nat nth_error]. rewrite Hc, firstn_all. reflexivity. }
      assert (Hfin : F.fin (F.step s (F.Apply id true p rt)) = if F.fin s <? p then p else F.fin s) by reflexivity.
      unfold ok_op in Hok. cbv zeta in Hok. rewrite Hch in Hok. destruct Hok as (HU & sv & Hrun & Hpv).
      pose proof (Hbound _ _ HU Hrun) as Hb. rewrite <- Hpv in Hb. rewrite (absK_app _ _ Hne), app_length, absK_length in Hb. cbn [length] in Hb.
      constructor.
      + apply FP.inv_step. split; assumption.
      + rewrite Hch. destruct (F.chain s); [congruence|exact Hg].
      + rewrite Hch, Hfin, app_length. cbn [length]. destruct (F.fin s <? p) eqn:E; lia.
      + rewrite Hch, Hfin. destruct (F.fin s <? p) eqn:E.
        * right. exists (absK (F.chain s ++ [id])), sv. split; [exact HU|]. split; [exact Hrun|]. split; [lia|reflexivity].
        * destruct Hw as [Hz|(K & sv' & W1 & W2 & W3 & W4)]; [left; exact Hz|]. right. exists K, sv'.
          split; [exact W1|]. split; [exact W2|]. split; [exact W3|]. rewrite W4, (absK_app _ _ Hne), firstn_app.
          rewrite absK_length. replace (N.to_nat (F.fin s) - (length (F.chain s) - 1))%nat with 0%nat by lia.
          cbn [firstn]. rewrite app_nil_r. reflexivity.
    - (* Delete: only the tip, strictly above the finalized height *)
      cbn -[firstn N.of_nat nth_error].
      destruct (h0 <=? F.fin s) eqn:Eg; [constructor; [split|..]; assumption|].
      destruct (h0 <? N.of_nat (F.cache_len s)) eqn:El; cbn -[firstn N.of_nat nth_error]; [|constructor; [split|..]; assumption].
      destruct env; cbn -[firstn N.of_nat nth_error]; [|constructor; [split|..]; assumption].
      destruct (F.cache_len s) as [|m] eqn:Ecl; [constructor; [split|..]; congruence|].
      destruct m as [|m]; [constructor; [split|..]; congruence|].
      destruct (nth_error (F.chain s) (S m)) as [idd|] eqn:En; [|constructor; [split|..]; congruence].
      constructor; cbn -[firstn N.of_nat nth_error].
      + unfold F.Inv. cbn -[firstn]. rewrite firstn_length. split; lia.
      + destruct (F.chain s); [congruence|exact Hg].
      + rewrite firstn_length. lia.
      + destruct Hw as [Hz|(K & sv' & W1 & W2 & W3 & W4)]; [left; exact Hz|]. right. exists K, sv'.
        split; [exact W1|]. split; [exact W2|]. split; [exact W3|]. rewrite W4. unfold absK. rewrite tl_firstn, !firstn_map.
        rewrite firstn_firstn_le by lia. reflexivity.
    - constructor; cbn -[firstn N.of_nat nth_error]; [unfold F.Inv; cbn; split; lia|exact Hg|exact Hl|exact Hw].
    - constructor; cbn -[firstn N.of_nat nth_error]; [split; assumption|exact Hg|exact Hl|exact Hw].
  Qed.

  Lemma ninv_run : forall g ops s, NInv g s -> linked_run s ops -> NInv g (F.run s ops).
  Proof.
    intros g. induction ops as [|o ops IH]; intros s HI HL; [exact HI|]. destruct HL as [Hok HL].
    unfold F.run. cbn [fold_left]. apply IH; [apply ninv_step; assumption|exact HL].
  Qed.

  (* two nodes in the invariant serve the same (abstract) block at every height both have finalized *)
  Theorem ninv_agree : forall g n1 n2 h, NInv g n1 -> NInv g n2 -> h <= F.fin n1 -> h <= F.fin n2 ->
    exists i1 i2, F.block_at n1 h = Some i1 /\ F.block_at n2 h = Some i2 /\
                  i1 = i2.
  Proof.
    intros g n1 n2 h [[C1 P1] G1 L1 W1] [[C2 P2] G2 L2 W2] H1 H2. unfold F.block_at.
    assert (S1 : (N.to_nat h < length (F.chain n1))%nat) by lia. assert (S2 : (N.to_nat h < length (F.chain n2))%nat) by lia.
    apply nth_error_Some in S1, S2.
    destruct (nth_error (F.chain n1) (N.to_nat h)) as [i1|] eqn:E1; [|congruence].
    destruct (nth_error (F.chain n2) (N.to_nat h)) as [i2|] eqn:E2; [|congruence].
    exists i1, i2. split; [reflexivity|]. split; [reflexivity|].
    destruct (F.chain n1) as [|a1 c1] eqn:Ec1; [discriminate|]. destruct (F.chain n2) as [|a2 c2] eqn:Ec2; [discriminate|].
    cbn in G1, G2. injection G1 as ->. injection G2 as ->.
    destruct (N.eq_dec h 0) as [->|Hpos].
    { cbn in E1, E2. injection E1 as <-. injection E2 as <-. reflexivity. }
    destruct W1 as [Z|(K1 & v1 & U1 & R1 & B1 & F1)]; [lia|]. destruct W2 as [Z|(K2 & v2 & U2 & R2 & B2 & F2)]; [lia|].
    cbn [length] in L1, L2.
    assert (A1 : firstn (N.to_nat h) K1 = firstn (N.to_nat h) (map tag_of c1)).
    { rewrite <- (firstn_firstn_le (N.to_nat h) (N.to_nat (F.fin n1)) K1) by lia. rewrite F1. unfold absK. cbn [tl]. apply firstn_firstn_le. lia. }
    assert (A2 : firstn (N.to_nat h) K2 = firstn (N.to_nat h) (map tag_of c2)).
    { rewrite <- (firstn_firstn_le (N.to_nat h) (N.to_nat (F.fin n2)) K2) by lia. rewrite F2. unfold absK. cbn [tl]. apply firstn_firstn_le. lia. }
    assert (Eq : firstn (N.to_nat h) (map tag_of c1) = firstn (N.to_nat h) (map tag_of c2)).
    { destruct (Hsafe K1 K2 v1 v2 h h U1 U2 R1 R2 ltac:(lia) ltac:(lia)) as [H|H]; rewrite N.sub_0_r, A1, A2 in H.
      - apply prefix_same_length; [exact H|]. rewrite !firstn_length, !map_length. lia.
      - symmetry. apply prefix_same_length; [exact H|]. rewrite !firstn_length, !map_length. lia. }
    assert (Hk : N.to_nat h = S (N.to_nat h - 1)) by lia. rewrite Hk in E1, E2. cbn [nth_error] in E1, E2.
    assert (N1 : nth_error (firstn (N.to_nat h) (map tag_of c1)) (N.to_nat h - 1) = Some (tag_of i1)).
    { rewrite FP.nth_error_firstn_lt by lia. rewrite nth_error_map, E1. reflexivity. }
    assert (N2 : nth_error (firstn (N.to_nat h) (map tag_of c2)) (N.to_nat h - 1) = Some (tag_of i2)).
    { rewrite FP.nth_error_firstn_lt by lia. rewrite nth_error_map, E2. reflexivity. }
    rewrite Eq in N1. rewrite N1 in N2. unfold tag_of in N2. injection N2 as -> _. reflexivity.
  Qed.

  (* at all times: any two histories of operations (also across deletions, reorgs and restarts of either node) *)
  Theorem nodes_agree : forall g ops1 ops2, linked_run (F.init g) ops1 -> linked_run (F.init g) ops2 ->
    let n1 := F.run (F.init g) ops1 in let n2 := F.run (F.init g) ops2 in
    forall h, h <= F.fin n1 -> h <= F.fin n2 ->
      exists i1 i2, F.block_at n1 h = Some i1 /\ F.block_at n2 h = Some i2 /\ i1 = i2.
  Proof.
    intros g ops1 ops2 L1 L2 n1 n2 h H1 H2.
    apply (ninv_agree g n1 n2 h); [apply ninv_run; [apply ninv_init|exact L1]|apply ninv_run; [apply ninv_init|exact L2]|exact H1|exact H2].
  Qed.
End NodesIds.

(* ================================================================== statements for Properties/C01.v *)
Lemma static_tuniverse_safe_bounded : forall batch c s0 TU byz, (0 < batch)%nat -> init_store batch 0 c = Ok s0 ->
  tuniverse_decl batch 0 s0 TU ->
  (forall v, In v (map fst (c_vals c)) -> ~ In v byz -> thonest TU v) ->
  total_weight (sort_desc (c_vals c)) + wsum (sort_desc (c_vals c)) byz < c_pc c + (total_weight (c_vals c) * 2 / 3 + 1) ->
  safe_universe batch s0 TU /\ bounded_universe batch s0 TU.
Proof.
  intros batch c s0 TU byz Hb Hi HU Hh Hw. split.
  - exact (C01_static_safety_ids batch 0 c s0 TU byz Hb Hi HU Hh Hw).
  - intros K sv HK Hr. pose proof (tuniverse_decl_D _ _ _ _ HU) as [HD _].
    pose proof (run_blocks_mhpc_le batch 0 c s0 _ sv Hb Hi (proj2 (HD K HK)) Hr) as H. rewrite untag_length in H. lia.
Qed.
Lemma dynamic_tuniverse_safe_bounded : forall batch c s0 TU, (0 < batch)%nat -> init_store batch 0 c = Ok s0 ->
  tuniverseD_decl batch 0 s0 TU -> TQI_model_decl batch 0 s0 TU ->
  safe_universe batch s0 TU /\ bounded_universe batch s0 TU.
Proof.
  intros batch c s0 TU Hb Hi HU HQ. split.
  - exact (C01_dynamic_safety_ids_partial batch 0 c s0 TU Hb Hi HU HQ).
  - intros K sv HK Hr. destruct HU as [HD _].
    pose proof (run_blocks_mhpc_le batch 0 c s0 _ sv Hb Hi (proj2 (HD K HK)) Hr) as H. rewrite untag_length in H. lia.
Qed.

(* Static validator set.  Two nodes started from the same genesis block and driven by ANY two operation sequences whose
   accepted Applies are linked to the vote model serve THE SAME BLOCK ID at every height both have finalized.  No premise
   relates block IDs to BFT content: a generator forging two blocks with equal BFT fields and different IDs is Byzantine
   (its weight counts in [byz]); hash collision-freeness is only what makes [thonest] the intended reading
   (thonest_of_ids). *)
Theorem C01_nodes_agree_on_finalized_block_ids :
  forall (batch : nat) (c : pchange) (s0 : store) (TU : tchain -> Prop) (byz : list addr) (blk_of : N -> block)
         (g : N) (ops1 ops2 : list F.op),
  (0 < batch)%nat -> init_store batch 0 c = Ok s0 ->
  tuniverse_decl batch 0 s0 TU ->
  (forall v, In v (map fst (c_vals c)) -> ~ In v byz -> thonest TU v) ->
  total_weight (sort_desc (c_vals c)) + wsum (sort_desc (c_vals c)) byz < c_pc c + (total_weight (c_vals c) * 2 / 3 + 1) ->
  linked_run batch s0 TU blk_of (F.init g) ops1 -> linked_run batch s0 TU blk_of (F.init g) ops2 ->
  let n1 := F.run (F.init g) ops1 in let n2 := F.run (F.init g) ops2 in
  forall h, h <= F.fin n1 -> h <= F.fin n2 ->
    exists i, F.block_at n1 h = Some i /\ F.block_at n2 h = Some i.
Proof.
  intros batch c s0 TU byz blk_of g ops1 ops2 Hb Hi HU Hh Hw L1 L2 n1 n2 h H1 H2.
  destruct (static_tuniverse_safe_bounded batch c s0 TU byz Hb Hi HU Hh Hw) as [Hs Hbd].
  destruct (nodes_agree batch s0 TU blk_of Hs Hbd g ops1 ops2 L1 L2 h H1 H2) as (i1 & i2 & B1 & B2 & <-).
  exists i1. split; assumption.
Qed.

Theorem C01_nodes_agree_on_finalized_block_ids_dynamic_partial :
  forall (batch : nat) (c : pchange) (s0 : store) (TU : tchain -> Prop) (blk_of : N -> block)
         (g : N) (ops1 ops2 : list F.op),
  (0 < batch)%nat -> init_store batch 0 c = Ok s0 ->
  tuniverseD_decl batch 0 s0 TU -> TQI_model_decl batch 0 s0 TU ->
  linked_run batch s0 TU blk_of (F.init g) ops1 -> linked_run batch s0 TU blk_of (F.init g) ops2 ->
  let n1 := F.run (F.init g) ops1 in let n2 := F.run (F.init g) ops2 in
  forall h, h <= F.fin n1 -> h <= F.fin n2 ->
    exists i, F.block_at n1 h = Some i /\ F.block_at n2 h = Some i.
Proof.
  intros batch c s0 TU blk_of g ops1 ops2 Hb Hi HU HQ L1 L2 n1 n2 h H1 H2.
  destruct (dynamic_tuniverse_safe_bounded batch c s0 TU Hb Hi HU HQ) as [Hs Hbd].
  destruct (nodes_agree batch s0 TU blk_of Hs Hbd g ops1 ops2 L1 L2 h H1 H2) as (i1 & i2 & B1 & B2 & <-).
  exists i1. split; assumption.
Qed.
Print Assumptions C01_nodes_agree_on_finalized_block_ids.
Print Assumptions C01_nodes_agree_on_finalized_block_ids_dynamic_partial.

(* ================================================================== non-vacuity: two linked node histories over blocks with identity *)
(* universe = SafetyIdsExamples.TU1 (chain A with ids 1..10; chain B = blocks 1-3 and a SECOND block of validator 4 at height 4 with
   the BFT fields of A's block 4 and id 204).  Node 1 applies the ten blocks of A.  Node 2 applies 1-3, then the forged twin 204,
   deletes it (reorg), applies 4-10 of A and restarts.  blk_of 204 = blk_of 4 (no injectivity!).  Both histories are linked to the
   vote model, both nodes finalize height 5, and at every finalized height they serve the same id. *)
From LE Require Import BFT.SafetyIdsExamples.
Module NodeIdsExample.
  Import Example.
  Definition dblk : block := (mkhdr 0 0 0 0, None).
  Definition blk_of (id : N) : block := if id =? 204 then nth 3 Ka dblk else nth (N.to_nat id - 1) Ka dblk.
  Definition app_op (s : F.st) (id : N) : F.op :=
    F.Apply id true (match run_blocks 4 ex_s0 (untag (absK blk_of (F.chain s ++ [id]))) with Ok sv => v_mhpc (s_votes sv) | Error _ => 0 end) false.
  Fixpoint script (s : F.st) (cmds : list (N + F.op)) : list F.op :=
    match cmds with
    | [] => []
    | inl id :: r => let o := app_op s id in o :: script (F.step s o) r
    | inr o :: r => o :: script (F.step s o) r
    end.
  Definition ops1 : list F.op := script (F.init 0) (map inl [1; 2; 3; 4; 5; 6; 7; 8; 9; 10]).
  Definition ops2 : list F.op :=
    script (F.init 0) ([inl 1; inl 2; inl 3; inl 204; inr (F.Delete 4 false true)] ++ map inl [4; 5; 6; 7; 8; 9; 10] ++ [inr F.Restart]).
  Ltac solve_link :=
    repeat match goal with
           | |- _ /\ _ => split
           | |- True => exact I
           | |- _ \/ _ => first [left; eexists; reflexivity | right; eexists; reflexivity]
           | |- _ <> _ => discriminate
           | |- _ -> False => discriminate
           | |- exists _, _ => eexists
           | |- _ = _ => reflexivity
           end.
  Lemma ops1_linked : linked_run 4 ex_s0 TU1 blk_of (F.init 0) ops1.
  Proof. vm_compute. solve_link. Qed.
  Lemma ops2_linked : linked_run 4 ex_s0 TU1 blk_of (F.init 0) ops2.
  Proof. vm_compute. solve_link. Qed.

  Example C01_nodes_ids_hypotheses_satisfiable :
    (0 < 4)%nat /\ init_store 4 0 ex_c = Ok ex_s0 /\ tuniverse_decl 4 0 ex_s0 TU1 /\
    (forall v, In v (map fst (c_vals ex_c)) -> ~ In v [4] -> thonest TU1 v) /\
    total_weight (sort_desc (c_vals ex_c)) + wsum (sort_desc (c_vals ex_c)) [4] < c_pc ex_c + (total_weight (c_vals ex_c) * 2 / 3 + 1) /\
    linked_run 4 ex_s0 TU1 blk_of (F.init 0) ops1 /\ linked_run 4 ex_s0 TU1 blk_of (F.init 0) ops2 /\
    F.fin (F.run (F.init 0) ops1) = 5 /\ F.fin (F.run (F.init 0) ops2) = 5 /\
    blk_of 204 = blk_of 4 /\ In (F.FDelete 204) (F.emitted (F.run (F.init 0) ops2)) /\
    F.chain (F.run (F.init 0) ops2) = [0; 1; 2; 3; 4; 5; 6; 7; 8; 9; 10].
  Proof.
    split; [lia|]. split; [exact ex_init|]. split; [exact TU1_universe|]. split; [exact TU1_honest|].
    split; [vm_compute; reflexivity|]. split; [exact ops1_linked|]. split; [exact ops2_linked|].
    split; [vm_compute; reflexivity|]. split; [vm_compute; reflexivity|]. split; [vm_compute; reflexivity|].
    split; [vm_compute; tauto|vm_compute; reflexivity].
  Qed.
End NodeIdsExample.
Print Assumptions NodeIdsExample.C01_nodes_ids_hypotheses_satisfiable.
