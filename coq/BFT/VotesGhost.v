(* Ghost decomposition of the Lisk-BFT vote weights of the faithful model (BFT/Votes.v) for a STATIC validator set:
   every prevote / precommit weight of a window entry is the sum of the weights of pairwise distinct validators, each
   of which has a block on the chain witnessing the abstract [prevotes] / [precommits] predicate of BFT/Safety.v;
   maxHeightPrevoted / maxHeightPrecommited above genesis are witnessed by a quorum in a prefix view.
   Nothing here changes the model; all statements are about Votes.before_txs / run_blocks. *)
From Coq Require Import List NArith Bool Lia ZArith Arith.
From Coq Require Import ZifyBool ZifyN ZifyNat.
From LE Require Import BFT.Contradiction BFT.ContradictionProofs BFT.Votes BFT.VotesProofs BFT.Safety.
Import ListNotations.
Local Open Scope N_scope.

(* ------------------------------------------------------------------ prefixes *)
Definition prefix {A} (a b : list A) : Prop := exists t, b = a ++ t.

Lemma prefix_refl : forall {A} (a : list A), prefix a a.
Proof. intros A a. exists []. rewrite app_nil_r. reflexivity. Qed.
Lemma prefix_trans : forall {A} (a b c : list A), prefix a b -> prefix b c -> prefix a c.
Proof. intros A a b c [t ->] [u ->]. exists (t ++ u). rewrite app_assoc. reflexivity. Qed.
Lemma prefix_tree : forall {A} (a b c : list A), prefix a c -> prefix b c -> prefix a b \/ prefix b a.
Proof.
  intros A a. induction a as [|x a IH]; intros b c Ha Hb; [left; exists b; reflexivity|].
  destruct b as [|y b]; [right; exists (x :: a); reflexivity|].
  destruct Ha as [t ->]. destruct Hb as [u Hu]. cbn [app] in Hu. inversion Hu; subst y.
  destruct (IH b (a ++ t)) as [[v ->]|[v ->]]; [exists t; reflexivity|exists u; assumption| |].
  - left. exists v. reflexivity.
  - right. exists v. reflexivity.
Qed.
Lemma prefix_length : forall {A} (a b : list A), prefix a b -> (length a <= length b)%nat.
Proof. intros A a b [t ->]. rewrite app_length. lia. Qed.
Lemma prefix_firstn : forall {A} (a b : list A), prefix a b -> a = firstn (length a) b.
Proof. intros A a b [t ->]. rewrite firstn_app, firstn_all, Nat.sub_diag. cbn. rewrite app_nil_r. reflexivity. Qed.
Lemma prefix_same_length : forall {A} (a b : list A), prefix a b -> length a = length b -> a = b.
Proof. intros A a b H E. rewrite (prefix_firstn a b H), E. apply firstn_all. Qed.
Lemma firstn_prefix : forall {A} n (l : list A), prefix (firstn n l) l.
Proof. intros A n l. exists (skipn n l). symmetry. apply firstn_skipn. Qed.
Lemma firstn_prefix_le : forall {A} n m (l : list A), (n <= m)%nat -> prefix (firstn n l) (firstn m l).
Proof.
  intros A n m l H. replace n with (Nat.min n m) by lia. rewrite <- firstn_firstn. apply firstn_prefix.
Qed.
Lemma prefix_snoc : forall {A} (a b : list A) x, prefix a (b ++ [x]) -> a = b ++ [x] \/ prefix a b.
Proof.
  intros A a b x H. pose proof (prefix_length _ _ H) as Hl. rewrite app_length in Hl. cbn in Hl.
  destruct (Nat.eq_dec (length a) (length b + 1)) as [E|E].
  - left. apply prefix_same_length; [exact H|]. rewrite app_length. cbn. exact E.
  - right. rewrite (prefix_firstn _ _ H). rewrite firstn_app. replace (length a - length b)%nat with 0%nat by lia.
    cbn. rewrite app_nil_r. apply firstn_prefix.
Qed.
Lemma prefix_firstn_of : forall {A} (a b : list A) n, prefix a b -> (n <= length a)%nat -> firstn n a = firstn n b.
Proof. intros A a b n [t ->] H. rewrite firstn_app. replace (n - length a)%nat with 0%nat by lia. cbn. rewrite app_nil_r. reflexivity. Qed.

Lemma In_firstn_in : forall {A} n (l : list A) x, In x (firstn n l) -> In x l.
Proof.
  induction n as [|n IH]; intros l x H; [contradiction|]. destruct l as [|a l]; [contradiction|].
  destruct H as [<-|H]; [left; reflexivity|right; apply IH; exact H].
Qed.

Lemma Forall2_refl_on : forall {A} (R : A -> A -> Prop) l, (forall a, In a l -> R a a) -> Forall2 R l l.
Proof. induction l as [|a l IH]; intros H; constructor; [apply H; left; reflexivity|apply IH; intros; apply H; right; assumption]. Qed.
Lemma Forall2_comp : forall {A B C} (P : A -> B -> Prop) (Q : B -> C -> Prop) l m r,
  Forall2 P l m -> Forall2 Q m r -> Forall2 (fun a c => exists b, P a b /\ Q b c) l r.
Proof.
  intros A B C P Q l m r H. revert r. induction H as [|a b l m Hab H IH]; intros r Hr; inversion Hr; subst; constructor; eauto.
Qed.
Lemma Forall2_impl_in : forall {A B} (P Q : A -> B -> Prop) l l', (forall a b, In a l -> P a b -> Q a b) -> Forall2 P l l' -> Forall2 Q l l'.
Proof.
  intros A B P Q l l' Hi H. induction H; constructor; [apply Hi; [left; reflexivity|assumption]|].
  apply IHForall2. intros; apply Hi; [right|]; assumption.
Qed.
Lemma Forall2_in_r : forall {A B} (P : A -> B -> Prop) l l' b, Forall2 P l l' -> In b l' -> exists a, In a l /\ P a b.
Proof.
  intros A B P l l' b H. induction H as [|a0 b0 l l' Hab H IH]; intros Hin; [contradiction|].
  destruct Hin as [<-|Hin]; [exists a0; split; [left; reflexivity|exact Hab]|].
  destruct (IH Hin) as (a & Ha & Hp). exists a. split; [right; exact Ha|exact Hp].
Qed.

(* ------------------------------------------------------------------ weights of validator lists, quorum intersection *)
Definition weight (vals : list (addr * N)) (v : addr) : N := match find_weight vals v with Some w => w | None => 0 end.
Definition wsum (vals : list (addr * N)) (l : list addr) : N := fold_right (fun v acc => weight vals v + acc) 0 l.

Lemma wsum_cons : forall vals a l, wsum vals (a :: l) = weight vals a + wsum vals l.
Proof. reflexivity. Qed.
Lemma wsum_app : forall vals l1 l2, wsum vals (l1 ++ l2) = wsum vals l1 + wsum vals l2.
Proof. induction l1 as [|a l1 IH]; intros l2; cbn [app]; [change (wsum vals []) with 0; lia|]. rewrite !wsum_cons, IH. lia. Qed.

Lemma wsum_filter_split : forall vals f l, wsum vals l = wsum vals (filter f l) + wsum vals (filter (fun x => negb (f x)) l).
Proof.
  induction l as [|a l IH]; [reflexivity|]. cbn [filter]. rewrite wsum_cons, IH. destruct (f a); cbn [negb]; rewrite wsum_cons; lia.
Qed.

(* a duplicate-free list of validators never weighs more than the whole validator set *)
Lemma wsum_le_total : forall vals l, NoDup l -> wsum vals l <= total_weight vals.
Proof.
  induction vals as [|[x w] vals IH]; intros l Hnd.
  - assert (H : wsum [] l = 0) by (clear Hnd; induction l as [|a l IHl]; [reflexivity|rewrite wsum_cons, IHl; reflexivity]). lia.
  - cbn [total_weight fold_right snd]. fold (total_weight vals).
    rewrite (wsum_filter_split _ (fun v : addr => x =? v) l). cbv beta.
    assert (H1 : wsum ((x, w) :: vals) (filter (fun v : addr => x =? v) l) <= w).
    { clear IH. induction Hnd as [|a l Hn Hnd IHl]; cbn [filter]; [cbn; lia|].
      destruct (x =? a) eqn:E; [|exact IHl]. apply N.eqb_eq in E. subst a.
      assert (Hnone : filter (fun v : addr => x =? v) l = []).
      { clear -Hn. induction l as [|b l IHb]; [reflexivity|]. cbn [filter]. destruct (x =? b) eqn:E.
        - apply N.eqb_eq in E. subst. exfalso. apply Hn. left; reflexivity.
        - apply IHb. intros H. apply Hn. right; exact H. }
      rewrite Hnone, wsum_cons. unfold weight. cbn [find_weight]. rewrite N.eqb_refl. cbn. lia. }
    assert (H2 : wsum ((x, w) :: vals) (filter (fun v : addr => negb (x =? v)) l) = wsum vals (filter (fun v : addr => negb (x =? v)) l)).
    { clear. induction l as [|a l IHl]; [reflexivity|]. cbn [filter]. destruct (x =? a) eqn:E; cbn [negb]; [exact IHl|].
      rewrite !wsum_cons, IHl. unfold weight. cbn [find_weight]. rewrite E. reflexivity. }
    rewrite H2. specialize (IH _ (NoDup_filter (fun v : addr => negb (x =? v)) Hnd)). lia.
Qed.

Lemma wsum_incl : forall vals I B, NoDup I -> incl I B -> wsum vals I <= wsum vals B.
Proof.
  intros vals I. induction I as [|a I IH]; intros B Hnd Hinc; [cbn; lia|].
  inversion Hnd as [|? ? Hn Hnd']; subst.
  destruct (in_split a B (Hinc a (or_introl eq_refl))) as (B1 & B2 & ->).
  assert (Hinc' : incl I (B1 ++ B2)).
  { intros z Hz. specialize (Hinc z (or_intror Hz)). apply in_app_or in Hinc. apply in_or_app.
    destruct Hinc as [H|[H|H]]; [left; exact H|subst; contradiction|right; exact H]. }
  specialize (IH _ Hnd' Hinc'). rewrite wsum_cons, wsum_app, wsum_cons. rewrite wsum_app in IH. lia.
Qed.

Definition mem (v : addr) (l : list addr) : bool := existsb (fun x => x =? v) l.
Lemma mem_In : forall v l, mem v l = true <-> In v l.
Proof.
  intros v l. unfold mem. rewrite existsb_exists. split.
  - intros (x & Hx & E). apply N.eqb_eq in E. subst. exact Hx.
  - intros H. exists v. split; [exact H|apply N.eqb_refl].
Qed.

(* P5: two duplicate-free validator lists whose weights exceed W + f together share a validator outside [byz] *)
Theorem quorum_intersection : forall vals (L1 L2 byz : list addr) t1 t2,
  NoDup L1 -> NoDup L2 -> t1 <= wsum vals L1 -> t2 <= wsum vals L2 ->
  total_weight vals + wsum vals byz < t1 + t2 ->
  exists v, In v L1 /\ In v L2 /\ ~ In v byz.
Proof.
  intros vals L1 L2 byz t1 t2 N1 N2 H1 H2 Hb.
  set (I := filter (fun v => mem v L2) L1). set (D := filter (fun v => negb (mem v L2)) L1).
  assert (Hs : wsum vals L1 = wsum vals I + wsum vals D) by apply wsum_filter_split.
  assert (HD : NoDup (D ++ L2)).
  { clear -N1 N2. subst D. induction N1 as [|a l Hn N1 IH]; cbn [filter app]; [exact N2|].
    destruct (mem a L2) eqn:E; cbn [negb app]; [exact IH|]. constructor; [|exact IH].
    intros Hin. apply in_app_or in Hin. destruct Hin as [Hin|Hin].
    - apply filter_In in Hin. tauto.
    - apply mem_In in Hin. congruence. }
  pose proof (wsum_le_total vals _ HD) as Ht. rewrite wsum_app in Ht.
  assert (HI : wsum vals byz < wsum vals I) by lia.
  (* some member of I is outside byz *)
  destruct (existsb (fun v => negb (mem v byz)) I) eqn:E.
  - apply existsb_exists in E. destruct E as (v & Hv & Hn). exists v. subst I. apply filter_In in Hv. destruct Hv as [Hv1 Hv2].
    split; [exact Hv1|]. split; [apply mem_In; exact Hv2|]. intros Hin. apply mem_In in Hin. rewrite Hin in Hn. discriminate.
  - exfalso. assert (Hinc : incl I byz).
    { intros v Hv. apply mem_In. destruct (mem v byz) eqn:Em; [reflexivity|].
      assert (existsb (fun v => negb (mem v byz)) I = true); [|congruence].
      apply existsb_exists. exists v. split; [exact Hv|rewrite Em; reflexivity]. }
    assert (HNI : NoDup I) by (subst I; apply NoDup_filter; exact N1).
    pose proof (wsum_incl vals I byz HNI Hinc). lia.
Qed.

Lemma total_weight_insert : forall x l, total_weight (insert_desc x l) = snd x + total_weight l.
Proof.
  induction l as [|y l IH]; cbn [insert_desc]; [reflexivity|]. destruct (fst y <? fst x); [reflexivity|].
  unfold total_weight in *. cbn [fold_right]. rewrite IH. lia.
Qed.
Lemma total_weight_sort : forall l, total_weight (sort_desc l) = total_weight l.
Proof.
  induction l as [|x l IH]; [reflexivity|]. unfold sort_desc in *. cbn [fold_right]. rewrite total_weight_insert, IH. reflexivity.
Qed.

(* ------------------------------------------------------------------ active-validator list *)
Definition lhp (act : list active) (g : addr) : N := match find_active act g with Some y => a_lhp y | None => 0 end.

Lemma find_active_set_lhp : forall l g h g',
  find_active (set_lhp l g h) g' =
  if g =? g' then option_map (fun y => {| a_addr := a_addr y; a_min := a_min y; a_lhp := h |}) (find_active l g)
  else find_active l g'.
Proof.
  induction l as [|x l IH]; intros g h g'; cbn [set_lhp find_active].
  - destruct (g =? g'); reflexivity.
  - destruct (a_addr x =? g) eqn:E1; cbn [find_active a_addr].
    + destruct (g =? g') eqn:E2.
      * assert (a_addr x =? g' = true) as -> by lia. reflexivity.
      * assert (a_addr x =? g' = false) as -> by lia. reflexivity.
    + destruct (g =? g') eqn:E2.
      * assert (a_addr x =? g' = false) as -> by lia. rewrite IH, E2. reflexivity.
      * destruct (a_addr x =? g'); [reflexivity|]. rewrite IH, E2. reflexivity.
Qed.

Lemma find_active_insert_some : forall x l g y, find_active (insert_act_desc x l) g = Some y ->
  (y = x /\ a_addr x = g) \/ find_active l g = Some y.
Proof.
  induction l as [|z l IH]; intros g y H; cbn [insert_act_desc find_active] in *.
  - destruct (a_addr x =? g) eqn:E; [|discriminate]. injection H as <-. left. split; [reflexivity|lia].
  - destruct (a_addr z <? a_addr x); cbn [find_active] in H.
    + destruct (a_addr x =? g) eqn:E; [injection H as <-; left; split; [reflexivity|lia]|right; exact H].
    + destruct (a_addr z =? g); [right; exact H|apply IH; exact H].
Qed.
Lemma find_active_insert_none : forall x l g, find_active (insert_act_desc x l) g = None <->
  a_addr x <> g /\ find_active l g = None.
Proof.
  induction l as [|z l IH]; intros g; cbn [insert_act_desc find_active].
  - destruct (a_addr x =? g) eqn:E; split; intros H.
    + discriminate.
    + destruct H; lia.
    + split; [lia|reflexivity].
    + reflexivity.
  - destruct (a_addr z <? a_addr x); cbn [find_active].
    + destruct (a_addr x =? g) eqn:E; split; intros H.
      * discriminate.
      * destruct H; lia.
      * split; [lia|exact H].
      * tauto.
    + destruct (a_addr z =? g); [split; intros H; [discriminate|tauto]|apply IH].
Qed.

(* ------------------------------------------------------------------ precommit loop: the recorded first height *)
Lemma precommit_loop_first : forall ps g m l f r f', desc l -> precommit_loop ps g m l f = Ok (r, f') ->
  let cond a := (m <=? i_height a) && match get_params ps (i_height a) with Ok p => p_pv p <=? i_pv a | Error _ => false end in
  match f with
  | Some h => f' = Some h
  | None => match f' with
            | None => forall a, In a l -> cond a = false
            | Some h => m <= h /\ forall a, In a l -> cond a = true -> i_height a <= h
            end
  end.
Proof.
  intros ps g m. induction l as [|a l IH]; intros f r f' Hd H cond; cbn [precommit_loop] in H.
  - inversion H; subst. destruct f' as [h|]; [reflexivity|]. intros a [].
  - destruct (i_height a <? m) eqn:E.
    + inversion H; subst r f'. destruct f as [h|]; [reflexivity|].
      intros x Hx. unfold cond. assert (i_height x < m).
      { destruct Hx as [<-|Hx]; [lia|]. pose proof (desc_all_lt _ _ Hd x Hx). lia. }
      destruct (m <=? i_height x) eqn:E2; [lia|reflexivity].
    + destruct (get_params ps (i_height a)) as [p|e] eqn:Ep; cbn [bind] in H; [|discriminate].
      destruct (p_pv p <=? i_pv a) eqn:Eq.
      * destruct (find_weight (p_vals p) g) as [w|] eqn:Ew; [|discriminate].
        destruct (precommit_loop ps g m l _) as [[r' f2]|e] eqn:Er; cbn [bind] in H; [|discriminate].
        cbn [fst snd] in H. inversion H; subst r f'.
        specialize (IH _ _ _ (desc_tl _ _ Hd) Er). cbn zeta in IH.
        destruct f as [h|]; [exact IH|]. rewrite IH. split; [lia|].
        intros x [<-|Hx] _; [lia|]. pose proof (desc_all_lt _ _ Hd x Hx). lia.
      * destruct (precommit_loop ps g m l f) as [[r' f2]|e] eqn:Er; cbn [bind] in H; [|discriminate].
        cbn [fst snd] in H. inversion H; subst r f'.
        specialize (IH _ _ _ (desc_tl _ _ Hd) Er). cbn zeta in IH.
        destruct f as [h|]; [exact IH|].
        assert (Ha : cond a = false) by (unfold cond; rewrite Ep, Eq; apply andb_false_r).
        destruct f2 as [h|].
        -- destruct IH as [IH1 IH2]. split; [exact IH1|]. intros x [<-|Hx] Hc; [congruence|apply IH2; assumption].
        -- intros x [<-|Hx]; [exact Ha|apply IH; exact Hx].
Qed.

(* ------------------------------------------------------------------ getHeightNotPrevoted: the run of own blocks *)
(* window-level version of Safety.linked: own blocks linked through maxHeightGenerated, all at or above [he], the
   oldest with maxHeightGenerated below [he] *)
Fixpoint ilinked (g : addr) (he : N) (run : list info) : Prop :=
  match run with
  | [] => False
  | [P] => i_gen P = g /\ he <= i_height P /\ i_mhg P < he
  | P :: ((Q :: _) as rest) =>
      i_gen P = g /\ he <= i_height P /\ i_mhg P < i_height P /\ i_height Q = i_mhg P /\ ilinked g he rest
  end.

Lemma ilinked_cons2 : forall g he P Q rest, ilinked g he (P :: Q :: rest) <->
  (i_gen P = g /\ he <= i_height P /\ i_mhg P < i_height P /\ i_height Q = i_mhg P /\ ilinked g he (Q :: rest)).
Proof. intros. reflexivity. Qed.
Lemma linked_cons2 : forall (B V : Type) (height mhg : B -> N) (gen : B -> V) (anc : B -> B -> Prop) v A P Q rest,
  linked B V height mhg gen anc v A (P :: Q :: rest) <->
  (gen P = v /\ anc A P /\ mhg P < height P /\ height Q = mhg P /\ linked B V height mhg gen anc v A (Q :: rest)).
Proof. intros. reflexivity. Qed.

Lemma hts_nth_height : forall l tip h e, hts l tip -> In e l -> i_height e <= h <= tip ->
  exists x, nth_error l (N.to_nat (tip - h)) = Some x /\ i_height x = h.
Proof.
  intros l tip h e H He Hr. apply In_nth_error in He. destruct He as [j Hj]. pose proof (H j e Hj) as Hje.
  assert (Hlt : (N.to_nat (tip - h) < length l)%nat).
  { assert (j < length l)%nat by (apply nth_error_Some; congruence). lia. }
  apply nth_error_Some in Hlt. destruct (nth_error l (N.to_nat (tip - h))) as [x|] eqn:Ex; [|congruence].
  exists x. split; [reflexivity|]. pose proof (H _ _ Ex). lia.
Qed.

Lemma hnp_linked : forall fuel infos g cur he e, hts infos cur -> In e infos -> i_height e = he ->
  forall prev Pj, In Pj infos -> i_gen Pj = g -> i_mhg Pj = prev -> prev < i_height Pj -> he <= i_height Pj ->
  hnp_loop fuel infos g cur prev < he ->
  exists run, ilinked g he (Pj :: run) /\ forall Q, In Q run -> In Q infos.
Proof.
  intros fuel infos g cur he e Hh He Hhe. induction fuel as [|f IH]; intros prev Pj HPj Hg Hm Hlt Hle Hr.
  - cbn [hnp_loop] in Hr. exists []. split; [cbn; repeat split; auto; lia|intros Q []].
  - destruct (N.lt_ge_cases prev he) as [Hlow|Hhigh].
    + exists []. split; [cbn; repeat split; auto; lia|intros Q []].
    + cbn [hnp_loop] in Hr.
      pose proof (hts_in_le _ _ _ Hh HPj) as HPjle.
      destruct (hts_nth_height infos cur prev e Hh He ltac:(lia)) as (bi & Hbi & Hbih).
      assert (Hidx : (N.to_nat (cur - prev) < length infos)%nat) by (apply nth_error_Some; congruence).
      destruct (cur - prev <? N.of_nat (length infos)) eqn:E; [|lia].
      rewrite Hbi in Hr.
      destruct (negb (i_gen bi =? g) || (prev <=? i_mhg bi)) eqn:E2; [lia|].
      assert (Hbg : i_gen bi = g) by lia. assert (Hbm : i_mhg bi < prev) by lia.
      assert (Hbin : In bi infos) by (eapply nth_error_In; exact Hbi).
      destruct (IH (i_mhg bi) bi Hbin Hbg eq_refl ltac:(lia) ltac:(lia) Hr) as (run & Hl & Hin).
      exists (bi :: run). split.
      * cbn [ilinked]. repeat split; auto; lia.
      * intros Q [<-|HQ]; auto.
Qed.

(* ================================================================== static validator set *)
Section Static.
  Variable batch : nat.
  Hypothesis Hbatch : (0 < batch)%nat.
  Variable gh : N.
  Variable c : pchange.
  Variable s0 : store.
  Hypothesis Hinit : init_store batch gh c = Ok s0.

  Definition p0 : params :=
    {| p_pv := total_weight (c_vals c) * 2 / 3 + 1; p_pc := c_pc c; p_cert := c_cert c; p_vals := sort_desc (c_vals c) |}.
  Definition vals := p_vals p0.
  Definition ps0 : list (N * params) := [(gh + 1, p0)].
  Definition wt (v : addr) : N := weight vals v.

  Definition AInv (act : list active) : Prop :=
    forall g, (forall y, find_active act g = Some y -> a_min y = gh + 1 /\ find_weight vals g <> None) /\
              (find_active act g = None -> find_weight vals g = None).

  Lemma init_act_inv : forall l,
    (forall g, (forall y, find_active (fold_right (fun x acc =>
                 insert_act_desc {| a_addr := fst x; a_min := gh + 1; a_lhp := gh + 1 - 1 |} acc) [] l) g = Some y ->
                 a_min y = gh + 1 /\ find_weight l g <> None) /\
               (find_active (fold_right (fun x acc =>
                 insert_act_desc {| a_addr := fst x; a_min := gh + 1; a_lhp := gh + 1 - 1 |} acc) [] l) g = None ->
                 find_weight l g = None)).
  Proof.
    induction l as [|[x w] l IH]; intros g; cbn [fold_right fst find_weight].
    - split; [intros y H; discriminate|reflexivity].
    - destruct (IH g) as [IH1 IH2]. split.
      + intros y H. apply find_active_insert_some in H. cbn [a_addr] in H. destruct H as [[-> Hx]|H].
        * cbn [a_min]. split; [reflexivity|]. assert (x =? g = true) as -> by lia. discriminate.
        * destruct (IH1 y H) as [A B]. split; [exact A|]. destruct (x =? g); [discriminate|exact B].
      + intros H. apply find_active_insert_none in H. cbn [a_addr] in H. destruct H as [Hx H].
        assert (x =? g = false) as -> by lia. apply IH2; exact H.
  Qed.

  Lemma init_shape :
    s_params s0 = ps0 /\ window s0 = [] /\ v_mhp (s_votes s0) = gh /\ v_mhpc (s_votes s0) = gh /\
    AInv (v_act (s_votes s0)) /\ 1 <= p_pv p0 /\ 1 <= p_pc p0.
  Proof.
    pose proof Hinit as H. unfold init_store, set_params in H.
    destruct (Nat.ltb batch (length (c_vals c))); [discriminate|].
    destruct (existsb _ (c_vals c)); [discriminate|].
    destruct ((c_pc c <? total_weight (c_vals c) / 3 + 1) || (total_weight (c_vals c) <? c_pc c)) eqn:Epc; [discriminate|].
    destruct ((c_cert c <? total_weight (c_vals c) / 3 + 1) || (total_weight (c_vals c) <? c_cert c)) eqn:Ecert; [discriminate|].
    cbn [genesis_store s_params s_votes lookup_le current_height v_infos v_mhp v_mhpc v_mhc v_act insert_param find_active] in H.
    injection H as H. rewrite <- H. unfold window. cbn [s_params s_votes v_infos v_mhp v_mhpc v_act].
    do 4 (split; [reflexivity|]). split; [|split].
    - intros g. exact (init_act_inv (sort_desc (c_vals c)) g).
    - cbn [p0 p_pv]. lia.
    - cbn [p0 p_pc]. lia.
  Qed.

  Lemma get_ps0 : forall h, get_params ps0 h = if gh + 1 <=? h then Ok p0 else Error 1.
  Proof. intros h. unfold get_params, ps0. cbn [lookup_le]. destruct (gh + 1 <=? h); reflexivity. Qed.
  Lemma get_ps0_ok : forall h p, get_params ps0 h = Ok p -> p = p0 /\ gh < h.
  Proof. intros h p H. rewrite get_ps0 in H. destruct (gh + 1 <=? h) eqn:E; inversion H. split; [reflexivity|lia]. Qed.
  Lemma prune_ps0 : forall m, prune_params ps0 m = ps0.
  Proof. intros m. unfold prune_params, ps0. cbn [filter fst]. destruct (gh + 1 <=? m); reflexivity. Qed.
  Lemma meets_ps0 : forall sel get e, meets ps0 sel get e <-> (gh < i_height e /\ sel p0 <= get e).
  Proof.
    intros sel get e. unfold meets. split.
    - intros (p & Hp & Hle). apply get_ps0_ok in Hp. destruct Hp as [-> Hh]. split; assumption.
    - intros [Hh Hle]. exists p0. split; [|exact Hle]. rewrite get_ps0. destruct (gh + 1 <=? i_height e) eqn:E; [reflexivity|lia].
  Qed.

  (* ---------------------------------------------------------------- one vote update, static parameters *)
  Definition pvb (nw : info) (he : N) : bool := (i_mhg nw <? i_height nw) && (i_mhg nw + 1 <=? he).
  Definition pcb (nw : info) (w0 : list info) (act : list active) (a : info) : bool :=
    (i_mhg nw <? i_height nw) &&
    match find_active act (i_gen nw) with
    | Some vi => (Nmax3 (a_min vi) (height_not_prevoted w0 + 1) (a_lhp vi + 1) <=? i_height a) && (p_pv p0 <=? i_pv a)
    | None => false
    end.
  Definition upd_rel (w0 : list info) (act : list active) (nw : info) (a e1 : info) : Prop :=
    static e1 = static a /\
    i_pv e1 = i_pv a + (if pvb nw (i_height a) then wt (i_gen nw) else 0) /\
    i_pc e1 = i_pc a + (if pcb nw w0 act a then wt (i_gen nw) else 0).

  Lemma update_votes_static : forall nw tl act r act',
    desc (nw :: tl) -> (forall x, In x (nw :: tl) -> gh < i_height x) -> AInv act ->
    update_votes ps0 (nw :: tl) act = Ok (r, act') ->
    Forall2 (upd_rel (nw :: tl) act nw) (nw :: tl) r /\
    AInv act' /\ (forall g', lhp act g' <= lhp act' g') /\
    (forall a, In a (nw :: tl) -> pcb nw (nw :: tl) act a = true -> i_height a <= lhp act' (i_gen nw)).
  Proof.
    intros nw tl act r act' Hd Hgh HA H.
    unfold update_votes in H. set (w0 := nw :: tl) in *.
    destruct (i_height nw <=? i_mhg nw) eqn:Ev.
    { injection H as <- <-. split; [|split; [exact HA|split; [intros; lia|]]].
      - apply Forall2_refl_on. intros a Ha. unfold upd_rel, pvb, pcb.
        assert (i_mhg nw <? i_height nw = false) as -> by lia. cbn [andb]. repeat split; try reflexivity; lia.
      - intros a Ha Hc. unfold pcb in Hc. assert (i_mhg nw <? i_height nw = false) as E by lia. rewrite E in Hc. discriminate. }
    destruct (find_active act (i_gen nw)) as [vi|] eqn:Ea.
    2:{ injection H as <- <-. split; [|split; [exact HA|split; [intros; lia|]]].
      - apply Forall2_refl_on. intros a Ha. unfold upd_rel, pcb. rewrite Ea.
        assert (wt (i_gen nw) = 0) as -> by (unfold wt, weight; rewrite (proj2 (HA (i_gen nw)) Ea); reflexivity).
        rewrite andb_false_r. destruct (pvb nw (i_height a)); repeat split; try reflexivity; lia.
      - intros a Ha Hc. unfold pcb in Hc. rewrite Ea, andb_false_r in Hc. discriminate. }
    set (minpc := Nmax3 (a_min vi) (height_not_prevoted w0 + 1) (a_lhp vi + 1)) in *.
    set (minpv := N.max (i_mhg nw + 1) (a_min vi)) in *.
    destruct (precommit_loop ps0 (i_gen nw) minpc w0 None) as [[mid f]|e] eqn:Epc; cbn [bind] in H; [|discriminate].
    cbn [fst snd] in H.
    destruct (prevote_loop ps0 (i_gen nw) minpv mid) as [r'|e] eqn:Epv; cbn [bind] in H; [|discriminate].
    injection H as <- <-.
    pose proof (precommit_loop_spec _ _ _ _ _ _ _ Hd Epc) as Hpc.
    assert (Hdm : desc mid) by (eapply grows_desc; [|exact Hd]; eapply Forall2_impl; [apply pc_step_same|exact Hpc]).
    pose proof (prevote_loop_spec _ _ _ _ _ Hdm Epv) as Hpv.
    destruct (HA (i_gen nw)) as [HA1 _]. destruct (HA1 vi Ea) as [Hmin Hw].
    destruct (find_weight vals (i_gen nw)) as [w|] eqn:Ew; [|congruence].
    assert (Hwt : wt (i_gen nw) = w) by (unfold wt, weight; rewrite Ew; reflexivity).
    pose proof (precommit_loop_first _ _ _ _ _ _ _ Hd Epc) as Hfirst. cbv beta zeta in Hfirst.
    assert (Hcond : forall a, In a w0 ->
              (minpc <=? i_height a) && match get_params ps0 (i_height a) with Ok p => p_pv p <=? i_pv a | Error _ => false end
              = pcb nw w0 act a).
    { intros a Ha. unfold pcb. rewrite Ea. fold minpc. rewrite get_ps0. specialize (Hgh a Ha).
      assert (gh + 1 <=? i_height a = true) as -> by lia. assert (i_mhg nw <? i_height nw = true) as -> by lia. reflexivity. }
    split; [|split; [|split]].
    - eapply Forall2_impl_in; [|exact (Forall2_comp _ _ _ _ _ Hpc Hpv)].
      intros a e1 Ha (b & Hab & Hbe). specialize (Hgh a Ha). unfold upd_rel. rewrite <- (Hcond a Ha).
      unfold pc_step in Hab. unfold pv_step in Hbe. rewrite get_ps0.
      assert (gh + 1 <=? i_height a = true) as -> by lia.
      assert (Hb : static b = static a /\ i_pv b = i_pv a /\
                   i_pc b = i_pc a + (if (minpc <=? i_height a) && (p_pv p0 <=? i_pv a) then wt (i_gen nw) else 0)).
      { destruct (minpc <=? i_height a); [|subst b; cbn [andb]; repeat split; try reflexivity; lia].
        destruct Hab as (p & Hp & Hab). apply get_ps0_ok in Hp. destruct Hp as [-> _]. cbn [andb].
        destruct (p_pv p0 <=? i_pv a); [|subst b; repeat split; try reflexivity; lia].
        destruct Hab as (w' & Hw' & ->). change (p_vals p0) with vals in Hw'. rewrite Ew in Hw'. inversion Hw'; subst w'.
        unfold add_pc, static; cbn. repeat split; try reflexivity; lia. }
      destruct Hb as (Hb1 & Hb2 & Hb3).
      assert (Hbh : i_height b = i_height a) by (unfold static in Hb1; congruence).
      rewrite <- Hb3, <- Hb2, <- Hb1. unfold pvb.
      assert (i_mhg nw <? i_height nw = true) as -> by lia. cbn [andb].
      assert (Hmv : (minpv <=? i_height b) = (i_mhg nw + 1 <=? i_height a)) by (unfold minpv; lia).
      rewrite Hmv in Hbe. destruct (i_mhg nw + 1 <=? i_height a).
      + destruct Hbe as (p & w' & Hp & Hw' & ->). apply get_ps0_ok in Hp. destruct Hp as [-> _].
        change (p_vals p0) with vals in Hw'. rewrite Ew in Hw'. inversion Hw'; subst w'.
        unfold add_pv, static; cbn. repeat split; try reflexivity; lia.
      + subst e1. repeat split; try reflexivity; lia.
    - destruct f as [h|]; [|exact HA]. cbn [snd]. intros g. rewrite find_active_set_lhp.
      destruct (i_gen nw =? g) eqn:Eg.
      + assert (g = i_gen nw) by lia. subst g. rewrite Ea. cbn [option_map]. split.
        * intros y Hy. inversion Hy; subst y. cbn [a_min]. split; [exact Hmin|congruence].
        * discriminate.
      + apply HA.
    - intros g'. destruct f as [h|]; [|lia]. cbn [snd]. unfold lhp. rewrite find_active_set_lhp.
      destruct (i_gen nw =? g') eqn:Eg; [|lia].
      assert (g' = i_gen nw) by lia. subst g'. rewrite Ea. cbn [option_map a_lhp].
      destruct Hfirst as [Hm _]. unfold minpc, Nmax3 in Hm. lia.
    - intros a Ha Hc. rewrite <- (Hcond a Ha) in Hc. destruct f as [h|].
      + cbn [snd]. unfold lhp. rewrite find_active_set_lhp, N.eqb_refl, Ea. cbn [option_map a_lhp].
        destruct Hfirst as [_ Hall]. apply Hall; assumption.
      + rewrite (Hfirst a Ha) in Hc. discriminate.
  Qed.


  (* ---------------------------------------------------------------- chains, views *)
  Definition chain := list block.
  Definition dhdr : hdr := {| h_height := 0; h_gen := 0; h_mhg := 0; h_mhp := 0; h_cert := None |}.
  Definition lastH (K : chain) : hdr := fst (last K (dhdr, None)).
  Definition hgt (K : chain) : N := h_height (lastH K).
  Definition mhgC (K : chain) : N := h_mhg (lastH K).
  Definition mhpC (K : chain) : N := h_mhp (lastH K).
  Definition genC (K : chain) : addr := h_gen (lastH K).
  Definition tipof (K : chain) : N := gh + N.of_nat (length K).
  Definition blk (K : chain) (h : N) : chain := firstn (N.to_nat (h - gh)) K.

  (* one block of a valid chain over the static validator set: no parameter change, next height, the two BFT rules of
     verifyBlock hold in the current view, BeforeTransactionsExecute succeeds *)
  Definition step (s : store) (tip : N) (x : block) : option store :=
    match snd x with
    | Some _ => None
    | None => if (h_height (fst x) =? tip + 1) && bft_valid s (fst x)
              then match before_txs batch s (fst x) with Ok s' => Some s' | Error _ => None end
              else None
    end.
  Fixpoint vrun (s : store) (tip : N) (K : chain) : option store :=
    match K with
    | [] => Some s
    | x :: tl => match step s tip x with Some s' => vrun s' (tip + 1) tl | None => None end
    end.
  Definition view (K : chain) : option store := vrun s0 gh K.
  Definition valid_chain (K : chain) : Prop := view K <> None.

  Lemma step_some : forall s tip x s1, step s tip x = Some s1 ->
    exists b, x = (b, None) /\ h_height b = tip + 1 /\ bft_valid s b = true /\ before_txs batch s b = Ok s1.
  Proof.
    intros s tip [b chg] s1 H. unfold step in H. cbn [fst snd] in H. destruct chg; [discriminate|].
    destruct ((h_height b =? tip + 1) && bft_valid s b) eqn:E; [|discriminate].
    destruct (before_txs batch s b) as [s'|e] eqn:Eb; [|discriminate]. injection H as <-.
    apply andb_prop in E. destruct E as [E1 E2]. exists b. repeat split; auto. lia.
  Qed.
  Lemma step_intro : forall s tip b s1, h_height b = tip + 1 -> bft_valid s b = true -> before_txs batch s b = Ok s1 ->
    step s tip (b, None) = Some s1.
  Proof.
    intros s tip b s1 H1 H2 H3. unfold step. cbn [fst snd]. rewrite H2, H3.
    assert (h_height b =? tip + 1 = true) as -> by lia. reflexivity.
  Qed.

  Lemma vrun_app : forall K1 K2 s tip, vrun s tip (K1 ++ K2) =
    match vrun s tip K1 with Some s1 => vrun s1 (tip + N.of_nat (length K1)) K2 | None => None end.
  Proof.
    induction K1 as [|x K1 IH]; intros K2 s tip; cbn [app vrun length].
    - rewrite N.add_0_r. reflexivity.
    - destruct (step s tip x) as [s'|]; [|reflexivity]. rewrite IH.
      replace (tip + 1 + N.of_nat (length K1)) with (tip + N.of_nat (S (length K1))) by lia. reflexivity.
  Qed.
  Lemma view_snoc : forall K x s1, view (K ++ [x]) = Some s1 <-> exists s, view K = Some s /\ step s (tipof K) x = Some s1.
  Proof.
    intros K x s1. unfold view. rewrite vrun_app. fold (tipof K). split.
    - destruct (vrun s0 gh K) as [s|]; [|discriminate]. cbn [vrun]. intros H. exists s. split; [reflexivity|].
      destruct (step s (tipof K) x); [exact H|discriminate].
    - intros (s & -> & H). cbn [vrun]. rewrite H. reflexivity.
  Qed.
  Lemma view_prefix : forall K K' s, view K = Some s -> prefix K' K -> exists s', view K' = Some s'.
  Proof.
    intros K K' s H [t ->]. unfold view in *. rewrite vrun_app in H. destruct (vrun s0 gh K') as [s'|]; [eauto|discriminate].
  Qed.
  Lemma view_nil : view [] = Some s0.
  Proof. reflexivity. Qed.

  Lemma view_ind0 : forall (Q : chain -> store -> Prop), Q [] s0 ->
    (forall K s b s1, view K = Some s -> Q K s -> h_height b = tipof K + 1 -> bft_valid s b = true ->
                      before_txs batch s b = Ok s1 -> Q (K ++ [(b, None)]) s1) ->
    forall K s, view K = Some s -> Q K s.
  Proof.
    intros Q Q0 QS K. induction K as [|x K IH] using rev_ind; intros s H.
    - rewrite view_nil in H. injection H as <-. exact Q0.
    - apply view_snoc in H. destruct H as (s' & Hv & Hs). apply step_some in Hs.
      destruct Hs as (b & -> & Hb & Hval & Hbt). eapply QS; eauto.
  Qed.

  (* the chain is what run_blocks executes *)
  Lemma vrun_run_blocks : forall K s tip s', vrun s tip K = Some s' ->
    run_blocks batch s K = Ok s' /\ consecutive tip K /\ Forall (fun x => snd x = None) K.
  Proof.
    induction K as [|x K IH]; intros s tip s' H; cbn [vrun] in H.
    - injection H as <-. repeat split; constructor.
    - destruct (step s tip x) as [s1|] eqn:E; [|discriminate]. apply step_some in E.
      destruct E as (b & -> & Hb & Hval & Hbt). destruct (IH _ _ _ H) as (H1 & H2 & H3).
      cbn [run_blocks apply_block]. rewrite Hbt. cbn [bind]. repeat split; auto.
  Qed.

  Lemma lastH_snoc : forall K x, lastH (K ++ [x]) = fst x.
  Proof. intros K x. unfold lastH. rewrite last_last. reflexivity. Qed.
  Lemma firstn_S_nth : forall {A} i (K : list A) y, nth_error K i = Some y -> firstn (S i) K = firstn i K ++ [y].
  Proof.
    induction i as [|i IH]; intros K y H; destruct K as [|a K]; try discriminate.
    - cbn in H. injection H as <-. reflexivity.
    - cbn [nth_error] in H. change (firstn (S (S i)) (a :: K)) with (a :: firstn (S i) K). rewrite (IH K y H). reflexivity.
  Qed.
  Lemma blk_snoc : forall K h y, gh < h -> nth_error K (N.to_nat (h - gh - 1)) = Some y ->
    blk K h = blk K (h - 1) ++ [y].
  Proof.
    intros K h y Hh H. unfold blk. replace (N.to_nat (h - gh)) with (S (N.to_nat (h - gh - 1))) by lia.
    replace (N.to_nat (h - 1 - gh)) with (N.to_nat (h - gh - 1)) by lia. apply firstn_S_nth. exact H.
  Qed.
  Lemma blk_last : forall K h y, gh < h -> nth_error K (N.to_nat (h - gh - 1)) = Some y -> lastH (blk K h) = fst y.
  Proof. intros K h y Hh H. rewrite (blk_snoc K h y Hh H). apply lastH_snoc. Qed.
  Lemma blk_nonempty : forall K h y, gh < h -> nth_error K (N.to_nat (h - gh - 1)) = Some y -> blk K h <> [].
  Proof. intros K h y Hh H. rewrite (blk_snoc K h y Hh H). intros E. symmetry in E. apply app_cons_not_nil in E. exact E. Qed.
  Lemma blk_full : forall K, blk K (tipof K) = K.
  Proof. intros K. unfold blk, tipof. replace (N.to_nat (gh + N.of_nat (length K) - gh)) with (length K) by lia. apply firstn_all. Qed.
  Lemma blk_prefix : forall K h, prefix (blk K h) K.
  Proof. intros. apply firstn_prefix. Qed.
  Lemma blk_le : forall K h h', h <= h' -> prefix (blk K h) (blk K h').
  Proof. intros. apply firstn_prefix_le. lia. Qed.
  Lemma blk_of_prefix : forall P K h, prefix P K -> h <= tipof P -> blk P h = blk K h.
  Proof. intros P K h Hp Hh. unfold blk. apply prefix_firstn_of; [exact Hp|]. unfold tipof in Hh. lia. Qed.
  Lemma blk_length : forall K h, h <= tipof K -> length (blk K h) = N.to_nat (h - gh).
  Proof. intros K h H. unfold blk. rewrite firstn_length. unfold tipof in H. lia. Qed.

  Lemma static_eq : forall a b, static a = static b ->
    i_height a = i_height b /\ i_gen a = i_gen b /\ i_mhg a = i_mhg b /\ i_mhp a = i_mhp b.
  Proof. intros a b H. unfold static in H. injection H as H1 H2 H3 H4. auto. Qed.
  Lemma static_hdr_eq : forall y a, static_hdr y = static a ->
    h_height y = i_height a /\ h_gen y = i_gen a /\ h_mhg y = i_mhg a /\ h_mhp y = i_mhp a.
  Proof. intros y a H. unfold static, static_hdr in H. injection H as H1 H2 H3 H4. auto. Qed.

  Lemma Forall2_in_l : forall {A B} (P : A -> B -> Prop) l l' a, Forall2 P l l' -> In a l -> exists b, In b l' /\ P a b.
  Proof.
    intros A B P l l' a H. induction H as [|a0 b0 l l' Hab H IH]; intros Hin; [contradiction|].
    destruct Hin as [<-|Hin]; [exists b0; split; [left; reflexivity|exact Hab]|].
    destruct (IH Hin) as (b1 & Hb & Hp). exists b1. split; [right; exact Hb|exact Hp].
  Qed.
  Lemma NoDup_snoc : forall {A} (l : list A) g, NoDup l -> ~ In g l -> NoDup (l ++ [g]).
  Proof.
    intros A l g H. induction H as [|a l Hn H IH]; intros Hg; cbn [app]; [constructor; [intros []|constructor]|].
    constructor.
    - intros Hin. apply in_app_or in Hin. destruct Hin as [Hin|[<-|[]]]; [contradiction|]. apply Hg. left; reflexivity.
    - apply IH. intros Hin. apply Hg. right; exact Hin.
  Qed.

  (* ---------------------------------------------------------------- ghost contributions *)
  Definition genb (x : block) : addr := h_gen (fst x).
  (* header [b] prevotes for height [he] *)
  Definition pvh (b : hdr) (he : N) : bool := (h_mhg b <? h_height b) && (h_mhg b + 1 <=? he) && (he <=? h_height b).
  Definition pvl (K : chain) (he : N) : chain := filter (fun x => pvh (fst x) he) K.

  (* in the view of chain T the window entry of height h reaches the threshold (prevote: sel = p_pv, get = i_pv) *)
  Definition qrm (sel : params -> N) (get : info -> N) (T : chain) (h : N) : Prop :=
    exists s e, view T = Some s /\ In e (window s) /\ i_height e = h /\ sel p0 <= get e.

  (* evidence that the last block of P carried a precommit of its generator for height he *)
  Definition pc_ev (he : N) (P : chain) : Prop :=
    P <> [] /\ he <= mhpC P /\ qrm p_pv i_pv (removelast P) he /\
    exists rest, linked chain addr hgt mhgC genC (@prefix block) (genC P) (blk P he) (P :: rest) /\
                 Forall (fun Q => prefix Q P /\ Q <> []) rest.

  Definition WInv (K : chain) (w : list info) : Prop :=
    forall e, In e w -> gh < i_height e /\
      exists y, nth_error K (N.to_nat (i_height e - gh - 1)) = Some y /\ static_hdr (fst y) = static e.

  Record CInv (K : chain) (s : store) : Prop := {
    ci_params : s_params s = ps0;
    ci_vgood : vgood (tipof K) s;
    ci_act : AInv (v_act (s_votes s));
    ci_hdrs : forall j y, nth_error K j = Some y -> snd y = None /\ h_height (fst y) = gh + N.of_nat j + 1;
    ci_win : WInv K (window s);
    ci_maxpv : forall e, In e (window s) -> p_pv p0 <= i_pv e -> i_height e <= v_mhp (s_votes s);
    ci_pv : forall e, In e (window s) ->
            i_pv e = wsum vals (map genb (pvl K (i_height e))) /\ NoDup (map genb (pvl K (i_height e)));
    ci_pc : forall e, In e (window s) -> exists L,
            i_pc e = wsum vals (map genC L) /\ NoDup (map genC L) /\
            forall P, In P L -> prefix P K /\ pc_ev (i_height e) P /\ i_height e <= lhp (v_act (s_votes s)) (genC P);
  }.

  Lemma ilinked_linked : forall K' w, WInv K' w ->
    forall g he run, hgt (blk K' he) = he -> (forall Q, In Q run -> In Q w) -> ilinked g he run ->
    linked chain addr hgt mhgC genC (@prefix block) g (blk K' he) (map (fun x => blk K' (i_height x)) run) /\
    Forall (fun Q => prefix Q K' /\ Q <> []) (map (fun x => blk K' (i_height x)) run).
  Proof.
    intros K' w HW g he run Hhe. induction run as [|P run IH]; intros Hin Hl; [contradiction|].
    assert (HP : hgt (blk K' (i_height P)) = i_height P /\ mhgC (blk K' (i_height P)) = i_mhg P /\
                 genC (blk K' (i_height P)) = i_gen P /\ blk K' (i_height P) <> []).
    { destruct (HW P (Hin P (or_introl eq_refl))) as (Hgh & y & Hy & Hs). apply static_hdr_eq in Hs.
      unfold hgt, mhgC, genC. rewrite (blk_last _ _ _ Hgh Hy). destruct Hs as (A1 & A2 & A3 & A4).
      repeat split; auto. eapply blk_nonempty; eauto. }
    destruct HP as (HP1 & HP2 & HP3 & HP4).
    destruct run as [|Q rest].
    - cbn [map]. cbn [ilinked] in Hl. destruct Hl as (L1 & L2 & L3). split.
      + cbn [linked]. rewrite HP2, HP3. split; [exact L1|]. split; [apply blk_le; exact L2|].
        rewrite Hhe. exact L3.
      + constructor; [|constructor]. split; [apply blk_prefix|exact HP4].
    - assert (Hl' := Hl). apply ilinked_cons2 in Hl'. destruct Hl' as (L1 & L2 & L3 & L4 & L5).
      destruct (IH (fun Q0 H0 => Hin Q0 (or_intror H0)) L5) as (IH1 & IH2).
      split.
      + change (map (fun x => blk K' (i_height x)) (P :: Q :: rest))
          with (blk K' (i_height P) :: map (fun x => blk K' (i_height x)) (Q :: rest)).
        assert (HQ : hgt (blk K' (i_height Q)) = i_height Q).
        { destruct (HW Q (Hin Q (or_intror (or_introl eq_refl)))) as (Hgh & y & Hy & Hs). apply static_hdr_eq in Hs.
          unfold hgt. rewrite (blk_last _ _ _ Hgh Hy). tauto. }
        cbn [map] in IH1 |- *. apply linked_cons2. rewrite HP1, HP2, HP3, HQ.
        split; [exact L1|]. split; [apply blk_le; exact L2|]. split; [exact L3|]. split; [exact L4|exact IH1].
      + constructor; [split; [apply blk_prefix|exact HP4]|exact IH2].
  Qed.

  Lemma pvl_nil : forall K he, (forall y, In y K -> h_height (fst y) < he) -> pvl K he = [].
  Proof.
    intros K he H. destruct (pvl K he) as [|y l] eqn:E; [reflexivity|]. exfalso.
    assert (Hy : In y (pvl K he)) by (rewrite E; left; reflexivity). unfold pvl in Hy. apply filter_In in Hy.
    destruct Hy as [Hy Hp]. specialize (H y Hy). unfold pvh in Hp. lia.
  Qed.

  Lemma cinv_nil : CInv [] s0.
  Proof.
    destruct init_shape as (Hps & Hw & Hmp & Hmpc & HA & Hpv & Hpc).
    constructor.
    - exact Hps.
    - replace (tipof []) with gh by (unfold tipof; cbn; lia). eapply init_vgood; exact Hinit.
    - exact HA.
    - intros j y H. destruct j; discriminate.
    - rewrite Hw. intros e [].
    - rewrite Hw. intros e [].
    - rewrite Hw. intros e [].
    - rewrite Hw. intros e [].
  Qed.

  Lemma cinv_step : forall K s b s1, view K = Some s -> CInv K s -> h_height b = tipof K + 1 -> bft_valid s b = true ->
    before_txs batch s b = Ok s1 -> CInv (K ++ [(b, None)]) s1.
  Proof.
    intros K s b s1 Hv HC Hb Hval Hbt.
    set (x := (b, None) : block). set (K' := K ++ [x]).
    assert (Htip' : tipof K' = tipof K + 1) by (unfold tipof, K'; rewrite app_length; cbn; lia).
    assert (Hgt : gh <= tipof K) by (unfold tipof; lia).
    destruct HC as [Cps Cvg Cact Chd Cwin Cmax Cpv Cpc].
    pose proof Cvg as ((HI & Hmp & Hmpc) & Hlc & Hmb).
    assert (Hap : apply_block batch s x = Ok s1) by (unfold apply_block, x; rewrite Hbt; reflexivity).
    pose proof (valid_block_step batch s x s1 (tipof K) Hbatch Cvg Hb Hval Hap) as Hvg1.
    destruct (before_txs_window _ _ _ _ Hbt) as (r & act' & pv & pcx & Hu & Hw & Hact & _ & _ & _ & _ & _ & Hps).
    rewrite Cps in Hu, Hps. rewrite prune_ps0 in Hps.
    unfold insert_info in Hu.
    destruct (3 * batch)%nat as [|n] eqn:En; [lia|]. cbn [firstn] in Hu.
    set (nw := new_info b) in *. set (tl := firstn n (window s)) in *. set (act := v_act (s_votes s)) in *.
    assert (Hnwh : i_height nw = tipof K + 1) by exact Hb.
    assert (Hh0 : hts (nw :: tl) (tipof K + 1)).
    { change (nw :: tl) with (firstn (S n) (nw :: window s)). apply hts_firstn. apply hts_cons; [apply HI|exact Hb]. }
    assert (Htl : forall a, In a tl -> In a (window s)) by (intros a Ha; eapply In_firstn_in; exact Ha).
    assert (Hgh0 : forall a, In a (nw :: tl) -> gh < i_height a).
    { intros a [<-|Ha]; [lia|]. apply (Cwin a (Htl a Ha)). }
    destruct (update_votes_static nw tl act r act' (hts_desc _ _ Hh0) Hgh0 Cact Hu) as (HF & HA' & Hmono & Hlhp).
    assert (HKK' : forall j y, nth_error K j = Some y -> nth_error K' j = Some y).
    { intros j y Hy. unfold K'. rewrite nth_error_app1; [exact Hy|]. apply nth_error_Some. congruence. }
    assert (HW0 : WInv K' (nw :: tl)).
    { intros a Ha. split; [apply Hgh0; exact Ha|]. destruct Ha as [<-|Ha].
      - exists x. split; [|reflexivity]. rewrite Hnwh. unfold K', tipof.
        replace (N.to_nat (gh + N.of_nat (length K) + 1 - gh - 1)) with (length K) by lia.
        rewrite nth_error_app2 by lia. rewrite Nat.sub_diag. reflexivity.
      - destruct (Cwin a (Htl a Ha)) as (_ & y & Hy & Hs). exists y. split; [apply HKK'; exact Hy|exact Hs]. }
    assert (Hsrc : forall e1, In e1 r -> exists a, In a (nw :: tl) /\ upd_rel (nw :: tl) act nw a e1).
    { intros e1 He. apply (Forall2_in_r _ _ _ _ HF He). }
    assert (Hhgt : forall a, In a (nw :: tl) -> hgt (blk K' (i_height a)) = i_height a).
    { intros a Ha. destruct (HW0 a Ha) as (Hg & y & Hy & Hs). apply static_hdr_eq in Hs. unfold hgt.
      rewrite (blk_last _ _ _ Hg Hy). tauto. }
    assert (HinK : forall y, In y K -> h_height (fst y) <= tipof K).
    { intros y Hy. apply In_nth_error in Hy. destruct Hy as [j Hj]. destruct (Chd j y Hj) as [_ ->].
      assert (j < length K)%nat by (apply nth_error_Some; congruence). unfold tipof. lia. }
    (* shape of the new window *)
    assert (Hr : exists e_nw r_tl, r = e_nw :: r_tl /\ upd_rel (nw :: tl) act nw nw e_nw /\
                                  Forall2 (upd_rel (nw :: tl) act nw) tl r_tl).
    { inversion HF as [|? e_nw ? r_tl H1 H2]; subst. exists e_nw, r_tl. auto. }
    destruct Hr as (e_nw & r_tl & Er & Hunw & HFtl).
    change (CInv K' s1). constructor.
    - exact Hps.
    - rewrite Htip'. exact Hvg1.
    - rewrite Hact. exact HA'.
    - intros j y Hy. unfold K' in Hy. destruct (Nat.lt_ge_cases j (length K)) as [Hlt|Hge].
      + rewrite nth_error_app1 in Hy by exact Hlt. apply Chd; exact Hy.
      + rewrite nth_error_app2 in Hy by exact Hge. destruct (j - length K)%nat as [|m] eqn:Ej.
        * cbn in Hy. injection Hy as <-. split; [reflexivity|]. cbn [fst x]. rewrite Hb. unfold tipof. lia.
        * destruct m; discriminate.
    - intros e1 He. rewrite Hw in He. destruct (Hsrc e1 He) as (a & Ha & (Hs & _)).
      destruct (static_eq _ _ Hs) as (E1 & _). destruct (HW0 a Ha) as (Hg & y & Hy & Hsy).
      split; [lia|]. exists y. rewrite E1, Hs. split; assumption.
    - intros e1 He Hq. destruct (heights_are_max_quorum batch s b s1 (tipof K) Hbatch HI Hb Hbt) as [Hmq _].
      assert (Hm : meets (s_params s) p_pv i_pv e1).
      { rewrite Cps. apply meets_ps0. split; [|exact Hq]. rewrite Hw in He.
        destruct (Hsrc e1 He) as (a & Ha & (Hs & _)). destruct (static_eq _ _ Hs) as (E1 & _). specialize (Hgh0 a Ha). lia. }
      destruct Hmq as [[_ Hall]|[_ Hnone]]; [apply Hall; assumption|exfalso; eapply Hnone; eauto].
    - (* prevote decomposition *)
      intros e1 He. rewrite Hw in He. destruct (Hsrc e1 He) as (a & Ha & (Hs & Hpv1 & _)).
      destruct (static_eq _ _ Hs) as (E1 & _). rewrite E1, Hpv1. clear Hpv1.
      assert (Hhe : i_height a <= tipof K + 1) by (apply (hts_in_le _ _ _ Hh0 Ha)).
      assert (Hpvl : pvl K' (i_height a) = pvl K (i_height a) ++ (if pvh b (i_height a) then [x] else [])).
      { unfold pvl, K'. rewrite filter_app. cbn [filter fst x]. destruct (pvh b (i_height a)); reflexivity. }
      assert (Hpvb : pvb nw (i_height a) = pvh b (i_height a)).
      { unfold pvb, pvh. change (i_mhg nw) with (h_mhg b). change (i_height nw) with (h_height b).
        assert (i_height a <=? h_height b = true) as -> by lia. rewrite andb_true_r. reflexivity. }
      assert (Hold : i_pv a = wsum vals (map genb (pvl K (i_height a))) /\ NoDup (map genb (pvl K (i_height a)))).
      { destruct Ha as [<-|Ha].
        - rewrite pvl_nil; [split; [reflexivity|constructor]|]. intros y Hy. specialize (HinK y Hy). lia.
        - apply Cpv. apply Htl; exact Ha. }
      destruct Hold as [Hold1 Hold2]. rewrite Hpvl, map_app, wsum_app, Hpvb, <- Hold1.
      destruct (pvh b (i_height a)) eqn:Epv.
      + cbn [map]. split; [rewrite wsum_cons; change (wsum vals []) with 0; unfold wt, genb; cbn [fst x]; change (i_gen nw) with (h_gen b); lia|].
        apply NoDup_snoc; [exact Hold2|]. intros Hin.
        apply in_map_iff in Hin. destruct Hin as (y & Hgy & Hy). unfold pvl in Hy. apply filter_In in Hy.
        destruct Hy as [HyK Hpvy]. pose proof (HinK y HyK) as Hyle.
        apply In_nth_error in HyK. destruct HyK as [j Hj]. destruct (Chd j y Hj) as (_ & Hhy).
        assert (Hrange : i_height a <= h_height (fst y) <= tipof K + 1) by (unfold pvh in Hpvy; lia).
        destruct (hts_nth_height (nw :: tl) (tipof K + 1) (h_height (fst y)) a Hh0 Ha Hrange) as (xe & Hxe & Hxeh).
        assert (Hxin : In xe (nw :: tl)) by (eapply nth_error_In; exact Hxe).
        destruct (HW0 xe Hxin) as (_ & y' & Hy' & Hsy').
        assert (y' = y).
        { rewrite Hxeh, Hhy in Hy'. replace (N.to_nat (gh + N.of_nat j + 1 - gh - 1)) with j in Hy' by lia.
          rewrite (HKK' j y Hj) in Hy'. congruence. }
        subst y'. apply static_hdr_eq in Hsy'. destruct Hsy' as (_ & Sg & _).
        destruct Hxin as [Hxnw|Hxtl]; [subst xe; lia|].
        destruct (Forall2_in_l _ _ _ _ HFtl Hxtl) as (ex & Hex & (Hsx & _)).
        destruct (static_eq _ _ Hsx) as (X1 & X2 & _).
        destruct Hunw as (Hsn & _). destruct (static_eq _ _ Hsn) as (_ & N2 & N3 & _).
        destruct Hvg1 as (_ & Hlc1 & _). rewrite Hw, Er in Hlc1. destruct Hlc1 as [Hlc1 _].
        assert (Hls : legit_successor (bh_of_info ex) (bh_of_info e_nw)).
        { apply Hlc1; [exact Hex|]. rewrite X2, N2. change (i_gen nw) with (h_gen b). unfold genb, x in Hgy. cbn [fst] in Hgy. congruence. }
        unfold legit_successor, bh_of_info in Hls; cbn in Hls. rewrite N3, X1 in Hls. change (i_mhg nw) with (h_mhg b) in Hls.
        unfold pvh in Epv. lia.
      + cbn [map]. rewrite app_nil_r. split; [change (wsum vals []) with 0; lia|exact Hold2].
    - (* precommit decomposition *)
      intros e1 He. rewrite Hw in He. destruct (Hsrc e1 He) as (a & Ha & (Hs & _ & Hpc1)).
      destruct (static_eq _ _ Hs) as (E1 & _). rewrite E1, Hpc1, Hact. clear Hpc1.
      destruct init_shape as (_ & _ & _ & _ & _ & Hpv1 & _).
      destruct Ha as [<-|Ha].
      { exists []. assert (pcb nw (nw :: tl) act nw = false) as ->.
        { unfold pcb. destruct (find_active act (i_gen nw)); [|apply andb_false_r].
          change (i_pv nw) with 0. assert (p_pv p0 <=? 0 = false) as -> by lia. rewrite !andb_false_r. reflexivity. }
        split; [cbn; change (i_pc nw) with 0; lia|]. split; [constructor|intros P []]. }
      destruct (Cpc a (Htl a Ha)) as (L & HL1 & HL2 & HL3).
      destruct (pcb nw (nw :: tl) act a) eqn:Epc.
      2:{ exists L. split; [lia|]. split; [exact HL2|]. intros P HP. destruct (HL3 P HP) as (P1 & P2 & P3).
          split; [eapply prefix_trans; [exact P1|exists [x]; reflexivity]|]. split; [exact P2|].
          specialize (Hmono (genC P)). fold act in P3. lia. }
      (* the new block precommits for a *)
      pose proof Epc as Epc'. unfold pcb in Epc'.
      destruct (find_active act (i_gen nw)) as [vi|] eqn:Ea; [|rewrite andb_false_r in Epc'; discriminate].
      assert (Hvote : i_mhg nw < i_height nw) by lia.
      assert (Hminpc : Nmax3 (a_min vi) (height_not_prevoted (nw :: tl) + 1) (a_lhp vi + 1) <= i_height a) by lia.
      assert (Hq : p_pv p0 <= i_pv a) by lia.
      unfold Nmax3 in Hminpc.
      assert (HgK' : genC K' = h_gen b) by (unfold genC, K'; rewrite lastH_snoc; reflexivity).
      exists (K' :: L). split; [|split].
      + cbn [map]. rewrite wsum_cons, HgK'. unfold wt. change (i_gen nw) with (h_gen b). lia.
      + cbn [map]. constructor; [|exact HL2]. intros Hin. apply in_map_iff in Hin. destruct Hin as (P & HgP & HP).
        destruct (HL3 P HP) as (_ & _ & P3). fold act in P3. rewrite HgP, HgK' in P3. unfold lhp in P3.
        change (i_gen nw) with (h_gen b) in Ea. rewrite Ea in P3. lia.
      + intros P [<-|HP].
        2:{ destruct (HL3 P HP) as (P1 & P2 & P3).
            split; [eapply prefix_trans; [exact P1|exists [x]; reflexivity]|]. split; [exact P2|].
            specialize (Hmono (genC P)). fold act in P3. lia. }
        split; [apply prefix_refl|]. split.
        * unfold pc_ev. split; [unfold K'; intros E; symmetry in E; apply app_cons_not_nil in E; exact E|].
          split.
          { unfold mhpC, K'. rewrite lastH_snoc. cbn [fst x].
            unfold bft_valid in Hval. apply andb_prop in Hval. destruct Hval as [Hv1 _]. apply N.eqb_eq in Hv1. rewrite Hv1.
            apply Cmax; [apply Htl; exact Ha|exact Hq]. }
          split.
          { unfold K'. rewrite removelast_last. exists s, a. repeat split; auto. }
          assert (Hhnp : hnp_loop (S (length (nw :: tl))) (nw :: tl) (i_gen nw) (i_height nw) (i_mhg nw) < i_height a).
          { unfold height_not_prevoted in Hminpc. lia. }
          assert (Hle : i_height a <= i_height nw) by (pose proof (hts_in_le _ _ _ Hh0 (or_intror Ha)); lia).
          rewrite Hnwh in Hhnp at 1.
          destruct (hnp_linked _ _ _ _ (i_height a) a Hh0 (or_intror Ha) eq_refl (i_mhg nw) nw
                      (or_introl eq_refl) eq_refl eq_refl Hvote Hle Hhnp) as (run & Hrun & Hrin).
          assert (Hall : forall Q, In Q (nw :: run) -> In Q (nw :: tl)).
          { intros Q [<-|HQ]; [left; reflexivity|apply Hrin; exact HQ]. }
          destruct (ilinked_linked K' (nw :: tl) HW0 (i_gen nw) (i_height a) (nw :: run) (Hhgt a (or_intror Ha)) Hall Hrun)
            as (Hlk & Hfa).
          cbn [map] in Hlk, Hfa. rewrite Hnwh, <- Htip', blk_full in Hlk, Hfa.
          exists (map (fun x0 => blk K' (i_height x0)) run). split.
          { rewrite HgK'. exact Hlk. }
          { inversion Hfa; assumption. }
        * rewrite HgK'. apply Hlhp; [right; exact Ha|exact Epc].
  Qed.

  Theorem cinv_view : forall K s, view K = Some s -> CInv K s.
  Proof.
    apply (view_ind0 CInv); [exact cinv_nil|]. intros K s b s1 Hv HC Hb Hval Hbt. eapply cinv_step; eauto.
  Qed.

  Lemma view_ind : forall (Q : chain -> store -> Prop), Q [] s0 ->
    (forall K s b s1, view K = Some s -> CInv K s -> Q K s -> h_height b = tipof K + 1 -> bft_valid s b = true ->
                      before_txs batch s b = Ok s1 -> view (K ++ [(b, None)]) = Some s1 -> Q (K ++ [(b, None)]) s1) ->
    forall K s, view K = Some s -> Q K s.
  Proof.
    intros Q Q0 QS. apply (view_ind0 Q); [exact Q0|]. intros K s b s1 Hv HQ Hb Hval Hbt.
    apply QS with (s := s); auto; [apply cinv_view; exact Hv|].
    apply view_snoc. exists s. split; [exact Hv|apply step_intro; assumption].
  Qed.

  (* P3 (and its precommit analogue): maxHeightPrevoted / maxHeightPrecommited above genesis are witnessed by a quorum
     in the view of some prefix of the chain *)
  Theorem quorum_witness : forall K s, view K = Some s ->
    (gh < v_mhp (s_votes s) -> exists T', prefix T' K /\ qrm p_pv i_pv T' (v_mhp (s_votes s))) /\
    (gh < v_mhpc (s_votes s) -> exists T', prefix T' K /\ qrm p_pc i_pc T' (v_mhpc (s_votes s))).
  Proof.
    apply (view_ind (fun K s =>
      (gh < v_mhp (s_votes s) -> exists T', prefix T' K /\ qrm p_pv i_pv T' (v_mhp (s_votes s))) /\
      (gh < v_mhpc (s_votes s) -> exists T', prefix T' K /\ qrm p_pc i_pc T' (v_mhpc (s_votes s))))).
    - destruct init_shape as (_ & _ & Hmp & Hmpc & _). rewrite Hmp, Hmpc. split; intros H; lia.
    - intros K s b s1 Hv HC [IH1 IH2] Hb Hval Hbt Hv1.
      pose proof (ci_vgood _ _ HC) as ((HI & _) & _).
      destruct (heights_are_max_quorum batch s b s1 (tipof K) Hbatch HI Hb Hbt) as [Hq1 Hq2].
      rewrite (ci_params _ _ HC) in Hq1, Hq2.
      assert (Hpre : forall T', prefix T' K -> prefix T' (K ++ [(b, None)])).
      { intros T' HT. eapply prefix_trans; [exact HT|]. exists [(b, None)]. reflexivity. }
      split; intros Hgt.
      + destruct Hq1 as [[(bi & Hbi & Hbh & Hm) _]|[E _]].
        * exists (K ++ [(b, None)]). split; [apply prefix_refl|]. apply meets_ps0 in Hm. exists s1, bi. tauto.
        * rewrite E in Hgt |- *. destruct (IH1 Hgt) as (T' & HT & Hq). exists T'. split; [apply Hpre; exact HT|exact Hq].
      + destruct Hq2 as [[(bi & Hbi & Hbh & Hm) _]|[E _]].
        * exists (K ++ [(b, None)]). split; [apply prefix_refl|]. apply meets_ps0 in Hm. exists s1, bi. tauto.
        * rewrite E in Hgt |- *. destruct (IH2 Hgt) as (T' & HT & Hq). exists T'. split; [apply Hpre; exact HT|exact Hq].
  Qed.

  (* ---------------------------------------------------------------- facts about valid chains used by the instantiation *)
  Lemma window_heights : forall K s e, view K = Some s -> In e (window s) -> gh < i_height e <= tipof K.
  Proof.
    intros K s e Hv He. pose proof (cinv_view _ _ Hv) as HC. split; [apply (ci_win _ _ HC e He)|].
    pose proof (ci_vgood _ _ HC) as ((HI & _) & _). apply (hts_in_le _ _ _ (inv_hts _ _ HI) He).
  Qed.
  Lemma window_unique : forall K s e e', view K = Some s -> In e (window s) -> In e' (window s) ->
    i_height e = i_height e' -> e = e'.
  Proof.
    intros K s e e' Hv He He' E. pose proof (cinv_view _ _ Hv) as HC.
    pose proof (ci_vgood _ _ HC) as ((HI & _) & _). eapply hts_unique; eauto. apply (inv_hts _ _ HI).
  Qed.
  Lemma qrm_heights : forall sel get T h, qrm sel get T h -> gh < h <= tipof T /\ T <> [].
  Proof.
    intros sel get T h (s & e & Hv & He & Hh & _). pose proof (window_heights _ _ _ Hv He) as Hr. split; [lia|].
    intros ->. unfold tipof in Hr. cbn in Hr. lia.
  Qed.
  Lemma valid_hgt : forall K s, view K = Some s -> K <> [] -> hgt K = tipof K.
  Proof.
    intros K s Hv Hne. pose proof (cinv_view _ _ Hv) as HC. destruct (exists_last Hne) as (K0 & y & ->).
    unfold hgt. rewrite lastH_snoc.
    assert (Hy : nth_error (K0 ++ [y]) (length K0) = Some y) by (rewrite nth_error_app2, Nat.sub_diag by lia; reflexivity).
    destruct (ci_hdrs _ _ HC _ _ Hy) as [_ ->]. unfold tipof. rewrite app_length. cbn. lia.
  Qed.
  Lemma valid_last_mhp : forall K s, view K = Some s -> K <> [] ->
    exists s', view (removelast K) = Some s' /\ mhpC K = v_mhp (s_votes s').
  Proof.
    intros K s Hv Hne. destruct (exists_last Hne) as (K0 & y & ->). rewrite removelast_last.
    apply view_snoc in Hv. destruct Hv as (s' & Hv' & Hs). apply step_some in Hs. destruct Hs as (b & -> & _ & Hval & _).
    exists s'. split; [exact Hv'|]. unfold mhpC. rewrite lastH_snoc. cbn [fst].
    unfold bft_valid in Hval. apply andb_prop in Hval. destruct Hval as [H1 _]. lia.
  Qed.
  Lemma blk_hgt : forall K s h, view K = Some s -> gh < h <= tipof K -> hgt (blk K h) = h /\ blk K h <> [].
  Proof.
    intros K s h Hv Hr. pose proof (cinv_view _ _ Hv) as HC.
    assert (Hlt : (N.to_nat (h - gh - 1) < length K)%nat) by (unfold tipof in Hr; lia).
    apply nth_error_Some in Hlt. destruct (nth_error K (N.to_nat (h - gh - 1))) as [y|] eqn:Ey; [|congruence].
    split; [|eapply blk_nonempty; [|exact Ey]; lia]. unfold hgt. rewrite (blk_last K h y) by (auto; lia).
    destruct (ci_hdrs _ _ HC _ _ Ey) as [_ ->]. lia.
  Qed.

  Lemma mhpc_le_tip : forall K s, view K = Some s -> v_mhpc (s_votes s) <= tipof K /\ v_mhp (s_votes s) <= tipof K.
  Proof. intros K s Hv. pose proof (ci_vgood _ _ (cinv_view _ _ Hv)) as ((_ & H1 & H2) & _). split; assumption. Qed.

  (* ---------------------------------------------------------------- valid_chain, declaratively *)
  Lemma run_blocks_app : forall l1 l2 s, run_blocks batch s (l1 ++ l2) =
    match run_blocks batch s l1 with Ok s' => run_blocks batch s' l2 | Error e => Error e end.
  Proof.
    induction l1 as [|x l1 IH]; intros l2 s; cbn [app run_blocks]; [reflexivity|].
    destruct (apply_block batch s x) as [s'|e]; cbn [bind]; [apply IH|reflexivity].
  Qed.

  (* a chain is valid iff no block carries a parameter change, heights are consecutive from gh+1, every header
     satisfies the two BFT rules of verifyBlock in the view of the blocks before it, and run_blocks succeeds *)
  Definition valid_chain_decl (K : chain) : Prop :=
    (forall j x, nth_error K j = Some x ->
       snd x = None /\ h_height (fst x) = gh + N.of_nat j + 1 /\
       exists s, run_blocks batch s0 (firstn j K) = Ok s /\ bft_valid s (fst x) = true) /\
    exists s, run_blocks batch s0 K = Ok s.

  Lemma view_run_blocks : forall K s, view K = Some s -> run_blocks batch s0 K = Ok s.
  Proof. intros K s H. apply (vrun_run_blocks K s0 gh s H). Qed.

  Theorem valid_chain_spec : forall K, valid_chain K <-> valid_chain_decl K.
  Proof.
    intros K. split.
    - intros H. unfold valid_chain in H. destruct (view K) as [s|] eqn:Hv; [clear H|congruence].
      revert K s Hv. apply (view_ind0 (fun K s => valid_chain_decl K /\ run_blocks batch s0 K = Ok s)).
      { split; [split; [intros j x H; destruct j; discriminate|exists s0; reflexivity]|reflexivity]. }
      intros K s b s1 Hv [[IH _] Hrun] Hb Hval Hbt.
      assert (Hrun1 : run_blocks batch s0 (K ++ [(b, None)]) = Ok s1).
      { rewrite run_blocks_app, Hrun. cbn [run_blocks apply_block]. rewrite Hbt. reflexivity. }
      split; [|exact Hrun1]. split; [|exists s1; exact Hrun1].
      intros j x Hx. destruct (Nat.lt_ge_cases j (length K)) as [Hlt|Hge].
      + rewrite nth_error_app1 in Hx by exact Hlt. rewrite firstn_app. replace (j - length K)%nat with 0%nat by lia.
        cbn [firstn]. rewrite app_nil_r. apply IH; exact Hx.
      + rewrite nth_error_app2 in Hx by exact Hge. destruct (j - length K)%nat as [|m] eqn:Ej; [|destruct m; discriminate].
        cbn in Hx. injection Hx as <-. assert (j = length K) by lia. subst j.
        rewrite firstn_app, Nat.sub_diag, firstn_all. cbn [firstn fst snd]. rewrite app_nil_r.
        split; [reflexivity|]. split; [unfold tipof in Hb; exact Hb|]. exists s. split; assumption.
    - induction K as [|x K IH] using rev_ind; intros [Hall [s1 Hrun]]; [unfold valid_chain; rewrite view_nil; discriminate|].
      assert (HK : valid_chain_decl K).
      { rewrite run_blocks_app in Hrun. destruct (run_blocks batch s0 K) as [s|e] eqn:Er; [|discriminate].
        split; [|exists s; exact Er]. intros j y Hy.
        assert (Hlt : (j < length K)%nat) by (apply nth_error_Some; intros E; assert (E2 : Some y = None) by (etransitivity; [symmetry; exact Hy|exact E]); discriminate E2).
        specialize (Hall j y). rewrite nth_error_app1 in Hall by exact Hlt. specialize (Hall Hy).
        rewrite firstn_app in Hall. replace (j - length K)%nat with 0%nat in Hall by lia. cbn [firstn] in Hall.
        rewrite app_nil_r in Hall. exact Hall. }
      specialize (IH HK). unfold valid_chain in IH. destruct (view K) as [s|] eqn:Hv; [clear IH|congruence].
      pose proof (view_run_blocks K s Hv) as Hr.
      assert (Hx : nth_error (K ++ [x]) (length K) = Some x) by (rewrite nth_error_app2, Nat.sub_diag by lia; reflexivity).
      destruct (Hall _ _ Hx) as (Hn & Hh & s' & Hr' & Hval).
      rewrite firstn_app, Nat.sub_diag, firstn_all in Hr'. cbn [firstn] in Hr'. rewrite app_nil_r in Hr'.
      rewrite Hr in Hr'. injection Hr' as <-.
      rewrite run_blocks_app, Hr in Hrun. destruct x as [b chg]. cbn [snd fst] in *. subst chg.
      cbn [run_blocks apply_block] in Hrun. destruct (before_txs batch s b) as [s2|e] eqn:Eb; [|discriminate].
      assert (Hv1 : view (K ++ [(b, None)]) = Some s2).
      { apply view_snoc. exists s. split; [exact Hv|]. apply step_intro; auto. }
      unfold valid_chain. intros E. assert (E2 : Some s2 = None) by (etransitivity; [symmetry; exact Hv1|exact E]). discriminate E2.
  Qed.
End Static.
