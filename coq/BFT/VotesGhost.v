(* Ghost decomposition of the Lisk-BFT vote weights of the faithful model (BFT/Votes.v) for a STATIC validator set:
   every prevote / precommit weight of a window entry is the sum of the weights of pairwise distinct validators, each
   of which has a block on the chain witnessing the abstract [prevotes] / [precommits] predicate of BFT/Safety.v;
   maxHeightPrevoted / maxHeightPrecommited above genesis are witnessed by a quorum in a prefix view.
   Nothing here changes the model; all statements are about Votes.before_txs / run_blocks. *)
From Coq Require Import List NArith Bool Lia ZArith Arith.
From Coq Require Import ZifyBool ZifyN ZifyNat.
From LE Require Import BFT.Contradiction BFT.ContradictionProofs BFT.Votes BFT.VotesProofs BFT.Safety.
Import ListNotations.
Local Open Scope N_scope.

(* ------------------------------------------------------------------ prefixes *)
Definition prefix {A} (a b : list A) : Prop := exists t, b = a ++ t.

Lemma prefix_refl : forall {A} (a : list A), prefix a a.
Proof. intros A a. exists []. rewrite app_nil_r. reflexivity. Qed.
Lemma prefix_trans : forall {A} (a b c : list A), prefix a b -> prefix b c -> prefix a c.
Proof. intros A a b c [t ->] [u ->]. exists (t ++ u). rewrite app_assoc. reflexivity. Qed.
Lemma prefix_tree : forall {A} (a b c : list A), prefix a c -> prefix b c -> prefix a b \/ prefix b a.
Proof.
  intros A a. induction a as [|x a IH]; intros b c Ha Hb; [left; exists b; reflexivity|].
  destruct b as [|y b]; [right; exists (x :: a); reflexivity|].
  destruct Ha as [t ->]. destruct Hb as [u Hu]. cbn [app] in Hu. inversion Hu; subst y.
  destruct (IH b (a ++ t)) as [[v ->]|[v ->]]; [exists t; reflexivity|exists u; assumption| |].
  - left. exists v. reflexivity.
  - right. exists v. reflexivity.
Qed.
Lemma prefix_length : forall {A} (a b : list A), prefix a b -> (length a <= length b)%nat.
Proof. intros A a b [t ->]. rewrite app_length. lia. Qed.
Lemma prefix_firstn : forall {A} (a b : list A), prefix a b -> a = firstn (length a) b.
Proof. intros A a b [t ->]. rewrite firstn_app, firstn_all, Nat.sub_diag. cbn. rewrite app_nil_r. reflexivity. Qed.
Lemma prefix_same_length : forall {A} (a b : list A), prefix a b -> length a = length b -> a = b.
Proof. intros A a b H E. rewrite (prefix_firstn a b H), E. apply firstn_all. Qed.
Lemma firstn_prefix : forall {A} n (l : list A), prefix (firstn n l) l.
Proof. intros A n l. exists (skipn n l). symmetry. apply firstn_skipn. Qed.
Lemma firstn_prefix_le : forall {A} n m (l : list A), (n <= m)%nat -> prefix (firstn n l) (firstn m l).
Proof.
  intros A n m l H. replace n with (Nat.min n m) by lia. rewrite <- firstn_firstn. apply firstn_prefix.
Qed.
Lemma prefix_snoc : forall {A} (a b : list A) x, prefix a (b ++ [x]) -> a = b ++ [x] \/ prefix a b.
Proof.
  intros A a b x H. pose proof (prefix_length _ _ H) as Hl. rewrite app_length in Hl. cbn in Hl.
  destruct (Nat.eq_dec (length a) (length b + 1)) as [E|E].
  - left. apply prefix_same_length; [exact H|]. rewrite app_length. cbn. exact E.
  - right. rewrite (prefix_firstn _ _ H). rewrite firstn_app. replace (length a - length b)%nat with 0%nat by lia.
    cbn. rewrite app_nil_r. apply firstn_prefix.
Qed.
Lemma prefix_firstn_of : forall {A} (a b : list A) n, prefix a b -> (n <= length a)%nat -> firstn n a = firstn n b.
Proof. intros A a b n [t ->] H. rewrite firstn_app. replace (n - length a)%nat with 0%nat by lia. cbn. rewrite app_nil_r. reflexivity. Qed.

Lemma In_firstn_in : forall {A} n (l : list A) x, In x (firstn n l) -> In x l.
Proof.
  induction n as [|n IH]; intros l x H; [contradiction|]. destruct l as [|a l]; [contradiction|].
  destruct H as [<-|H]; [left; reflexivity|right; apply IH; exact H].
Qed.

Lemma Forall2_refl_on : forall {A} (R : A -> A -> Prop) l, (forall a, In a l -> R a a) -> Forall2 R l l.
Proof. induction l as [|a l IH]; intros H; constructor; [apply H; left; reflexivity|apply IH; intros; apply H; right; assumption]. Qed.
Lemma Forall2_comp : forall {A B C} (P : A -> B -> Prop) (Q : B -> C -> Prop) l m r,
  Forall2 P l m -> Forall2 Q m r -> Forall2 (fun a c => exists b, P a b /\ Q b c) l r.
Proof.
  intros A B C P Q l m r H. revert r. induction H as [|a b l m Hab H IH]; intros r Hr; inversion Hr; subst; constructor; eauto.
Qed.
Lemma Forall2_impl_in : forall {A B} (P Q : A -> B -> Prop) l l', (forall a b, In a l -> P a b -> Q a b) -> Forall2 P l l' -> Forall2 Q l l'.
Proof.
  intros A B P Q l l' Hi H. induction H; constructor; [apply Hi; [left; reflexivity|assumption]|].
  apply IHForall2. intros; apply Hi; [right|]; assumption.
Qed.
Lemma Forall2_in_r : forall {A B} (P : A -> B -> Prop) l l' b, Forall2 P l l' -> In b l' -> exists a, In a l /\ P a b.
Proof.
  intros A B P l l' b H. induction H as [|a0 b0 l l' Hab H IH]; intros Hin; [contradiction|].
  destruct Hin as [<-|Hin]; [exists a0; split; [left; reflexivity|exact Hab]|].
  destruct (IH Hin) as (a & Ha & Hp). exists a. split; [right; exact Ha|exact Hp].
Qed.

(* ------------------------------------------------------------------ weights of validator lists, quorum intersection *)
Definition weight (vals : list (addr * N)) (v : addr) : N := match find_weight vals v with Some w => w | None => 0 end.
Definition wsum (vals : list (addr * N)) (l : list addr) : N := fold_right (fun v acc => weight vals v + acc) 0 l.

Lemma wsum_cons : forall vals a l, wsum vals (a :: l) = weight vals a + wsum vals l.
Proof. reflexivity. Qed.
Lemma wsum_app : forall vals l1 l2, wsum vals (l1 ++ l2) = wsum vals l1 + wsum vals l2.
Proof. induction l1 as [|a l1 IH]; intros l2; cbn [app]; [change (wsum vals []) with 0; lia|]. rewrite !wsum_cons, IH. lia. Qed.

Lemma wsum_filter_split : forall vals f l, wsum vals l = wsum vals (filter f l) + wsum vals (filter (fun x => negb (f x)) l).
Proof.
  induction l as [|a l IH]; [reflexivity|]. cbn [filter]. rewrite wsum_cons, IH. destruct (f a); cbn [negb]; rewrite wsum_cons; lia.
Qed.

(* a duplicate-free list of validators never weighs more than the whole validator set *)
Lemma wsum_le_total : forall vals l, NoDup l -> wsum vals l <= total_weight vals.
Proof.
  induction vals as [|[x w] vals IH]; intros l Hnd.
  - assert (H : wsum [] l = 0) by (clear Hnd; induction l as [|a l IHl]; [reflexivity|rewrite wsum_cons, IHl; reflexivity]). lia.
  - cbn [total_weight fold_right snd]. fold (total_weight vals).
    rewrite (wsum_filter_split _ (fun v : addr => x =? v) l). cbv beta.
    assert (H1 : wsum ((x, w) :: vals) (filter (fun v : addr => x =? v) l) <= w).
    { clear IH. induction Hnd as [|a l Hn Hnd IHl]; cbn [filter]; [cbn; lia|].
      destruct (x =? a) eqn:E; [|exact IHl]. apply N.eqb_eq in E. subst a.
      assert (Hnone : filter (fun v : addr => x =? v) l = []).
      { clear -Hn. induction l as [|b l IHb]; [reflexivity|]. cbn [filter]. destruct (x =? b) eqn:E.
        - apply N.eqb_eq in E. subst. exfalso. apply Hn. left; reflexivity.
        - apply IHb. intros H. apply Hn. right; exact H. }
      rewrite Hnone, wsum_cons. unfold weight. cbn [find_weight]. rewrite N.eqb_refl. cbn. lia. }
    assert (H2 : wsum ((x, w) :: vals) (filter (fun v : addr => negb (x =? v)) l) = wsum vals (filter (fun v : addr => negb (x =? v)) l)).
    { clear. induction l as [|a l IHl]; [reflexivity|]. cbn [filter]. destruct (x =? a) eqn:E; cbn [negb]; [exact IHl|].
      rewrite !wsum_cons, IHl. unfold weight. cbn [find_weight]. rewrite E. reflexivity. }
    rewrite H2. specialize (IH _ (NoDup_filter (fun v : addr => negb (x =? v)) Hnd)). lia.
Qed.

Lemma wsum_incl : forall vals I B, NoDup I -> incl I B -> wsum vals I <= wsum vals B.
Proof.
  intros vals I. induction I as [|a I IH]; intros B Hnd Hinc; [cbn; lia|].
  inversion Hnd as [|? ? Hn Hnd']; subst.
  destruct (in_split a B (Hinc a (or_introl eq_refl))) as (B1 & B2 & ->).
  assert (Hinc' : incl I (B1 ++ B2)).
  { intros z Hz. specialize (Hinc z (or_intror Hz)). apply in_app_or in Hinc. apply in_or_app.
    destruct Hinc as [H|[H|H]]; [left; exact H|subst; contradiction|right; exact H]. }
  specialize (IH _ Hnd' Hinc'). rewrite wsum_cons, wsum_app, wsum_cons. rewrite wsum_app in IH. lia.
Qed.

Definition mem (v : addr) (l : list addr) : bool := existsb (fun x => x =? v) l.
Lemma mem_In : forall v l, mem v l = true <-> In v l.
Proof.
  intros v l. unfold mem. rewrite existsb_exists. split.
  - intros (x & Hx & E). apply N.eqb_eq in E. subst. exact Hx.
  - intros H. exists v. split; [exact H|apply N.eqb_refl].
Qed.

(* P5: two duplicate-free validator lists whose weights exceed W + f together share a validator outside [byz] *)
Theorem quorum_intersection : forall vals (L1 L2 byz : list addr) t1 t2,
  NoDup L1 -> NoDup L2 -> t1 <= wsum vals L1 -> t2 <= wsum vals L2 ->
  total_weight vals + wsum vals byz < t1 + t2 ->
  exists v, In v L1 /\ In v L2 /\ ~ In v byz.
Proof.
  intros vals L1 L2 byz t1 t2 N1 N2 H1 H2 Hb.
  set (I := filter (fun v => mem v L2) L1). set (D := filter (fun v => negb (mem v L2)) L1).
  assert (Hs : wsum vals L1 = wsum vals I + wsum vals D) by apply wsum_filter_split.
  assert (HD : NoDup (D ++ L2)).
  { clear -N1 N2. subst D. induction N1 as [|a l Hn N1 IH]; cbn [filter app]; [exact N2|].
    destruct (mem a L2) eqn:E; cbn [negb app]; [exact IH|]. constructor; [|exact IH].
    intros Hin. apply in_app_or in Hin. destruct Hin as [Hin|Hin].
    - apply filter_In in Hin. tauto.
    - apply mem_In in Hin. congruence. }
  pose proof (wsum_le_total vals _ HD) as Ht. rewrite wsum_app in Ht.
  assert (HI : wsum vals byz < wsum vals I) by lia.
  (* some member of I is outside byz *)
  destruct (existsb (fun v => negb (mem v byz)) I) eqn:E.
  - apply existsb_exists in E. destruct E as (v & Hv & Hn). exists v. subst I. apply filter_In in Hv. destruct Hv as [Hv1 Hv2].
    split; [exact Hv1|]. split; [apply mem_In; exact Hv2|]. intros Hin. apply mem_In in Hin. rewrite Hin in Hn. discriminate.
  - exfalso. assert (Hinc : incl I byz).
    { intros v Hv. apply mem_In. destruct (mem v byz) eqn:Em; [reflexivity|].
      assert (existsb (fun v => negb (mem v byz)) I = true); [|congruence].
      apply existsb_exists. exists v. split; [exact Hv|rewrite Em; reflexivity]. }
    assert (HNI : NoDup I) by (subst I; apply NoDup_filter; exact N1).
    pose proof (wsum_incl vals I byz HNI Hinc). lia.
Qed.

Lemma total_weight_insert : forall x l, total_weight (insert_desc x l) = snd x + total_weight l.
Proof.
  induction l as [|y l IH]; cbn [insert_desc]; [reflexivity|]. destruct (fst y <? fst x); [reflexivity|].
  unfold total_weight in *. cbn [fold_right]. rewrite IH. lia.
Qed.
Lemma total_weight_sort : forall l, total_weight (sort_desc l) = total_weight l.
Proof.
  induction l as [|x l IH]; [reflexivity|]. unfold sort_desc in *. cbn [fold_right]. rewrite total_weight_insert, IH. reflexivity.
Qed.

(* ------------------------------------------------------------------ active-validator list *)
Definition lhp (act : list active) (g : addr) : N := match find_active act g with Some y => a_lhp y | None => 0 end.

Lemma find_active_set_lhp : forall l g h g',
  find_active (set_lhp l g h) g' =
  if g =? g' then option_map (fun y => {| a_addr := a_addr y; a_min := a_min y; a_lhp := h |}) (find_active l g)
  else find_active l g'.
Proof.
  induction l as [|x l IH]; intros g h g'; cbn [set_lhp find_active].
  - destruct (g =? g'); reflexivity.
  - destruct (a_addr x =? g) eqn:E1; cbn [find_active a_addr].
    + destruct (g =? g') eqn:E2.
      * assert (a_addr x =? g' = true) as -> by lia. reflexivity.
      * assert (a_addr x =? g' = false) as -> by lia. reflexivity.
    + destruct (g =? g') eqn:E2.
      * assert (a_addr x =? g' = false) as -> by lia. rewrite IH, E2. reflexivity.
      * destruct (a_addr x =? g'); [reflexivity|]. rewrite IH, E2. reflexivity.
Qed.

Lemma find_active_insert_some : forall x l g y, find_active (insert_act_desc x l) g = Some y ->
  (y = x /\ a_addr x = g) \/ find_active l g = Some y.
Proof.
  induction l as [|z l IH]; intros g y H; cbn [insert_act_desc find_active] in *.
  - destruct (a_addr x =? g) eqn:E; [|discriminate]. injection H as <-. left. split; [reflexivity|lia].
  - destruct (a_addr z <? a_addr x); cbn [find_active] in H.
    + destruct (a_addr x =? g) eqn:E; [injection H as <-; left; split; [reflexivity|lia]|right; exact H].
    + destruct (a_addr z =? g); [right; exact H|apply IH; exact H].
Qed.
Lemma find_active_insert_none : forall x l g, find_active (insert_act_desc x l) g = None <->
  a_addr x <> g /\ find_active l g = None.
Proof.
  induction l as [|z l IH]; intros g; cbn [insert_act_desc find_active].
  - destruct (a_addr x =? g) eqn:E; split; intros H.
    + discriminate.
    + destruct H; lia.
    + split; [lia|reflexivity].
    + reflexivity.
  - destruct (a_addr z <? a_addr x); cbn [find_active].
    + destruct (a_addr x =? g) eqn:E; split; intros H.
      * discriminate.
      * destruct H; lia.
      * split; [lia|exact H].
      * tauto.
    + destruct (a_addr z =? g); [split; intros H; [discriminate|tauto]|apply IH].
Qed.

(* ------------------------------------------------------------------ precommit loop: the recorded first height *)
Lemma precommit_loop_first : forall ps g m l f r f', desc l -> precommit_loop ps g m l f = Ok (r, f') ->
  let cond a := (m <=? i_height a) && match get_params ps (i_height a) with Ok p => p_pv p <=? i_pv a | Error _ => false end in
  match f with
  | Some h => f' = Some h
  | None => match f' with
            | None => forall a, In a l -> cond a = false
            | Some h => m <= h /\ forall a, In a l -> cond a = true -> i_height a <= h
            end
  end.
Proof.
  intros ps g m. induction l as [|a l IH]; intros f r f' Hd H cond; cbn [precommit_loop] in H.
  - inversion H; subst. destruct f' as [h|]; [reflexivity|]. intros a [].
  - destruct (i_height a <? m) eqn:E.
    + inversion H; subst r f'. destruct f as [h|]; [reflexivity|].
      intros x Hx. unfold cond. assert (i_height x < m).
      { destruct Hx as [<-|Hx]; [lia|]. pose proof (desc_all_lt _ _ Hd x Hx). lia. }
      destruct (m <=? i_height x) eqn:E2; [lia|reflexivity].
    + destruct (get_params ps (i_height a)) as [p|e] eqn:Ep; cbn [bind] in H; [|discriminate].
      destruct (p_pv p <=? i_pv a) eqn:Eq.
      * destruct (find_weight (p_vals p) g) as [w|] eqn:Ew; [|discriminate].
        destruct (precommit_loop ps g m l _) as [[r' f2]|e] eqn:Er; cbn [bind] in H; [|discriminate].
        cbn [fst snd] in H. inversion H; subst r f'.
        specialize (IH _ _ _ (desc_tl _ _ Hd) Er). cbn zeta in IH.
        destruct f as [h|]; [exact IH|]. rewrite IH. split; [lia|].
        intros x [<-|Hx] _; [lia|]. pose proof (desc_all_lt _ _ Hd x Hx). lia.
      * destruct (precommit_loop ps g m l f) as [[r' f2]|e] eqn:Er; cbn [bind] in H; [|discriminate].
        cbn [fst snd] in H. inversion H; subst r f'.
        specialize (IH _ _ _ (desc_tl _ _ Hd) Er). cbn zeta in IH.
        destruct f as [h|]; [exact IH|].
        assert (Ha : cond a = false) by (unfold cond; rewrite Ep, Eq; apply andb_false_r).
        destruct f2 as [h|].
        -- destruct IH as [IH1 IH2]. split; [exact IH1|]. intros x [<-|Hx] Hc; [congruence|apply IH2; assumption].
        -- intros x [<-|Hx]; [exact Ha|apply IH; exact Hx].
Qed.

(* ------------------------------------------------------------------ getHeightNotPrevoted: the run of own blocks *)
(* window-level version of Safety.linked: own blocks linked through maxHeightGenerated, all at or above [he], the
   oldest with maxHeightGenerated below [he] *)
Fixpoint ilinked (g : addr) (he : N) (run : list info) : Prop :=
  match run with
  | [] => False
  | [P] => i_gen P = g /\ he <= i_height P /\ i_mhg P < he
  | P :: ((Q :: _) as rest) =>
      i_gen P = g /\ he <= i_height P /\ i_mhg P < i_height P /\ i_height Q = i_mhg P /\ ilinked g he rest
  end.

Lemma hts_nth_height : forall l tip h e, hts l tip -> In e l -> i_height e <= h <= tip ->
  exists x, nth_error l (N.to_nat (tip - h)) = Some x /\ i_height x = h.
Proof.
  intros l tip h e H He Hr. apply In_nth_error in He. destruct He as [j Hj]. pose proof (H j e Hj) as Hje.
  assert (Hlt : (N.to_nat (tip - h) < length l)%nat).
  { assert (j < length l)%nat by (apply nth_error_Some; congruence). lia. }
  apply nth_error_Some in Hlt. destruct (nth_error l (N.to_nat (tip - h))) as [x|] eqn:Ex; [|congruence].
  exists x. split; [reflexivity|]. pose proof (H _ _ Ex). lia.
Qed.

Lemma hnp_linked : forall fuel infos g cur he e, hts infos cur -> In e infos -> i_height e = he ->
  forall prev Pj, In Pj infos -> i_gen Pj = g -> i_mhg Pj = prev -> prev < i_height Pj -> he <= i_height Pj ->
  hnp_loop fuel infos g cur prev < he ->
  exists run, ilinked g he (Pj :: run) /\ forall Q, In Q run -> In Q infos.
Proof.
  intros fuel infos g cur he e Hh He Hhe. induction fuel as [|f IH]; intros prev Pj HPj Hg Hm Hlt Hle Hr.
  - cbn [hnp_loop] in Hr. exists []. split; [cbn; repeat split; auto; lia|intros Q []].
  - destruct (N.lt_ge_cases prev he) as [Hlow|Hhigh].
    + exists []. split; [cbn; repeat split; auto; lia|intros Q []].
    + cbn [hnp_loop] in Hr.
      pose proof (hts_in_le _ _ _ Hh HPj) as HPjle.
      destruct (hts_nth_height infos cur prev e Hh He ltac:(lia)) as (bi & Hbi & Hbih).
      assert (Hidx : (N.to_nat (cur - prev) < length infos)%nat) by (apply nth_error_Some; congruence).
      destruct (cur - prev <? N.of_nat (length infos)) eqn:E; [|lia].
      rewrite Hbi in Hr.
      destruct (negb (i_gen bi =? g) || (prev <=? i_mhg bi)) eqn:E2; [lia|].
      assert (Hbg : i_gen bi = g) by lia. assert (Hbm : i_mhg bi < prev) by lia.
      assert (Hbin : In bi infos) by (eapply nth_error_In; exact Hbi).
      destruct (IH (i_mhg bi) bi Hbin Hbg eq_refl ltac:(lia) ltac:(lia) Hr) as (run & Hl & Hin).
      exists (bi :: run). split.
      * cbn [ilinked]. repeat split; auto; lia.
      * intros Q [<-|HQ]; auto.
Qed.

(* ================================================================== static validator set *)
Section Static.
  Variable batch : nat.
  Hypothesis Hbatch : (0 < batch)%nat.
  Variable gh : N.
  Variable c : pchange.
  Variable s0 : store.
  Hypothesis Hinit : init_store batch gh c = Ok s0.

  Definition p0 : params :=
    {| p_pv := total_weight (c_vals c) * 2 / 3 + 1; p_pc := c_pc c; p_cert := c_cert c; p_vals := sort_desc (c_vals c) |}.
  Definition vals := p_vals p0.
  Definition ps0 : list (N * params) := [(gh + 1, p0)].
  Definition wt (v : addr) : N := weight vals v.

  Definition AInv (act : list active) : Prop :=
    forall g, (forall y, find_active act g = Some y -> a_min y = gh + 1 /\ find_weight vals g <> None) /\
              (find_active act g = None -> find_weight vals g = None).

  Lemma init_act_inv : forall l,
    (forall g, (forall y, find_active (fold_right (fun x acc =>
                 insert_act_desc {| a_addr := fst x; a_min := gh + 1; a_lhp := gh + 1 - 1 |} acc) [] l) g = Some y ->
                 a_min y = gh + 1 /\ find_weight l g <> None) /\
               (find_active (fold_right (fun x acc =>
                 insert_act_desc {| a_addr := fst x; a_min := gh + 1; a_lhp := gh + 1 - 1 |} acc) [] l) g = None ->
                 find_weight l g = None)).
  Proof.
    induction l as [|[x w] l IH]; intros g; cbn [fold_right fst find_weight].
    - split; [intros y H; discriminate|reflexivity].
    - destruct (IH g) as [IH1 IH2]. split.
      + intros y H. apply find_active_insert_some in H. cbn [a_addr] in H. destruct H as [[-> Hx]|H].
        * cbn [a_min]. split; [reflexivity|]. assert (x =? g = true) as -> by lia. discriminate.
        * destruct (IH1 y H) as [A B]. split; [exact A|]. destruct (x =? g); [discriminate|exact B].
      + intros H. apply find_active_insert_none in H. cbn [a_addr] in H. destruct H as [Hx H].
        assert (x =? g = false) as -> by lia. apply IH2; exact H.
  Qed.

  Lemma init_shape :
    s_params s0 = ps0 /\ window s0 = [] /\ v_mhp (s_votes s0) = gh /\ v_mhpc (s_votes s0) = gh /\
    AInv (v_act (s_votes s0)) /\ 1 <= p_pv p0 /\ 1 <= p_pc p0.
  Proof.
    pose proof Hinit as H. unfold init_store, set_params in H.
    destruct (Nat.ltb batch (length (c_vals c))); [discriminate|].
    destruct (existsb _ (c_vals c)); [discriminate|].
    destruct ((c_pc c <? total_weight (c_vals c) / 3 + 1) || (total_weight (c_vals c) <? c_pc c)) eqn:Epc; [discriminate|].
    destruct ((c_cert c <? total_weight (c_vals c) / 3 + 1) || (total_weight (c_vals c) <? c_cert c)) eqn:Ecert; [discriminate|].
    cbn [genesis_store s_params s_votes lookup_le current_height v_infos v_mhp v_mhpc v_mhc v_act insert_param find_active] in H.
    injection H as H. rewrite <- H. unfold window. cbn [s_params s_votes v_infos v_mhp v_mhpc v_act].
    do 4 (split; [reflexivity|]). split; [|split].
    - intros g. exact (init_act_inv (sort_desc (c_vals c)) g).
    - cbn [p0 p_pv]. lia.
    - cbn [p0 p_pc]. lia.
  Qed.

  Lemma get_ps0 : forall h, get_params ps0 h = if gh + 1 <=? h then Ok p0 else Error 1.
  Proof. intros h. unfold get_params, ps0. cbn [lookup_le]. destruct (gh + 1 <=? h); reflexivity. Qed.
  Lemma get_ps0_ok : forall h p, get_params ps0 h = Ok p -> p = p0 /\ gh < h.
  Proof. intros h p H. rewrite get_ps0 in H. destruct (gh + 1 <=? h) eqn:E; inversion H. split; [reflexivity|lia]. Qed.
  Lemma prune_ps0 : forall m, prune_params ps0 m = ps0.
  Proof. intros m. unfold prune_params, ps0. cbn [filter fst]. destruct (gh + 1 <=? m); reflexivity. Qed.
  Lemma meets_ps0 : forall sel get e, meets ps0 sel get e <-> (gh < i_height e /\ sel p0 <= get e).
  Proof.
    intros sel get e. unfold meets. split.
    - intros (p & Hp & Hle). apply get_ps0_ok in Hp. destruct Hp as [-> Hh]. split; assumption.
    - intros [Hh Hle]. exists p0. split; [|exact Hle]. rewrite get_ps0. destruct (gh + 1 <=? i_height e) eqn:E; [reflexivity|lia].
  Qed.

  (* ---------------------------------------------------------------- one vote update, static parameters *)
  Definition pvb (nw : info) (he : N) : bool := (i_mhg nw <? i_height nw) && (i_mhg nw + 1 <=? he).
  Definition pcb (w0 : list info) (act : list active) (a : info) : bool :=
    match w0 with
    | [] => false
    | nw :: _ =>
      (i_mhg nw <? i_height nw) &&
      match find_active act (i_gen nw) with
      | Some vi => (Nmax3 (a_min vi) (height_not_prevoted w0 + 1) (a_lhp vi + 1) <=? i_height a) && (p_pv p0 <=? i_pv a)
      | None => false
      end
    end.
  Definition upd_rel (w0 : list info) (act : list active) (nw : info) (a e1 : info) : Prop :=
    static e1 = static a /\
    i_pv e1 = i_pv a + (if pvb nw (i_height a) then wt (i_gen nw) else 0) /\
    i_pc e1 = i_pc a + (if pcb w0 act a then wt (i_gen nw) else 0).

  Lemma update_votes_static : forall nw tl act r act',
    desc (nw :: tl) -> (forall x, In x (nw :: tl) -> gh < i_height x) -> AInv act ->
    update_votes ps0 (nw :: tl) act = Ok (r, act') ->
    Forall2 (upd_rel (nw :: tl) act nw) (nw :: tl) r /\
    AInv act' /\ (forall g', lhp act g' <= lhp act' g') /\
    (forall a, In a (nw :: tl) -> pcb (nw :: tl) act a = true -> i_height a <= lhp act' (i_gen nw)).
  Proof.
    intros nw tl act r act' Hd Hgh HA H.
    unfold update_votes in H. set (w0 := nw :: tl) in *.
    destruct (i_height nw <=? i_mhg nw) eqn:Ev.
    { injection H as <- <-. split; [|split; [exact HA|split; [intros; lia|]]].
      - apply Forall2_refl_on. intros a Ha. unfold upd_rel, pvb, pcb. fold w0.
        assert (i_mhg nw <? i_height nw = false) as -> by lia. cbn [andb]. repeat split; try reflexivity; lia.
      - intros a Ha Hc. unfold pcb in Hc. assert (i_mhg nw <? i_height nw = false) as E by lia. rewrite E in Hc. discriminate. }
    destruct (find_active act (i_gen nw)) as [vi|] eqn:Ea.
    2:{ injection H as <- <-. split; [|split; [exact HA|split; [intros; lia|]]].
      - apply Forall2_refl_on. intros a Ha. unfold upd_rel, pcb. fold w0. rewrite Ea.
        assert (wt (i_gen nw) = 0) as -> by (unfold wt, weight; rewrite (proj2 (HA (i_gen nw)) Ea); reflexivity).
        rewrite andb_false_r. destruct (pvb nw (i_height a)); repeat split; try reflexivity; lia.
      - intros a Ha Hc. unfold pcb in Hc. rewrite Ea, andb_false_r in Hc. discriminate. }
    set (minpc := Nmax3 (a_min vi) (height_not_prevoted w0 + 1) (a_lhp vi + 1)) in *.
    set (minpv := N.max (i_mhg nw + 1) (a_min vi)) in *.
    destruct (precommit_loop ps0 (i_gen nw) minpc w0 None) as [[mid f]|e] eqn:Epc; cbn [bind] in H; [|discriminate].
    cbn [fst snd] in H.
    destruct (prevote_loop ps0 (i_gen nw) minpv mid) as [r'|e] eqn:Epv; cbn [bind] in H; [|discriminate].
    injection H as <- <-.
    pose proof (precommit_loop_spec _ _ _ _ _ _ _ Hd Epc) as Hpc.
    assert (Hdm : desc mid) by (eapply grows_desc; [|exact Hd]; eapply Forall2_impl; [apply pc_step_same|exact Hpc]).
    pose proof (prevote_loop_spec _ _ _ _ _ Hdm Epv) as Hpv.
    destruct (HA (i_gen nw)) as [HA1 _]. destruct (HA1 vi Ea) as [Hmin Hw].
    destruct (find_weight vals (i_gen nw)) as [w|] eqn:Ew; [|congruence].
    assert (Hwt : wt (i_gen nw) = w) by (unfold wt, weight; rewrite Ew; reflexivity).
    pose proof (precommit_loop_first _ _ _ _ _ _ _ Hd Epc) as Hfirst. cbv zeta in Hfirst.
    assert (Hcond : forall a, In a w0 ->
              (minpc <=? i_height a) && match get_params ps0 (i_height a) with Ok p => p_pv p <=? i_pv a | Error _ => false end
              = pcb w0 act a).
    { intros a Ha. unfold pcb. fold w0. rewrite Ea. fold minpc. rewrite get_ps0. specialize (Hgh a Ha).
      assert (gh + 1 <=? i_height a = true) as -> by lia. assert (i_mhg nw <? i_height nw = true) as -> by lia. reflexivity. }
    split; [|split; [|split]].
    - eapply Forall2_impl_in; [|exact (Forall2_comp _ _ _ _ _ Hpc Hpv)].
      intros a e1 Ha (b & Hab & Hbe). specialize (Hgh a Ha). rewrite <- (Hcond a Ha).
      unfold pc_step in Hab. unfold pv_step in Hbe. rewrite get_ps0.
      assert (gh + 1 <=? i_height a = true) as -> by lia.
      assert (Hb : static b = static a /\ i_pv b = i_pv a /\
                   i_pc b = i_pc a + (if (minpc <=? i_height a) && (p_pv p0 <=? i_pv a) then wt (i_gen nw) else 0)).
      { destruct (minpc <=? i_height a); [|subst b; cbn [andb]; repeat split; try reflexivity; lia].
        destruct Hab as (p & Hp & Hab). apply get_ps0_ok in Hp. destruct Hp as [-> _]. cbn [andb].
        destruct (p_pv p0 <=? i_pv a); [|subst b; repeat split; try reflexivity; lia].
        destruct Hab as (w' & Hw' & ->). change (p_vals p0) with vals in Hw'. rewrite Ew in Hw'. inversion Hw'; subst w'.
        unfold add_pc, static; cbn. repeat split; try reflexivity; lia. }
      destruct Hb as (Hb1 & Hb2 & Hb3).
      assert (Hbh : i_height b = i_height a) by (unfold static in Hb1; congruence).
      unfold upd_rel. rewrite <- Hb3, <- Hb2, <- Hb1. unfold pvb.
      assert (i_mhg nw <? i_height nw = true) as -> by lia. cbn [andb].
      assert (Hmv : (minpv <=? i_height b) = (i_mhg nw + 1 <=? i_height a)) by (unfold minpv; lia).
      rewrite Hmv in Hbe. destruct (i_mhg nw + 1 <=? i_height a).
      + destruct Hbe as (p & w' & Hp & Hw' & ->). apply get_ps0_ok in Hp. destruct Hp as [-> _].
        change (p_vals p0) with vals in Hw'. rewrite Ew in Hw'. inversion Hw'; subst w'.
        unfold add_pv, static; cbn. repeat split; try reflexivity; lia.
      + subst e1. repeat split; try reflexivity; lia.
    - destruct f as [h|]; [|exact HA]. cbn [snd]. intros g. rewrite find_active_set_lhp.
      destruct (i_gen nw =? g) eqn:Eg.
      + assert (g = i_gen nw) by lia. subst g. rewrite Ea. cbn [option_map]. split.
        * intros y Hy. inversion Hy; subst y. cbn [a_min]. split; [exact Hmin|congruence].
        * discriminate.
      + apply HA.
    - intros g'. destruct f as [h|]; [|lia]. cbn [snd]. unfold lhp. rewrite find_active_set_lhp.
      destruct (i_gen nw =? g') eqn:Eg; [|lia].
      assert (g' = i_gen nw) by lia. subst g'. rewrite Ea. cbn [option_map a_lhp].
      destruct Hfirst as [Hm _]. unfold minpc, Nmax3 in Hm. lia.
    - intros a Ha Hc. rewrite <- (Hcond a Ha) in Hc. destruct f as [h|].
      + cbn [snd]. unfold lhp. rewrite find_active_set_lhp, N.eqb_refl, Ea. cbn [option_map a_lhp].
        destruct Hfirst as [_ Hall]. apply Hall; assumption.
      + rewrite (Hfirst a Ha) in Hc. discriminate.
  Qed.

End Static.
